"""Source-derived obligations (DESIGN §2.7): regenerate lean/TnVerif/Generated.lean from /repo on every run.

For every function/method of tntorch/*.py:  the einsum equation strings it contains (alpha-normalised),
its floating-point literals (as exact rationals), and whether it starts by rejecting batch tensors.
Props/*.lean state obligations over these definitions; a source edit that changes a contraction or a
threshold breaks a proof obligation deterministically.
"""
import ast, os, re, glob
from fractions import Fraction

REPO = os.environ.get("VERIF_REPO", "/repo")
VERIF = os.path.dirname(os.path.dirname(os.path.abspath(__file__)))
OUT = os.path.join(VERIF, "lean", "TnVerif", "Generated.lean")
EINSUM = re.compile(r"^[A-Za-z.]+(,[A-Za-z.]+)*(->[A-Za-z.]*)?$")


def alpha(eq):
    m = {}
    out = []
    for ch in eq:
        if ch.isalpha():
            if ch not in m:
                m[ch] = chr(ord("a") + len(m))
            out.append(m[ch])
        else:
            out.append(ch)
    return "".join(out)


def is_einsum(s):
    return isinstance(s, str) and ("," in s or "->" in s) and EINSUM.match(s) and len(s) <= 40


def mentions_batch(test):
    """`self.batch`, `t.batch`, `batch`, `not x.batch`, `x.batch and ...` — any test that reads a batch flag"""
    for n in ast.walk(test):
        if isinstance(n, ast.Attribute) and n.attr == "batch":
            return True
        if isinstance(n, ast.Name) and n.id == "batch":
            return True
    return False


def einsum_literals(stmts):
    """einsum strings below a statement list, in source order (same order as the visitor)"""
    out = []

    def rec(n):
        if isinstance(n, ast.Constant) and is_einsum(n.value):
            out.append(n.value)
        for c in ast.iter_child_nodes(n):
            rec(c)

    for st in stmts:
        rec(st)
    return out


def sanitize(name):
    return re.sub(r"[^A-Za-z0-9]", "_", name)


class V(ast.NodeVisitor):
    def __init__(self, mod):
        self.mod = mod
        self.stack = []
        self.table = {}

    def cur(self):
        return ".".join([self.mod] + self.stack[:2]) if self.stack else self.mod + ".<module>"

    def entry(self):
        return self.table.setdefault(self.cur(), {"einsum": [], "floats": [], "batch_guard": False,
                                                  "pairs": [], "unpaired": []})

    def visit_If(self, node):
        # `if <...batch...>: A else: B` — the einsum strings of A are the batched variants of those of B,
        # paired by position.  Recorded only for the outermost such `if` (an inner one is part of A or B already).
        if self.stack and mentions_batch(node.test) and not getattr(self, "_in_batch_if", False):
            a, b = einsum_literals(node.body), einsum_literals(node.orelse)
            if isinstance(node.test, ast.UnaryOp) and isinstance(node.test.op, ast.Not):
                a, b = b, a
            e = self.entry()
            if a or b:
                if len(a) == len(b):
                    e["pairs"] += [(alpha(x), alpha(y), x, y, node.lineno) for x, y in zip(a, b)]
                else:
                    e["unpaired"] += [(x, "batched", node.lineno) for x in a] + [(y, "plain", node.lineno) for y in b]
            self._in_batch_if = True
            self.generic_visit(node)
            self._in_batch_if = False
        else:
            self.generic_visit(node)

    def visit_ClassDef(self, node):
        self.stack.append(node.name); self.generic_visit(node); self.stack.pop()

    def visit_FunctionDef(self, node):
        self.stack.append(node.name)
        if len(self.stack) <= 2:
            e = self.entry()
            for st in node.body[:8]:
                # `if <tensor>.batch: raise ...` as one of the first statements of the function
                if isinstance(st, ast.If) and isinstance(st.test, ast.Attribute) and st.test.attr == "batch" \
                        and any(isinstance(x, ast.Raise) for x in st.body):
                    e["batch_guard"] = True
        self.generic_visit(node)
        self.stack.pop()

    def visit_Constant(self, node):
        if not self.stack:
            return
        if isinstance(node.value, str):
            s = node.value
            if ("," in s or "->" in s) and EINSUM.match(s) and len(s) <= 40:
                self.entry()["einsum"].append(alpha(s))
        elif isinstance(node.value, float):
            seg = None
            self.entry()["floats"].append(repr(node.value))


def collect():
    table = {}
    for f in sorted(glob.glob(os.path.join(REPO, "tntorch", "*.py"))):
        mod = os.path.basename(f)[:-3]
        try:
            tree = ast.parse(open(f).read())
        except SyntaxError:
            table[mod + ".<syntax-error>"] = {"einsum": [], "floats": [], "batch_guard": False, "pairs": [], "unpaired": []}
            continue
        v = V(mod)
        v.visit(tree)
        table.update(v.table)
    return table


def lean_str(s):
    return '"' + s.replace("\\", "\\\\").replace('"', '\\"') + '"'


def render(table):
    out = ["/- GENERATED by harness/extract.py from %s/tntorch/*.py — do not edit. -/" % REPO, "namespace TN.Generated", ""]
    guards = []
    for name in sorted(table):
        e = table[name]
        if not (e["einsum"] or e["floats"] or e["batch_guard"]):
            continue
        s = sanitize(name)
        if e["einsum"]:
            out.append("def einsum_%s : List String := [%s]" % (s, ", ".join(lean_str(x) for x in e["einsum"])))
        if e["floats"]:
            fr = [Fraction(x) for x in e["floats"]]
            out.append("def floats_%s : List (Int × Nat) := [%s]" % (s, ", ".join("(%d, %d)" % (x.numerator, x.denominator) for x in fr)))
        if e["batch_guard"]:
            guards.append(name)
    # the (batched, plain) einsum pairs found by the `if …batch…: … else: …` pattern, alpha-normalised like
    # the `einsum_*` lists, and the einsum strings of such an `if` that have no counterpart in the other branch
    out.append("")
    pairs = [(name, p) for name in sorted(table) for p in table[name]["pairs"]]
    out.append("def batchPairs : List (String × String × String) := [%s]" % ", ".join(
        "(%s, %s, %s)" % (lean_str(n), lean_str(p[0]), lean_str(p[1])) for n, p in pairs))
    # (no line numbers in the generated file: a harmless edit that shifts lines must not change it)
    out.append("/-- the same pairs as they are spelled in the source (function, batched, plain) -/")
    out.append("def batchPairsOrig : List (String × String × String) := [%s]" % ", ".join(
        "(%s, %s, %s)" % (lean_str(n), lean_str(p[2]), lean_str(p[3])) for n, p in pairs))
    unp = [(name, u) for name in sorted(table) for u in table[name]["unpaired"]]
    out.append("def batchUnpaired : List (String × String × String) := [%s]" % ", ".join(
        "(%s, %s, %s)" % (lean_str(n), lean_str(u[1]), lean_str(u[0])) for n, u in unp))
    out.append("")
    out.append("def batchGuards : List String := [%s]" % ", ".join(lean_str(x) for x in sorted(guards)))
    out += ["", "end TN.Generated", ""]
    return "\n".join(out)


def regenerate():
    txt = render(collect())
    if not os.path.exists(OUT) or open(OUT).read() != txt:
        with open(OUT, "w") as fh:
            fh.write(txt)
        return True
    return False


if __name__ == "__main__":
    print("changed" if regenerate() else "unchanged")
