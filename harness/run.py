"""./check <Cxx> quick|thorough [--replay file]   — entry point (DESIGN §2.8)."""
import os, sys, json, time, random, importlib, traceback, glob, multiprocessing as mp

HERE = os.path.dirname(os.path.abspath(__file__))
sys.path.insert(0, HERE)
VERIF = os.path.dirname(HERE)


def _work(args):
    prop, tier, seed, chunk, use_model, search_only = args
    import core
    mod = importlib.import_module("props." + prop.lower())
    ctx = core.Ctx(prop, tier, seed)
    ctx.use_model = use_model
    ctx.search_only = search_only
    for case in chunk:
        try:
            _dispatch(mod, prop, ctx, case)
        except Exception as e:  # harness crash on a case: never a violation by itself
            ctx.count("harness_exception:" + type(e).__name__)
            if len(ctx.notes) < 5:
                ctx.notes.append("harness exception on case %s: %s" % (json.dumps(case, default=str)[:300], traceback.format_exc()[-600:]))
    if ctx.driver is not None:
        ctx.driver.close()
    return {"evaluations": ctx.evaluations, "sigs": list(ctx.sigs), "samples": ctx.samples, "hist": ctx.hist,
            "oracle_fail": ctx.oracle_fail, "corr_fail": ctx.corr_fail, "spec_fail": ctx.spec_fail,
            "known_hits": {k: [v[0], v[1]] for k, v in ctx.known_hits.items()}, "notes": ctx.notes,
            "driver_lines": ctx.driver.lines if ctx.driver is not None else 0}


def _dispatch(mod, prop, ctx, case):
    """sequence / statefulness cases (props/_stateful.py) are generic; everything else belongs to the property's own module"""
    if isinstance(case, dict) and case.get("kind") == "battery":
        from props import _battery
        return _battery.run(prop, ctx, case)
    if isinstance(case, dict) and case.get("kind") == "stateful":
        from props import _stateful
        return _stateful.run(prop, ctx, case)
    if isinstance(case, dict) and case.get("kind") == "large":
        from props import _large
        return _large.run(prop, ctx, case)
    if isinstance(case, dict) and case.get("kind") == "dtype":
        from props import _dtype
        return _dtype.run(prop, ctx, case)
    return mod.run_case(ctx, case)


def _stateful_rule(prop):
    from props import _stateful
    from props import _battery
    bat = ""
    if prop in _battery.BATTERIES:
        bat = ("  PLUS correspondence batteries (harness/batteries/%s; histogram key 'battery:*'): stand-alone differential runs of the compiled "
               "model against the library on their own generated inputs" % ", ".join(b[0] for b in _battery.BATTERIES[prop]))
    bat += ("  PLUS large-input cases (harness/props/_large.py, histogram key 'large'): long modes (33..200), ranks 16..32, 9..13 modes, index arrays of "
            "65..300 entries, tall matrices, large batches against dense oracles (implementation only, no model side)")
    bat += ("  PLUS precision / dtype / entry-point cases (harness/props/_dtype.py, histogram key 'dtype-layer'): float32, integer / bool and mixed-dtype "
            "inputs, a process default dtype different from the tensors', magnitudes 1e-20 / 1e+20, augmented assignment and other spellings, arguments "
            "given as 0-dim tensor / range / tuple / NumPy array, against dense float64 oracles with the tolerance of the inputs' precision "
            "(implementation only, no model side)")
    if prop not in _stateful.RUN:
        return bat
    return (bat + "  PLUS sequence cases (harness/props/_stateful.py, histogram key 'stateful'): short histories on the same Python objects — "
            "re-query after in-place edits, caller-owned argument objects reused, results held across later calls; oracles: dense arrays "
            "and fresh-copy equivalence (sampling of the implementation only, no model side)")


def _all_cases(mod, prop, rng, tier):
    from props import _stateful, _battery, _large, _dtype
    return _battery.cases(prop, rng, tier) + _large.cases(prop, rng, tier) + list(mod.cases(rng, tier)) + _stateful.cases(prop, rng, tier) + \
        _dtype.cases(prop, rng, tier)


def run_cases(prop, tier, seed, cases, use_model, search_only=False, workers=None):
    workers = workers or int(os.environ.get("VERIF_WORKERS", "12"))
    if not cases:
        return merge([])
    nchunks = max(1, min(len(cases), workers * 4))
    chunks = [cases[i::nchunks] for i in range(nchunks)]
    args = [(prop, tier, seed, c, use_model, search_only) for c in chunks]
    if workers <= 1 or len(cases) < 8:
        parts = [_work(a) for a in args]
    else:
        with mp.get_context("fork").Pool(min(workers, nchunks)) as pool:
            parts = pool.map(_work, args)
    return merge(parts)


def merge(parts):
    out = {"evaluations": 0, "sigs": set(), "samples": [], "hist": {}, "oracle_fail": [], "corr_fail": [], "spec_fail": [],
           "known_hits": {}, "notes": [], "driver_lines": 0}
    for p in parts:
        out["evaluations"] += p["evaluations"]
        out["sigs"] |= set(p["sigs"])
        out["samples"] += p["samples"]
        for k, v in p["hist"].items():
            out["hist"][k] = out["hist"].get(k, 0) + v
        for k in ("oracle_fail", "corr_fail", "spec_fail", "notes"):
            out[k] += p[k]
        for k, v in p["known_hits"].items():
            if k in out["known_hits"]:
                out["known_hits"][k][1] += v[1]
            else:
                out["known_hits"][k] = v
        out["driver_lines"] += p["driver_lines"]
    out["samples"] = out["samples"][:6]
    return out


def main():
    if len(sys.argv) < 3:
        print("usage: check <Cxx> quick|thorough"); sys.exit(2)
    prop, tier = sys.argv[1], sys.argv[2]
    seed = int(os.environ.get("VERIF_SEED", "0"))
    if tier == "--replay":
        return replay(prop, sys.argv[3])
    t0 = time.time()
    import leancheck, extract
    try:
        extract.regenerate()
    except Exception:
        traceback.print_exc()
        print("harness error: extract failed"); sys.exit(2)
    lean = leancheck.run(prop, tier)
    mod = importlib.import_module("props." + prop.lower())
    rng = random.Random((seed, prop, tier).__repr__())
    corpus = []
    for f in sorted(glob.glob(os.path.join(VERIF, "corpus", prop, "*.json"))):
        corpus.append(json.load(open(f)))
    cases = corpus + _all_cases(mod, prop, rng, tier)
    use_model = bool(lean.get("driver_ok"))
    res = run_cases(prop, tier, seed, cases, use_model)

    violations = []
    broken = list(lean["failures"])
    for c in res["corr_fail"]:
        broken.append({"kind": "correspondence", "what": c["what"], "case": c["replay"]})
    for c in res["spec_fail"]:
        broken.append({"kind": "model-vs-spec", "what": c["what"], "case": c["replay"]})
    if not use_model:
        broken.append({"kind": "correspondence", "what": "driver could not be built; no correspondence was run"})
    nexc = sum(v for k, v in res["hist"].items() if k.startswith("harness_exception:"))
    if nexc:
        # the harness could not process what the implementation did on some cases: the tie model/code is not established there
        broken.append({"kind": "correspondence", "what": "%d case(s) could not be processed by the harness" % nexc, "notes": res["notes"][:3]})
    searched = 0
    if broken and not res["oracle_fail"]:
        # a proof obligation or the correspondence no longer checks: look harder for a failing input on the real code
        srng = random.Random((seed, prop, "search").__repr__())
        extra = _all_cases(mod, prop, srng, "search")
        sres = run_cases(prop, tier, seed, extra, False, search_only=True)
        searched = sres["evaluations"]
        res["oracle_fail"] += sres["oracle_fail"]
        for k, v in sres["known_hits"].items():
            res["known_hits"].setdefault(k, v)
    for f in res["oracle_fail"][:5]:
        payload = {"property": prop, "seed": seed, "tier": tier, "kind": "failing-input", "what": f["what"], "class": f["class"],
                   "case": f["replay"], "how_to_run": "./check %s --replay <this file>" % prop}
        path = core_write_replay(prop, "fail", payload)
        violations.append("VIOLATION property=%s replay=%s" % (prop, path))
    if broken and not res["oracle_fail"]:
        payload = {"property": prop, "seed": seed, "tier": tier, "kind": "no-failing-input-found", "broken": broken[:10],
                   "searched_cases": searched + res["evaluations"]}
        path = core_write_replay(prop, "broken", payload)
        violations.append("VIOLATION property=%s replay=%s no-failing-input-found" % (prop, path))

    for kid, (k, n) in sorted(res["known_hits"].items()):
        print("KNOWN-FINDING: property=%s %s (%d cases this run)" % (prop, k["what"], n))

    wall = time.time() - t0
    nth = lean["obligations"]
    ev = {
        "property_id": prop, "tier": tier, "seed": seed, "level": "proof",
        "coverage": {
            "obligations": max(nth, 1), "discharged": lean["discharged"] if nth else 0,
            "checker_cmd": "cd lean && lake build && lake env lean .lake/Audit_%s.lean  (#print axioms of every theorem of TnVerif/Props/%s.lean)%s"
                           % (prop, prop, "; lake env leanchecker TnVerif.Props.%s" % prop if tier == "thorough" else ""),
            "trusted_base": getattr(mod, "TRUSTED", []) + [
                "Lean 4.33 kernel; axioms of every property theorem ⊆ {propext, Classical.choice, Quot.sound} (audited this run)",
                "hand-written Lean model tied to /repo by the correspondence below (sampling) — harness/core.py, harness/props/%s.py, lean/Driver.lean" % prop.lower()],
            "theorems": lean["theorems"], "open_statements": lean["open_statements"],
            "lean_failures": lean["failures"], "lean_build_s": lean.get("build_s"),
            "leanchecker": lean.get("leanchecker"),
            "evaluations": res["evaluations"], "distinct_nontrivial": len(res["sigs"]),
            "rule": getattr(mod, "RULE", "") + _stateful_rule(prop), "samples": res["samples"] or [{"note": "no case ran"}],
            "histogram": dict(sorted(res["hist"].items())),
            "model_driver_lines": res["driver_lines"],
            "correspondence_disagreements": len(res["corr_fail"]), "model_vs_spec_disagreements": len(res["spec_fail"]),
            "search_cases_after_break": searched,
            "known_findings_hit": {k: v[1] for k, v in res["known_hits"].items()},
            "harness_notes": res["notes"][:5],
        },
        "assumptions": getattr(mod, "ASSUMPTIONS", []),
        "wall_s": round(wall, 2), "violations": len(violations),
    }
    os.makedirs(os.path.join(VERIF, "evidence"), exist_ok=True)
    json.dump(ev, open(os.path.join(VERIF, "evidence", prop + ".json"), "w"), indent=1, default=str)
    for v in violations:
        print(v)
    print("%s %s seed=%d: %d cases, %d distinct non-trivial, theorems %d/%d, corr-disagreements %d, violations %d, %.1fs"
          % (prop, tier, seed, res["evaluations"], len(res["sigs"]), lean["discharged"], nth, len(res["corr_fail"]), len(violations), wall))
    sys.exit(1 if violations else 0)


def replay(prop, path):
    """re-execute a stored failing case on the current tree and on the model"""
    import core
    d = json.load(open(path))
    case = d.get("case") or (d.get("broken") or [{}])[0].get("case")
    if case is None:
        print("replay file names a broken obligation, not an input:", json.dumps(d.get("broken"), indent=1)[:2000]); sys.exit(1)
    mod = importlib.import_module("props." + prop.lower())
    ctx = core.Ctx(prop, "replay", 0)
    ctx.use_model = os.path.exists(core.DRIVER); ctx.search_only = False
    ctx.known = []
    _dispatch(mod, prop, ctx, case)
    for k in ("oracle_fail", "corr_fail", "spec_fail"):
        for f in getattr(ctx, k):
            print(k, ":", f["what"])
    bad = bool(ctx.oracle_fail or ctx.corr_fail or ctx.spec_fail)
    print("replay:", "STILL FAILS" if bad else "passes on the current tree")
    sys.exit(1 if bad else 0)


def core_write_replay(prop, kind, payload):
    import core
    return os.path.relpath(core.write_replay(prop, kind, payload), VERIF)


if __name__ == "__main__":
    try:
        main()
    except SystemExit:
        raise
    except Exception:
        traceback.print_exc()
        print("harness error")
        sys.exit(2)
