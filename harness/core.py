"""Shared machinery of the correspondence / search harness (DESIGN §2.6, §2.8).

Runs the real tntorch from /repo's working tree in-process, talks to the compiled Lean
driver over a line protocol, compares structure-level (cores, factors) and observable-level
(dense values), and implements the failure flow.
"""
import os, sys, json, time, random, hashlib, subprocess, warnings, traceback, itertools
from fractions import Fraction

warnings.filterwarnings("ignore")
REPO = os.environ.get("VERIF_REPO", "/repo")
VERIF = os.path.dirname(os.path.dirname(os.path.abspath(__file__)))
if REPO not in sys.path:
    sys.path.insert(0, REPO)
os.environ.setdefault("TNTORCH_VERIF", "1")

import numpy as np
import torch

torch.set_num_threads(1)
torch.set_default_dtype(torch.float64)   # as the repository's own tests do; cases switch with props.c02.with_dd
import tntorch as tn

assert os.path.realpath(os.path.dirname(tn.__file__)) == os.path.realpath(os.path.join(REPO, "tntorch")), \
    "tntorch must be imported from the repository working tree: %s" % tn.__file__

DRIVER = os.path.join(VERIF, "lean", ".lake", "build", "bin", "driver")


# ----------------------------------------------------------------------------- numbers
def q(x):
    """exact protocol token for a Python/NumPy/torch number (ints stay ints, floats become p/q)"""
    if isinstance(x, (int, np.integer)):
        return str(int(x))
    f = x if isinstance(x, Fraction) else Fraction(float(x))
    return str(f.numerator) if f.denominator == 1 else "%d/%d" % (f.numerator, f.denominator)


def unq(tok):
    if "/" in tok:
        a, b = tok.split("/")
        return Fraction(int(a), int(b))
    return Fraction(int(tok))


# ----------------------------------------------------------------------------- tensors (plain data)
class PT:
    """plain tensor: list of (core ndarray 2-D/3-D, factor ndarray or None); dtype object(Fraction) or float64"""

    def __init__(self, cores, Us=None):
        self.cores = cores
        self.Us = Us if Us is not None else [None] * len(cores)

    @property
    def N(self):
        return len(self.cores)

    @property
    def shape(self):
        return tuple((U.shape[0] if U is not None else c.shape[-2]) for c, U in zip(self.cores, self.Us))

    def kinds(self):
        return tuple(("cp" if c.ndim == 2 else "tt") + ("+U" if U is not None else "") for c, U in zip(self.cores, self.Us))

    def ranks(self):
        first = self.cores[0].shape[1] if self.cores[0].ndim == 2 else self.cores[0].shape[0]
        return (first,) + tuple(c.shape[-1] for c in self.cores)

    def tranks(self):
        return tuple(c.shape[-2] for c in self.cores)

    def sig(self):
        return (self.kinds(), self.shape, self.ranks(), self.tranks())

    def nontrivial(self):
        return self.N > 1 or max(self.ranks()) > 1 or any(U is not None for U in self.Us)

    def to_tn(self, dtype=torch.float64, requires_grad=False):
        cores = [torch.tensor(np.asarray(c, dtype=np.float64), dtype=dtype) for c in self.cores]
        Us = [None if U is None else torch.tensor(np.asarray(U, dtype=np.float64), dtype=dtype) for U in self.Us]
        return tn.Tensor(cores, Us=Us, requires_grad=requires_grad)

    def ser(self):
        out = ["T", str(self.N)]
        for c, U in zip(self.cores, self.Us):
            if c.ndim == 3:
                out += ["tt", str(c.shape[0]), str(c.shape[1]), str(c.shape[2])]
            else:
                out += ["cp", str(c.shape[0]), str(c.shape[1])]
            out += [q(v) for v in c.reshape(-1)]
            if U is None:
                out.append("N")
            else:
                out += ["U", str(U.shape[0]), str(U.shape[1])] + [q(v) for v in U.reshape(-1)]
        return " ".join(out)

    def dense(self):
        """independent reference decompression: T[i] = 1^T G_1(i_1) ... G_N(i_N) 1 (numpy, float64)"""
        acc = None  # shape (..., r)
        for c, U in zip(self.cores, self.Us):
            c = np.asarray(c, dtype=np.float64)
            if c.ndim == 2:  # CP factor s x R  -> diag
                s, R = c.shape
                g = np.zeros((R, s, R))
                for k in range(R):
                    g[k, :, k] = c[:, k]
            else:
                g = c
            if U is not None:
                g = np.einsum("ajb,ij->aib", g, np.asarray(U, dtype=np.float64))
            if acc is None:
                acc = g.sum(axis=0)  # 1^T G_1 : (I, r1)
            else:
                acc = np.einsum("...a,aib->...ib", acc, g)
        return acc.sum(axis=-1)

    def describe(self):
        return {"kinds": list(self.kinds()), "shape": list(self.shape), "ranks_tt": list(self.ranks()),
                "ranks_tucker": list(self.tranks())}

    def to_json(self):
        return {"cores": [np.asarray(c, dtype=np.float64).tolist() for c in self.cores],
                "Us": [None if U is None else np.asarray(U, dtype=np.float64).tolist() for U in self.Us]}

    @staticmethod
    def from_json(d):
        return PT([np.array(c, dtype=np.float64) for c in d["cores"]],
                  [None if U is None else np.array(U, dtype=np.float64) for U in d["Us"]])


def from_tn(t):
    """plain view of a tntorch tensor (non-batch)"""
    return PT([c.detach().cpu().double().numpy() for c in t.cores],
              [None if U is None else U.detach().cpu().double().numpy() for U in t.Us])


def parse_tensor(toks, pos=0):
    assert toks[pos] == "T", toks[pos:pos + 3]
    n = int(toks[pos + 1]); pos += 2
    cores, Us = [], []
    for _ in range(n):
        k = toks[pos]
        if k == "tt":
            r0, s, r1 = int(toks[pos + 1]), int(toks[pos + 2]), int(toks[pos + 3]); pos += 4
            cnt = r0 * s * r1
            cores.append(np.array([unq(x) for x in toks[pos:pos + cnt]], dtype=object).reshape(r0, s, r1)); pos += cnt
        else:
            s, r = int(toks[pos + 1]), int(toks[pos + 2]); pos += 3
            cnt = s * r
            cores.append(np.array([unq(x) for x in toks[pos:pos + cnt]], dtype=object).reshape(s, r)); pos += cnt
        if toks[pos] == "N":
            Us.append(None); pos += 1
        else:
            r, c = int(toks[pos + 1]), int(toks[pos + 2]); pos += 3
            cnt = r * c
            Us.append(np.array([unq(x) for x in toks[pos:pos + cnt]], dtype=object).reshape(r, c)); pos += cnt
    return PT(cores, Us), pos


# ----------------------------------------------------------------------------- generator
FAC_KINDS = [None, "narrow", "square", "wide"]


def gen_format(rng, N, allow_cp=True, allow_fac=True):
    return [(rng.choice(["tt", "cp"]) if allow_cp else "tt",
             rng.choice(FAC_KINDS) if (allow_fac and rng.random() < 0.5) else None) for _ in range(N)]


def gen_shape(rng, N, lo=1, hi=5, p_one=0.2):
    return [1 if (lo <= 1 and rng.random() < p_one) else rng.randint(max(lo, 2) if hi >= 2 else lo, hi) for _ in range(N)]


def rnd_entries(rng, shape, stream):
    n = int(np.prod(shape)) if len(shape) else 1
    if stream == "int":
        a = np.array([rng.choice([-2, -1, -1, 0, 1, 1, 2, 3]) for _ in range(n)], dtype=np.float64)
    else:
        a = np.array([rng.gauss(0, 1) for _ in range(n)], dtype=np.float64)
    return a.reshape(shape)


def gen_tensor(rng, shape, fmt=None, rmax=3, stream="int", p_rank1=0.25):
    """WFstd tensor: outer TT ranks 1; CP runs share one rank"""
    N = len(shape)
    if fmt is None:
        fmt = gen_format(rng, N)

    def rr():
        return 1 if rng.random() < p_rank1 else rng.randint(1, rmax)

    bonds = [None] * (N + 1)
    bonds[0] = 1 if fmt[0][0] == "tt" else rr()
    for n in range(N):
        if fmt[n][0] == "cp":
            bonds[n + 1] = bonds[n]
        else:
            if n == N - 1:
                bonds[n + 1] = 1
            elif fmt[n + 1][0] == "cp":
                bonds[n + 1] = rr()
            else:
                bonds[n + 1] = rr()
    cores, Us = [], []
    for n in range(N):
        kind, fk = fmt[n]
        I = shape[n]
        if fk is None:
            s = I
        elif fk == "narrow":
            s = rng.randint(1, max(1, I - 1))
        elif fk == "square":
            s = I
        else:
            s = I + rng.randint(1, 2)
        if kind == "cp":
            cores.append(rnd_entries(rng, (s, bonds[n]), stream))
        else:
            cores.append(rnd_entries(rng, (bonds[n], s, bonds[n + 1]), stream))
        Us.append(None if fk is None else rnd_entries(rng, (I, s), stream))
    return PT(cores, Us)


# ----------------------------------------------------------------------------- driver
class Driver:
    def __init__(self):
        if not os.path.exists(DRIVER):
            raise RuntimeError("driver not built: " + DRIVER)
        self.p = subprocess.Popen([DRIVER], stdin=subprocess.PIPE, stdout=subprocess.PIPE, text=True, bufsize=1)
        self.lines = 0

    def call(self, line):
        self.p.stdin.write(line + "\n")
        self.p.stdin.flush()
        out = self.p.stdout.readline()
        if not out:
            raise RuntimeError("driver died on: " + line[:200])
        self.lines += 1
        return out.strip().split(" ")

    def close(self):
        try:
            self.p.stdin.close(); self.p.wait(timeout=5)
        except Exception:
            self.p.kill()


# ----------------------------------------------------------------------------- comparison
def amax(a):
    a = np.asarray(a, dtype=np.float64)
    return float(np.max(np.abs(a))) if a.size else 0.0


def close(a, b, rtol=1e-9, atol=1e-12):
    """scaled comparison of two arrays (float64); returns (ok, err)"""
    a = np.asarray(a, dtype=np.float64); b = np.asarray(b, dtype=np.float64)
    if a.shape != b.shape:
        return False, "shape %s vs %s" % (a.shape, b.shape)
    if a.size == 0:
        return True, 0.0
    if not (np.all(np.isfinite(a)) and np.all(np.isfinite(b))):
        return False, "non-finite"
    scale = max(amax(a), amax(b), 1.0)
    err = float(np.max(np.abs(a - b))) / scale
    return err <= rtol + atol, err


def cmp_struct(impl, model, exact, rtol=1e-9):
    """structure-level comparison of two PTs: kinds, dims, entries. Returns None or a description."""
    if impl.N != model.N:
        return "number of cores %d vs %d" % (impl.N, model.N)
    for n in range(impl.N):
        ci, cm = impl.cores[n], model.cores[n]
        if ci.shape != cm.shape:
            return "core %d shape impl %s model %s" % (n, ci.shape, cm.shape)
        Ui, Um = impl.Us[n], model.Us[n]
        if (Ui is None) != (Um is None):
            return "factor %d presence impl %s model %s" % (n, Ui is not None, Um is not None)
        if Ui is not None and Ui.shape != Um.shape:
            return "factor %d shape impl %s model %s" % (n, Ui.shape, Um.shape)
        for name, a, b in (("core", ci, cm), ("factor", Ui, Um)):
            if a is None:
                continue
            bf = np.asarray(b, dtype=np.float64)
            if exact:
                if not np.array_equal(np.asarray(a, dtype=np.float64), bf):
                    return "%s %d entries differ (exact stream): max |diff| %g" % (name, n, amax(np.asarray(a, dtype=np.float64) - bf))
            else:
                ok, err = close(a, bf, rtol)
                if not ok:
                    return "%s %d entries differ: %s" % (name, n, err)
    return None


# ----------------------------------------------------------------------------- findings / violations
class Ctx:
    """per-run state: statistics, discrepancies, evidence"""

    def __init__(self, prop, tier, seed):
        self.prop, self.tier, self.seed = prop, tier, seed
        self.t0 = time.time()
        self.evaluations = 0
        self.sigs = set()
        self.samples = []
        self.hist = {}
        self.oracle_fail = []      # failing inputs on the real code (property violated)
        self.corr_fail = []        # model/impl structural disagreements
        self.spec_fail = []        # model vs spec disagreements (machinery bug or model bug)
        self.known_hits = {}
        self.notes = []
        self.driver = None
        self.known = load_known(prop)

    def count(self, key, k=1):
        self.hist[key] = self.hist.get(key, 0) + k

    def case(self, sig, nontrivial, sample=None):
        self.evaluations += 1
        if nontrivial:
            self.sigs.add(hashlib.sha1(repr(sig).encode()).hexdigest())
        if sample is not None and len(self.samples) < 6:
            self.samples.append(sample)

    def drv(self):
        if self.driver is None:
            self.driver = Driver()
        return self.driver

    # -- reporting
    def oracle(self, what, replay, cls=None):
        """a failing input on the real code. cls: finding-class key used to match known findings."""
        k = match_known(self.known, cls, replay)
        if k is not None:
            self.known_hits.setdefault(k["id"], [k, 0])[1] += 1
            return
        if len(self.oracle_fail) < 20:
            self.oracle_fail.append({"what": what, "class": cls, "replay": replay})
        else:
            self.count("oracle_fail_overflow")

    def corr(self, what, replay):
        if len(self.corr_fail) < 20:
            self.corr_fail.append({"what": what, "replay": replay})

    def spec(self, what, replay):
        if len(self.spec_fail) < 20:
            self.spec_fail.append({"what": what, "replay": replay})


def load_known(prop):
    p = os.path.join(VERIF, "known_findings.json")
    if not os.path.exists(p):
        return []
    return [k for k in json.load(open(p)) if k.get("property") == prop and k.get("status") == "known"]


def match_known(known, cls, replay):
    if cls is None:
        return None
    for k in known:
        if k["key"] == cls:
            return k
    return None


def write_replay(prop, kind, payload):
    os.makedirs(os.path.join(VERIF, "replays"), exist_ok=True)
    h = hashlib.sha1(json.dumps(payload, sort_keys=True, default=str).encode()).hexdigest()[:10]
    path = os.path.join(VERIF, "replays", "%s-%s-%s.json" % (prop, kind, h))
    json.dump(payload, open(path, "w"), indent=1, default=str)
    return path


def safe(fn, *a, **kw):
    """run fn; return ('ok', value) or ('err', exception class name, message)"""
    try:
        return ("ok", fn(*a, **kw))
    except Exception as e:  # noqa
        return ("err", type(e).__name__, str(e)[:300])
