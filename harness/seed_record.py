"""dev tool (not a registered check): run the registered check(s) against a confirmed seeded change and write /verif/seeded/<id>/meta.json.
usage: seed_record.py C13 "<what was changed>" "<what it needs to manifest>" [--checks C13,C04] [--seeds 0,1] [--note "..."]"""
import sys, os, json, subprocess, re
sid, change, needs = sys.argv[1:4]
opts = dict(zip(sys.argv[4::2], sys.argv[5::2]))
checks = opts.get("--checks", sid[:3]).split(",")
seeds = [int(x) for x in opts.get("--seeds", "0,1").split(",")]
d = "/verif/seeded/%s" % sid
runs = []
for seed in seeds:
    env = dict(os.environ, VERIF_SEED=str(seed))
    out = subprocess.run(["/verif/harness/seed_run.sh", sid, "quick"] + checks, env=env, capture_output=True, text=True).stdout
    for line in out.splitlines():
        m = re.match(r"seed=(\S+) check=(\S+) tier=(\S+) rc=(\d+) :: (\d+) VIOLATION lines :: (.*?) :: (.*)$", line)
        if m:
            first = m.group(6).strip().split(" VIOLATION")[0]
            runs.append({"command": "VERIF_SEED=%d ./check %s %s" % (seed, m.group(2), m.group(3)), "exit": int(m.group(4)),
                         "violation_lines": int(m.group(5)), "first_violation_line": first,
                         "no_failing_input_found": "no-failing-input-found" in m.group(6), "summary": m.group(7)})
assert subprocess.check_output(["git", "-C", os.environ.get("SEED_REPO", "/repo"), "status", "--porcelain"]).decode().strip() == "", "repo not restored"
meta = {"id": sid, "breaks_property": sid[:3], "change": change, "needs_to_manifest": needs,
        "confirmed": "harness/seed_verify.sh %s in a scratch worktree of /repo under /tmp (%s): demo exits 0 on the unchanged tree, non-zero with the change; "
                     "the 43-test suite passes with the change" % (sid, sid[:3]),
        "files": sorted(os.listdir(d)), "checks_run": runs,
        "caught": all(r["exit"] == 1 and r["violation_lines"] > 0 for r in runs if r["command"].split()[2] == sid[:3]),
        "how_run": "git -C /repo apply seeded/%s/patch.diff; ./check ...; git -C /repo checkout -- ." % sid}
if "--note" in opts:
    meta["note"] = opts["--note"]
json.dump(meta, open(os.path.join(d, "meta.json"), "w"), indent=1)
print(sid, "caught" if meta["caught"] else "MISSED", [(r["command"], r["exit"], r["violation_lines"]) for r in runs])
