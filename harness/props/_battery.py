"""Correspondence batteries: stand-alone differential scripts (harness/batteries/*.py) that drive the compiled Lean model and the real
library with the same generated inputs and print a mismatch count.  They were written next to the model functions they exercise (the
extension rounds, DESIGN §6.9/§6.10) and are run by every check of their property as one case of kind "battery": a subprocess with a PRNG seed
and an iteration count; any mismatch, a crash or a missing summary line is a correspondence disagreement (never silently dropped)."""
import os, re, subprocess, sys
import core

HERE = os.path.dirname(os.path.dirname(os.path.abspath(__file__)))
#            property: [(script, argv template, regex of the mismatch count, iterations quick/thorough)]
BATTERIES = {
    "C03": [("c03_sqops.py", "{seed} {n}", r"mismatches: (\d+)", (60, 500))],
    "C11": [("c03_sqops.py", "{seed} {n}", r"mismatches: (\d+)", (60, 500))],
    "C17": [("c17_rect.py", "{n} {seed}", r"mismatches (\d+)", (250, 2500))],
    "C10": [("c10_truncate.py", "{n} {seed}", r"checked \d+ bad (\d+)", (60, 400))],
    "C04": [("c04_round_tucker.py", "{seed} {n}", r"mismatches (\d+)", (150, 1200))],
    "C05": [("c05_fixed_rank.py", "{seed} {n}", r"mismatches (\d+)", (100, 800))],
    "C07": [("c07_tangent.py", "{n} {seed}", r"mismatches: (\d+)", (80, 500))],
    "C15": [("c15_logic.py", "{n} {seed}", r"mismatches: (\d+)", (60, 500))],
    "C09": [("c09_sobol.py", "{seed} {n}", r"mismatches (\d+)", (80, 600)),
            ("c09_dimdist_mask.py", "{seed} {n}", r"mismatches (\d+)", (40, 300))],
    "C13": [("c13_orth_full.py", "{n} {seed}", r"mismatches: (\d+)", (150, 1500))],
    "C18": [("c18_batch_scalar.py", "{n} {seed}", r"mismatches: (\d+)", (100, 800))],
}


def cases(prop, rng, tier):
    if tier == "search" or prop not in BATTERIES:
        return []
    return [{"kind": "battery", "idx": k, "seed": rng.randrange(1, 1 << 20)} for k in range(len(BATTERIES[prop]))]


def run(prop, ctx, case):
    script, argv, pat, (nq, nt) = BATTERIES[prop][case["idx"]]
    n = nt if ctx.tier == "thorough" else nq
    ctx.case(("battery", script, case["seed"]), True, {"op": "correspondence battery " + script, "iterations": n, "seed": case["seed"]})
    ctx.count("battery:" + script)
    if not (getattr(ctx, "use_model", False) and not getattr(ctx, "search_only", False)):
        return
    cmd = [sys.executable, "-W", "ignore", os.path.join(HERE, "batteries", script)] + argv.format(seed=case["seed"], n=n).split()
    try:
        out = subprocess.run(cmd, capture_output=True, text=True, timeout=1500, cwd=HERE, env=dict(os.environ, OMP_NUM_THREADS="1", MKL_NUM_THREADS="1"))
        text = out.stdout + out.stderr
        m = re.search(pat, out.stdout)
        if out.returncode != 0 or m is None:
            ctx.corr("battery %s did not finish (exit %s): %s" % (script, out.returncode, text[-600:]), case)
        elif int(m.group(1)) != 0:
            bad = [l for l in out.stdout.splitlines() if "MISMATCH" in l or "FAILS" in l or "!=" in l][:3]
            ctx.corr("battery %s: %s disagreement(s) between the compiled model and the library: %s" % (script, m.group(1), " | ".join(b[:300] for b in bad)), case)
        else:
            ctx.count("battery iterations", n)
    except subprocess.TimeoutExpired:
        ctx.corr("battery %s timed out" % script, case)
