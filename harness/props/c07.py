"""C07 — gradients through compressed operations equal gradients through the dense arrays."""
import numpy as np, torch, random
import core
from core import PT, gen_tensor, from_tn, parse_tensor, close, q, safe, tn, unq
from fractions import Fraction

RULE = ("differentiable programs: 2-3 leaf tensors (any format mix, 1..3 modes) with requires_grad on a random subset of cores/"
        "factors; an expression tree over {+,-,*,unary -, scalar *,/ scalar, scalar +, slicing/indexing} followed by a scalar head "
        "(sum, mean, dot with another expression, normsq, norm, var, dist, the README loss norm(t[:k]-t[-k:])); the gradient of the "
        "compressed path w.r.t. every parameter is compared with the gradient of the same scalar computed on .torch() arrays "
        "(autograd on both sides, 1e-8 scaled); a stream of README-style losses between two windows t[:k], t[-k:] of ONE model where either side may be a constant (detached) alias sharing its memory; results must not be detached (requires_grad / grad_fn present). Model correspondence: "
        "the same programs are run through the Lean model over dual numbers (tangents on the parameters); the directional derivative "
        "of a random linear functional of the result cores is compared with autograd's (exact rationals vs float64, 1e-8). "
        "distinct = (program, format signatures, which parameters carry gradients)")
TRUSTED = ["PyTorch's autograd engine implements the chain rule for the torch primitives used (both sides of the oracle use it)",
           "forward-mode dual arithmetic = reverse-mode gradient contracted with the tangent (chain rule), for the model comparison"]
ASSUMPTIONS = ["scalars are non-zero and positive under roots (|c|^(1/N) is not differentiable at 0; the scalar itself is a constant)"]

HEADS = ["sum", "mean", "dot", "normsq", "norm", "var", "dist", "readme", "var_marg", "mean_marg"]


def gen_prog(rng, nleaves, depth, N, shape):
    if depth == 0 or rng.random() < 0.25:
        return ["leaf", rng.randrange(nleaves)]
    r = rng.random()
    if r < 0.5:
        return [rng.choice(["add", "sub", "mul"]), gen_prog(rng, nleaves, depth - 1, N, shape), gen_prog(rng, nleaves, depth - 1, N, shape)]
    if r < 0.6:
        return ["neg", gen_prog(rng, nleaves, depth - 1, N, shape)]
    if r < 0.85:
        c = rng.choice([2.0, -3.0, 0.5, -1.5, 3.0])
        return [rng.choice(["smul", "rsmul", "div", "sadd", "ssub"]), c, gen_prog(rng, nleaves, depth - 1, N, shape)]
    if r < 0.93:
        # a scalar that is itself computed from a compressed tensor (t - tn.mean(t), t * tn.sum(u), u / tn.normsq(u) ...)
        return [rng.choice(["tsadd", "tsadd", "tsmul"]), rng.choice(["tsum", "tmean", "tnormsq"]), rng.choice([1.0, -1.0, 2.0, 0.5]),
                gen_prog(rng, nleaves, max(depth - 2, 0), N, shape), gen_prog(rng, nleaves, depth - 1, N, shape)]
    return ["flip0", gen_prog(rng, nleaves, depth - 1, N, shape)]      # t[::-1 is unsupported] -> use slicing that keeps the shape: t[0:n]


def cases(rng, tier):
    n = {"quick": 450, "thorough": 2500, "search": 800}[tier]
    out = []
    for _ in range(n):
        N = rng.choice([1, 2, 2, 3])
        shape = [rng.randint(2, 4) for _ in range(N)]
        leaves, masks = [], []
        for li in range(rng.randint(2, 3)):
            if li > 0 and rng.random() < 0.3:
                # two models in one basis: same format and Tucker factors (equal numbers, separate parameters), fresh cores
                t0 = PT.from_json(leaves[0])
                t = PT([np.array([rng.gauss(0, 1) for _ in range(c.size)]).reshape(c.shape) for c in t0.cores],
                       [None if U is None else np.array(U, dtype=np.float64).copy() for U in t0.Us])
            else:
                t = gen_tensor(rng, shape, rmax=2, stream="float")
            leaves.append(t.to_json())
            masks.append([[rng.random() < 0.6 for _ in range(N)], [rng.random() < 0.6 for _ in range(N)]])
        masks[0][0][0] = True
        f32 = 0 if rng.random() < 0.12 else None       # a single-precision model (leaf 0) against double-precision data
        out.append({"f32": f32, "leaves": leaves, "masks": masks, "prog": gen_prog(rng, len(leaves), rng.randint(1, 3), N, shape),
                    "head": rng.choice(HEADS), "prog2": gen_prog(rng, len(leaves), 1, N, shape), "seed": rng.randrange(1 << 30)})
    # README-style losses between two windows of ONE model, one side possibly a constant (detached) alias of it: the operands share memory
    for _ in range({"quick": 60, "thorough": 400, "search": 150}[tier]):
        N = rng.choice([1, 2, 2, 3])
        shape = [rng.randint(3, 5)] + [rng.randint(2, 4) for _ in range(N - 1)]
        t = gen_tensor(rng, shape, rmax=2, stream="float")
        k = rng.randint(1, shape[0] - 1)
        side = lambda which: [which, k, ["const", ["leaf", 0]] if rng.random() < 0.4 else ["leaf", 0]]
        prog = [rng.choice(["sub", "sub", "sub", "add", "mul"]), side("lo"), side("hi")]
        if rng.random() < 0.3:
            prog = [rng.choice(["smul", "sadd"]), rng.choice([2.0, -1.5]), prog]
        out.append({"f32": None, "alias": True, "leaves": [t.to_json()], "masks": [[[True] * N, [rng.random() < 0.7 for _ in range(N)]]],
                    "prog": prog, "head": rng.choice(["norm", "norm", "normsq", "sum", "var"]), "prog2": prog, "seed": rng.randrange(1 << 30)})
    # genuinely small tensors (entries 1e-9 … 1e-22, no cancellation): the square-root heads have scale-free gradients x/‖x‖, which a
    # floor or clamp on the squared norm would silently replace by 0
    for _ in range({"quick": 40, "thorough": 250, "search": 100}[tier]):
        N = rng.choice([1, 2, 3])
        shape = [rng.randint(2, 4) for _ in range(N)]
        sc = 10.0 ** (-rng.choice([9, 12, 16, 20, 22]) / N)
        leaves, masks = [], []
        for li in range(2):
            t = gen_tensor(rng, shape, rmax=2, stream="float")
            t = PT([np.asarray(c, dtype=np.float64) * sc for c in t.cores], t.Us)
            leaves.append(t.to_json()); masks.append([[True] * N, [rng.random() < 0.6 for _ in range(N)]])
        out.append({"f32": None, "tiny": True, "leaves": leaves, "masks": masks, "prog": ["leaf", 0], "head": rng.choice(["norm", "norm", "readme", "dist"]),
                    "prog2": ["leaf", 1], "seed": rng.randrange(1 << 30)})
    return out


def ev(tree, L, ops):
    t = tree[0]
    if t == "leaf":
        return L[tree[1]]
    if t in ("add", "sub", "mul"):
        return ops[t](ev(tree[1], L, ops), ev(tree[2], L, ops))
    if t == "neg":
        return ops["neg"](ev(tree[1], L, ops))
    if t in ("flip0", "const"):
        return ops[t](ev(tree[1], L, ops))
    if t in ("tsadd", "tsmul"):
        c = tree[2] * ops[tree[1]](ev(tree[3], L, ops))
        return ops["sadd" if t == "tsadd" else "smul"](c, ev(tree[4], L, ops))
    return ops[t](tree[1], ev(tree[2], L, ops))


COMP = {"add": lambda a, b: a + b, "sub": lambda a, b: a - b, "mul": lambda a, b: a * b, "neg": lambda a: -a,
        "smul": lambda c, a: a * c, "rsmul": lambda c, a: c * a, "div": lambda c, a: a / c, "sadd": lambda c, a: a + c,
        "ssub": lambda c, a: a - c, "flip0": lambda a: a[0:a.shape[0]]}
COMP.update({"lo": lambda k, a: a[:k], "hi": lambda k, a: a[-k:]})
DENSE = dict(COMP)
# a constant alias of a model: the same numbers (the same memory), outside the graph — `target = tn.Tensor([c.detach() for c in t.cores], ...)`
COMP["const"] = lambda a: tn.Tensor([c.detach() for c in a.cores], Us=[None if U is None else U.detach() for U in a.Us])
DENSE["const"] = lambda x: x.detach()
COMP.update({"tsum": lambda a: tn.sum(a), "tmean": lambda a: tn.mean(a), "tnormsq": lambda a: tn.normsq(a)})
DENSE.update({"tsum": lambda x: x.sum(), "tmean": lambda x: x.mean(), "tnormsq": lambda x: (x * x).sum()})


def head_comp(h, a, b):
    if h == "sum":
        return tn.sum(a)
    if h == "mean":
        return tn.mean(a)
    if h == "dot":
        return tn.dot(a, b)
    if h == "normsq":
        return tn.normsq(a)
    if h == "norm":
        return tn.norm(a)
    if h == "var":
        return tn.var(a)
    if h == "dist":
        return tn.dist(a, b)
    if h in ("var_marg", "mean_marg"):
        ms = [torch.tensor([0.5 + ((7 * i + 3 * n) % 5) for i in range(sh)], dtype=torch.float64) for n, sh in enumerate(a.shape)]
        return tn.var(a, marginals=ms) if h == "var_marg" else tn.mean(a, marginals=ms)
    k = max(1, a.shape[0] - 1)
    return tn.norm(a[:k] - a[-k:])


def head_dense(h, x, y):
    if h == "sum":
        return x.sum()
    if h == "mean":
        return x.mean()
    if h == "dot":
        return (x * y).sum()
    if h == "normsq":
        return (x * x).sum()
    if h == "norm":
        return torch.sqrt((x * x).sum())
    if h == "var":
        return ((x - x.mean()) ** 2).mean()
    if h == "dist":
        return torch.sqrt(((x - y) ** 2).sum())
    if h in ("var_marg", "mean_marg"):
        pdf = torch.ones((), dtype=torch.float64)
        for n, sh in enumerate(x.shape):
            m = torch.tensor([0.5 + ((7 * i + 3 * n) % 5) for i in range(sh)], dtype=torch.float64)
            pdf = pdf[..., None] * (m / m.sum())
        mu = (x * pdf).sum()
        return mu if h == "mean_marg" else (pdf * (x - mu) ** 2).sum()
    k = max(1, x.shape[0] - 1)
    d = x[:k] - x[-k:]
    return torch.sqrt((d * d).sum())


def build_leaves(case):
    tns, params = [], []
    for li, (lj, mk) in enumerate(zip(case["leaves"], case["masks"])):
        p = PT.from_json(lj)
        dt = torch.float32 if case.get("f32") == li else torch.float64
        cores = [torch.tensor(c, dtype=dt) for c in p.cores]
        Us = [None if U is None else torch.tensor(U, dtype=dt) for U in p.Us]
        for n in range(p.N):
            if mk[0][n]:
                cores[n].requires_grad_(); params.append(cores[n])
            if Us[n] is not None and mk[1][n]:
                Us[n].requires_grad_(); params.append(Us[n])
        tns.append(tn.Tensor(cores, Us=Us))
    return tns, params


def run_case(ctx, case):
    use_model = getattr(ctx, "use_model", False) and not getattr(ctx, "search_only", False)
    pts = [PT.from_json(l) for l in case["leaves"]]
    h = case["head"]
    ctx.case((repr(case["prog"]), h, tuple(p.sig() for p in pts), repr(case["masks"])), True,
             {"program": case["prog"], "head": h, "leaves": [p.describe() for p in pts], "requires_grad": case["masks"]})
    ctx.count("head:" + h)
    for k in ("smul", "rsmul", "div", "neg", "sub", "mul", "add", "sadd", "flip0", "tsadd", "tsmul"):
        if k in repr(case["prog"]):
            ctx.count("op:" + k)
    # ---- compressed path
    tns, params = build_leaves(case)
    mixed = case.get("f32") is not None
    VT, GT = (1e-4, 2e-3) if mixed else (1e-8, 1e-7)
    if mixed:
        ctx.count("mixed precision: leaf 0 float32")
    r = safe(lambda: head_comp(h, ev(case["prog"], tns, COMP), ev(case["prog2"], tns, COMP)))
    if r[0] == "err":
        if mixed:
            ctx.count("mixed precision: compressed program raised %s (not a silent detachment)" % r[1]); return
        ctx.oracle("compressed program raised %s: %s" % (r[1], r[2]), case); return
    val = r[1]
    # ---- dense path (same parameters, through .torch())
    tns2, params2 = build_leaves(case)
    dl = [t.torch() for t in tns2]
    rd = safe(lambda: head_dense(h, ev(case["prog"], dl, DENSE), ev(case["prog2"], dl, DENSE)))
    if rd[0] == "err":
        ctx.count("dense reference raised %s" % rd[1]); return
    val2 = rd[1]
    if not val2.requires_grad:
        ctx.count("skipped:program does not touch a parameter"); return
    if not isinstance(val, torch.Tensor) or not val.requires_grad:
        ctx.oracle("the result of the compressed program does not require grad (silently detached): head %s" % h, case,
                   cls={"op": "detach", "head": h})
        return
    g1 = torch.autograd.grad(val, params, allow_unused=True)
    g2 = torch.autograd.grad(val2, params2, allow_unused=True)
    if case.get("tiny"):
        ctx.count("tiny-magnitude leaves")
        if not (float(val2) > 0 and abs(float(val) / float(val2) - 1) < 1e-6):
            ctx.oracle("values differ on a small tensor: compressed %r dense %r (head %s)" % (float(val), float(val2), h), case,
                       cls={"op": "value", "predicate": "tiny-magnitude leaves"})
            return
    elif h in ("norm", "dist", "readme") and abs(float(val2)) < 1e-6:
        # a square root taken at (numerically) zero: the compressed path cancels to rounding noise of the operands' scale, whose
        # square root is ~1e-8; compare the squares against the operands' scale, and take no gradient (sqrt is not differentiable at 0)
        S = 1.0 + sum(float((x.detach() ** 2).sum()) for x in dl)
        # (with a single-precision leaf the squares carry a relative error of ~1e-7, not ~1e-16: the floor of the square is 1e-5·S², cf. VT)
        if float(val) ** 2 > (1e-5 if mixed else 1e-12) * S * S:
            ctx.oracle("values differ at a cancelling program: compressed %r dense %r" % (float(val), float(val2)), case)
        ctx.count("skipped:sqrt at 0"); return
    # the values are compared relative to the magnitude the head works with: a variance / squared norm / inner product is a difference of
    # quantities of size max|x|^2 (a large additive constant in x cancels only in the last step of the compressed contraction)
    with torch.no_grad():
        mags = [float(v.detach().abs().max()) for v in (ev(case["prog"], dl, DENSE), ev(case["prog2"], dl, DENSE)) if isinstance(v, torch.Tensor) and v.numel()]
    mag = max(mags + [1.0])
    vscale = mag ** 2 if h in ("normsq", "var", "var_marg", "dot") else mag
    if not case.get("tiny") and abs(float(val) - float(val2)) > VT * max(vscale, abs(float(val2)), 1.0):
        ctx.oracle("values differ: compressed %r dense %r" % (float(val), float(val2)), case)
        return
    scale = max([float(g.abs().max()) for g in g2 if g is not None] + [1e-12])
    for k, (a, b) in enumerate(zip(g1, g2)):
        za = torch.zeros_like(params[k]) if a is None else a
        zb = torch.zeros_like(params2[k]) if b is None else b
        err = float((za.double() - zb.double()).abs().max()) / max(scale, 1.0)
        if err > GT:
            ctx.oracle("gradient w.r.t. parameter %d differs between the compressed and the dense path (scaled error %.3g, head %s, program %s)"
                       % (k, err, h, case["prog"]), case, cls={"op": "gradient", "predicate": "scalar multiplication in program" if any(
                           s in repr(case["prog"]) for s in ("smul", "rsmul", "div", "neg", "sub")) else "other"})
            ctx.count("grad_mismatch")
            return
    if not use_model:
        return
    if mixed:
        ctx.count("model skipped: mixed precision (oracle only)"); return
    if case.get("alias"):
        ctx.count("model skipped: windows / constant alias of one model (oracle only)"); return
    if "'ts" in repr(case["prog"]):
        ctx.count("model skipped: tensor-valued scalar in the program (oracle only)"); return
    # ---- model over dual numbers: tangents on the parameters, directional derivative of <C, cores(result)>
    rng = random.Random(case["seed"])
    tns3, params3 = build_leaves(case)
    res = safe(lambda: ev(case["prog"], tns3, COMP))
    if res[0] == "err" or not isinstance(res[1], tn.Tensor):
        return
    out = res[1]
    nodes = [c for c in out.cores] + [U for U in out.Us if U is not None]
    Cs = [torch.tensor(np.array([rng.randint(-2, 2) for _ in range(c.numel())], dtype=np.float64).reshape(c.shape)) for c in nodes]
    L = sum((C * c).sum() for C, c in zip(Cs, nodes))
    if not L.requires_grad:
        # legitimate when the program only touches leaves without parameters; detachment itself is decided by the oracle part above
        used = {x for x in __import__("re").findall(r"'leaf', (\d+)", repr(case["prog"]))}
        has = any(any(case["masks"][int(k)][0]) or any(m and PT.from_json(case["leaves"][int(k)]).Us[i] is not None
                                                     for i, m in enumerate(case["masks"][int(k)][1])) for k in used)
        if has:
            ctx.oracle("result cores do not depend on the parameters (detached)", case, cls={"op": "detach", "head": "cores"})
        else:
            ctx.count("skipped:program cores without parameters")
        return
    g = torch.autograd.grad(L, params3, allow_unused=True)
    Vs = [torch.tensor(np.array([rng.randint(-2, 2) for _ in range(p.numel())], dtype=np.float64).reshape(p.shape)) for p in params3]
    jvp_impl = sum(float((gi * V).sum()) for gi, V in zip(g, Vs) if gi is not None)
    # model leaves with tangents
    vi = iter(Vs)
    mleaves = []
    for lj, mk in zip(case["leaves"], case["masks"]):
        p = PT.from_json(lj)
        dc, dU = [], []
        for n in range(p.N):
            dc.append(next(vi).numpy() if mk[0][n] else None)
            dU.append(next(vi).numpy() if (p.Us[n] is not None and mk[1][n]) else None)
        mleaves.append(DualPT(p, dc, dU))
    M = DualModel(ctx.drv())
    try:
        mo = ev(case["prog"], mleaves, M.ops())
    except Exception as e:
        ctx.corr("dual model failed: %s" % e, case); return
    mnodes = [(np.asarray(c[0], dtype=np.float64), np.asarray(c[1], dtype=np.float64)) for c in mo.cores] + \
             [(np.asarray(U[0], dtype=np.float64), np.asarray(U[1], dtype=np.float64)) for U in mo.Us if U is not None]
    if len(mnodes) != len(nodes) or any(a[0].shape != tuple(b.shape) for a, b in zip(mnodes, nodes)):
        ctx.corr("dual model result has a different structure than the implementation's", case); return
    jvp_model = sum(float(np.sum(C.numpy() * d)) for C, (v, d) in zip(Cs, mnodes))
    for (v, d), c in zip(mnodes, nodes):
        if not close(v, c.detach().numpy(), 1e-9)[0]:
            ctx.corr("dual model values differ from the implementation's cores", case); return
    sc = max(abs(jvp_impl), abs(jvp_model), 1.0)
    if abs(jvp_impl - jvp_model) / sc > 1e-8:
        ctx.corr("directional derivative of the result cores: autograd %r, dual-number model %r (program %s)" % (jvp_impl, jvp_model, case["prog"]), case)
        ctx.count("corr_mismatch")


# ------------------------------------------------------------------------------- dual-number protocol (value~tangent tokens)
def qd(v, d):
    return q(v) if d == 0 else "%s~%s" % (q(v), q(d))


class DualPT:
    """cores/factors as (value ndarray, tangent ndarray)"""

    def __init__(self, p, dc, dU):
        self.cores = [(np.asarray(c, dtype=object), np.zeros(c.shape, dtype=object) if d is None else np.asarray(d, dtype=object))
                      for c, d in zip(p.cores, dc)]
        self.Us = [None if U is None else (np.asarray(U, dtype=object), np.zeros(U.shape, dtype=object) if d is None else np.asarray(d, dtype=object))
                   for U, d in zip(p.Us, dU)]

    @staticmethod
    def raw(cores, Us):
        o = DualPT.__new__(DualPT); o.cores = cores; o.Us = Us; return o

    @property
    def N(self):
        return len(self.cores)

    @property
    def shape(self):
        return tuple((U[0].shape[0] if U is not None else c[0].shape[-2]) for c, U in zip(self.cores, self.Us))

    def ser(self):
        out = ["T", str(self.N)]
        for (c, dc), U in zip(self.cores, self.Us):
            out += (["tt"] + [str(s) for s in c.shape]) if c.ndim == 3 else (["cp"] + [str(s) for s in c.shape])
            out += [qd(v, d) for v, d in zip(c.reshape(-1), dc.reshape(-1))]
            if U is None:
                out.append("N")
            else:
                out += ["U", str(U[0].shape[0]), str(U[0].shape[1])] + [qd(v, d) for v, d in zip(U[0].reshape(-1), U[1].reshape(-1))]
        return " ".join(out)


def unqd(tok):
    if "~" in tok:
        a, b = tok.split("~")
        return unq(a), unq(b)
    return unq(tok), Fraction(0)


def parse_dual(toks, pos=1):
    assert toks[pos] == "T"
    n = int(toks[pos + 1]); pos += 2
    cores, Us = [], []
    for _ in range(n):
        if toks[pos] == "tt":
            sh = (int(toks[pos + 1]), int(toks[pos + 2]), int(toks[pos + 3])); pos += 4
        else:
            sh = (int(toks[pos + 1]), int(toks[pos + 2])); pos += 3
        cnt = int(np.prod(sh))
        vs = [unqd(x) for x in toks[pos:pos + cnt]]; pos += cnt
        cores.append((np.array([v for v, _ in vs], dtype=object).reshape(sh), np.array([d for _, d in vs], dtype=object).reshape(sh)))
        if toks[pos] == "N":
            Us.append(None); pos += 1
        else:
            sh = (int(toks[pos + 1]), int(toks[pos + 2])); pos += 3
            cnt = int(np.prod(sh))
            vs = [unqd(x) for x in toks[pos:pos + cnt]]; pos += cnt
            Us.append((np.array([v for v, _ in vs], dtype=object).reshape(sh), np.array([d for _, d in vs], dtype=object).reshape(sh)))
    return DualPT.raw(cores, Us)


class DualModel:
    def __init__(self, drv):
        self.d = drv

    def call(self, line):
        toks = self.d.call(line)
        if toks[0] != "ok":
            raise RuntimeError("model error " + " ".join(toks[:6]))
        return parse_dual(toks)

    def ops(self):
        from props.c02 import rho_of

        def smul(c, a):
            rho, sg = rho_of(c, a.N)
            return self.call("smul %s %s %s" % (q(rho), q(sg), a.ser()))
        return {"add": lambda a, b: self.call("add %s %s" % (a.ser(), b.ser())),
                "mul": lambda a, b: self.call("mul %s %s" % (a.ser(), b.ser())),
                "sub": lambda a, b: self.call("add %s %s" % (a.ser(), smul(-1, b).ser())),
                "neg": lambda a: smul(-1, a), "smul": smul, "rsmul": smul, "div": lambda c, a: smul(1.0 / c, a),
                "sadd": lambda c, a: self.call("sadd %s %s" % (q(float(c)), a.ser())),
                "ssub": lambda c, a: self.call("sadd %s %s" % (q(float(-c)), a.ser())),
                "flip0": lambda a: self.call("getitem K 1 s 0 %d _ %s" % (a.shape[0], a.ser()))}
