"""C13 — orthogonalisation yields the documented gauge, leaves the tensor unchanged, and the norm sits in core mu (oracle search on the real code)."""
import math, random
import numpy as np, torch
import core
from core import PT, gen_tensor, gen_format, from_tn, safe, tn, rnd_entries
from props._a_common import frob, rep_scale, cond_matrix, gram_dev, fmt_counts

RULE = ("one PRNG(seed): hybrid tensors with 2..5 modes (sizes 1..5), per-mode format (TT|CP)x(no factor|narrow|square|wide), float64 "
        "Gaussian entries, variants generic | overrank (bond ranks up to 9 on modes of size 1..3: unfoldings wider than tall) | rankdef "
        "(rank-deficient bonds / collinear CP columns) | zero (a zero core or factor) | illcond (factor condition numbers up to 1e6, "
        "scales 1e-3..1e3).  (a) a history of 1..4 successive t.orthogonalize(mu_j) on one clone, mu_j in [-N, N-1]; after every step: "
        "all cores 3-D with boundary ranks 1, cores i<mu left-orthonormal, cores i>mu right-orthonormal, factors i!=mu orthonormal "
        "(Gram - I <= 1e-9 in max-norm), dense array unchanged (1e-9 of max|x| + 1e-13*S, S = product of the Frobenius norms of the "
        "cores/factors), tn.norm(t) = ||core_mu x_2 U_mu||_F = ||x||_F (1e-9 relative + 1e-13*S), no rank increased.  (b) a single "
        "left_orthogonalize(mu) (0<=mu<N-1) / right_orthogonalize(mu) (1<=mu<N) on such a tensor (TT-only formats half of the time): "
        "guarantee for core mu and factor mu, dense unchanged, returned factor has shape (new rank, old rank) resp. (old rank, new rank), "
        "Q@R (resp. L@Q) contracted with the new factor reproduces the old core contracted with the old factor, and the neighbour "
        "equals R @ old right-unfolding (resp. old left-unfolding @ L); the structural identities are compared when both cores were 3-D.  "
        "half of the multi-call histories of tensors with Tucker factors edit a FACTOR between two calls through the public API (tn.ttm with a square matrix along a factored mode, or a slice of it), so that the cores are still in the previous gauge while a factor is not orthonormal. distinct = (op, format signature, shape, ranks, variant, mu history); non-trivial = always (>= 2 modes)")
TRUSTED = ["NumPy contraction of the cores (PT.dense) as the value of a tensor", "float64 slack terms listed in RULE"]
ASSUMPTIONS = ["inputs are WFstd tensors (documented formats, outer TT ranks 1)"]

VARIANTS = ["generic", "generic", "generic", "overrank", "overrank", "rankdef", "zero", "illcond", "zeroslice"]


# ----------------------------------------------------------------------------- generation
def mk_tensor(rng, N, variant, tt_only=False):
    if variant == "overrank":
        shape = [rng.randint(1, 3) for _ in range(N)]
        rmax = 9
    else:
        hi = 5 if N <= 3 else (4 if N == 4 else 3)
        shape = [1 if rng.random() < 0.12 else rng.randint(2, hi) for _ in range(N)]
        rmax = 4
    fmt = gen_format(rng, N, allow_cp=not tt_only)
    t = gen_tensor(rng, shape, fmt=fmt, rmax=rmax, stream="float", p_rank1=0.1 if variant == "overrank" else 0.25)
    if variant == "rankdef":
        for n in range(N):
            c = t.cores[n]
            if rng.random() < 0.6:
                if c.ndim == 3 and c.shape[2] >= 2:
                    k = rng.randint(1, c.shape[2] - 1)
                    t.cores[n] = c[:, :, :k] @ rnd_entries(rng, (k, c.shape[2]), "float")
                elif c.ndim == 2 and c.shape[1] >= 2:
                    c = c.copy(); c[:, rng.randrange(1, c.shape[1])] = -0.5 * c[:, 0]
                    t.cores[n] = c
            if t.Us[n] is not None and t.Us[n].shape[1] >= 2 and rng.random() < 0.4:
                U = t.Us[n].copy(); U[:, -1] = 2.0 * U[:, 0]
                t.Us[n] = U
    elif variant == "zeroslice":
        # exactly zero rank slices (what `tn.zeros(shape) + t`, `tn.cat([zeros, t])` or padding leave behind), in FIRST or interior position of
        # a bond, followed by non-zero ones; exactly zero factor columns; exactly zero spatial slices
        for n in range(N):
            c = t.cores[n].copy()
            r = rng.random()
            if r < 0.5 and c.shape[-1] >= 2:
                k = 0 if rng.random() < 0.6 else rng.randrange(c.shape[-1] - 1)
                c[..., k] = 0.0
            elif r < 0.65 and c.ndim == 3 and c.shape[0] >= 2:
                c[0 if rng.random() < 0.6 else rng.randrange(c.shape[0] - 1), :, :] = 0.0
            elif r < 0.75:
                c[..., rng.randrange(c.shape[-2]), :] = 0.0
            t.cores[n] = c
            if t.Us[n] is not None and t.Us[n].shape[1] >= 2 and rng.random() < 0.4:
                U = t.Us[n].copy(); U[:, 0] = 0.0
                t.Us[n] = U
    elif variant == "zero":
        n = rng.randrange(N)
        if t.Us[n] is not None and rng.random() < 0.4:
            t.Us[n] = np.zeros_like(t.Us[n])
        else:
            t.cores[n] = np.zeros_like(t.cores[n])
    elif variant == "illcond":
        idx = [n for n in range(N) if t.Us[n] is not None] or [rng.randrange(N)]
        for n in idx:
            t.Us[n] = cond_matrix(rng, shape[n], t.cores[n].shape[-2], 10 ** rng.uniform(1, 6), 10 ** rng.uniform(-3, 3))
    return t


def cases(rng, tier):
    n1 = {"quick": 900, "thorough": 13000, "search": 4500}[tier]
    n2 = {"quick": 700, "thorough": 10000, "search": 3500}[tier]
    out = []
    for _ in range(n1):
        N = rng.choice([2, 2, 3, 3, 3, 4, 4, 5])
        variant = rng.choice(VARIANTS)
        t = mk_tensor(rng, N, variant)
        out.append({"kind": "orth", "variant": variant, "t": t.to_json(), "mus": [rng.randint(-N, N - 1) for _ in range(rng.randint(1, 4))]})
        fm = [n for n in range(N) if t.Us[n] is not None]
        if fm and len(out[-1]["mus"]) >= 2 and rng.random() < 0.5:
            # between two calls the tensor is edited through the public API in a way that touches a Tucker FACTOR only (the cores stay in
            # the gauge the previous call left): a square matrix applied along a factored mode (tn.ttm) or a slice of that mode
            pert = []
            for _ in out[-1]["mus"][1:]:
                n = rng.choice(fm); I = t.shape[n]
                if rng.random() < 0.5 or I < 2:
                    pert.append(["ttm", n, rng.randrange(1 << 30)])
                else:
                    a = rng.randint(0, I - 2); pert.append(["slice", n, a, rng.randint(a + 1, I)])
                if rng.random() < 0.3:
                    pert[-1] = None
            out[-1]["perturb"] = pert
    for _ in range(n2):
        N = rng.choice([2, 2, 3, 3, 3, 4, 4, 5])
        variant = rng.choice(VARIANTS)
        t = mk_tensor(rng, N, variant, tt_only=rng.random() < 0.6)
        side = rng.choice(["left", "right"])
        mu = rng.randint(0, N - 2) if side == "left" else rng.randint(1, N - 1)
        out.append({"kind": side, "variant": variant, "t": t.to_json(), "mu": mu})
    return out


# ----------------------------------------------------------------------------- helpers
CP_PRED = "core mu or the neighbour receiving the triangular factor is a CP core"


def report(ctx, case, op, pred, violation, what):
    if pred == CP_PRED:
        # one defect (the documented CP->TT conversion is missing), many symptoms: raise, inconsistent cores, wrong values, 2-D core left
        if getattr(ctx, "_c13_cp_reported", False):
            return
        ctx._c13_cp_reported = True
        what = "%s: %s" % (violation, what)
        violation = "CP core not converted (raises / inconsistent cores / changed values / 2-D core left)"
    cls = {"op": op, "predicate": pred, "violation": violation}
    ctx.oracle("%s: %s [%s]" % (op, what, pred), case, cls=cls)
    ctx.count("violation:%s:%s" % (op, violation))


def as_tt_core(c, n, N):
    """the TT core a CP factor stands for (whole-tensor convention: first (1,s,R), last (R,s,1), interior diagonal)"""
    if c.ndim == 3:
        return c
    s, R = c.shape
    if n == 0:
        return c[None, :, :]
    if n == N - 1:
        return c.T[:, :, None]
    g = np.zeros((R, s, R))
    for k in range(R):
        g[k, :, k] = c[:, k]
    return g


def with_factor(c3, U):
    return c3 if U is None else np.einsum("ajb,ij->aib", c3, U)


def dense_same(x, y, S):
    if x.shape != y.shape:
        return False, "shape %s vs %s" % (y.shape, x.shape)
    if not np.all(np.isfinite(y)):
        return False, "non-finite"
    err = float(np.max(np.abs(x - y))) if x.size else 0.0
    return err <= 1e-9 * float(np.max(np.abs(x))) + 1e-13 * S, err


def pred_orth(t, case):
    return "variant=%s" % case["variant"]


def check_gauge(ctx, case, op, pred, t0, x, S, r, mu, step):
    """after orthogonalize(mu): r is the tntorch tensor"""
    N = t0.N
    pt = from_tn(r)
    tag = "after step %d (mu=%d)" % (step, mu)
    if any(c.ndim != 3 for c in pt.cores):
        report(ctx, case, op, pred, "CP core left", "%s: cores %s are not all 3-D" % (tag, [c.shape for c in pt.cores])); return False
    if pt.cores[0].shape[0] != 1 or pt.cores[-1].shape[2] != 1:
        report(ctx, case, op, pred, "boundary rank != 1", "%s: core shapes %s" % (tag, [c.shape for c in pt.cores])); return False
    ok = True
    for i in range(N):
        c = pt.cores[i]
        if i < mu:
            dev = gram_dev(c.reshape(-1, c.shape[2]))
            if dev > 1e-9:
                report(ctx, case, op, pred, "core not left-orthonormal", "%s: core %d left unfolding: max|Q^TQ-I| = %.3e" % (tag, i, dev)); ok = False
        elif i > mu:
            dev = gram_dev(c.reshape(c.shape[0], -1).T)
            if dev > 1e-9:
                report(ctx, case, op, pred, "core not right-orthonormal", "%s: core %d right unfolding: max|QQ^T-I| = %.3e" % (tag, i, dev)); ok = False
        if i != mu and pt.Us[i] is not None:
            dev = gram_dev(pt.Us[i])
            if dev > 1e-9:
                report(ctx, case, op, pred, "factor not orthonormal", "%s: factor %d: max|U^TU-I| = %.3e" % (tag, i, dev)); ok = False
    y = pt.dense()
    same, err = dense_same(x, y, S)
    if not same:
        report(ctx, case, op, pred, "dense array changed", "%s: %s" % (tag, err)); ok = False
    d = safe(lambda: r.torch().detach().double().numpy())
    if d[0] == "err":
        report(ctx, case, op, pred, "raised", "%s: torch() raised %s: %s" % (tag, d[1], d[2])); ok = False
    else:
        same, err = dense_same(x, d[1], S)
        if not same:
            report(ctx, case, op, pred, "dense array changed", "%s: torch(): %s" % (tag, err)); ok = False
    nx = frob(x)
    ncore = frob(with_factor(pt.cores[mu], pt.Us[mu]))
    tol = 1e-9 * nx + 1e-13 * S
    if abs(ncore - nx) > tol:
        report(ctx, case, op, pred, "norm not concentrated in core mu", "%s: ||core_mu x U_mu|| = %.12e, ||x|| = %.12e" % (tag, ncore, nx)); ok = False
    nn = safe(lambda: float(tn.norm(r)))
    if nn[0] == "err":
        report(ctx, case, op, pred, "raised", "%s: tn.norm raised %s: %s" % (tag, nn[1], nn[2])); ok = False
    elif not (abs(nn[1] - ncore) <= 2 * tol):
        report(ctx, case, op, pred, "norm not concentrated in core mu", "%s: tn.norm(t) = %.12e, ||core_mu x U_mu|| = %.12e" % (tag, nn[1], ncore)); ok = False
    return ok


def run_orth(ctx, case):
    t = PT.from_json(case["t"])
    N = t.N
    x = t.dense()
    S = rep_scale(t)
    op = "orthogonalize"
    pred = pred_orth(t, case)
    ctx.case((op, t.sig(), case["variant"], tuple(case["mus"])), True, {"op": op, "t": t.describe(), "variant": case["variant"], "mus": case["mus"]})
    ctx.count("op:" + op); ctx.count("variant:" + case["variant"]); ctx.count("history:%d" % len(case["mus"]))
    fmt_counts(ctx, t)
    if any(m < 0 for m in case["mus"]):
        ctx.count("negative_mu")
    if any(c.shape[-1] > (c.shape[0] if c.ndim == 3 else 1) * c.shape[-2] for c in t.cores):
        ctx.count("unfolding_wider_than_tall")
    tt = t.to_tn()
    r = tt.clone()
    prev_tt = list(t.ranks()); prev_tt[0] = prev_tt[-1] = 1
    prev_tk = list(t.tranks())
    for step, mu in enumerate(case["mus"]):
        pb = case.get("perturb")
        if pb and step >= 1 and pb[step - 1] is not None and r.Us[pb[step - 1][1]] is not None:
            p_ = pb[step - 1]; n = p_[1]
            if p_[0] == "ttm":
                I = x.shape[n]
                A = np.random.RandomState(p_[2] % (1 << 31)).uniform(-1, 1, (I, I))
                e = safe(lambda: tn.ttm(r, torch.tensor(A), dim=n))
                x2 = np.moveaxis(np.tensordot(A, x, axes=(1, n)), 0, n)
            else:
                a, b = p_[2], min(p_[3], x.shape[n])
                if a >= b:
                    a, b = 0, x.shape[n]
                key = tuple([slice(None)] * n + [slice(a, b)])
                e = safe(lambda: r[key])
                x2 = x[key]
            if e[0] == "ok" and isinstance(e[1], tn.Tensor) and tuple(e[1].shape) == x2.shape:
                r, x = e[1], x2
                S = max(S, float(np.max(np.abs(x))) if x.size else S)
                ctx.count("factor edited between calls:" + p_[0])
        res = safe(lambda: r.orthogonalize(mu))
        if res[0] == "err":
            report(ctx, case, op, pred, "raised", "step %d (mu=%d) raised %s: %s" % (step, mu, res[1], res[2])); ctx.count("impl_raise:" + res[1]); return
        m = mu + N if mu < 0 else mu
        if not check_gauge(ctx, case, op, pred, t, x, S, r, m, step):
            return
        pt = from_tn(r)
        if any(a > b for a, b in zip(pt.ranks(), prev_tt)) or any(a > b for a, b in zip(pt.tranks(), prev_tk)):
            report(ctx, case, op, pred, "rank increased", "step %d (mu=%d): ranks_tt %s -> %s, ranks_tucker %s -> %s" % (step, mu, prev_tt, list(pt.ranks()),
                                                                                                                    prev_tk, list(pt.tranks())))
        prev_tt, prev_tk = list(pt.ranks()), list(pt.tranks())
        if tuple(int(v) for v in r.ranks_tt) != pt.ranks() or tuple(int(v) for v in r.ranks_tucker) != pt.tranks() or tuple(r.shape) != x.shape:
            report(ctx, case, op, pred, "accessors", "shape/ranks accessors disagree with the cores")
        if getattr(ctx, "use_model", False) and not getattr(ctx, "search_only", False):
            pass  # MODEL HOOK: from_tn(r) = cores/factors after this step; QR answers to be recorded here
    if core.cmp_struct(from_tn(tt), t, True) is not None:
        report(ctx, case, op, pred, "operand modified", "orthogonalize on a clone modified the original")


def run_side(ctx, case):
    side = case["kind"]
    t = PT.from_json(case["t"])
    N, mu = t.N, case["mu"]
    nb = mu + 1 if side == "left" else mu - 1
    x = t.dense()
    S = rep_scale(t)
    op = side + "_orthogonalize"
    cp_here = t.cores[mu].ndim == 2 or t.cores[nb].ndim == 2
    cp_any = any(c.ndim == 2 for c in t.cores)
    ctx._c13_cp_reported = False
    pred = (CP_PRED if cp_here else
            ("another core is CP (core mu and the neighbour are TT cores)" if cp_any else "all cores are TT cores"))
    ctx.case((op, t.sig(), case["variant"], mu), True, {"op": op, "t": t.describe(), "variant": case["variant"], "mu": mu})
    ctx.count("op:" + op); ctx.count("variant:" + case["variant"]); ctx.count("cp_at_mu_or_neighbour" if cp_here else "tt_at_mu_and_neighbour")
    fmt_counts(ctx, t)
    r = t.to_tn()
    res = safe(lambda: (r.left_orthogonalize(mu) if side == "left" else r.right_orthogonalize(mu)))
    if res[0] == "err":
        report(ctx, case, op, pred, "raised", "mu=%d raised %s: %s" % (mu, res[1], res[2])); ctx.count("impl_raise:" + res[1]); return
    F = res[1]
    pt = from_tn(r)
    d = safe(lambda: pt.dense())
    if d[0] == "err":
        report(ctx, case, op, pred, "inconsistent cores", "cores after the call cannot be contracted: %s %s; shapes %s" % (d[1], d[2], [c.shape for c in pt.cores])); return
    same, err = dense_same(x, d[1], S)
    if not same:
        report(ctx, case, op, pred, "dense array changed", "mu=%d: %s" % (mu, err))
    d2 = safe(lambda: r.torch().detach().double().numpy())
    if d2[0] == "err":
        report(ctx, case, op, pred, "raised", "torch() after the call raised %s: %s" % (d2[1], d2[2]))
    elif same:
        s2, e2 = dense_same(x, d2[1], S)
        if not s2:
            report(ctx, case, op, pred, "dense array changed", "mu=%d: torch(): %s" % (mu, e2))
    c = pt.cores[mu]
    if c.ndim != 3:
        report(ctx, case, op, pred, "CP core left", "core mu has shape %s after the call (documented: CP cores are turned into TT cores)" % (c.shape,)); return
    dev = gram_dev(c.reshape(-1, c.shape[2])) if side == "left" else gram_dev(c.reshape(c.shape[0], -1).T)
    if dev > 1e-9:
        report(ctx, case, op, pred, "core not %s-orthonormal" % side, "core %d: max|Gram-I| = %.3e" % (mu, dev))
    if pt.Us[mu] is not None:
        dev = gram_dev(pt.Us[mu])
        if dev > 1e-9:
            report(ctx, case, op, pred, "factor not orthonormal", "factor %d: max|U^TU-I| = %.3e" % (mu, dev))
    if not isinstance(F, torch.Tensor) or F.dim() != 2:
        report(ctx, case, op, pred, "returned factor", "returned %s" % (type(F).__name__ if not isinstance(F, torch.Tensor) else tuple(F.shape),)); return
    F = F.detach().double().numpy()
    if not (t.cores[mu].ndim == 3 and t.cores[nb].ndim == 3):
        return
    ctx.count("structural_identities_checked")
    oc, on = t.cores[mu], t.cores[nb]
    old_full = with_factor(oc, t.Us[mu])
    sc = max(frob(old_full), 1e-300)
    if side == "left":
        k, r1 = c.shape[2], oc.shape[2]
        if F.shape != (k, r1):
            report(ctx, case, op, pred, "returned factor", "R has shape %s, expected (new rank %d, old rank %d)" % (F.shape, k, r1)); return
        rec = with_factor((c.reshape(-1, k) @ F).reshape(c.shape[0], c.shape[1], r1), pt.Us[mu])
        exp_nb = (F @ on.reshape(on.shape[0], -1)).reshape((k,) + on.shape[1:])
    else:
        k, r0 = c.shape[0], oc.shape[0]
        if F.shape != (r0, k):
            report(ctx, case, op, pred, "returned factor", "L has shape %s, expected (old rank %d, new rank %d)" % (F.shape, r0, k)); return
        rec = with_factor((F @ c.reshape(k, -1)).reshape(r0, c.shape[1], c.shape[2]), pt.Us[mu])
        exp_nb = (on.reshape(-1, on.shape[2]) @ F).reshape(on.shape[:2] + (k,))
    if rec.shape != old_full.shape or float(np.max(np.abs(rec - old_full))) > 1e-9 * float(np.max(np.abs(old_full))) + 1e-13 * frob(oc) * (frob(t.Us[mu]) if t.Us[mu] is not None else 1.0):
        report(ctx, case, op, pred, "Q@R != old core", "orthonormal core times returned factor (with the new Tucker factor) differs from the old core with its factor")
    new_nb = pt.cores[nb]
    if new_nb.shape != exp_nb.shape or float(np.max(np.abs(new_nb - exp_nb))) > 1e-12 * max(float(np.max(np.abs(exp_nb))), 1e-300) + 1e-14 * frob(F) * frob(on):
        report(ctx, case, op, pred, "neighbour != returned factor times old neighbour", "core %d after the call is not the returned factor applied to the old core" % nb)
    if getattr(ctx, "use_model", False) and not getattr(ctx, "search_only", False):
        pass  # MODEL HOOK: pt (cores after), F (returned factor)


def run_case(ctx, case):
    if case["kind"] == "orth":
        run_orth(ctx, case)
    else:
        run_side(ctx, case)


# =============================================================================== correspondence with the Lean model (main session)
def _corr_cases(rng, tier):
    from core import gen_tensor
    n = {"quick": 120, "thorough": 1500, "search": 0}[tier]
    out = []
    for _ in range(n):
        N = rng.choice([2, 2, 3, 3, 4])
        shape = [rng.randint(2, 4) for _ in range(N)]
        t = gen_tensor(rng, shape, rmax=3, stream="float")
        side = rng.choice(["left", "right"])
        mu = rng.randint(0, N - 2) if side == "left" else rng.randint(1, N - 1)
        out.append({"kind": "corr", "t": t.to_json(), "side": side, "mu": mu})
    return out


_orig_cases = cases
_orig_run_case = run_case


def cases(rng, tier):  # noqa: F811
    return _orig_cases(rng, tier) + _corr_cases(rng, tier)


class _QRRecorder:
    """records the answers of torch.linalg.qr while active (in-process wrapping, no repo hook)"""

    def __enter__(self):
        import torch
        self.calls = []
        self.orig = torch.linalg.qr

        def wrapped(A, *a, **kw):
            Q, R = self.orig(A, *a, **kw)
            self.calls.append((A.detach().clone(), Q.detach().clone(), R.detach().clone()))
            return Q, R
        torch.linalg.qr = wrapped
        return self

    def __exit__(self, *exc):
        import torch
        torch.linalg.qr = self.orig


def _mat(M):
    from core import q
    M = M.numpy()
    return "M %d %d %s" % (M.shape[0], M.shape[1], " ".join(q(v) for v in M.reshape(-1)))


def run_case(ctx, case):  # noqa: F811
    if case.get("kind") != "corr":
        return _orig_run_case(ctx, case)
    import numpy as np, torch
    from core import PT, parse_tensor, cmp_struct, from_tn, safe, close
    t = PT.from_json(case["t"])
    side, mu = case["side"], case["mu"]
    ctx.case(("corr", side, mu, t.sig()), True, {"op": "model correspondence: %s_orthogonalize(%d) with recorded QR answers" % (side, mu), "t": t.describe()})
    ctx.count("corr:" + side)
    if not (getattr(ctx, "use_model", False) and not getattr(ctx, "search_only", False)):
        return
    tt = t.to_tn()
    with _QRRecorder() as rec:
        r = safe(lambda: tt.left_orthogonalize(mu) if side == "left" else tt.right_orthogonalize(mu))
    if r[0] == "err":
        ctx.oracle("%s_orthogonalize(%d) raised %s: %s" % (side, mu, r[1], r[2]), case); return
    # kernel contract validated numerically: Q R = A, Q^T Q = I
    for A, Q, Rm in rec.calls:
        if not close((Q @ Rm).numpy(), A.numpy(), 1e-10)[0] or not close((Q.T @ Q).numpy(), np.eye(Q.shape[1]), 1e-10)[0]:
            ctx.count("kernel_contract_violated"); return
    has_fac = t.Us[mu] is not None
    calls = list(rec.calls)
    if len(calls) != (2 if has_fac else 1):
        ctx.corr("unexpected number of QR calls: %d" % len(calls), case); return
    line = "%s_orth %d %d " % (side, mu, 1 if has_fac else 0)
    if has_fac:
        line += _mat(calls[0][1]) + " " + _mat(calls[0][2]) + " "
    A, Q, Rm = calls[-1]
    if side == "left":
        line += _mat(Q) + " " + _mat(Rm)
    else:   # QR of the transposed right unfolding: unfolding = L Q'  with L = R^T, Q' = Q^T
        line += _mat(Q.T.contiguous()) + " " + _mat(Rm.T.contiguous())
    toks = ctx.drv().call(line + " " + t.ser())
    if toks[0] != "ok":
        ctx.corr("model %s_orth failed: %s" % (side, " ".join(toks[:5])), case); return
    m = parse_tensor(toks, 1)[0]
    d = cmp_struct(from_tn(tt), m, False, rtol=1e-9)
    if d is not None:
        ctx.corr("%s_orthogonalize(%d): implementation cores differ from the model fed with the same QR answers: %s" % (side, mu, d), case)
    md = PT([np.asarray(c, dtype=np.float64) for c in m.cores], [None if U is None else np.asarray(U, dtype=np.float64) for U in m.Us]).dense()
    if not close(md, t.dense(), 1e-8)[0]:
        ctx.spec("model: orthogonalisation step changed the tensor", case)
