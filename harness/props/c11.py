"""C11 — assignment into a compressed tensor equals assignment into the dense array."""
import numpy as np, torch, random
import core
from core import PT, gen_tensor, from_tn, parse_tensor, cmp_struct, close, q, safe, tn
from props.c03 import gen_slice, py_key, ser_key

RULE = ("histories of 1..4 (thorough: ..10) successive assignments t[key] = value on one tensor in any format mix with 1..4 modes; "
        "key = per-mode int (negative allowed) | slice (clipped, steps 1..3, possibly empty), optionally with an Ellipsis or trailing "
        "entries dropped; value = Python/NumPy/torch scalar | dense ndarray | torch tensor | compressed tensor (any format) of the "
        "selected shape. After every assignment the tensor is compared with a dense shadow array (NumPy assignment); after a raised "
        "error the tensor must be unchanged; 15% of the dense-value steps first try a value of ANOTHER shape (axes permuted, the length-1 axis moved/dropped/added, flattened, one extent off by one) that NumPy refuses to broadcast: it must raise and leave t unchanged. distinct = (format signature, shape, key kinds, value kind); non-trivial as usual")
TRUSTED = ["NumPy basic-index assignment as oracle", "float rounding (1e-9 scaled)"]
ASSUMPTIONS = ["WFstd tensors; values have exactly the selected shape (no broadcasting of the value is required by the property)"]

VALUE_KINDS = ["scalar", "scalar_np", "scalar_t0", "ndarray", "torch", "tensor"]


def gen_akey(rng, shape):
    N = len(shape)
    key = []
    for m in range(N):
        if rng.random() < 0.4:
            key.append(["i", rng.randint(-shape[m], shape[m] - 1)])
        else:
            key.append(gen_slice(rng, shape[m]))
    r = rng.random()
    if r < 0.25:
        a = rng.randint(0, N); b = rng.randint(a, N)
        key = key[:a] + [["e"]] + key[b:]
    elif r < 0.45:
        key = key[:rng.randint(0, N)]
    return key


def cases(rng, tier):
    n = {"quick": 500, "thorough": 3000, "search": 900}[tier]
    maxlen = 10 if tier == "thorough" else 4
    out = []
    for _ in range(n):
        N = rng.choice([1, 2, 2, 3, 3, 4])
        stream = "int" if rng.random() < 0.6 else "float"
        shape = [1 if rng.random() < 0.1 else rng.randint(2, 5) for _ in range(N)]
        t = gen_tensor(rng, shape, stream=stream)
        steps = []
        for _ in range(rng.randint(1, maxlen)):
            key = gen_akey(rng, shape)
            r = rng.random()
            if r < 0.08:
                # malformed stream: an integer outside [-n, n) on some mode (must raise, tensor unchanged)
                pos = [i for i, k in enumerate(key) if k[0] in ("i", "s")]
                if pos:
                    i = rng.choice(pos)
                    # the mode this entry addresses (entries before an Ellipsis count from the left, after it from the right)
                    e = [j for j, k in enumerate(key) if k[0] == "e"]
                    m = i if (not e or i < e[0]) else N - (len(key) - i)
                    n_m = shape[m]
                    key[i] = ["i", n_m + rng.randint(0, 2)] if rng.random() < 0.5 else ["i", -n_m - 1 - rng.randint(0, 2)]
            elif r < 0.11:
                # malformed stream: more entries than modes
                key = [k for k in key if k[0] != "e"] + [["i", 0]] * (N + 1 - len([k for k in key if k[0] != "e"]))
            steps.append({"key": key, "vk": rng.choice(VALUE_KINDS), "vseed": rng.randrange(1 << 30)})
        out.append({"t": t.to_json(), "steps": steps, "stream": stream})
    return out


def sel_shape(shape, key):
    x = np.zeros(shape)
    return x[py_key(key)].shape


def run_case(ctx, case):
    use_model = getattr(ctx, "use_model", False) and not getattr(ctx, "search_only", False)
    t = PT.from_json(case["t"])
    exact = case["stream"] == "int"
    shadow = t.dense().copy()
    tt = t.to_tn()
    mt = t  # model-side tensor (PT with exact entries)
    kinds_hist = []
    for si, st in enumerate(case["steps"]):
        key = st["key"]
        pk = py_key(key)
        vrng = random.Random(st["vseed"])
        try:
            sshape = shadow[pk].shape
        except IndexError:
            # ---- an assignment NumPy itself refuses (index out of range / too many indices): must raise and leave t unchanged
            ctx.count("invalid_key")
            kinds_hist.append((tuple(k[0] for k in key), "invalid"))

            def bad():
                tt[pk] = 1.5
            res = safe(bad)
            after = safe(lambda: tt.torch().detach().double().numpy())
            if res[0] != "err":
                ctx.oracle("step %d: t[%s] = 1.5 on shape %s did not raise (NumPy: IndexError)%s" % (
                    si, pk, list(shadow.shape), "" if (after[0] == "ok" and close(after[1], shadow, 1e-9)[0]) else " and the tensor was modified"),
                    case, cls={"op": "setitem", "predicate": "invalid key accepted"})
                break
            if after[0] == "err" or not close(after[1], shadow, 1e-9)[0]:
                ctx.oracle("step %d: rejected assignment t[%s] left the tensor modified" % (si, pk), case,
                           cls={"op": "setitem", "predicate": "error left tensor modified"})
                break
            if use_model:
                toks = ctx.drv().call("setitem_scalar %s %s %s" % (q(1.5), ser_key(key), mt.ser()))
                if toks[0] == "ok":
                    ctx.corr("step %d: the model accepts the invalid key %s that the implementation rejects" % (si, pk), case); break
                ctx.count("invalid_key:model_agrees:" + " ".join(toks[1:2]))
            continue
        vk = st["vk"]
        kinds = tuple(k[0] for k in key)
        kinds_hist.append((kinds, vk))
        ctx.count("value:" + vk)
        for k in kinds:
            ctx.count("item:" + k)
        if any(s == 0 for s in sshape):
            ctx.count("empty_selection")
        # ---- build the value
        mval = None
        if vk.startswith("scalar"):
            c = float(vrng.randint(-3, 3)) if exact else vrng.uniform(-2, 2)
            val = {"scalar": c, "scalar_np": np.float64(c), "scalar_t0": torch.tensor(c, dtype=torch.float64)}[vk]
            newshadow = shadow.copy(); newshadow[pk] = c
            mval = ("scalar", c)
        else:
            if len(sshape) == 0:
                # all-int key: the selected shape is (): only a scalar fits
                c = float(vrng.randint(-3, 3))
                val = c; vk = "scalar"
                newshadow = shadow.copy(); newshadow[pk] = c
                mval = ("scalar", c)
            else:
                if vk == "tensor":
                    vt = gen_tensor(vrng, list(sshape), stream=case["stream"], rmax=2) if all(s > 0 for s in sshape) else None
                    if vt is None:
                        arr = np.zeros(sshape); val = arr; vk = "ndarray"
                    else:
                        arr = vt.dense(); val = vt.to_tn(); mval = ("tensor", vt)
                else:
                    n = int(np.prod(sshape))
                    arr = (np.array([vrng.randint(-3, 3) for _ in range(n)], dtype=np.float64) if exact
                           else np.array([vrng.gauss(0, 1) for _ in range(n)])).reshape(sshape)
                    val = arr if vk == "ndarray" else torch.tensor(arr, dtype=torch.float64)
                    mval = ("dense", arr)
                newshadow = shadow.copy(); newshadow[pk] = arr
                # ---- a value that is NOT of the selected shape and that NumPy cannot broadcast into it either: "cannot be honoured"
                if mval is not None and mval[0] == "dense" and arr.size > 0 and vrng.random() < 0.15:
                    sh = list(sshape)
                    cands = []
                    if len(sh) >= 2:
                        cands.append(sh[1:] + sh[:1]); cands.append(sh[::-1])
                    ones = [k for k, s_ in enumerate(sh) if s_ == 1]
                    for k in ones:                       # the singleton axis somewhere else / dropped
                        rest = sh[:k] + sh[k + 1:]
                        for pos in range(len(rest) + 1):
                            cands.append(rest[:pos] + [1] + rest[pos:])
                    cands.append(sh + [1]); cands.append([int(np.prod(sh))])
                    k = vrng.randrange(len(sh)); cands.append(sh[:k] + [sh[k] + 1] + sh[k + 1:])
                    vrng.shuffle(cands)
                    for wsh in cands:
                        if list(wsh) == sh:
                            continue
                        warr = (arr.reshape(wsh) if int(np.prod(wsh)) == arr.size else np.ones(wsh))
                        try:
                            probe = shadow.copy(); probe[pk] = warr
                            continue                     # NumPy broadcasts it: not an unambiguous error
                        except ValueError:
                            pass
                        wval = warr if vk == "ndarray" else torch.tensor(warr, dtype=torch.float64)
                        ctx.count("wrong_shape_value")
                        r_ = safe(lambda: tt.__setitem__(pk, wval))
                        after = safe(lambda: tt.torch().detach().double().numpy())
                        unchanged = after[0] == "ok" and after[1].shape == shadow.shape and close(after[1], shadow, 1e-9)[0]
                        if r_[0] != "err" or not unchanged:
                            ctx.oracle("step %d: t[%s] = <%s of shape %s> into a selection of shape %s (NumPy: ValueError) %s%s" % (
                                si, pk, vk, tuple(wsh), tuple(sh), "did not raise" if r_[0] != "err" else "raised",
                                "" if unchanged else " and the tensor was modified"), case,
                                cls={"op": "setitem", "predicate": "value of another shape accepted" if r_[0] != "err" else "error left tensor modified"})
                        break
        before = from_tn(tt)

        def do():
            tt[pk] = val
        res = safe(do)
        cls = None
        if res[0] == "err":
            ctx.count("impl_raise:" + res[1])
            # an assignment within the grammar with a value of the selected shape must be honoured
            ctx.oracle("step %d: t[%s] = <%s of shape %s> raised %s: %s" % (si, pk, vk, tuple(sshape), res[1], res[2]), case,
                       cls={"op": "setitem", "predicate": "valid assignment rejected", "value": vk.split("_")[0],
                            "has_int": "i" in kinds, "empty": bool(any(s == 0 for s in sshape))})
            # ... and the tensor must be unchanged
            after = safe(lambda: tt.torch().detach().double().numpy())
            if after[0] == "err" or not close(after[1], shadow, 1e-9)[0]:
                ctx.oracle("step %d: failed assignment left the tensor modified" % si, case,
                           cls={"op": "setitem", "predicate": "error left tensor modified"})
            break
        got = safe(lambda: tt.torch().detach().double().numpy())
        if got[0] == "err":
            ctx.oracle("step %d: tensor cannot be decompressed after assignment: %s %s" % (si, got[1], got[2]), case); break
        ok, err = close(got[1], newshadow, 1e-9) if got[1].shape == newshadow.shape else (False, "shape %s" % (got[1].shape,))
        if not ok:
            ctx.oracle("step %d: t[%s] = <%s %s>: tensor differs from the dense assignment (%s)" % (si, pk, vk, tuple(sshape), err), case,
                       cls={"op": "setitem", "predicate": "wrong values", "value": vk.split("_")[0], "has_int": "i" in kinds,
                            "neg_int": any(k[0] == "i" and k[1] < 0 for k in key), "factor": any(U is not None for U in before.Us)})
            ctx.count("oracle_mismatch")
            break
        shadow = newshadow
        if use_model and mval is not None:
            if mval[0] == "scalar":
                line = "setitem_scalar %s %s %s" % (q(mval[1]), ser_key(key), mt.ser())
            elif mval[0] == "dense":
                line = "setitem_dense %d %s %s %s %s" % (len(sshape), " ".join(map(str, sshape)), " ".join(q(v) for v in mval[1].reshape(-1)), ser_key(key), mt.ser())
            else:
                line = "setitem_tensor %s %s %s" % (mval[1].ser(), ser_key(key), mt.ser())
            toks = ctx.drv().call(line)
            if toks[0] != "ok":
                ctx.corr("step %d: model rejected the assignment: %s" % (si, " ".join(toks[:5])), case); break
            mt = parse_tensor(toks, 1)[0]
            d = cmp_struct(from_tn(tt), mt, exact)
            if d is not None:
                ctx.corr("step %d: implementation cores differ from model cores: %s" % (si, d), case); ctx.count("corr_mismatch"); break
            md = PT([np.asarray(c, dtype=np.float64) for c in mt.cores], [None if U is None else np.asarray(U, dtype=np.float64) for U in mt.Us]).dense()
            if not close(md, shadow, 1e-9)[0]:
                ctx.spec("step %d: model result differs from the dense assignment" % si, case); break
    ctx.case((t.sig(), tuple(kinds_hist)), t.nontrivial(), {"t": t.describe(), "steps": [{"key": s["key"], "value": s["vk"]} for s in case["steps"]]})
    ctx.count("history_len:%d" % len(case["steps"]))
