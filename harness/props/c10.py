"""C10 — ANOVA decomposition: terms sum to the function, are centred and orthogonal (oracle search on the real code)."""
import itertools, random
import numpy as np, torch
import core
from core import PT, gen_tensor, from_tn, cmp_struct, close, safe, tn, amax
from props.c02 import with_dd
from props import _c_anova as A
from props import c15 as L

RULE = ("hybrid tensors (per-mode TT|CP x factor none|narrow|square|wide, ranks <= 3; int and float streams) with 1..4 modes of size 1..4; "
        "marginals None, or per mode None | positive vector (normalised, or scaled by an arbitrary positive constant; 30%: one vector OBJECT shared by all modes of its size); one case checks, "
        "against the inclusion-exclusion ANOVA of the dense array: (A) every entry of anova_decomposition(t, m) (entry j with support "
        "S={n: j_n>0} is f_S at x_S=j_S-1), (B) undo(anova) = t, (C) for EVERY subset S the term undo(mask(anova, indicator S)) — the "
        "indicator built as presence&absence, as only(all(S)) or as a rounded formula — equals the brute-force term, is constant along the "
        "modes outside S, has zero weighted mean along each mode of S; the empty term is the mean, (D) distinct terms orthogonal under the "
        "product measure and term variances add up to the directly computed variance, (E) truncate_anova(t, mask, keepdim, marginals) for a "
        "random Boolean formula (truth table over subset indicators; optionally rounded -> Tucker factors on the mask) with keepdim on and "
        "off: equals the sum of the selected terms, and without keepdim exactly the modes in no selected subset are dropped; (F) operands "
        "(tensor cores, marginal vectors) unchanged by every call. Default dtype float64 (1e-8 scaled by max|t|); float32 default for 8% "
        "of the cases (float64 tensor and float64 masks while torch's default dtype is its factory setting float32; 1e-5). distinct = (format signature, shape, ranks, marginal kinds, "
        "mask formula, dd); non-trivial = >1 mode or rank>1 or a factor")
TRUSTED = ["the NumPy inclusion-exclusion ANOVA (props/_c_anova.py) on PT.dense() is the oracle; by the uniqueness theorem of the design any "
           "correct definition of the terms agrees with it",
           "float64 round-off of O(2^N) sums of products (1e-8 relative to max|t| is >= 1e5 ulps)"]
ASSUMPTIONS = ["inputs are WFstd tensors; marginal vectors are strictly positive float64 torch vectors of the mode's size",
               "truncate_anova masks are 0/1 tensors of shape 2^N built with the documented logic constructors"]


def gen_marginals(rng, shape, p_none=0.3, p_zero=0.0):
    """JSON description: None or list of (None | list of floats)"""
    if rng.random() < p_none:
        return None
    out = []
    for I in shape:
        r = rng.random()
        if r < 0.2:
            out.append(None)
            continue
        v = [rng.uniform(0.1, 2.0) for _ in range(I)]
        if p_zero and I >= 2 and rng.random() < p_zero:
            for k in rng.sample(range(I), rng.randint(1, I - 1)):
                v[k] = 0.0
        s = sum(v)
        kind = rng.choice(["normalised", "scaled", "scaled", "raw"])
        if kind == "normalised":
            v = [a / s for a in v]
        elif kind == "scaled":
            c = rng.choice([0.01, 0.5, 3.0, 17.0, 1000.0])
            v = [a / s * c for a in v]
        out.append(v)
    if rng.random() < 0.3:           # one vector object shared by every mode of that size (marginals=[w]*N): see to_torch_marginals
        first = {}
        for k, v in enumerate(out):
            if v is not None:
                out[k] = first.setdefault(len(v), v)
    return out


def marg_kind(m):
    if m is None:
        return "None"
    ks = []
    for v in m:
        if v is None:
            ks.append("u")
        elif abs(sum(v) - 1.0) < 1e-12:
            ks.append("n")
        else:
            ks.append("s")
        if v is not None and min(v) == 0.0:
            ks[-1] += "0"
    return "".join(ks)


def to_torch_marginals(m):
    if m is None:
        return None
    shared = {}      # equal vectors are handed over as ONE torch object (what a caller writing [w] * N passes)
    return [None if v is None else shared.setdefault(tuple(v), torch.tensor(v, dtype=torch.float64)) for v in m]


def cases(rng, tier):
    n = {"quick": 600, "thorough": 5000, "search": 1500}[tier]
    out = []
    for _ in range(n):
        N = rng.choice([1, 2, 2, 3, 3, 3, 4])
        hi = 4 if N <= 3 else 3
        shape = [1 if rng.random() < 0.1 else rng.randint(2, hi) for _ in range(N)]
        stream = "int" if rng.random() < 0.5 else "float"
        t = gen_tensor(rng, shape, stream=stream)
        out.append({"t": t.to_json(), "stream": stream, "marginals": gen_marginals(rng, shape),
                    "mask": L.rnd_tree(rng, N, rng.randint(1, 3)), "mask_round": rng.random() < 0.3,
                    "ind": rng.choice(["pa", "only", "rounded"]), "dd": "float32" if rng.random() < 0.08 else "float64"})
    return out


def in_class(case, t):
    if case["dd"] == "float32":
        return "float64 tensor under default dtype float32"
    kinds = t.kinds()
    cores = "CP" if all(k.startswith("cp") for k in kinds) else ("TT" if all(k.startswith("tt") for k in kinds) else "TT+CP")
    fac = "with Tucker factors" if any(U is not None for U in t.Us) else "no factors"
    return "%s; cores %s, %s; marginals %s" % ("1 mode" if t.N == 1 else ">=2 modes", cores, fac, "None" if case["marginals"] is None else "given")


def indicator_mask(N, S, how):
    notS = [n for n in range(N) if n not in S]
    if how == "only" and len(S) > 0:
        return tn.only(tn.all(N, list(S)))
    m = tn.presence(N, list(S)) & tn.absence(N, notS)
    if how == "rounded":
        m = m | tn.false(N)
        m.round()
    return m


def as_np(r):
    if isinstance(r, tn.Tensor):
        return r.torch().detach().double().numpy()
    if isinstance(r, torch.Tensor):
        return r.detach().double().numpy()
    return np.asarray(r, dtype=np.float64)


def run_case(ctx, case):
    t = PT.from_json(case["t"])
    N, shape, dd = t.N, t.shape, case["dd"]
    x = t.dense()
    w = A.norm_marginals(shape, case["marginals"])
    terms, D = A.term_variances(x, w)
    var, mean = A.total_variance(x, w)
    scale = max(1.0, amax(x))
    tol = (1e-8 if dd == "float64" else 1e-5)
    pcls = in_class(case, t)
    ctx.case((t.sig(), marg_kind(case["marginals"]), repr(case["mask"]), case["mask_round"], case["ind"], dd), t.nontrivial(),
             {"t": t.describe(), "marginals": marg_kind(case["marginals"]), "mask": case["mask"], "mask_round": case["mask_round"],
              "indicator": case["ind"], "default_dtype": dd})
    ctx.count("N:%d" % N); ctx.count("dd:" + dd); ctx.count("marginals:" + ("None" if case["marginals"] is None else "given"))
    ctx.count("stream:" + case["stream"])
    for k in set(t.kinds()):
        ctx.count("fmt:" + k)

    def near(a, b, power=1):
        a = np.asarray(a, dtype=np.float64); b = np.asarray(b, dtype=np.float64)
        if a.shape != b.shape:
            return False, "shape %s vs %s" % (a.shape, b.shape)
        if not np.all(np.isfinite(a)):
            return False, "non-finite"
        err = (float(np.max(np.abs(a - b))) if a.size else 0.0) / scale ** power
        return err <= tol, err

    def fail(op, what, extra=""):
        ctx.count("fail:" + op)
        ctx.oracle("%s: %s" % (op, what), case, cls={"op": op, "predicate": pcls + extra})

    def call(op, fn, pre=""):
        r = with_dd(dd, lambda: safe(fn))
        if r[0] == "err":
            ctx.count("impl_raise:%s:%s" % (op, r[1]))
            ctx.oracle("%s raised %s: %s" % (op, r[1], r[2]), case, cls={"op": op, "predicate": pre + pcls + " (raises %s)" % r[1]})
            return None
        return r[1]

    tt = t.to_tn()
    before = from_tn(tt)
    marg = to_torch_marginals(case["marginals"])
    marg0 = None if marg is None else [None if m is None else m.clone() for m in marg]

    def operands_intact(op):
        if cmp_struct(from_tn(tt), before, True) is not None:
            fail(op + " (operand)", "modified the cores/factors of its tensor operand")
        if marg is not None:
            for m, m0 in zip(marg, marg0):
                if m is not None and not torch.equal(m, m0):
                    fail(op + " (marginals)", "modified the caller's marginal vectors")
                    break

    # (A) extended tensor
    a = call("anova_decomposition", lambda: tn.anova_decomposition(tt, marg))
    if a is None:
        return
    operands_intact("anova_decomposition")
    ad = call("anova_decomposition", lambda: as_np(a))     # decompressing the returned tensor
    if ad is None:
        return
    exp = np.zeros(tuple(I + 1 for I in shape))
    for S in A.subsets(N):
        sl = tuple(slice(1, None) if n in S else slice(0, 1) for n in range(N))
        exp[sl] = terms[S]
    ok, err = near(ad, exp)
    if not ok:
        fail("anova_decomposition", "entries of the extended tensor differ from the brute-force ANOVA terms (%s)" % (err,))
    # (B) undo
    u = call("undo_anova_decomposition", lambda: as_np(tn.undo_anova_decomposition(a)))
    if u is not None:
        ok, err = near(u, x)
        if not ok:
            fail("undo_anova_decomposition", "undo(anova(t)) differs from t (%s)" % (err,))
    # (C) single terms
    impl_terms = {}
    for S in A.subsets(N):
        how = case["ind"]
        ires = with_dd("float64", lambda: safe(lambda: indicator_mask(N, S, how)))   # masks are always float64 tensors
        if ires[0] == "err" or not close(as_np(ires[1])[A.indicator(N, S)], 1.0, rtol=1e-9)[0] or not close(float(as_np(ires[1]).sum()), 1.0, rtol=1e-9)[0]:
            ctx.count("mask_unusable")      # Boolean formulas are C15's business
            continue
        f = call("term", lambda: as_np(tn.undo_anova_decomposition(tn.mask(a, ires[1]))))
        if f is None:
            break
        extra = "; indicator mask built as %s" % {"pa": "presence & absence", "only": "only(all(S))", "rounded": "a rounded formula"}[how]
        ok, err = near(f, np.broadcast_to(terms[S], x.shape))
        if not ok:
            fail("term", "term of subset %s differs from the brute-force ANOVA term (%s)" % (list(S), err), extra)
            continue
        impl_terms[S] = f
        for n in range(N):
            if n not in S:
                if not near(f, np.broadcast_to(np.take(f, [0], axis=n), f.shape))[0]:
                    fail("term", "term of subset %s varies along mode %d, which is not in the subset" % (list(S), n), extra)
            else:
                sh = [1] * N; sh[n] = shape[n]
                m = np.sum(f * w[n].reshape(sh), axis=n)
                if not near(m, np.zeros_like(m))[0]:
                    fail("term", "term of subset %s has non-zero weighted mean along mode %d" % (list(S), n), extra)
        if len(S) == 0 and not near(f, np.full(x.shape, mean))[0]:
            fail("term", "the empty term is not the constant mean", extra)
    # (D) orthogonality, variance additivity (on the implementation's terms)
    if len(impl_terms) == 2 ** N:
        worst = 0.0
        for S, T in itertools.combinations(list(impl_terms), 2):
            worst = max(worst, abs(A.inner(impl_terms[S], impl_terms[T], w, x.shape)))
        if worst / scale ** 2 > tol:
            fail("term", "distinct terms are not orthogonal under the product measure (%g)" % (worst / scale ** 2))
        tot = sum(A.inner(impl_terms[S], impl_terms[S], w, x.shape) for S in impl_terms if S)
        if abs(tot - var) / scale ** 2 > tol:
            fail("term", "term variances add up to %r, total variance is %r" % (tot, var))
    # (E) truncate_anova
    X = L.grid(N)
    mtab = L.spec(case["mask"], N, X)

    def mk_mask():
        m = L.build(case["mask"], N, tn.symbols(N), None)
        if case["mask_round"]:
            m = m.clone(); m.round()
        return m

    mres = with_dd("float64", lambda: safe(mk_mask))
    if mres[0] == "ok" and close(as_np(mres[1]), mtab.astype(np.float64), rtol=tol)[0]:
        mask = mres[1]
        sel = [S for S in A.subsets(N) if mtab[A.indicator(N, S)]]
        used = set().union(*[set(S) for S in sel]) if sel else set()
        full = sum((np.broadcast_to(terms[S], x.shape) for S in sel), np.zeros(x.shape))
        mextra = "; mask %s" % ("with Tucker factors" if any(U is not None for U in mask.Us) else "plain TT")
        for keepdim in (True, False):
            op = "truncate_anova"
            kd = "keepdim=%s; " % keepdim
            ctx.count("truncate:%s:%s" % ("all dropped" if not used else ("some dropped" if len(used) < N else "none dropped"), keepdim))
            r = call(op, lambda: as_np(tn.truncate_anova(tt, mask, keepdim=keepdim, marginals=marg)), kd)
            operands_intact(op)
            if r is None:
                continue
            e = full if keepdim else full[tuple(slice(None) if n in used else 0 for n in range(N))]
            ok, err = near(r, e)
            if not ok:
                what = "keepdim=%s: result differs from the sum of the selected terms %s (%s)" % (keepdim, [list(S) for S in sel], err)
                # diagnosis (names the class only): does the same call pass with the un-rounded, factor-free mask?
                if any(U is not None for U in mask.Us):
                    plain = with_dd("float64", lambda: L.build(case["mask"], N, tn.symbols(N), None))
                    r2 = with_dd(dd, lambda: safe(lambda: as_np(tn.truncate_anova(tt, plain, keepdim=keepdim, marginals=marg))))
                    if r2[0] == "ok" and near(r2[1], e)[0]:
                        ctx.count("fail:" + op)
                        ctx.oracle("%s: %s; passes with the factor-free mask" % (op, what), case,
                                   cls={"op": op, "predicate": kd + "mask has Tucker factors (e.g. after mask.round())"})
                        continue
                fail(op, what, "; " + kd.rstrip("; ") + mextra)
    else:
        ctx.count("mask_unusable")   # Boolean formulas are C15's business

    # hook: structural correspondence with the Lean model (cores of `a` are available here)
    if getattr(ctx, "use_model", False) and not getattr(ctx, "search_only", False):
        pass  # MODEL HOOK (main session): compare core.from_tn(a) with the model of anova_decomposition on t, marginals


# =============================================================================== correspondence with the Lean model (main session)
def _corr_cases(rng, tier):
    from core import gen_tensor
    n = {"quick": 120, "thorough": 1500, "search": 0}[tier]
    out = []
    for _ in range(n):
        N = rng.choice([1, 2, 2, 3, 3, 4])
        stream = "int" if rng.random() < 0.5 else "float"
        shape = [rng.randint(2, 4) for _ in range(N)]
        margs = None
        if rng.random() < 0.6:
            margs = [[float(rng.randint(1, 4)) if stream == "int" else rng.uniform(0.2, 2) for _ in range(s)] for s in shape]
        out.append({"kind": "corr", "t": gen_tensor(rng, shape, stream=stream).to_json(), "margs": margs, "stream": stream})
    return out


_orig_cases = cases
_orig_run_case = run_case


def cases(rng, tier):  # noqa: F811
    return _orig_cases(rng, tier) + _corr_cases(rng, tier)


def run_case(ctx, case):  # noqa: F811
    if case.get("kind") != "corr":
        return _orig_run_case(ctx, case)
    from core import PT, parse_tensor, cmp_struct, from_tn, q, safe, close
    t = PT.from_json(case["t"])
    margs = case["margs"]
    ctx.case(("corr", "anova", t.sig(), margs is None), t.nontrivial(), {"op": "model correspondence: anova_decomposition / undo", "t": t.describe(), "marginals": margs})
    ctx.count("corr:anova")
    if not (getattr(ctx, "use_model", False) and not getattr(ctx, "search_only", False)):
        return
    tm = None if margs is None else [torch.tensor(m, dtype=torch.float64) for m in margs]
    r = safe(lambda: tn.anova_decomposition(t.to_tn(), marginals=tm))
    if r[0] == "err":
        ctx.oracle("anova_decomposition raised %s: %s" % (r[1], r[2]), case); return
    ws = margs if margs is not None else [[1.0] * s for s in t.shape]
    line = "anova %d %s %s" % (t.N, " ".join("%d %s" % (len(w), " ".join(q(v) for v in w)) for w in ws), t.ser())
    toks = ctx.drv().call(line)
    if toks[0] != "ok":
        ctx.corr("model anova failed: %s" % " ".join(toks[:4]), case); return
    m = parse_tensor(toks, 1)[0]
    d = cmp_struct(from_tn(r[1]), m, False, rtol=1e-9)
    if d is not None:
        ctx.corr("anova_decomposition: implementation cores/factors differ from the model: %s" % d, case)
    r2 = safe(lambda: tn.undo_anova_decomposition(r[1]))
    if r2[0] == "err":
        ctx.oracle("undo_anova_decomposition raised %s: %s" % (r2[1], r2[2]), case); return
    toks2 = ctx.drv().call("undo_anova " + m.ser())
    m2 = parse_tensor(toks2, 1)[0]
    d2 = cmp_struct(from_tn(r2[1]), m2, False, rtol=1e-9)
    if d2 is not None:
        ctx.corr("undo_anova_decomposition: implementation differs from the model: %s" % d2, case)
    md = PT([np.asarray(c, dtype=np.float64) for c in m2.cores], [None if U is None else np.asarray(U, dtype=np.float64) for U in m2.Us]).dense()
    if not close(md, t.dense(), 1e-9)[0]:
        ctx.spec("model: undo(anova(t)) differs from t", case)
