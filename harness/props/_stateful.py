"""Sequence / statefulness cases, generic over the properties (wired in by run.py, kind == "stateful").

What the per-property modules cannot see because they build fresh objects for every call:
  * state kept between calls (memoised results on a tensor, module-level buffers, caches keyed by shape);
  * results that alias their operands, or operands/arguments that are modified in place (index arrays, weight arrays, rank lists);
  * an object queried again after it was legitimately modified in place;
  * the same caller-owned argument object used twice.
Oracles: the dense arrays where cheap, and "fresh-copy equivalence": f(object after a history) == f(a fresh tensor built from
copies of the object's current cores) — a pure function of the current value cannot tell the two apart.
"""
import random, copy, math
import numpy as np, torch
import core
from core import PT, gen_tensor, from_tn, close, safe, tn

N_CASES = {"quick": 40, "thorough": 500, "search": 150}


def cases(prop, rng, tier):
    if prop not in RUN:
        return []
    return [{"kind": "stateful", "seed": rng.randrange(1 << 30)} for _ in range(N_CASES[tier])]


def run(prop, ctx, case):
    rng = random.Random(case["seed"])
    ctx.count("stateful")
    RUN[prop](ctx, case, rng)


# ------------------------------------------------------------------------------------------------- helpers
def D(t):
    return t.torch().detach().double().numpy()


def fresh(t):
    """a new tensor from COPIES of the current cores / factors (no attribute, no storage in common)"""
    return tn.Tensor([c.detach().clone() for c in t.cores], Us=[None if U is None else U.detach().clone() for U in t.Us], batch=t.batch)


def snap(obj):
    if isinstance(obj, torch.Tensor):
        return obj.detach().clone()
    if isinstance(obj, np.ndarray):
        return obj.copy()
    return copy.deepcopy(obj)


def same(a, b):
    if isinstance(a, torch.Tensor):
        return a.shape == b.shape and bool(torch.equal(a, b))
    if isinstance(a, np.ndarray):
        return a.shape == b.shape and bool(np.array_equal(a, b))
    if isinstance(a, (list, tuple)):
        return len(a) == len(b) and all(same(x, y) for x, y in zip(a, b))
    return a == b


def mutate(t, rng, kinds=("setitem", "scale", "round")):
    """an in-place edit that keeps the Python object and changes its dense value; returns a description"""
    k = rng.choice(kinds)
    N = t.dim()
    if k == "setitem":
        idx = tuple(rng.randrange(s) for s in t.shape)
        t[idx] = 25.0
        return "t[%s] = 25" % (idx,)
    if k == "scale":
        n = rng.randrange(N)
        t.cores[n] *= -3.0
        return "t.cores[%d] *= -3 (in place)" % n
    t.round_tt(rmax=1)
    return "t.round_tt(rmax=1)"


def rep(ctx, case, op, what, pred="stateful"):
    ctx.oracle("[sequence] " + what, case, cls={"op": op, "predicate": pred})


def mk(rng, shape, stream="float", rmax=3, fmt=None):
    return gen_tensor(rng, shape, fmt=fmt, rmax=rmax, stream=stream)


# ------------------------------------------------------------------------------------------------- C01
def s_c01(ctx, case, rng):
    N = rng.choice([2, 3, 3, 4])
    shape = [rng.choice([1, 2, 3, 4]) for _ in range(N)]
    x = np.array([rng.gauss(0, 1) for _ in range(int(np.prod(shape)))]).reshape(shape)
    y = np.array([rng.gauss(0, 1) for _ in range(int(np.prod(shape)))]).reshape(shape)
    ctx.case(("stateful", "C01", tuple(shape)), True, {"sequence": "Tensor(x); scale its cores in place; Tensor(y)", "shape": shape})
    t1 = tn.Tensor(torch.tensor(x))
    c = rng.choice([2.0, 3.0, -2.0])
    for k in range(N):
        t1.cores[k] *= c
    if not close(D(t1), (c ** N) * x, 1e-9)[0]:
        rep(ctx, case, "Tensor(x)", "Tensor(x) of shape %s with every core scaled in place by %g no longer decompresses to %g^N x "
            "(cores of one tensor share storage)" % (shape, c, c)); return
    t2 = tn.Tensor(torch.tensor(y))
    if not close(D(t2), y, 1e-12)[0]:
        rep(ctx, case, "Tensor(x)", "after the cores of an earlier Tensor(x) were modified in place, Tensor(y).torch() != y for shape %s "
            "(state kept between constructor calls)" % (shape,)); return
    t3 = tn.Tensor(torch.tensor(y)).tt()
    if not close(D(t3), y, 1e-12)[0]:
        rep(ctx, case, "tt", "Tensor(y).tt() != y after an earlier tensor was modified in place")


# ------------------------------------------------------------------------------------------------- C02
def s_c02(ctx, case, rng):
    N = rng.choice([2, 3, 3])
    shape = [rng.randint(2, 4) for _ in range(N)]
    fmt = [(rng.choice(["tt", "cp"]) if rng.random() < 0.3 else "tt", rng.choice(["narrow", "square", "narrow", None])) for _ in range(N)]
    a = mk(rng, shape, fmt=fmt).to_tn()
    b = mk(rng, shape).to_tn()
    op = rng.choice(["add", "sub", "mul"])
    f = {"add": lambda u, v: u + v, "sub": lambda u, v: u - v, "mul": lambda u, v: u * v}[op]
    ctx.case(("stateful", "C02", op, from_tn(a).sig()), True, {"sequence": "a op b; modify a in place; a op b again", "op": op})
    xb = D(b)
    if not close(D(f(a, b)), f(D(a), xb), 1e-9)[0]:
        return          # single-call defects are the main module's business
    hist = []
    for _ in range(2):
        k = rng.choice(["orth", "orth", "lorth", "round", "scale", "setcore"])
        if k == "orth":
            mu = rng.randrange(N); a.orthogonalize(mu); hist.append("a.orthogonalize(%d)" % mu)
        elif k == "lorth" and N >= 2:
            a.left_orthogonalize(0); hist.append("a.left_orthogonalize(0)")
        elif k == "round":
            a.round_tt(eps=1e-12); hist.append("a.round_tt(1e-12)")
        elif k == "scale":
            n = rng.randrange(N); a.cores[n] *= 2.0; hist.append("a.cores[%d] *= 2" % n)
        else:
            n = rng.randrange(N); a.cores[n] = a.cores[n] * -1.5; hist.append("a.cores[%d] = -1.5 * a.cores[%d]" % (n, n))
        xa = D(a)
        r = safe(lambda: D(f(a, b)))
        if r[0] == "err":
            rep(ctx, case, op, "a %s b raised %s after %s" % (op, r[1], "; ".join(hist))); return
        if not close(r[1], f(xa, xb), 1e-9)[0]:
            rep(ctx, case, op, "a %s b differs from the dense result after a was used once and then modified by %s" % (op, "; ".join(hist))); return
        r2 = safe(lambda: D(f(b, a)))
        if r2[0] == "ok" and not close(r2[1], f(xb, xa), 1e-9)[0]:
            rep(ctx, case, op, "b %s a differs from the dense result after a was modified by %s" % (op, "; ".join(hist))); return


# ------------------------------------------------------------------------------------------------- C03
def s_c03(ctx, case, rng):
    N = rng.choice([2, 3, 3])
    shape = [rng.randint(2, 5) for _ in range(N)]
    t = mk(rng, shape, stream="int")
    x = t.dense()
    tt = t.to_tn()
    P = rng.randint(1, 3)
    m0 = min(shape[0], shape[1])
    raw = [rng.randint(-m0, m0 - 1) for _ in range(P)]
    kind = rng.choice(["np", "torch"])
    idx = np.array(raw, dtype=np.int64) if kind == "np" else torch.tensor(raw, dtype=torch.long)
    idx0 = snap(idx)
    ctx.case(("stateful", "C03", kind, tuple(shape)), True, {"sequence": "the same index-array object on two modes / in two calls", "array": kind})
    key = (idx, idx) + (slice(None),) * (N - 2)
    r = safe(lambda: tt[key])
    exp = x[(np.array(raw), np.array(raw)) + (slice(None),) * (N - 2)]
    if r[0] == "err":
        rep(ctx, case, "getitem", "t[idx, idx] with one %s index-array object %s raised %s: %s" % (kind, raw, r[1], r[2])); return
    got = D(r[1]) if isinstance(r[1], tn.Tensor) else np.asarray(r[1])
    if got.shape != exp.shape or not close(got, exp, 1e-9)[0]:
        rep(ctx, case, "getitem", "t[idx, idx] with the SAME %s index-array object %s on modes of sizes %s differs from natural indexing"
            % (kind, raw, shape[:2])); return
    if not same(idx, idx0):
        rep(ctx, case, "getitem", "indexing modified the caller's %s index array: %s -> %s" % (kind, raw, np.asarray(idx).tolist())); return
    # the same object against another tensor whose first mode has a different size
    sh2 = [shape[0] + 2] + shape[1:]
    t2 = mk(rng, sh2, stream="int")
    r2 = safe(lambda: t2.to_tn()[(idx,) + (slice(None),) * (N - 1)])
    exp2 = t2.dense()[np.array(raw)]
    if r2[0] == "err" or not close(D(r2[1]), exp2, 1e-9)[0]:
        rep(ctx, case, "getitem", "second tensor indexed with the same index-array object %s: wrong result" % raw)


# ------------------------------------------------------------------------------------------------- C05
def s_c05(ctx, case, rng):
    r = rng.randint(3, 5)
    ranks = [r, r]
    r0 = list(ranks)
    small = [rng.randint(2, 3) for _ in range(3)]
    big = [rng.randint(5, 6) for _ in range(3)]
    x1 = np.array([rng.gauss(0, 1) for _ in range(int(np.prod(small)))]).reshape(small)
    x2 = np.array([rng.gauss(0, 1) for _ in range(int(np.prod(big)))]).reshape(big)
    ctx.case(("stateful", "C05", r), True, {"sequence": "one ranks list object passed to two decompositions", "ranks": r0})
    via = rng.choice(["ctor", "round_tt"])
    if via == "ctor":
        tn.Tensor(torch.tensor(x1), ranks_tt=ranks)
    else:
        u = tn.Tensor(torch.tensor(x1)); u.round_tt(eps=0, rmax=ranks)
    if ranks != r0:
        rep(ctx, case, "ranks list", "the caller's ranks list %s was changed to %s by %s on a %s array" % (r0, ranks, via, small)); return
    a = tn.Tensor(torch.tensor(x2), ranks_tt=ranks)
    b = tn.Tensor(torch.tensor(x2), ranks_tt=list(r0))
    if [int(v) for v in a.ranks_tt] != [int(v) for v in b.ranks_tt] or not close(D(a), D(b), 1e-9)[0]:
        rep(ctx, case, "ranks list", "Tensor(x, ranks_tt=<list used before>) differs from the same call with a fresh list %s" % r0)


# ------------------------------------------------------------------------------------------------- C06
def s_c06(ctx, case, rng):
    N = rng.choice([2, 3])
    shape = [rng.randint(2, 4) for _ in range(N)]
    fmt = [("tt", rng.choice(["narrow", "square", None])) for _ in range(N)]
    t = mk(rng, shape, fmt=fmt).to_tn()
    y = torch.tensor(np.array([rng.gauss(0, 1) for _ in range(int(np.prod(shape)))]).reshape(shape))
    name = rng.choice(["dist", "relative_error", "rmse", "r_squared"])
    f = getattr(tn, name)
    order = rng.random() < 0.5

    def dense_metric(x):
        g, a_ = (x, y.numpy()) if order else (y.numpy(), x)
        if name == "dist":
            return float(np.linalg.norm(g - a_))
        if name == "relative_error":
            return float(np.linalg.norm(g - a_) / np.linalg.norm(g))
        if name == "rmse":
            return float(np.linalg.norm(g - a_) / math.sqrt(g.size))
        return float(1 - np.sum((g - a_) ** 2) / np.sum((g - g.mean()) ** 2))
    ctx.case(("stateful", "C06", name, order), True, {"sequence": "metric(t, dense); modify t in place; metric again", "metric": name})
    call = (lambda: float(f(t, y))) if order else (lambda: float(f(y, t)))
    v1 = safe(call)
    if v1[0] == "err" or abs(v1[1] - dense_metric(D(t))) > 1e-8 * max(1.0, abs(v1[1])):
        return
    k = rng.choice(["scale", "slice0", "factor", "setitem"])
    if k == "scale":
        t.cores[0] *= -3.0; how = "t.cores[0] *= -3"
    elif k == "slice0":
        t.cores[-1][..., 0, :] = 0.0; how = "t.cores[-1][..., 0, :] = 0"
    elif k == "factor" and t.Us[0] is not None:
        t.Us[0] = t.Us[0] * 2.0; how = "t.Us[0] = 2 * t.Us[0]"
    else:
        idx = tuple(rng.randrange(s) for s in shape); t[idx] = 7.0; how = "t[%s] = 7" % (idx,)
    v2 = safe(call)
    exp = dense_metric(D(t))
    if v2[0] == "err" or abs(v2[1] - exp) > 1e-8 * max(1.0, abs(exp)):
        rep(ctx, case, name, "%s with one dense operand, called again after %s: %r, dense value %r" % (name, how, v2[1] if v2[0] == "ok" else v2[1:], exp))


# ------------------------------------------------------------------------------------------------- C07
def s_c07(ctx, case, rng):
    N = rng.choice([2, 3])
    shape = [rng.randint(2, 4) for _ in range(N)]
    p = mk(rng, shape, rmax=2)
    bval = rng.choice([0.0, 0.0, 0.5, -1.0])
    form = rng.choice(["b+t", "t+b", "b-t", "t-b", "b*t", "t*b"])
    if form in ("b*t", "t*b") and bval == 0.0:
        bval = 0.5
    target = torch.tensor(np.array([rng.gauss(0, 1) for _ in range(int(np.prod(shape)))]).reshape(shape))
    ctx.case(("stateful", "C07", form, bval), True, {"program": "normsq((%s) - target) with a learnable 0-dim scalar b = %g" % (form, bval)})

    def build():
        cores = [torch.tensor(c, dtype=torch.float64, requires_grad=True) for c in p.cores]
        Us = [None if U is None else torch.tensor(U, dtype=torch.float64, requires_grad=True) for U in p.Us]
        b = torch.tensor(bval, dtype=torch.float64, requires_grad=True)
        return tn.Tensor(cores, Us=Us), b, cores + [U for U in Us if U is not None]

    def comb(b, t):
        return {"b+t": lambda: b + t, "t+b": lambda: t + b, "b-t": lambda: b - t, "t-b": lambda: t - b, "b*t": lambda: b * t, "t*b": lambda: t * b}[form]()
    t1, b1, par1 = build()
    r = safe(lambda: tn.normsq(comb(b1, t1) - tn.Tensor(target)))
    if r[0] == "err":
        ctx.count("stateful:C07 program raised " + r[1]); return
    t2, b2, par2 = build()
    v2 = ((comb(b2, t2.torch()) - target) ** 2).sum()
    g1 = torch.autograd.grad(r[1], [b1] + par1, allow_unused=True)
    g2 = torch.autograd.grad(v2, [b2] + par2, allow_unused=True)
    sc = max([float(g.abs().max()) for g in g2 if g is not None] + [1.0])
    for k, (a_, b_) in enumerate(zip(g1, g2)):
        za = torch.zeros_like(([b1] + par1)[k]) if a_ is None else a_
        zb = torch.zeros_like(([b2] + par2)[k]) if b_ is None else b_
        if float((za - zb).abs().max()) / sc > 1e-7:
            rep(ctx, case, "gradient", "normsq((%s) - target), b = %g a 0-dim leaf: gradient w.r.t. %s differs from the dense path (%s)" % (
                form, bval, "b" if k == 0 else "parameter %d" % (k - 1), "missing" if a_ is None else "%.3g" % float((za - zb).abs().max())),
                pred="scalar parameter")
            return


# ------------------------------------------------------------------------------------------------- C08
def s_c08(ctx, case, rng):
    from props.c08 import seed_all, quiet
    N = rng.choice([3, 4])
    shape = [rng.randint(3, 5) for _ in range(N)]
    scale = rng.choice([1e-8, 1e-7, 1e-9])
    b = mk(rng, shape, rmax=2, fmt=[("tt", None)] * N)
    b = PT([b.cores[0] * scale] + list(b.cores[1:]), b.Us)
    ctx.case(("stateful", "C08", tuple(shape), scale), True, {"op": "tn.mul(b, b) through cross, entries of magnitude %g (adaptive ranks)" % scale})
    seed_all(case["seed"])
    r = quiet(lambda: safe(lambda: tn.mul(b.to_tn(), b.to_tn())))
    if r[0] == "err":
        ctx.count("stateful:C08 raised " + r[1]); return
    want = b.dense() ** 2
    got = D(r[1])
    e = float(np.max(np.abs(got - want))) / max(float(np.max(np.abs(want))), 1e-300)
    if e > 1e-5:
        rep(ctx, case, "tn.mul", "tn.mul(b, b) with entries of magnitude %g (representable target, adaptive ranks): relative error %.3g, ranks %s"
            % (scale, e, [int(v) for v in r[1].ranks_tt]), pred="tiny-magnitude target")


# ------------------------------------------------------------------------------------------------- C09 / C10 / C15 : stale results
def _requery(ctx, case, rng, prop, t, queries, kinds=("setitem", "scale", "round")):
    """queries: list of (name, fn(t) -> comparable numpy/scalar/list).  f(t) after an in-place edit must equal f(fresh copy)."""
    for name, fn in queries:
        r0 = safe(lambda: fn(t))
        if r0[0] == "err":
            return
    how = mutate(t, rng, kinds)
    ft = fresh(t)
    for name, fn in queries:
        r1, r2 = safe(lambda: fn(t)), safe(lambda: fn(ft))
        if r2[0] == "err":
            continue
        if r1[0] == "err":
            rep(ctx, case, name, "%s raised %s after %s" % (name, r1[1], how)); return
        a_, b_ = r1[1], r2[1]
        eq = (a_ == b_) if isinstance(a_, (list, tuple)) else (np.shape(a_) == np.shape(b_) and close(np.asarray(a_, dtype=np.float64), np.asarray(b_, dtype=np.float64), 1e-8)[0])
        if not eq:
            rep(ctx, case, name, "%s queried again after %s answers for the OLD tensor (differs from the same query on a fresh copy of the current cores)"
                % (name, how)); return


def s_c09(ctx, case, rng):
    N = rng.choice([2, 3])
    shape = [rng.randint(2, 4) for _ in range(N)]
    t = mk(rng, shape).to_tn()
    ms = rng.choice([None, [torch.tensor([rng.uniform(0.5, 2) for _ in range(s)]) for s in shape]])
    x = tn.symbols(N)
    mask = rng.choice([x[0], x[-1], x[0] | x[-1], tn.only(x[0])])
    ctx.case(("stateful", "C09", N, ms is None), True, {"sequence": "sobol/mean_dimension(t); modify t in place; query again"})
    _requery(ctx, case, rng, "C09", t, [("sobol", lambda u: float(tn.sobol(u, mask, marginals=ms))),
                                       ("mean_dimension", lambda u: float(tn.mean_dimension(u, marginals=ms)))])


def s_c10(ctx, case, rng):
    N = rng.choice([2, 3])
    shape = [rng.randint(2, 4) for _ in range(N)]
    t = mk(rng, shape).to_tn()
    x = tn.symbols(N)
    mask = rng.choice([tn.only(x[0]), x[0], x[0] | x[-1]])
    ctx.case(("stateful", "C10", N), True, {"sequence": "anova/truncate_anova(t); modify t (or the returned tensor) in place; query again"})
    if rng.random() < 0.5:
        _requery(ctx, case, rng, "C10", t, [("anova_decomposition", lambda u: D(tn.anova_decomposition(u))),
                                           ("truncate_anova", lambda u: D(tn.truncate_anova(u, mask, keepdim=True))),
                                           ("undo(anova)", lambda u: D(tn.undo_anova_decomposition(tn.anova_decomposition(u))))])
    else:
        a = tn.anova_decomposition(t)
        a[(0,) * N] = 0.0                                   # the caller edits ITS copy (drops the mean term)
        r1 = safe(lambda: D(tn.truncate_anova(t, mask, keepdim=True)))
        r2 = safe(lambda: D(tn.truncate_anova(fresh(t), mask, keepdim=True)))
        if r1[0] == "ok" and r2[0] == "ok" and not close(r1[1], r2[1], 1e-8)[0]:
            rep(ctx, case, "truncate_anova", "truncate_anova(t, mask) changed after the caller edited the tensor returned by an earlier anova_decomposition(t)")
        r3 = safe(lambda: D(tn.undo_anova_decomposition(tn.anova_decomposition(t))))
        if r3[0] == "ok" and not close(r3[1], D(t), 1e-8)[0]:
            rep(ctx, case, "anova_decomposition", "undo(anova(t)) != t after the caller edited the tensor returned by an earlier anova_decomposition(t)")


def s_c15(ctx, case, rng):
    N = rng.choice([2, 3, 3])
    x = tn.symbols(N)
    f = rng.choice([x[0] & x[1], x[0] | x[-1], x[0] ^ x[1], x[0] & x[1] & x[-1], ~x[0] | x[1]])
    ctx.case(("stateful", "C15", N), True, {"sequence": "relevant_symbols/only(f); edit the truth table in place; query again"})

    def edit_kinds(t, rng_):
        idx = tuple(rng_.randrange(2) for _ in range(N))
        v = float(np.rint(D(t)[idx]))
        t[idx] = 1.0 - v
        return "f[%s] = %g" % (idx, 1.0 - v)
    queries = [("relevant_symbols", lambda u: list(tn.relevant_symbols(u))), ("irrelevant_symbols", lambda u: list(tn.irrelevant_symbols(u))),
               ("only", lambda u: D(tn.only(u)))]
    for name, fn in queries:
        if safe(lambda: fn(f))[0] == "err":
            return
    how = edit_kinds(f, rng)
    tab = np.rint(D(f))
    ff = fresh(f)
    exp_rel = [n for n in range(N) if not np.array_equal(np.take(tab, 0, axis=n), np.take(tab, 1, axis=n))]
    r = safe(lambda: list(tn.relevant_symbols(f)))
    if r[0] == "ok" and sorted(int(v) for v in r[1]) != exp_rel:
        rep(ctx, case, "relevant_symbols", "relevant_symbols(f) after %s: %s, truth table says %s" % (how, r[1], exp_rel)); return
    for name, fn in queries[1:]:
        r1, r2 = safe(lambda: fn(f)), safe(lambda: fn(ff))
        if r1[0] == "ok" and r2[0] == "ok":
            eq = (r1[1] == r2[1]) if isinstance(r1[1], list) else close(r1[1], r2[1], 1e-8)[0]
            if not eq:
                rep(ctx, case, name, "%s(f) after %s differs from the same query on a fresh copy" % (name, how)); return


# ------------------------------------------------------------------------------------------------- C11
def s_c11(ctx, case, rng):
    N = rng.choice([1, 2, 3])
    shape = [rng.randint(3, 5) for _ in range(N)]
    fmt = [(rng.choice(["tt", "cp"]), None if rng.random() < 0.7 else "square") for _ in range(N)]
    t = mk(rng, shape, fmt=fmt)
    tt = t.to_tn()
    x = t.dense().copy()
    m = rng.randrange(N)
    k = rng.randint(1, shape[m] - 1)
    lo = [slice(None)] * N; hi = [slice(None)] * N
    if rng.random() < 0.5:
        lo[m] = slice(0, shape[m] - k); hi[m] = slice(k, None)          # shift down
    else:
        lo[m] = slice(k, None); hi[m] = slice(0, shape[m] - k)          # shift up
    lo, hi = tuple(lo), tuple(hi)
    ctx.case(("stateful", "C11", t.sig(), m, k), True, {"sequence": "t[a] = t[b] with overlapping regions of the same tensor", "mode": m, "shift": k})
    v = tt[hi]
    r = safe(lambda: tt.__setitem__(lo, v))
    x[lo] = x[hi].copy()
    if r[0] == "err":
        rep(ctx, case, "setitem", "t[%s] = t[%s] raised %s: %s" % (lo, hi, r[1], r[2])); return
    if not close(D(tt), x, 1e-9)[0]:
        rep(ctx, case, "setitem", "t[%s] = t[%s] (value is a slice of t overlapping the region) differs from the dense assignment" % (lo, hi),
            pred="value aliases the tensor")


# ------------------------------------------------------------------------------------------------- C12
def s_c12(ctx, case, rng):
    N = rng.choice([2, 3, 3, 4])
    s = rng.randint(2, 4)
    shape = [s] * N if rng.random() < 0.6 else [rng.randint(2, 4) for _ in range(N)]
    t = mk(rng, shape)
    x = t.dense()
    k = rng.randint(2, N)
    modes = rng.sample(range(N), k)
    dim = [m - N if rng.random() < 0.5 else m for m in modes]          # non-negative and negative positions mixed, any order
    Us = [np.array([[rng.gauss(0, 1) for _ in range(shape[m])] for _ in range(rng.randint(1, 3))]) for m in modes]
    exp = x
    for m, U in zip(modes, Us):
        exp = np.moveaxis(np.tensordot(U, exp, axes=([1], [m])), 0, m)
    ctx.case(("stateful", "C12", tuple(shape), tuple(dim)), True, {"op": "ttm with a list of modes mixing negative and non-negative positions", "dim": dim})
    r = safe(lambda: tn.ttm(t.to_tn(), [torch.tensor(U) for U in Us], dim=dim))
    if r[0] == "err":
        rep(ctx, case, "ttm", "ttm(t %s, %d matrices, dim=%s) raised %s: %s" % (shape, k, dim, r[1], r[2]), pred="mixed-sign dim list"); return
    got = D(r[1])
    if got.shape != exp.shape or not close(got, exp, 1e-9)[0]:
        rep(ctx, case, "ttm", "ttm(t %s, %d matrices, dim=%s) differs from the dense mode products" % (shape, k, dim), pred="mixed-sign dim list")


# ------------------------------------------------------------------------------------------------- C13
def s_c13(ctx, case, rng):
    N = rng.choice([3, 4])
    shape = [rng.randint(4, 6) for _ in range(N)]
    a = mk(rng, shape, rmax=2, fmt=[("tt", None)] * N)
    eps = 10 ** rng.uniform(-5, -3)
    b = PT([c * (1 + eps * np.array([rng.gauss(0, 1) for _ in range(c.size)]).reshape(c.shape)) for c in a.cores], a.Us)
    t = a.to_tn() + b.to_tn()                       # nearly (not exactly) dependent bond columns, tall unfoldings
    x = D(t)
    mu = rng.randrange(N)
    ctx.case(("stateful", "C13", tuple(shape), mu), True, {"op": "orthogonalize(mu) of t + (1+%.0e noise) t: nearly dependent columns" % eps})
    r = safe(lambda: t.orthogonalize(mu))
    if r[0] == "err":
        rep(ctx, case, "orthogonalize", "orthogonalize(%d) raised %s: %s" % (mu, r[1], r[2])); return
    if not close(D(t), x, 1e-9)[0]:
        rep(ctx, case, "orthogonalize", "orthogonalize(%d) changed the tensor (nearly dependent columns)" % mu); return
    for i, c in enumerate(t.cores):
        if i == mu:
            continue
        M = c.reshape(-1, c.shape[-1]) if i < mu else c.reshape(c.shape[0], -1).T
        if M.shape[0] < M.shape[1]:
            continue
        dev = float((M.T @ M - torch.eye(M.shape[1], dtype=M.dtype)).abs().max())
        if dev > 1e-10:
            rep(ctx, case, "orthogonalize", "after orthogonalize(%d) core %d is not %s-orthonormal: Gram deviation %.3g (nearly dependent columns, "
                "tall unfolding %s)" % (mu, i, "left" if i < mu else "right", dev, tuple(M.shape)), pred="ill-conditioned tall unfolding")
            return


# ------------------------------------------------------------------------------------------------- C14
def s_c14(ctx, case, rng):
    N = rng.choice([2, 3])
    shape = [rng.randint(3, 5) for _ in range(N)]
    how = rng.choice(["slice-child", "slice-parent", "transpose", "dense-source", "unsqueeze"])
    ctx.case(("stateful", "C14", how, tuple(shape)), True, {"sequence": "assign exactly 0 on a key restricting one mode while a related object is alive", "related": how})
    m = rng.randrange(N)
    key = [slice(None)] * N
    key[m] = rng.randrange(shape[m]) if rng.random() < 0.5 else slice(0, rng.randint(1, shape[m] - 1))
    key = tuple(key)
    val = rng.choice([0.0, 0.0, 0, 1.5])
    if how == "dense-source":
        x = torch.tensor(np.array([rng.gauss(0, 1) for _ in range(int(np.prod(shape)))]).reshape(shape))
        x0 = x.clone()
        t = tn.Tensor(x)
        t[key] = val
        if not torch.equal(x, x0):
            rep(ctx, case, "setitem", "t = Tensor(x); t[%s] = %r modified the caller's dense array x" % (key, val), pred="another object changed")
        return
    fmt = [(rng.choice(["tt", "cp"]), rng.choice([None, None, "square"])) for _ in range(N)]
    t = mk(rng, shape, fmt=fmt).to_tn()
    if how in ("slice-child", "slice-parent"):
        sk = [slice(None)] * N
        sk[m] = slice(0, shape[m] - 1) if rng.random() < 0.5 else slice(1, None)
        s = t[tuple(sk)]
        other, target = (s, t) if how == "slice-child" else (t, s)
        before = D(other)
        k2 = [slice(None)] * N
        k2[m] = 0
        target[tuple(k2)] = val
        if not np.array_equal(D(other), before):
            rep(ctx, case, "setitem", "s = t[%s]; %s[%s] = %r changed the %s" % (tuple(sk), "t" if how == "slice-child" else "s", tuple(k2), val,
                                                                               "slice s" if how == "slice-child" else "parent t"), pred="another object changed")
        return
    other = tn.transpose(t) if how == "transpose" else tn.unsqueeze(t, 0)
    before = D(other)
    t[key] = val
    if not np.array_equal(D(other), before):
        rep(ctx, case, "setitem", "%s(t) changed when t[%s] = %r was assigned afterwards" % (how, key, val), pred="another object changed")


# ------------------------------------------------------------------------------------------------- C16
def s_c16(ctx, case, rng):
    N = rng.randint(2, 4)
    a = rng.choice([2, 2, 3])
    top = N * (a - 1)
    ws = sorted(set([rng.randint(0, top)] + [top + rng.randint(1, 3)] + ([rng.randint(0, top)] if rng.random() < 0.5 else [])))
    kind = rng.choice(["np", "torch"])
    w = np.array(ws, dtype=np.int64) if kind == "np" else torch.tensor(ws, dtype=torch.long)
    w0 = snap(w)
    ctx.case(("stateful", "C16", N, a, kind), True, {"sequence": "one weight-array object passed to two weight_mask calls", "weights": ws})
    r = safe(lambda: tn.weight_mask(N, w, nsymbols=a))
    if r[0] == "err":
        ctx.count("stateful:C16 raised " + r[1]); return
    if not same(w, w0):
        rep(ctx, case, "weight_mask", "weight_mask(%d, w, nsymbols=%d) modified the caller's %s weight array %s -> %s" % (N, a, kind, ws, np.asarray(w).tolist()),
            pred="argument array modified"); return
    N2, a2 = N + 1, a + 1
    r2 = safe(lambda: D(tn.weight_mask(N2, w, nsymbols=a2)))
    r3 = safe(lambda: D(tn.weight_mask(N2, list(ws), nsymbols=a2)))
    if r2[0] == "ok" and r3[0] == "ok" and not np.array_equal(r2[1], r3[1]):
        rep(ctx, case, "weight_mask", "weight_mask with a weight array used in an earlier call differs from the same call with a fresh list %s" % ws,
            pred="argument array modified")


# ------------------------------------------------------------------------------------------------- C17
def s_c17(ctx, case, rng):
    from tntorch.maxvol import py_maxvol, py_rect_maxvol
    n, r = rng.randint(6, 30), rng.randint(1, 5)
    if n <= r:
        n = r + 3
    As = [np.array([[rng.gauss(0, 1) for _ in range(r)] for _ in range(n)]) for _ in range(3)]
    routine = rng.choice(["maxvol", "maxvol", "rect"])
    ctx.case(("stateful", "C17", routine, n, r), True, {"sequence": "three calls on matrices of one shape; every result re-checked at the end"})
    outs = []
    for A in As:
        o = safe(lambda: py_maxvol(A.copy(), 1.05, 100) if routine == "maxvol" else py_rect_maxvol(A.copy(), 1.0, maxK=r))
        if o[0] == "err":
            return
        outs.append(o[1])
    for k, (A, (idx, C)) in enumerate(zip(As, outs)):
        C = np.asarray(C); idx = np.asarray(idx)
        if C.shape[0] != n or not close(C @ A[idx], A, 1e-8)[0]:
            rep(ctx, case, routine, "result %d of 3 successive %s calls on %dx%d matrices no longer reproduces its matrix once the later calls returned "
                "(results share a buffer)" % (k, routine, n, r), pred="result overwritten by a later call")
            return


# ------------------------------------------------------------------------------------------------- C18
def s_c18(ctx, case, rng):
    from props.c18 import gen_batch, to_batch, CLASSES
    B = rng.randint(2, 4)
    N = rng.randint(2, 3)
    shape = [rng.randint(2, 3) for _ in range(N)]
    cls = rng.choice(CLASSES)
    xs = gen_batch(rng, B, shape, cls, "float")
    bt = to_batch(xs)
    dens = np.stack([x.dense() for x in xs])
    b = rng.randint(-B, B - 1)
    bi = rng.choice([np.int64(b), np.int32(b), np.arange(B)[b], torch.tensor(b).item()])
    key = [rng.randint(-s, s - 1) if rng.random() < 0.5 else slice(None) for s in shape]
    if all(isinstance(k, int) for k in key):
        key[rng.randrange(N)] = slice(None)
    if all(isinstance(k, slice) for k in key):
        key[rng.randrange(N)] = 0
    full = (bi,) + tuple(key)
    ctx.case(("stateful", "C18", cls, type(bi).__name__), True, {"op": "batch index given as %s together with integers on other modes" % type(bi).__name__, "key": str(full)})
    r = safe(lambda: bt[full])
    exp = dens[(int(b),) + tuple(key)]
    if r[0] == "err":
        rep(ctx, case, "batchsel", "batch[%s] (batch index of type %s) raised %s: %s" % (full, type(bi).__name__, r[1], r[2]), pred="numpy integer batch index"); return
    got = D(r[1]) if isinstance(r[1], tn.Tensor) else np.asarray(r[1], dtype=np.float64)
    if got.shape != exp.shape or not close(got, exp, 1e-9)[0]:
        rep(ctx, case, "batchsel", "batch[%s] (batch index of type %s) differs from the stack's element" % (full, type(bi).__name__), pred="numpy integer batch index")


# ------------------------------------------------------------------------------------------------- C19
def s_c19(ctx, case, rng):
    d = rng.randint(2, 3)
    ns = [rng.randint(1, 3) for _ in range(d)]
    blocks = []
    for n in ns:
        G = np.array([[rng.gauss(0, 1) for _ in range(n)] for _ in range(n)])
        blocks.append(G @ G.T + n * np.eye(n))
    K = blocks[0]
    for b_ in blocks[1:]:
        K = np.kron(K, b_)
    cores = [torch.tensor(b_)[None, :, :, None] for b_ in blocks]
    ctx.case(("stateful", "C19", tuple(ns)), True, {"sequence": "cholesky()/inv()/determinant() on one TTMatrix object, then the object is used again"})
    A = safe(lambda: tn.TTMatrix(cores, ranks=[1] * (d - 1), input_dims=ns, output_dims=ns))
    if A[0] == "err":
        return
    A = A[1]
    first = rng.choice(["cholesky", "inv", "determinant", "slog_determinant"])
    r = safe(lambda: getattr(A, first)())
    if r[0] == "err":
        return
    from props.c19 import dense_tt, npcores
    M = safe(lambda: dense_tt(npcores(A)))
    if M[0] == "err" or not close(M[1], K, 1e-9)[0]:
        rep(ctx, case, first, "the TTMatrix itself changed when %s() was called on it (blocks %s)" % (first, ns), pred="receiver modified"); return
    dt = safe(lambda: float(A.determinant()))
    if dt[0] == "ok" and abs(dt[1] - np.linalg.det(K)) > 1e-8 * max(1.0, abs(np.linalg.det(K))):
        rep(ctx, case, "determinant", "determinant() after %s() on the same object: %r, dense %r" % (first, dt[1], float(np.linalg.det(K))), pred="receiver modified")


# ------------------------------------------------------------------------------------------------- C20
def s_c20(ctx, case, rng):
    N = rng.choice([2, 3])
    shape = [rng.randint(4, 6) for _ in range(N)]
    t = mk(rng, shape)
    d = rng.randrange(N)
    e = rng.randrange(N)
    dims = rng.choice([[d, d], [d, e, d], [d, d, d]])
    per = rng.random() < 0.3
    ctx.case(("stateful", "C20", tuple(shape), tuple(dims), per), True, {"op": "partial with a mode listed more than once", "dim": dims})
    r = safe(lambda: D(tn.partial(t.to_tn(), dims, periodic=per)))
    if r[0] == "err":
        rep(ctx, case, "partial", "partial(t, dim=%s) raised %s: %s" % (dims, r[1], r[2]), pred="repeated mode"); return
    u = t.to_tn()
    for m in dims:
        u = tn.partial(u, m, periodic=per)
    exp = D(u)
    if r[1].shape != exp.shape or not close(r[1], exp, 1e-9)[0]:
        rep(ctx, case, "partial", "partial(t, dim=%s) differs from the successive partials along those modes" % dims, pred="repeated mode")


RUN = {"C01": s_c01, "C02": s_c02, "C03": s_c03, "C05": s_c05, "C06": s_c06, "C07": s_c07, "C08": s_c08, "C09": s_c09, "C10": s_c10,
       "C11": s_c11, "C12": s_c12, "C13": s_c13, "C14": s_c14, "C15": s_c15, "C16": s_c16, "C17": s_c17, "C18": s_c18, "C19": s_c19,
       "C20": s_c20}
