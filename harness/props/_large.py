"""Large-input cases, generic over the properties (wired in by run.py, kind == "large").

The per-property generators draw SMALL tensors (modes <= 5, ranks <= 4, <= 5 modes) because every case is also run through the exact
rational model.  Real changes to a library for LARGE tensors are often gated by size: a fast path, a blocked loop, a different algorithm or a
preallocated buffer that is only used above a threshold (round 7 of the seeded campaign).  These cases exercise each property once per axis
of "large" — long modes (33..200), high ranks (16..32), many modes (9..13 of size 2..3), long index arrays, many operands, tall matrices —
against dense NumPy/torch oracles (sampling of the implementation only, no model side).  Everything stays below ~3*10^5 dense entries.
"""
import random, math, itertools
import numpy as np, torch
import core
from core import close, safe, tn

N_CASES = {"quick": 6, "thorough": 40, "search": 12}


def cases(prop, rng, tier):
    import os
    if prop not in RUN or os.environ.get("VERIF_NO_LARGE"):       # the switch exists to measure what the other layers catch on their own
        return []
    return [{"kind": "large", "seed": rng.randrange(1 << 30), "k": k} for k in range(N_CASES[tier])]


def run(prop, ctx, case):
    rs = np.random.default_rng(case["seed"])
    ctx.count("large")
    RUN[prop](ctx, case, rs, case["k"])


# ------------------------------------------------------------------------------------------------- helpers
def T(x):
    return torch.tensor(np.asarray(x, dtype=np.float64))


def D(t):
    return t.torch().detach().double().numpy()


def rand_tt(rs, shape, ranks, cp_at=(), fac_at=(), scale=None):
    """random tensor: TT cores with the given interior ranks (int or list); modes in cp_at as CP factors (then all ranks equal); modes in
    fac_at get a square-ish Tucker factor"""
    N = len(shape)
    R = [1] + (list(ranks) if isinstance(ranks, (list, tuple)) else [ranks] * (N - 1)) + [1]
    cores, Us = [], []
    for n in range(N):
        s = shape[n]
        if n in fac_at:
            sn = max(2, min(s, 6))
            Us.append(T(rs.standard_normal((s, sn)))); s = sn
        else:
            Us.append(None)
        if n in cp_at:
            r = R[n + 1] if n < N - 1 else R[n]
            cores.append(T(rs.standard_normal((s, r)) / math.sqrt(r)))
        else:
            cores.append(T(rs.standard_normal((R[n], s, R[n + 1])) / math.sqrt(R[n])))
    t = tn.Tensor(cores, Us=Us)
    return t


def SHAPES(rs, k):
    """the axes of 'large', cycled by the case index"""
    opts = [([40, 40, 40], 12), ([2] * 12, 16), ([30, 30, 30], 8), ([70, 6, 5], 4), ([5, 130, 4], 3), ([3] * 9, 9), ([65, 33], 20), ([4, 5, 200], 3),
            ([16, 128, 16], 8), ([2] * 13, 6)]
    return opts[k % len(opts)]


def rep(ctx, case, op, what, pred="large input"):
    ctx.oracle("[large] " + what, case, cls={"op": op, "predicate": pred})


def chk(ctx, case, op, what, got, exp, tol=1e-9):
    got = np.asarray(got, dtype=np.float64); exp = np.asarray(exp, dtype=np.float64)
    if got.shape != exp.shape:
        rep(ctx, case, op, "%s: shape %s, expected %s" % (what, got.shape, exp.shape)); return False
    sc = max(float(np.max(np.abs(exp))) if exp.size else 0.0, 1e-300)
    err = float(np.max(np.abs(got - exp))) / sc if exp.size else 0.0
    if not err <= tol:
        rep(ctx, case, op, "%s: relative error %.3g" % (what, err)); return False
    return True


def guard(ctx, case, op, what, fn):
    r = safe(fn)
    if r[0] == "err":
        rep(ctx, case, op, "%s raised %s: %s" % (what, r[1], r[2])); return None
    return r[1]


# ------------------------------------------------------------------------------------------------- C01
def l_c01(ctx, case, rs, k):
    sel = k % 4
    if sel == 0:        # CP tensors of high rank cast to TT / decompressed factors / cloned / transposed
        shape = [[6, 7, 8, 9], [4, 5, 6], [3, 1, 4, 2, 5], [40, 40, 40]][int(rs.integers(4))]
        R = int(rs.choice([16, 20, 32, 64]))
        t = tn.Tensor([T(rs.standard_normal((s, R)) / 3) for s in shape])
        x = D(t)
        ctx.case(("large", "C01", "cp", tuple(shape), R), True, {"op": "CP rank %d -> tt()/clone/transpose" % R, "shape": shape})
        for name, f in (("tt()", lambda: t.tt()), ("clone()", lambda: t.clone()), ("decompress_tucker_factors()", lambda: t.decompress_tucker_factors())):
            u = guard(ctx, case, name, "%s of a CP tensor of rank %d, shape %s" % (name, R, shape), f)
            if u is not None and not chk(ctx, case, name, "%s of a CP tensor of rank %d, shape %s changes the array" % (name, R, shape), D(u), x):
                return
        u = guard(ctx, case, "transpose", "transpose", lambda: tn.transpose(t))
        if u is not None:
            chk(ctx, case, "transpose", "transpose of a CP tensor of rank %d" % R, D(u), x.transpose())
    elif sel == 1:      # dense round trip, long modes / many modes
        shape = [[40, 30, 20], [2] * 12, [70, 65], [130, 5, 4], [3] * 9][int(rs.integers(5))]
        x = rs.standard_normal(shape)
        ctx.case(("large", "C01", "dense", tuple(shape)), True, {"op": "Tensor(x).torch()", "shape": shape})
        t = guard(ctx, case, "Tensor(x)", "Tensor(x) for shape %s" % shape, lambda: tn.Tensor(T(x)))
        if t is not None:
            chk(ctx, case, "Tensor(x)", "Tensor(x).torch() for shape %s" % shape, D(t), x, 1e-10)
            if list(t.shape) != list(x.shape):
                rep(ctx, case, "shape", "reported shape %s for an array of shape %s" % (list(t.shape), shape))
    else:               # gauge changes on high-rank / long-mode TT(-Tucker) tensors
        shape, r = SHAPES(rs, int(rs.integers(10)))
        t = rand_tt(rs, shape, r, fac_at=(0,) if sel == 3 else ())
        x = D(t)
        ctx.case(("large", "C01", "gauge", tuple(shape), r, sel), True, {"op": "orthogonalize / round(default) / tt", "shape": shape, "rank": r})
        u = t.clone(); mu = int(rs.integers(len(shape)))
        ro = safe(lambda: u.orthogonalize(mu))
        if ro[0] == "err":
            rep(ctx, case, "orthogonalize", "orthogonalize(%d) raised %s: %s" % (mu, ro[1], ro[2]))
        else:
            chk(ctx, case, "orthogonalize", "orthogonalize(%d) on shape %s ranks %s changes the array" % (mu, shape, r), D(u), x)
        v = guard(ctx, case, "round", "round_tt at the default tolerance", lambda: tn.round_tt(t))
        if v is not None:
            chk(ctx, case, "round_tt", "round_tt at the default tolerance on shape %s ranks %s changes the array" % (shape, r), D(v), x, 1e-8)
        if [int(a) for a in t.ranks_tt] != [c.shape[0] if c.dim() == 3 else c.shape[1] for c in t.cores] + [t.cores[-1].shape[-1] if t.cores[-1].dim() == 3 else 1]:
            rep(ctx, case, "ranks_tt", "reported ranks_tt %s differ from the bond sizes of the cores" % [int(a) for a in t.ranks_tt])


# ------------------------------------------------------------------------------------------------- C02
def l_c02(ctx, case, rs, k):
    shape, r = SHAPES(rs, k)
    N = len(shape)
    mix = k % 3
    a = rand_tt(rs, shape, r, fac_at=(1,) if mix == 1 else ())
    b = rand_tt(rs, shape, max(2, r - 2), cp_at=tuple(range(N)) if mix == 2 else ())
    xa, xb = D(a), D(b)
    ctx.case(("large", "C02", tuple(shape), r, mix), True, {"op": "a+b, a-b, a*b, scalar ops", "shape": shape, "ranks": [r, max(2, r - 2)], "mix": mix})
    for name, f, e in (("a*b", lambda: a * b, xa * xb), ("b*a", lambda: b * a, xa * xb), ("a+b", lambda: a + b, xa + xb), ("a-b", lambda: a - b, xa - xb),
                       ("a*b-2*b+1", lambda: a * b - 2 * b + 1, xa * xb - 2 * xb + 1), ("-a", lambda: -a, -xa), ("a*0.5", lambda: a * 0.5, xa * 0.5),
                       ("3+a", lambda: 3 + a, 3 + xa)):
        u = guard(ctx, case, name, "%s on shape %s ranks %s" % (name, shape, r), f)
        if u is not None and not chk(ctx, case, name, "%s on shape %s, ranks %d and %d differs from the element-wise result" % (name, shape, r, max(2, r - 2)), D(u), e):
            return


# ------------------------------------------------------------------------------------------------- C03
def l_c03(ctx, case, rs, k):
    shape = [[5, 6, 7, 8], [2] * 12, [40, 40, 40], [9, 8, 7]][k % 4]
    N = len(shape)
    t = rand_tt(rs, shape, 3, fac_at=(1,) if k % 3 == 1 else (), cp_at=tuple(range(N)) if k % 5 == 4 else ())
    x = D(t)
    P = int(rs.choice([65, 100, 128, 200, 300]))
    # a run of index arrays at a random position, integers / slices / None elsewhere
    L = int(rs.integers(1, min(N, 3) + 1)); s0 = int(rs.integers(0, N - L + 1))
    key = []
    for n in range(N):
        if s0 <= n < s0 + L:
            key.append(rs.integers(-shape[n], shape[n], size=P))
        else:
            c = rs.random()
            key.append(int(rs.integers(-shape[n], shape[n])) if c < 0.45 else slice(None) if c < 0.8 else slice(int(rs.integers(0, shape[n])), None, int(rs.integers(1, 3))))
    if rs.random() < 0.3:
        key.insert(int(rs.integers(0, s0 + 1)), None)
    ctx.case(("large", "C03", tuple(shape), P, s0, L), True, {"op": "index arrays with %d entries" % P, "shape": shape})
    from props.c03 import nat_index
    jkey = [["a", q.tolist()] if isinstance(q, np.ndarray) else ["n"] if q is None else ["i", q] if isinstance(q, int) else ["s", q.start, q.stop, q.step] for q in key]
    exp = nat_index(x, jkey)          # natural indexing: the zipped run leaves its dimension where the run stood
    r = guard(ctx, case, "getitem", "t[key] with index arrays of %d entries (run at modes %d..%d)" % (P, s0, s0 + L - 1),
              lambda: t[tuple(torch.tensor(q) if isinstance(q, np.ndarray) and rs.random() < 0.5 else (q.tolist() if isinstance(q, np.ndarray) else q) for q in key)])
    if r is None:
        return
    got = D(r) if isinstance(r, tn.Tensor) else np.asarray(r, dtype=np.float64)
    chk(ctx, case, "getitem", "t[key] with index arrays of %d entries (run at modes %d..%d of %s, integers before it: %s)"
        % (P, s0, s0 + L - 1, shape, any(isinstance(q, int) for q in key[:s0])), got, exp)


# ------------------------------------------------------------------------------------------------- C04
def l_c04(ctx, case, rs, k):
    sel = k % 3
    if sel == 0:        # exact low rank inside a big dense array: Tensor(x, eps) must reveal the ranks
        I = int(rs.choice([48, 64]))
        r1, r2 = int(rs.integers(2, 7)), int(rs.integers(2, 7))
        x = D(rand_tt(rs, [I, I, I], [r1, r2]))
        ctx.case(("large", "C04", "dense", I, r1, r2), True, {"op": "Tensor(x, eps=1e-10) of an array of exact TT ranks", "shape": [I] * 3, "ranks": [r1, r2]})
        t = guard(ctx, case, "Tensor(x,eps)", "Tensor(x, eps=1e-10)", lambda: tn.Tensor(T(x), eps=1e-10))
        if t is None:
            return
        chk(ctx, case, "Tensor(x,eps)", "Tensor(x, eps=1e-10) of a %d^3 array" % I, D(t), x, 1e-8)
        if [int(v) for v in t.ranks_tt] != [1, r1, r2, 1]:
            rep(ctx, case, "Tensor(x,eps)", "Tensor(x, eps=1e-10) of a %d^3 array with exact TT ranks [%d, %d]: ranks_tt %s" % (I, r1, r2, [int(v) for v in t.ranks_tt]))
        return
    # a TT with redundant bonds (exact rank below the bond size), long modes: ranks must drop, error within eps
    shape = [[16, 128, 128], [130, 20, 20], [2] * 12, [40, 40, 40]][int(rs.integers(4))]
    N = len(shape)
    r = int(rs.integers(2, 5)); big = int(rs.choice([8, 12, 16]))
    base = rand_tt(rs, shape, r)
    cores = [c.clone() for c in base.cores]
    # inflate every bond to `big` with an invertible gauge pair G, G^-1 padded by zeros -> same tensor, redundant ranks
    for n in range(N - 1):
        G = T(rs.standard_normal((r, big)))
        Gi = torch.linalg.pinv(G)
        cores[n] = torch.einsum("aib,bc->aic", cores[n], G)
        cores[n + 1] = torch.einsum("cb,bid->cid", Gi, cores[n + 1])
    t = tn.Tensor(cores)
    x = D(base)
    eps = float(rs.choice([1e-10, 1e-8, 1e-4]))
    ctx.case(("large", "C04", "redundant", tuple(shape), r, big, eps), True, {"op": "round_tt / round with redundant bonds", "shape": shape, "exact_rank": r, "bond": big, "eps": eps})
    for name in ("round_tt", "round"):
        u = guard(ctx, case, name, "%s(eps=%g)" % (name, eps), lambda: getattr(tn, name)(t, eps=eps))
        if u is None:
            continue
        err = float(np.linalg.norm(D(u) - x) / np.linalg.norm(x))
        if not err <= eps * (1 + 1e-6) + 1e-12:
            rep(ctx, case, name, "%s(eps=%g) on shape %s: relative error %.3g" % (name, eps, shape, err)); return
        rk = [int(v) for v in u.ranks_tt]
        if any(a > b for a, b in zip(rk, [int(v) for v in t.ranks_tt])):
            rep(ctx, case, name, "%s raised a TT rank: %s -> %s" % (name, [int(v) for v in t.ranks_tt], rk)); return
        if eps <= 1e-8 and rk != [1] + [min(r, int(np.prod(shape[:n + 1])), int(np.prod(shape[n + 1:]))) for n in range(N - 1)] + [1]:
            rep(ctx, case, name, "%s(eps=%g) on shape %s with bonds of size %d and exact rank %d: ranks_tt %s" % (name, eps, shape, big, r, rk)); return


# ------------------------------------------------------------------------------------------------- C05
def l_c05(ctx, case, rs, k):
    sel = k % 3
    if sel == 0:        # CP of a rank-1 array with long unfoldings
        shape = [[72, 70, 68], [22, 21, 20, 20], [66, 65, 3], [10, 9, 8]][(k // 3) % 4]
        vs = [rs.standard_normal(s) + 0.5 for s in shape]
        x = vs[0]
        for v in vs[1:]:
            x = np.multiply.outer(x, v)
        R = int(rs.choice([1, 1, 2]))
        ctx.case(("large", "C05", "cp", tuple(shape), R), True, {"op": "Tensor(x, ranks_cp=%d) of a rank-1 array" % R, "shape": shape})
        torch.manual_seed(int(rs.integers(1 << 30)))
        t = guard(ctx, case, "Tensor(x,ranks_cp)", "Tensor(x, ranks_cp=%d)" % R, lambda: tn.Tensor(T(x), ranks_cp=R))
        if t is not None:
            err = float(np.linalg.norm(D(t) - x) / np.linalg.norm(x))
            if not err <= 1e-6:
                rep(ctx, case, "Tensor(x,ranks_cp)", "CP decomposition (ranks_cp=%d) of a rank-1 array of shape %s: relative error %.3g" % (R, shape, err))
        return
    # prescribed TT / Tucker ranks on a bigger array whose unfolding ranks fit the request: exact reproduction
    shape = [[24, 24, 24], [40, 30, 6], [2] * 11][int(rs.integers(3))]
    r = int(rs.integers(3, 9))
    x = D(rand_tt(rs, shape, r))
    req = r + int(rs.integers(0, 3))
    ctx.case(("large", "C05", "ranks", tuple(shape), r, req, sel), True, {"op": "Tensor(x, ranks_tt/ranks_tucker) with ranks that fit", "shape": shape})
    if sel == 1:
        t = guard(ctx, case, "Tensor(x,ranks_tt)", "Tensor(x, ranks_tt=%d)" % req, lambda: tn.Tensor(T(x), ranks_tt=req))
        what = "Tensor(x, ranks_tt=%d) of a %s array of TT rank %d" % (req, shape, r)
    else:
        t = guard(ctx, case, "Tensor(x,ranks_tucker)", "Tensor(x, ranks_tucker=full)", lambda: tn.Tensor(T(x), ranks_tucker=[min(s, 50) for s in shape]))
        what = "Tensor(x, ranks_tucker=mode sizes) of a %s array" % shape
    if t is not None:
        chk(ctx, case, "Tensor(x,ranks)", what, D(t), x, 1e-8)


# ------------------------------------------------------------------------------------------------- C06
def l_c06(ctx, case, rs, k):
    shape, r = [([50, 50, 50], 4), ([3] * 11, 5)][k % 2] if k % 3 != 2 else SHAPES(rs, k)       # > 10^5 entries two times out of three
    a = rand_tt(rs, shape, min(r, 6), fac_at=(0,) if k % 4 == 1 else ())
    mode = k % 3
    b = (a * -1.0 + rand_tt(rs, shape, 2) * 0.3) if mode == 0 else rand_tt(rs, shape, 3)       # mode 0: strongly NEGATIVE inner product
    xa, xb = D(a), D(b)
    n = xa.size
    ctx.case(("large", "C06", tuple(shape), mode), True, {"op": "dot / dist / rmse / r_squared / mean / var / sum on large tensors", "shape": shape, "negative_dot": mode == 0})
    ex = {"dot": float(np.sum(xa * xb)), "dist": float(np.linalg.norm(xa - xb)), "norm": float(np.linalg.norm(xa)), "normsq": float(np.sum(xa * xa)),
          "rmse": float(np.linalg.norm(xa - xb) / math.sqrt(n)), "relative_error": float(np.linalg.norm(xa - xb) / np.linalg.norm(xa)),
          "r_squared": float(1 - np.sum((xa - xb) ** 2) / np.sum((xa - xa.mean()) ** 2)), "mean": float(xa.mean()), "var": float(xa.var()), "std": float(xa.std()),
          "sum": float(xa.sum()), "dist(b,a)": float(np.linalg.norm(xa - xb))}
    fs = {"dot": lambda: tn.dot(a, b), "dist": lambda: tn.dist(a, b), "norm": lambda: tn.norm(a), "normsq": lambda: tn.normsq(a), "rmse": lambda: tn.rmse(a, b),
          "relative_error": lambda: tn.relative_error(a, b), "r_squared": lambda: tn.r_squared(a, b), "mean": lambda: tn.mean(a), "var": lambda: tn.var(a),
          "std": lambda: tn.std(a), "sum": lambda: tn.sum(a), "dist(b,a)": lambda: tn.dist(b, a)}
    for name in fs:
        v = guard(ctx, case, name, "%s on shape %s" % (name, shape), fs[name])
        if v is None:
            continue
        got, e = float(v), ex[name]
        sc = max(abs(e), 1e-9 * max(abs(ex["normsq"]), 1.0) if name in ("dot", "var", "sum", "mean") else abs(e), 1e-300)
        if not abs(got - e) <= 1e-7 * sc:
            rep(ctx, case, name, "%s on shape %s (%d entries%s): %r, dense value %r" % (name, shape, n, ", negative inner product" if mode == 0 else "", got, e)); return
    d = int(rs.integers(len(shape)))
    v = guard(ctx, case, "sum", "sum over one mode", lambda: tn.sum(a, dim=[d]))
    if v is not None:
        chk(ctx, case, "sum", "sum over mode %d of shape %s" % (d, shape), D(v) if isinstance(v, tn.Tensor) else np.asarray(float(v)), xa.sum(axis=d))


# ------------------------------------------------------------------------------------------------- C07
def l_c07(ctx, case, rs, k):
    shape, ra, rb = [([8, 8, 8, 8], 8, 8), ([2] * 10, 12, 10), ([20, 20, 20], 10, 9), ([33, 40], 16, 16), ([6, 7, 8], 3, 4)][k % 5]
    N = len(shape)
    head = ["sum", "norm", "dot", "readme"][int(rs.integers(4))]

    def leaves():
        g = np.random.default_rng(case["seed"] + 7)
        A = [torch.tensor(g.standard_normal(s) / 2, requires_grad=True) for s in [([1] + [ra] * (N - 1))[n:n + 1] + [shape[n]] + ([ra] * (N - 1) + [1])[n:n + 1] for n in range(N)]]
        B = [torch.tensor(g.standard_normal(s) / 2, requires_grad=True) for s in [([1] + [rb] * (N - 1))[n:n + 1] + [shape[n]] + ([rb] * (N - 1) + [1])[n:n + 1] for n in range(N)]]
        return A, B
    ctx.case(("large", "C07", tuple(shape), ra, rb, head), True, {"op": "gradient of %s(a*b + a) w.r.t. every core" % head, "shape": shape, "ranks": [ra, rb]})

    def headf(x, dense):
        if head == "sum":
            return tn.sum(x) if not dense else x.sum()
        if head == "norm":
            return tn.norm(x) if not dense else torch.sqrt((x * x).sum())
        if head == "dot":
            return tn.dot(x, x) if not dense else (x * x).sum()
        kk = max(1, shape[0] - 1)
        d = x[:kk] - x[-kk:]
        return tn.norm(d) if not dense else torch.sqrt((d * d).sum())
    A1, B1 = leaves()
    r = safe(lambda: headf(tn.Tensor(A1) * tn.Tensor(B1) + tn.Tensor(A1), False))
    if r[0] == "err":
        rep(ctx, case, "gradient", "%s(a*b + a) raised %s: %s" % (head, r[1], r[2])); return
    A2, B2 = leaves()
    v2 = headf(tn.Tensor(A2).torch() * tn.Tensor(B2).torch() + tn.Tensor(A2).torch(), True)
    if not (isinstance(r[1], torch.Tensor) and r[1].requires_grad):
        rep(ctx, case, "detach", "%s(a*b + a) does not require grad on shape %s ranks %d, %d" % (head, shape, ra, rb)); return
    g1 = torch.autograd.grad(r[1], A1 + B1, allow_unused=True)
    g2 = torch.autograd.grad(v2, A2 + B2, allow_unused=True)
    sc = max(float(g.abs().max()) for g in g2 if g is not None)
    for i, (p, q_) in enumerate(zip(g1, g2)):
        if p is None or float((p - q_).abs().max()) > 1e-7 * sc:
            rep(ctx, case, "gradient", "%s(a*b + a), shape %s, TT ranks %d and %d: gradient w.r.t. %s core %d %s" % (
                head, shape, ra, rb, "a" if i < N else "b", i % N, "is missing (no gradient reaches it)" if p is None else "differs from the dense gradient"),
                pred="large cores")
            return


# ------------------------------------------------------------------------------------------------- C08
def l_c08(ctx, case, rs, k):
    from props.c08 import seed_all, quiet
    I, r, N = [(50, 10, 3), (40, 12, 3), (33, 6, 4), (12, 3, 4)][k % 4]
    dom = [np.sort(rs.uniform(0.5, 2.0, size=I)) for _ in range(N)]
    us = [rs.standard_normal((r, I)) for _ in range(N)]
    calls = []

    def f(*xs):
        calls.append(np.stack([x.detach().numpy() for x in xs], axis=1))
        # a function of exact TT rank <= r on the grid: sum_q prod_n phi_{n,q}(x_n), phi looked up through interpolation tables
        out = 0
        for q_ in range(min(r, 3)):
            term = 1
            for n, x in enumerate(xs):
                term = term * torch.tensor(np.interp(x.detach().numpy(), dom[n], us[n][q_]))
            out = out + term
        return out
    ctx.case(("large", "C08", I, r, N), True, {"op": "cross on a %d^%d grid with ranks %d (fibre batches of %d points)" % (I, N, r, r * I * r), "I": I, "rank": r})
    seed_all(case["seed"] % (1 << 30))
    res = quiet(lambda: safe(lambda: tn.cross(function=f, domain=[T(d) for d in dom], ranks_tt=r, verbose=False, return_info=True, suppress_warnings=True, max_iter=4)))
    if res[0] == "err":
        rep(ctx, case, "cross", "cross on a %d^%d grid, ranks %d raised %s: %s" % (I, N, r, res[1], res[2])); return
    t, info = res[1]
    S = np.concatenate(calls, axis=0)
    for n in range(N):
        ok = np.isin(S[:, n], dom[n])
        if not ok.all():
            rep(ctx, case, "cross", "cross on a %d^%d grid with ranks %d evaluated the function at %r along mode %d, which is not a point of the grid"
                % (I, N, r, float(S[np.argmin(ok), n]), n), pred="large fibre batch")
            return
    x = D(t)
    rs0 = np.asarray(info["rsets"][0])
    grids = np.meshgrid(*dom, indexing="ij")
    F = 0
    for q_ in range(min(r, 3)):
        term = 1
        for n in range(N):
            term = term * np.interp(grids[n], dom[n], us[n][q_])
        F = F + term
    got = np.stack([x[(slice(None),) + tuple(int(v) for v in row[:-1])] for row in rs0])
    want = np.stack([F[(slice(None),) + tuple(int(v) for v in row[:-1])] for row in rs0])
    chk(ctx, case, "cross", "cross on a %d^%d grid: result vs function on the fibres through rsets[0]" % (I, N), got, want, 1e-7)


# ------------------------------------------------------------------------------------------------- C09 / C10
def _brute_terms(x, w):
    """ANOVA terms of a dense array under the product measure w (list of normalised vectors): dict subset(tuple) -> array"""
    N = x.ndim
    E = {}
    for S in itertools.chain.from_iterable(itertools.combinations(range(N), j) for j in range(N + 1)):
        y = x
        for n in range(N):
            if n not in S:
                y = np.tensordot(y, w[n], axes=([n if True else 0], [0])) if False else (y * w[n].reshape([-1 if m == n else 1 for m in range(N)])).sum(axis=n, keepdims=True)
        E[S] = y
    terms = {}
    for S in sorted(E, key=len):
        terms[S] = E[S] - sum(terms[Tt] for Tt in terms if set(Tt) < set(S))
    return terms


def l_c09(ctx, case, rs, k):
    shape = [[40, 3, 4], [33, 5], [3, 4, 64], [6, 5, 4], [2] * 9][k % 5]
    N = len(shape)
    t = rand_tt(rs, shape, 3, cp_at=tuple(range(N)) if k % 4 == 3 else ())
    x = D(t)
    ms = [rs.uniform(0.2, 2.0, size=s) for s in shape] if k % 2 == 0 else None
    w = [(m / m.sum()) if ms is not None else np.ones(s) / s for m, s in zip(ms or shape, shape)]
    ctx.case(("large", "C09", tuple(shape), ms is None), True, {"op": "sobol / mean_dimension on long or many modes", "shape": shape, "marginals": "given" if ms else None})
    if N > 6:
        # many binary-ish modes: only the cheap closed forms (total variance through the main effects)
        W = np.ones_like(x)
        for n in range(N):
            W = W * w[n].reshape([-1 if m == n else 1 for m in range(N)])
        mu = float((x * W).sum()); var = float(((x - mu) ** 2 * W).sum())
        xs = tn.symbols(N)
        n0 = int(rs.integers(N))
        En = (x * W).sum(axis=tuple(m for m in range(N) if m != n0)) / w[n0]
        v_main = float((w[n0] * (En - mu) ** 2).sum())
        got = guard(ctx, case, "sobol", "sobol(only(x_n)) on %d modes" % N, lambda: float(tn.sobol(t, tn.only(xs[n0]), marginals=None if ms is None else [T(m) for m in ms])))
        if got is not None and abs(got - v_main / var) > 1e-7:
            rep(ctx, case, "sobol", "variance component of variable %d on %d modes: %r, brute force %r" % (n0, N, got, v_main / var))
        return
    terms = _brute_terms(x, w)
    W = np.ones_like(x)
    for n in range(N):
        W = W * w[n].reshape([-1 if m == n else 1 for m in range(N)])
    V = {S: float((terms[S] ** 2 * W).sum()) for S in terms if S}
    tot = sum(V.values())
    xs = tn.symbols(N)
    margs = None if ms is None else [T(m) for m in ms]
    n0 = int(rs.integers(N))
    checks = [("variance component x%d" % n0, lambda: tn.sobol(t, tn.only(xs[n0]), marginals=margs), V[(n0,)] / tot),
              ("total index x%d" % n0, lambda: tn.sobol(t, xs[n0], marginals=margs), sum(v for S, v in V.items() if n0 in S) / tot),
              ("mean dimension", lambda: tn.mean_dimension(t, marginals=margs), sum(len(S) * v for S, v in V.items()) / tot)]
    for name, f, e in checks:
        got = guard(ctx, case, "sobol", name, lambda: float(f()))
        if got is not None and abs(got - e) > 1e-7:
            rep(ctx, case, "sobol", "%s on shape %s (%s marginals): %r, brute-force variance decomposition %r" % (name, shape, "non-uniform" if ms else "uniform", got, e)); return


def l_c10(ctx, case, rs, k):
    shape = [[2] * 10, [2] * 12, [3] * 9, [40, 3, 4], [2, 3] * 3][k % 5]
    N = len(shape)
    t = rand_tt(rs, shape, 3)
    x = D(t)
    ms = [rs.uniform(0.2, 2.0, size=s) for s in shape] if k % 2 == 1 else None
    w = [(m / m.sum()) if ms is not None else np.ones(s) / s for m, s in zip(ms or shape, shape)]
    margs = None if ms is None else [T(m) for m in ms]
    ctx.case(("large", "C10", tuple(shape), ms is None), True, {"op": "truncate_anova / anova round trip on many or long modes", "shape": shape})
    a = guard(ctx, case, "anova_decomposition", "anova_decomposition", lambda: tn.anova_decomposition(t, marginals=margs))
    if a is not None:
        u = guard(ctx, case, "undo_anova_decomposition", "undo(anova(t))", lambda: tn.undo_anova_decomposition(a))
        if u is not None and not chk(ctx, case, "undo_anova_decomposition", "undo(anova(t)) on shape %s" % shape, D(u), x):
            return
    # one main effect and one interaction by brute force (conditional expectations), keepdim False and True
    xs = tn.symbols(N)
    W = np.ones_like(x)
    for n in range(N):
        W = W * w[n].reshape([-1 if m == n else 1 for m in range(N)])
    mu = float((x * W).sum())

    def cond(S):
        y = x
        for n in range(N):
            if n not in S:
                y = (y * w[n].reshape([-1 if m == n else 1 for m in range(N)])).sum(axis=n, keepdims=True)
        return y
    i, j = sorted(rs.choice(N, size=2, replace=False).tolist())
    fi, fj = cond([i]) - mu, cond([j]) - mu
    fij = cond([i, j]) - fi - fj - mu
    for name, mask, e in (("main effect {%d}" % i, tn.only(xs[i]), fi), ("interaction {%d,%d}" % (i, j), tn.only(xs[i] & xs[j]), fij)):
        for keep in (True, False):
            g = guard(ctx, case, "truncate_anova", "truncate_anova(%s, keepdim=%s)" % (name, keep), lambda: tn.truncate_anova(t, mask, keepdim=keep, marginals=margs))
            if g is None:
                continue
            ee = np.broadcast_to(e, x.shape) if keep else np.squeeze(e, axis=tuple(n for n in range(N) if e.shape[n] == 1))
            gg = D(g) if isinstance(g, tn.Tensor) else np.asarray(float(g))
            if gg.shape != ee.shape or not close(gg, ee, 1e-7)[0]:
                rep(ctx, case, "truncate_anova", "truncate_anova(t, %s, keepdim=%s) on %d modes %s differs from the brute-force ANOVA term"
                    % (name, keep, N, shape), pred="many modes"); return


# ------------------------------------------------------------------------------------------------- C11
def l_c11(ctx, case, rs, k):
    shape, r = [([2] * 12, 16), ([40, 40, 40], 16), ([5] * 6, 8), ([70, 6, 5], 4), ([2] * 12, 20)][k % 5]
    N = len(shape)
    t = rand_tt(rs, shape, r)
    x = D(t).copy()
    key = []
    for n in range(N):
        c = rs.random()
        if c < 0.35:
            key.append(int(rs.integers(-shape[n], shape[n])))
        elif c < 0.7 and shape[n] > 1:
            lo = int(rs.integers(0, shape[n] - 1)); key.append(slice(lo, int(rs.integers(lo + 1, shape[n] + 1)), int(rs.integers(1, 3))))
        else:
            key.append(slice(None))
    if k % 2 == 0:
        # a few restricted modes far apart, everything else untouched: the assignment region is a product of restrictions on both sides of bonds
        pos = sorted(rs.choice(N, size=min(N, int(rs.integers(2, 5))), replace=False).tolist())
        key = [slice(None)] * N
        for n in pos:
            if shape[n] <= 3 or rs.random() < 0.4:
                key[n] = int(rs.integers(-shape[n], shape[n]))
            else:
                lo = int(rs.integers(0, shape[n] // 2)); key[n] = slice(lo, int(rs.integers(lo + 2, shape[n])))
    key = tuple(key)
    sel = x[key]
    vk = k % 3
    if vk == 0 or sel.ndim == 0:
        val = 2.5; xv = val
    elif vk == 1:
        vt = rand_tt(rs, list(sel.shape), 2) if sel.ndim >= 1 and all(s > 0 for s in sel.shape) else None
        val = vt; xv = D(vt) if vt is not None else 2.5
        if vt is None:
            val = 2.5
    else:
        xv = rs.standard_normal(sel.shape); val = T(xv)
    ctx.case(("large", "C11", tuple(shape), r, vk), True, {"op": "assignment into a TT of rank %d" % r, "shape": shape, "value": ["scalar", "compressed", "dense"][vk]})
    rr = safe(lambda: t.__setitem__(key, val))
    if rr[0] == "err":
        rep(ctx, case, "setitem", "t[key] = value on shape %s rank %d raised %s: %s" % (shape, r, rr[1], rr[2])); return
    x[key] = xv
    chk(ctx, case, "setitem", "t[%s] = %s value on shape %s with TT rank %d differs from the dense assignment" % (
        ", ".join(str(q) if isinstance(q, int) else ":" if q == slice(None) else "%s:%s:%s" % (q.start, q.stop, q.step) for q in key),
        ["scalar", "compressed", "dense"][vk], shape, r), D(t), x, 1e-8)


# ------------------------------------------------------------------------------------------------- C12
def l_c12(ctx, case, rs, k):
    shape = [[4, 65, 5], [200, 6, 5], [4, 100, 5], [100, 100, 3], [3, 128], [300], [2] * 12][k % 7]
    N = len(shape)
    t = rand_tt(rs, shape, 3, fac_at=(int(np.argmax(shape)),) if k % 3 == 1 else (), cp_at=tuple(range(N)) if k % 4 == 3 and N > 1 else ())
    x = D(t)
    ctx.case(("large", "C12", tuple(shape), k % 12), True, {"op": "cumsum / flip / pad / ttm / cat / repeat on long or many modes", "shape": shape})
    d = int(np.argmax(shape))
    tests = [("cumsum", lambda: tn.cumsum(t, d), np.cumsum(x, axis=d)), ("cumsum(all)", lambda: tn.cumsum(t, list(range(N))), None),
             ("flip", lambda: tn.flip(t, [d]), np.flip(x, axis=d)),
             ("pad", lambda: tn.pad(t, [shape[d] + 7], dim=[d]), np.concatenate([x, np.zeros([7 if m == d else s for m, s in enumerate(shape)])], axis=d)),
             ("cat", lambda: tn.cat([t] * 9, dim=d), np.concatenate([x] * 9, axis=d))]
    e = x
    for m in range(N):
        e = np.cumsum(e, axis=m)
    tests[1] = ("cumsum(all)", tests[1][1], e)
    U = rs.standard_normal((5, shape[d]))
    tests.append(("ttm", lambda: tn.ttm(t, T(U), dim=d), np.moveaxis(np.tensordot(U, x, axes=([1], [d])), 0, d)))
    for name, f, ee in tests:
        if ee.size > 4e5:
            continue
        u = guard(ctx, case, name, "%s on shape %s (mode %d of size %d)" % (name, shape, d, shape[d]), f)
        if u is not None and not chk(ctx, case, name, "%s along mode %d of size %d (shape %s) differs from NumPy" % (name, d, shape[d], shape), D(u), ee):
            return


# ------------------------------------------------------------------------------------------------- C13
def l_c13(ctx, case, rs, k):
    shape, r = [([300, 20, 20], 4), ([40, 40, 40], 8), ([20, 64, 5], 8), ([2] * 12, 16), ([33, 40, 33], 20), ([8, 9, 10], 3)][k % 6]
    N = len(shape)
    t = rand_tt(rs, shape, r, fac_at=(N - 1,) if k % 4 == 2 else ())
    x = D(t)
    ctx.case(("large", "C13", tuple(shape), r), True, {"op": "left/right_orthogonalize and orthogonalize on tall unfoldings / high ranks", "shape": shape, "rank": r})
    mu = int(rs.integers(0, N - 1))
    if k % 2 == 0:      # the tallest left unfolding (rows = left rank x spatial size of the core)
        mu = int(np.argmax([t.cores[n].shape[0] * t.cores[n].shape[1] for n in range(N - 1)]))
    u = t.clone()
    old = [c.clone() for c in u.cores]
    oldU = [None if U is None else U.clone() for U in u.Us]
    R = guard(ctx, case, "left_orthogonalize", "left_orthogonalize(%d)" % mu, lambda: u.left_orthogonalize(mu))
    if R is not None:
        if not chk(ctx, case, "left_orthogonalize", "left_orthogonalize(%d) on shape %s rank %d changes the tensor" % (mu, shape, r), D(u), x):
            return
        Q = u.cores[mu].reshape(-1, u.cores[mu].shape[-1])
        if float((Q.T @ Q - torch.eye(Q.shape[1], dtype=Q.dtype)).abs().max()) > 1e-9:
            rep(ctx, case, "left_orthogonalize", "core %d is not left-orthonormal after left_orthogonalize (unfolding %s)" % (mu, tuple(Q.shape))); return
        # the returned factor is the one pushed to the neighbour: new neighbour = R x old neighbour, old core (with its factor's R) = Q R
        newn = torch.einsum("ab,bic->aic", R, old[mu + 1])
        if tuple(newn.shape) != tuple(u.cores[mu + 1].shape) or float((newn - u.cores[mu + 1]).abs().max()) > 1e-8 * max(1.0, float(newn.abs().max())):
            rep(ctx, case, "left_orthogonalize", "the factor returned by left_orthogonalize(%d) is not the one pushed to the neighbour (left unfolding with %d rows)"
                % (mu, old[mu].shape[0] * old[mu].shape[1]), pred="tall unfolding"); return
    c = int(rs.integers(N))
    v = t.clone()
    rv = safe(lambda: v.orthogonalize(c))
    if rv[0] == "err":
        rep(ctx, case, "orthogonalize", "orthogonalize(%d) raised %s: %s" % (c, rv[1], rv[2]))
    else:
        if not chk(ctx, case, "orthogonalize", "orthogonalize(%d) on shape %s rank %d changes the tensor" % (c, shape, r), D(v), x):
            return
        nc = v.cores[c] if v.Us[c] is None else torch.einsum("aib,ji->ajb", v.cores[c], v.Us[c])
        if abs(float(torch.linalg.norm(nc)) - float(np.linalg.norm(x))) > 1e-8 * float(np.linalg.norm(x)):
            rep(ctx, case, "orthogonalize", "norm of core %d (with its factor) differs from the norm of the tensor after orthogonalize(%d)" % (c, c))


# ------------------------------------------------------------------------------------------------- C14 / C20
def l_c20(ctx, case, rs, k):
    shape, r = [([40, 40, 40], 16), ([130, 5, 4], 3), ([2] * 12, 16), ([33, 33], 20), ([6, 7, 8], 3)][k % 5]
    N = len(shape)
    t = rand_tt(rs, shape, r)
    x = D(t)
    snap = [c.clone() for c in t.cores]
    ctx.case(("large", "C20", tuple(shape), r), True, {"op": "partial / gradient / laplacian on a large network", "shape": shape, "rank": r, "numcoef": int(sum(c.numel() for c in t.cores))})

    def sten(y, d, h):
        I = y.shape[d]
        if I == 1:
            return np.zeros_like(y)
        lo = 2 * np.take(y, [0], axis=d) - np.take(y, [1], axis=d); hi = 2 * np.take(y, [I - 1], axis=d) - np.take(y, [I - 2], axis=d)
        p = np.concatenate([lo, y, hi], axis=d)
        return (np.take(p, range(2, I + 2), axis=d) - np.take(p, range(0, I), axis=d)) / (2 * h)
    hs = [shape[d] / (shape[d] + 1) for d in range(N)]
    dims = list(range(min(N, 3)))
    g = guard(ctx, case, "gradient", "gradient(t, %s)" % dims, lambda: tn.gradient(t, dim=dims))
    if g is not None:
        for d, gd in zip(dims, g):
            if not chk(ctx, case, "gradient", "component %d of gradient(t, %s) on shape %s rank %d differs from the dense stencil" % (d, dims, shape, r), D(gd), sten(x, d, hs[d]), 1e-8):
                return
    if any(not torch.equal(a, b) for a, b in zip(snap, t.cores)):
        rep(ctx, case, "gradient", "the operand of gradient() was modified (shape %s, rank %d)" % (shape, r), pred="operand modified"); return
    if N <= 4:
        lap = guard(ctx, case, "laplacian", "laplacian", lambda: tn.laplacian(t))
        if lap is not None:
            e = sum(sten(sten(x, d, hs[d]), d, hs[d]) for d in range(N))
            chk(ctx, case, "laplacian", "laplacian on shape %s rank %d differs from the sum of the dense second differences" % (shape, r), D(lap), e, 1e-8)
    if any(not torch.equal(a, b) for a, b in zip(snap, t.cores)):
        rep(ctx, case, "laplacian", "the operand of laplacian() was modified (shape %s, rank %d)" % (shape, r), pred="operand modified")


def l_c14(ctx, case, rs, k):
    shape, r = [([40, 40, 40], 16), ([2] * 14, 8), ([130, 5, 4], 4), ([33, 33], 20), ([30, 30, 30], 4)][k % 5]
    N = len(shape)
    fmtk = k % 3
    t = rand_tt(rs, shape, r, cp_at=tuple(range(N)) if fmtk == 1 else (), fac_at=(0, N - 1) if fmtk == 2 else ())
    u = rand_tt(rs, shape, 3)
    snap_t = [c.clone() for c in t.cores] + [U.clone() for U in t.Us if U is not None]; snap_u = [c.clone() for c in u.cores]
    ids_t = [id(c) for c in t.cores]; rk_t = [int(v) for v in t.ranks_tt]
    ops = [("partial", lambda: tn.partial(t, 0)), ("gradient", lambda: tn.gradient(t, dim=[0, 1] if N > 1 else [0])), ("t*u", lambda: t * u), ("t+u", lambda: t + u),
           ("dist", lambda: tn.dist(t, u)), ("round_tt copy", lambda: tn.round_tt(t, eps=1e-3)), ("sum", lambda: tn.sum(t, dim=[0])), ("cumsum", lambda: tn.cumsum(t, 0)),
           ("flip", lambda: tn.flip(t, [0])), ("getitem", lambda: t[tuple([slice(1, None)] + [slice(None)] * (N - 1))]), ("mean", lambda: tn.mean(t)),
           ("transpose", lambda: tn.transpose(t)), ("clone+setitem", lambda: t.clone().__setitem__(tuple([0] * N), 1.0)),
           ("slice+round", lambda: t[tuple([slice(0, max(1, shape[0] - 1))] + [slice(None)] * (N - 1))].round_tt(eps=1e-2)),
           ("norm", lambda: tn.norm(t)), ("normsq", lambda: tn.normsq(t)), ("var", lambda: tn.var(t)), ("dot", lambda: tn.dot(t, u)), ("t.norm()", lambda: t.norm()),
           ("relative_error", lambda: tn.relative_error(t, u)), ("torch", lambda: t.torch())]
    ctx.case(("large", "C14", tuple(shape), r), True, {"op": "operands of new-tensor operations on a large network", "shape": shape, "rank": r})
    first = [i for i, o in enumerate(ops) if o[0] in ("norm", "partial", "dist", "t*u")]
    order = first + [int(i) for i in rs.permutation(len(ops)) if int(i) not in first][:8]
    for i in order:
        name, f = ops[int(i)]
        if safe(f)[0] == "err":
            continue
        now_t = list(t.cores) + [U for U in t.Us if U is not None]
        if len(now_t) != len(snap_t) or any(a.shape != b.shape or not torch.equal(a, b) for a, b in zip(snap_t, now_t)) or [id(c) for c in t.cores] != ids_t \
                or [int(v) for v in t.ranks_tt] != rk_t or any(not torch.equal(a, b) for a, b in zip(snap_u, u.cores)) or len(t.cores) != N:
            rep(ctx, case, name, "%s modified its operand (shape %s, TT rank %d, %d stored coefficients)" % (name, shape, r, sum(c.numel() for c in snap_t)), pred="operand modified")
            return


# ------------------------------------------------------------------------------------------------- C15 / C16
def l_c15(ctx, case, rs, k):
    N = int([9, 10, 11, 12, 8, 10][k % 6])
    xs = tn.symbols(N)
    X = np.indices((2,) * N).astype(bool)
    idx = rs.permutation(N)
    depth = int(rs.integers(3, 7))
    f, tab = xs[int(idx[0])], X[int(idx[0])]
    desc = "x%d" % idx[0]
    for j in range(1, depth):
        v = int(idx[j % N]); op = ["&", "|", "^", "&~"][int(rs.integers(4))]
        if op == "&":
            f, tab = f & xs[v], tab & X[v]
        elif op == "|":
            f, tab = f | xs[v], tab | X[v]
        elif op == "^":
            f, tab = f ^ xs[v], tab ^ X[v]
        else:
            f, tab = f & ~xs[v], tab & ~X[v]
        desc = "(%s %s x%d)" % (desc, op, v)
    if k % 2 == 0:
        N = 12; xs = tn.symbols(N); X = np.indices((2,) * N).astype(bool)
        # pairing formulas: OR / XOR over i of (x_i & x_{i+m}) on N = 2m variables has TT rank 2^m - 1 across the middle bond
        m = N // 2; opn = "|" if k % 4 == 0 else "^"
        f, tab = xs[0] & xs[m], X[0] & X[m]
        for i in range(1, m):
            g, gt = xs[i] & xs[i + m], X[i] & X[i + m]
            f, tab = (f | g, tab | gt) if opn == "|" else (f ^ g, tab ^ gt)
        desc = "%s over i < %d of (x_i & x_{i+%d})" % ("OR" if opn == "|" else "XOR", m, m)
        depth = m
    ctx.case(("large", "C15", N, depth, k % 4), True, {"op": "formula over %d variables" % N, "formula": desc})
    chk(ctx, case, "formula", "the formula %s over %d variables (TT rank %d) differs from its truth table" % (desc, N, int(max(f.ranks_tt))), D(f), tab.astype(float), 1e-4)
    s = guard(ctx, case, "sum", "sum of the formula", lambda: float(tn.sum(f)))
    if s is not None and abs(s - tab.sum()) > 1e-6 * max(1, tab.sum()):
        rep(ctx, case, "sum", "sum of %s over %d variables = %r, number of satisfying assignments = %d" % (desc, N, s, tab.sum()))
    w = sorted(rs.choice(N, size=3, replace=False).tolist())
    for name, e in (("all", X[w].all(axis=0)), ("any", X[w].any(axis=0)), ("none", ~X[w].any(axis=0))):
        g = guard(ctx, case, name, "%s(%d, %s)" % (name, N, w), lambda: getattr(tn, name)(N, w))
        if g is not None and not chk(ctx, case, name, "%s(%d, %s) differs from its truth table" % (name, N, w), D(g), e.astype(float)):
            return


def l_c16(ctx, case, rs, k):
    N, a, W = [(15, 2, [7, 8]), (5, 8, list(range(14, 22))), (14, 2, [6, 7, 8]), (5, 6, None), (13, 2, [6]), (4, 12, [20, 21, 22])][k % 6]
    ctx.case(("large", "C16", N, a, repr(W)), True, {"op": "accepted_inputs of a large automaton", "N": N, "nsymbols": a, "weights": W})
    t = tn.weight(N, nsymbols=a) if W is None else tn.weight_mask(N, W, nsymbols=a)
    x = np.rint(D(t)).astype(np.int64)
    sums = np.indices((a,) * N).sum(axis=0)
    e = sums if W is None else np.isin(sums, W).astype(np.int64)
    if not np.array_equal(x, e):
        rep(ctx, case, "weight_mask" if W else "weight", "automaton over %d symbols of alphabet %d differs from its definition" % (N, a)); return
    if x.sum() > 120000:
        return
    X = guard(ctx, case, "accepted_inputs", "accepted_inputs (%d rows)" % int(x.sum()), lambda: tn.accepted_inputs(t))
    if X is None:
        return
    exp = np.repeat(np.argwhere(x > 0), x[x > 0], axis=0)
    Xn = X.detach().numpy().astype(np.int64)
    if Xn.shape != exp.shape:
        rep(ctx, case, "accepted_inputs", "accepted_inputs returned %s rows x columns, expected %s" % (Xn.shape, exp.shape)); return
    if not np.array_equal(Xn, exp):
        same = np.array_equal(Xn[np.lexsort(Xn.T[::-1])], exp)
        rep(ctx, case, "accepted_inputs", "accepted_inputs of an automaton accepting %d strings: rows differ from the lexicographic listing (%s)"
            % (exp.shape[0], "same multiset, wrong order" if same else "different multiset"), pred="many accepted strings")


# ------------------------------------------------------------------------------------------------- C17
def l_c17(ctx, case, rs, k):
    from tntorch.maxvol import py_maxvol, py_rect_maxvol
    n, r = [(40, 16), (48, 20), (80, 32), (300, 24), (50, 16), (600, 5), (128, 16)][k % 7]
    kind = k % 3
    A = rs.standard_normal((n, r))
    if kind == 1:      # dominant rows in the leading block in reverse order (chained LAPACK interchanges)
        A[:r] = 0; A[np.arange(r), np.arange(r)[::-1]] = 10 + np.arange(r)
    elif kind == 2:
        A = np.linalg.qr(A)[0]
    ctx.case(("large", "C17", n, r, kind), True, {"op": "maxvol / rect_maxvol on %d x %d" % (n, r)})
    for name, f in (("py_maxvol", lambda: py_maxvol(A.copy(), 1.05, 100)), ("py_rect_maxvol", lambda: py_rect_maxvol(A.copy(), 1.0, maxK=min(n, 2 * r)))):
        o = guard(ctx, case, name, "%s on a %d x %d matrix" % (name, n, r), f)
        if o is None:
            continue
        idx, C = np.asarray(o[0]), np.asarray(o[1])
        if len(set(idx.tolist())) != len(idx):
            rep(ctx, case, name, "%s on a %d x %d matrix returned repeated rows: %d distinct of %d" % (name, n, r, len(set(idx.tolist())), len(idx)), pred="r >= 16"); return
        if not close(C @ A[idx], A, 1e-7)[0]:
            rep(ctx, case, name, "%s on a %d x %d matrix: C @ A[idx] does not reproduce A" % (name, n, r), pred="r >= 16"); return
        if not close(C[idx], np.eye(len(idx)), 1e-8)[0]:
            rep(ctx, case, name, "%s on a %d x %d matrix: C[idx] is not the identity" % (name, n, r), pred="r >= 16"); return
        if name == "py_maxvol" and float(np.abs(C).max()) > 1.05 * (1 + 1e-9):
            rep(ctx, case, name, "py_maxvol on a %d x %d matrix: max |C| = %.4f > tol" % (n, r, float(np.abs(C).max()))); return
        if name == "py_rect_maxvol" and not (r <= len(idx) <= min(n, 2 * r)):
            rep(ctx, case, name, "py_rect_maxvol returned %d rows, expected between %d and %d" % (len(idx), r, min(n, 2 * r))); return


# ------------------------------------------------------------------------------------------------- C18
def l_c18(ctx, case, rs, k):
    B, shape, r = [(7, [40, 40, 40], 3), (9, [6, 5, 4], 3), (5, [2] * 10, 6), (33, [8, 8], 4), (3, [130, 5], 3)][k % 5]
    N = len(shape)
    R = [1] + [r] * (N - 1) + [1]
    cores = [T(rs.standard_normal((B, R[n], shape[n], R[n + 1]))) for n in range(N)]
    bt = tn.Tensor(cores, batch=True)
    ctx.case(("large", "C18", B, tuple(shape), r), True, {"op": "batch of %d tensors of shape %s" % (B, shape)})
    x = guard(ctx, case, "torch", "torch() of a batch of %d" % B, lambda: D(bt))
    if x is None:
        return
    els = [D(tn.Tensor([c[b] for c in cores])) for b in range(B)]
    for b in range(B):
        if x.shape[1:] != els[b].shape or not close(x[b], els[b], 1e-9)[0]:
            rep(ctx, case, "torch", "batch.torch()[%d] differs from the decompression of element %d as an ordinary tensor (batch %d x %s, rank %d)" % (b, b, B, shape, r),
                pred="large batch"); return
    other = tn.Tensor([T(rs.standard_normal((B, R[n], shape[n], R[n + 1]))) for n in range(N)], batch=True)
    xo = D(other)
    for name, f, e in (("add", lambda: bt + other, x + xo), ("mul", lambda: bt * other, x * xo), ("smul", lambda: bt * 2.0, 2 * x)):
        u = guard(ctx, case, name, "batch %s" % name, f)
        if u is not None and not chk(ctx, case, name, "batch %s on %d x %s differs element-wise" % (name, B, shape), D(u), e):
            return


# ------------------------------------------------------------------------------------------------- C19
def l_c19(ctx, case, rs, k):
    sel = k % 2
    if sel == 0:
        ind, outd = [([4, 4], [4, 4]), ([3, 5], [2, 4]), ([2, 2, 2], [3, 2, 2])][int(rs.integers(3))]
        rank = int(rs.choice([100, 150, 65, 200, 50]))
        M = rs.standard_normal((int(np.prod(ind)), int(np.prod(outd))))
        cp = guard(ctx, case, "CPMatrix", "CPMatrix(rank=%d)" % rank, lambda: tn.CPMatrix(T(M), rank=4, input_dims=list(ind), output_dims=list(outd)))
        if cp is None:
            return
        cp.cores = [T(rs.standard_normal((i, o, rank))) for i, o in zip(ind, outd)]
        ctx.case(("large", "C19", "cp", tuple(ind), tuple(outd), rank), True, {"op": "cp_multiply with CP rank %d" % rank})
        Dm = guard(ctx, case, "CPMatrix.torch", "CPMatrix.torch()", lambda: cp.torch().detach().numpy())
        V = rs.standard_normal((7, M.shape[0]))
        r = guard(ctx, case, "cp_multiply", "cp_multiply", lambda: tn.cp_multiply(cp, T(V)).detach().numpy())
        if Dm is not None and r is not None:
            chk(ctx, case, "cp_multiply", "cp_multiply with CP rank %d differs from V @ cpm.torch()" % rank, r, V @ Dm, 1e-8)
        return
    ind, outd, ranks = [([4, 5, 4], [5, 4, 5], [20, 17]), ([16, 16], [16, 16], [40]), ([2] * 6, [2] * 6, [8] * 5), ([8], [9], [])][int(rs.integers(4))]
    d = len(ind)
    R = [1] + list(ranks) + [1]
    cs = [T(rs.standard_normal((R[n], ind[n], outd[n], R[n + 1])) / math.sqrt(R[n])) for n in range(d)]
    m = guard(ctx, case, "TTMatrix", "TTMatrix(cores)", lambda: tn.TTMatrix(cs, ranks=list(ranks), input_dims=list(ind), output_dims=list(outd)))
    if m is None:
        return
    ctx.case(("large", "C19", "tt", tuple(ind), tuple(outd), tuple(ranks)), True, {"op": "tt_multiply / trace with ranks %s" % (ranks,)})
    Dm = guard(ctx, case, "TTMatrix.torch", "torch()", lambda: m.torch().detach().numpy())
    if Dm is None:
        return
    V = rs.standard_normal((5, Dm.shape[0]))
    r = guard(ctx, case, "tt_multiply", "tt_multiply", lambda: tn.tt_multiply(m, T(V)).detach().numpy())
    if r is not None:
        chk(ctx, case, "tt_multiply", "tt_multiply with dims %s x %s ranks %s differs from V @ dense" % (ind, outd, ranks), r, V @ Dm, 1e-8)
    if ind == outd:
        tr = guard(ctx, case, "trace", "trace", lambda: float(m.trace()))
        if tr is not None and abs(tr - np.trace(Dm)) > 1e-8 * max(1.0, abs(np.trace(Dm))):
            rep(ctx, case, "trace", "trace() = %r, dense trace %r" % (tr, float(np.trace(Dm))))


RUN = {"C01": l_c01, "C02": l_c02, "C03": l_c03, "C04": l_c04, "C05": l_c05, "C06": l_c06, "C07": l_c07, "C08": l_c08, "C09": l_c09, "C10": l_c10,
       "C11": l_c11, "C12": l_c12, "C13": l_c13, "C14": l_c14, "C15": l_c15, "C16": l_c16, "C17": l_c17, "C18": l_c18, "C19": l_c19, "C20": l_c20}
