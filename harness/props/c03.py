"""C03 — indexing a compressed tensor equals (natural) NumPy indexing of the dense array."""
import numpy as np, torch, random
import core
from core import PT, gen_tensor, from_tn, parse_tensor, cmp_struct, close, q, safe, tn
from props.c02 import with_dd

RULE = ("hybrid tensors with 1..4 modes of sizes 1..5 × keys drawn from the grammar: per mode int (negative allowed) | slice "
        "(start/stop None, negative, out of range; step None,1,2,3; empty) | one contiguous run of equal-length index arrays "
        "(negative entries allowed), None inserted anywhere outside the run, Ellipsis replacing any block of full slices, trailing "
        "entries dropped; plus squeeze/unsqueeze/unbind; plus a malformed stream (out-of-range int / array entry, two runs, run broken "
        "by None or int, too many entries, two Ellipses, step ≤ 0, unequal array lengths) on which an error is required. "
        "Oracle: natural indexing (two-step NumPy: basic part, then the zipped run in place). distinct = (format signature, shape, "
        "ranks, key kinds sequence); non-trivial = >1 mode or rank>1 or a factor")
TRUSTED = ["NumPy basic and adjacent-advanced indexing as the oracle for natural indexing",
           "torch's slice/negative-index semantics on cores (modelled by normSlice/normInt, compared per case)"]
ASSUMPTIONS = ["WFstd tensors; keys are tuples (a bare list key means successive integers in tntorch and is not generated)"]


# ------------------------------------------------------------------ key generation (JSON: ["i",k] ["s",a,b,c] ["n"] ["e"] ["a",[..]])
def gen_slice(rng, n):
    def ep():
        r = rng.random()
        if r < 0.35:
            return None
        return rng.randint(-n - 2, n + 2)
    step = rng.choice([None, None, 1, 2, 3])
    if rng.random() < 0.3:
        return ["s", None, None, step if rng.random() < 0.5 else None]
    return ["s", ep(), ep(), step]


def gen_key(rng, shape):
    N = len(shape)
    per = [None] * N
    run = None
    if rng.random() < 0.4:
        i = rng.randrange(N); j = rng.randint(i, min(N - 1, i + 2))
        P = rng.randint(1, 4)
        run = (i, j)
        for m in range(i, j + 1):
            per[m] = ["a", [rng.randint(-shape[m], shape[m] - 1) for _ in range(P)]]
    for m in range(N):
        if per[m] is None:
            r = rng.random()
            if r < 0.35:
                per[m] = ["i", rng.randint(-shape[m], shape[m] - 1)]
            else:
                per[m] = gen_slice(rng, shape[m])
    # optional Ellipsis over a block of modes that are (made) full slices and outside the run
    key = list(per)
    owners = list(range(N))  # which mode each entry belongs to (None for None/ellipsis)
    if rng.random() < 0.35:
        a = rng.randint(0, N); b = rng.randint(a, N)
        if run is None or b <= run[0] or a > run[1]:
            key = key[:a] + [["e"]] + key[b:]
            owners = owners[:a] + [None] + owners[b:]
    elif rng.random() < 0.3:
        # drop trailing entries (partial key)
        cut = rng.randint(0, N)
        if run is None or cut > run[1]:
            key = key[:cut]; owners = owners[:cut]
    # insert None entries outside the run
    for _ in range(rng.choice([0, 0, 1, 1, 2])):
        pos = rng.randint(0, len(key))
        if run is not None:
            # position must not fall strictly inside the run
            ks = [i for i, o in enumerate(owners) if o is not None and run[0] <= o <= run[1]]
            if ks and ks[0] < pos <= ks[-1]:
                continue
        key.insert(pos, ["n"]); owners.insert(pos, None)
    return key


def gen_bad_key(rng, shape):
    """a key outside the grammar; returns (key, kind)"""
    N = len(shape)
    kind = rng.choice(["oor_int", "oor_arr", "two_runs", "run_none", "too_many", "two_ellipsis", "bad_step", "len_mismatch"])
    full = [["s", None, None, None] for _ in range(N)]
    if kind == "oor_int":
        m = rng.randrange(N); full[m] = ["i", rng.choice([shape[m], shape[m] + 1, -shape[m] - 1])]
    elif kind == "oor_arr":
        m = rng.randrange(N); full[m] = ["a", [0, rng.choice([shape[m], -shape[m] - 1])]]
    elif kind == "two_runs":
        if N < 3:
            return None, None
        full[0] = ["a", [0, 0]]; full[1] = rng.choice([["s", None, None, None], ["i", 0]]); full[2] = ["a", [0, 0]]
    elif kind == "run_none":
        if N < 2:
            return None, None
        full[0] = ["a", [0, 0]]; full[1] = ["a", [0, 0]]; full.insert(1, ["n"])
    elif kind == "too_many":
        full.append(rng.choice([["i", 0], ["s", None, None, None]]))
    elif kind == "two_ellipsis":
        full = [["e"], ["i", 0], ["e"]] if N >= 1 else full
    elif kind == "bad_step":
        m = rng.randrange(N); full[m] = ["s", None, None, rng.choice([0, -1])]
    elif kind == "len_mismatch":
        if N < 2:
            return None, None
        full[0] = ["a", [0, 0]]; full[1] = ["a", [0, 0, 0]]
    return full, kind


def py_key(key, arr_kind="list"):
    out = []
    for it in key:
        if it[0] == "i":
            out.append(int(it[1]))
        elif it[0] == "s":
            out.append(slice(it[1], it[2], it[3]))
        elif it[0] == "n":
            out.append(None)
        elif it[0] == "e":
            out.append(Ellipsis)
        else:
            l = list(it[1])
            out.append(l if arr_kind == "list" else (np.array(l) if arr_kind == "np" else torch.tensor(l)))
    return tuple(out)


def ser_key(key):
    out = ["K", str(len(key))]
    for it in key:
        if it[0] == "i":
            out += ["i", str(it[1])]
        elif it[0] == "s":
            out += ["s"] + ["_" if v is None else str(v) for v in it[1:4]]
        elif it[0] == "n":
            out.append("n")
        elif it[0] == "e":
            out.append("e")
        else:
            out += ["a", str(len(it[1]))] + [str(v) for v in it[1]]
    return " ".join(out)


def nat_index(x, key):
    """natural indexing: the zipped run leaves its dimension where the run stood (two-step NumPy evaluation)"""
    N = x.ndim
    key = list(key)
    nn = sum(1 for k in key if k[0] == "n")
    if sum(1 for k in key if k[0] == "e") > 1:
        raise IndexError("two ellipses")
    for i, k in enumerate(key):
        if k[0] == "e":
            key = key[:i] + [["s", None, None, None]] * (N - (len(key) - nn) + 1) + key[i + 1:]
            break
    if N - (len(key) - nn) < 0:
        raise IndexError("too many")
    key = key + [["s", None, None, None]] * (N - (len(key) - nn))
    basic = []
    run_pos = None       # axis position of the run in the intermediate array
    arrays = []
    axis = 0
    state = 0            # 0 before run, 1 in run, 2 after run
    for k in key:
        if k[0] == "a":
            if state == 2:
                raise IndexError("two runs")
            if state == 0:
                run_pos = axis; state = 1
            arrays.append(np.array(k[1], dtype=np.int64))
            basic.append(slice(None)); axis += 1
        else:
            if state == 1:
                state = 2
            if k[0] == "i":
                basic.append(int(k[1]))
            elif k[0] == "s":
                if k[3] is not None and k[3] <= 0:
                    raise IndexError("bad step")
                basic.append(slice(k[1], k[2], k[3])); axis += 1
            else:
                basic.append(None); axis += 1
    y = x[tuple(basic)]
    if arrays:
        if len(set(len(a) for a in arrays)) != 1:
            raise IndexError("lengths")
        y = y[(slice(None),) * run_pos + tuple(arrays)]
    return y


def cases(rng, tier):
    n = {"quick": 1200, "thorough": 12000, "search": 3000}[tier]
    nbad = {"quick": 80, "thorough": 600, "search": 100}[tier]
    ntool = {"quick": 150, "thorough": 800, "search": 200}[tier]
    out = []
    for _ in range(n):
        N = rng.choice([1, 2, 2, 3, 3, 4])
        stream = "int" if rng.random() < 0.6 else "float"
        shape = [1 if rng.random() < 0.15 else rng.randint(1, 5) for _ in range(N)]
        t = gen_tensor(rng, shape, stream=stream)
        c = {"kind": "key", "t": t.to_json(), "key": gen_key(rng, shape), "stream": stream,
             "arr_kind": rng.choice(["list", "list", "np", "torch"]), "dd": rng.choice(["float32", "float64"])}
        if rng.random() < 0.35:
            # chained indexing t[key][key2]: results of indexing (identity cores from None entries, absorbed integer factors, open
            # boundary ranks of CP runs) are tensors like any other
            try:
                sh2 = list(np.asarray(nat_index(np.zeros(shape), c["key"])).shape)
                if sh2 and len(sh2) <= 5 and all(d_ >= 1 for d_ in sh2):
                    c["key2"] = gen_key(rng, sh2)
            except IndexError:
                pass
        out.append(c)
    for _ in range(nbad):
        N = rng.choice([1, 2, 3, 3, 4])
        shape = [rng.randint(1, 4) for _ in range(N)]
        key, kind = gen_bad_key(rng, shape)
        if key is None:
            continue
        t = gen_tensor(rng, shape, stream="int")
        out.append({"kind": "bad", "t": t.to_json(), "key": key, "bad": kind, "stream": "int", "arr_kind": "list"})
    for _ in range(ntool):
        N = rng.choice([1, 2, 3, 3, 4])
        shape = [1 if rng.random() < 0.35 else rng.randint(2, 4) for _ in range(N)]
        t = gen_tensor(rng, shape, stream="int")
        op = rng.choice(["squeeze", "squeeze_dim", "unsqueeze", "unbind"])
        c = {"kind": "tool", "op": op, "t": t.to_json(), "stream": "int"}
        if op == "squeeze_dim":
            ones = [i for i, s in enumerate(shape) if s == 1]
            if not ones:
                c["op"] = "squeeze"
            else:
                # an int or a list of ints, each position given from the front or (negative) from the back
                k = 1 if rng.random() < 0.6 else rng.randint(1, len(ones))
                sel = sorted(rng.sample(ones, k))
                sel = [d - N if rng.random() < 0.4 else d for d in sel]
                c["dim"] = sel[0] if (k == 1 and rng.random() < 0.7) else sel
        if op == "unsqueeze":
            k = rng.randint(1, 2)
            c["dim"] = sorted(rng.sample(range(N + k), k))
        if op == "unbind":
            c["dim"] = rng.randint(-N, N - 1)
        out.append(c)
    return out


def compare_result(ctx, case, what, r, exp, model_toks, exact):
    """r: implementation result (tensor or scalar); exp: ndarray"""
    use_model = model_toks is not None
    if exp.ndim == 0:
        if isinstance(r, tn.Tensor):
            ctx.oracle("%s: every mode indexed by an integer but a Tensor was returned" % what, case,
                       cls={"op": "getitem", "predicate": "all-int key returns tensor"})
            return
        ok, err = close(np.asarray(float(r)), exp, rtol=1e-9)
        if not ok:
            ctx.oracle("%s: scalar result %r differs from %r" % (what, float(r), float(exp)), case)
        if use_model:
            if model_toks[0] != "ok" or model_toks[1] != "S":
                ctx.corr("%s: model did not return a scalar: %s" % (what, " ".join(model_toks[:4])), case)
            else:
                mv = float(core.unq(model_toks[2]))
                ok2, _ = close(np.asarray(mv), exp, rtol=1e-9)
                if not ok2:
                    ctx.spec("%s: model scalar %r differs from specification %r" % (what, mv, float(exp)), case)
                if (exact and mv != float(r)) or not close(np.asarray(mv), np.asarray(float(r)), 1e-9)[0]:
                    ctx.corr("%s: implementation scalar %r differs from model scalar %r" % (what, float(r), mv), case)
        return
    if not isinstance(r, tn.Tensor):
        ctx.oracle("%s: returned %s instead of a tensor of shape %s" % (what, type(r).__name__, exp.shape), case)
        return
    dres = with_dd(case.get("dd", "float64"), lambda: safe(lambda: r.torch().detach().double().numpy()))
    if dres[0] == "err":
        ctx.oracle("%s: result cannot be decompressed: %s: %s" % (what, dres[1], dres[2]), case); return
    got = dres[1]
    if tuple(got.shape) != tuple(exp.shape) or tuple(r.shape) != tuple(exp.shape):
        ctx.oracle("%s: shape %s (reported %s) != expected %s" % (what, got.shape, tuple(r.shape), exp.shape), case)
        return
    ok, err = close(got, exp, rtol=1e-9)
    if not ok:
        ctx.oracle("%s: values differ from the dense array's indexing (%s)" % (what, err), case)
        ctx.count("oracle_mismatch")
    if use_model:
        if model_toks[0] != "ok" or model_toks[1] != "T":
            ctx.corr("%s: model failed/returned non-tensor: %s" % (what, " ".join(model_toks[:4])), case)
            return
        m = parse_tensor(model_toks, 1)[0]
        d = cmp_struct(from_tn(r), m, exact)
        if d is not None:
            ctx.corr("%s: implementation cores differ from model cores: %s" % (what, d), case); ctx.count("corr_mismatch")
        if m.N > 0:
            md = PT([np.asarray(c, dtype=np.float64) for c in m.cores],
                    [None if U is None else np.asarray(U, dtype=np.float64) for U in m.Us]).dense()
            ok2, err2 = close(md, exp, rtol=1e-9) if md.shape == exp.shape else (False, "shape %s vs %s" % (md.shape, exp.shape))
            if not ok2:
                ctx.spec("%s: model result differs from natural indexing (%s)" % (what, err2), case)


def run_case(ctx, case):
    use_model = getattr(ctx, "use_model", False) and not getattr(ctx, "search_only", False)
    t = PT.from_json(case["t"])
    x = t.dense()
    exact = case["stream"] == "int"
    if case["kind"] in ("key", "bad"):
        key = case["key"]
        kinds = tuple(k[0] + (("%d" % len(k[1])) if k[0] == "a" else "") for k in key)
        ctx.case((t.sig(), kinds, case.get("bad")), t.nontrivial(), {"t": t.describe(), "key": key, "malformed": case.get("bad")})
        for k in kinds:
            ctx.count("item:" + k[0])
        ctx.count("keys:" + case["kind"])
        pk = py_key(key, case.get("arr_kind", "list"))
        tt = t.to_tn()
        dd = case.get("dd", "float64")
        res = with_dd(dd, lambda: safe(lambda: tt[pk]))
        ctx.count("dd:" + dd)
        mtoks = ctx.drv().call("getitem " + ser_key(key) + " " + t.ser()) if use_model else None
        try:
            exp = nat_index(x, key)
            exp_err = None
        except IndexError as e:
            exp, exp_err = None, str(e)
        if case["kind"] == "bad" or exp_err is not None:
            ctx.count("expect_error")
            if res[0] != "err":
                ctx.oracle("ill-formed key %s (%s) returned a result instead of raising" % (key, case.get("bad") or exp_err), case,
                           cls={"op": "getitem", "predicate": "ill-formed key accepted: %s" % (case.get("bad") or exp_err)})
            else:
                ctx.count("impl_error:" + res[1])
            if use_model and mtoks[0] != "err":
                ctx.corr("model accepted ill-formed key %s" % key, case)
            return
        if res[0] == "err":
            ctx.oracle("valid key %s raised %s: %s" % (key, res[1], res[2]), case); ctx.count("impl_raise:" + res[1])
            return
        compare_result(ctx, case, "t[%s]" % (pk,), res[1], np.asarray(exp), mtoks, exact)
        if case.get("key2") is not None and isinstance(res[1], tn.Tensor):
            key2 = case["key2"]
            pk2 = py_key(key2, case.get("arr_kind", "list"))
            ctx.count("chained")
            try:
                exp2 = nat_index(np.asarray(exp), key2)
            except IndexError:
                return
            r2 = with_dd(dd, lambda: safe(lambda: res[1][pk2]))
            if r2[0] == "err":
                ctx.oracle("chained indexing t[%s][%s]: the second (valid) key raised %s: %s" % (pk, pk2, r2[1], r2[2]), case,
                           cls={"op": "getitem", "predicate": "chained indexing raises"}); return
            m2 = None
            if use_model and mtoks is not None and mtoks[0] == "ok" and mtoks[1] == "T":
                m1 = parse_tensor(mtoks, 1)[0]
                m2 = ctx.drv().call("getitem " + ser_key(key2) + " " + m1.ser())
            compare_result(ctx, case, "t[%s][%s]" % (pk, pk2), r2[1], np.asarray(exp2), m2, exact)
        return
    # tools defined through indexing
    op = case["op"]
    tt = t.to_tn()
    ctx.case((op, t.sig(), repr(case.get("dim"))), t.nontrivial(), {"op": op, "t": t.describe(), "dim": case.get("dim")})
    ctx.count("op:" + op)
    xt = torch.tensor(x)
    if op == "squeeze":
        res = safe(lambda: tn.squeeze(tt)); exp = np.squeeze(x)
    elif op == "squeeze_dim":
        dd = case["dim"]
        res = safe(lambda: tn.squeeze(tt, dd)); exp = np.squeeze(x, axis=tuple(dd) if isinstance(dd, list) else dd)
    elif op == "unsqueeze":
        res = safe(lambda: tn.unsqueeze(tt, case["dim"]))
        exp = x
        for d in case["dim"]:
            exp = np.expand_dims(exp, d)
    else:
        res = safe(lambda: tn.unbind(tt, case["dim"]))
        exps = [e.numpy() for e in torch.unbind(xt, case["dim"])]
        if res[0] == "err":
            ctx.oracle("unbind raised %s: %s" % (res[1], res[2]), case); return
        if len(res[1]) != len(exps):
            ctx.oracle("unbind returned %d slices, expected %d" % (len(res[1]), len(exps)), case); return
        for r, e in zip(res[1], exps):
            compare_result(ctx, case, "unbind slice", r, np.asarray(e), None, exact)
        return
    if res[0] == "err":
        ctx.oracle("%s raised %s: %s" % (op, res[1], res[2]), case); return
    compare_result(ctx, case, op, res[1], np.asarray(exp), None, exact)
