"""C04 — tolerance-driven recompression keeps its error bound, never raises a rank, respects rmax (oracle search on the real code)."""
import math, random
import numpy as np, torch
import core
from core import PT, gen_tensor, from_tn, close, safe, tn, rnd_entries
from props._a_common import (frob, rep_scale, tt_unfoldings, mode_unfoldings, svals, tail, min_rank_for, cond_matrix, factor_cond,
                             fmt_counts, numerical_ranks)

RULE = ("one PRNG(seed): hybrid tensors with 1..5 modes, per-mode format (TT|CP)x(no factor|narrow|square|wide), float64 Gaussian "
        "entries, in the variants generic | illcond (Tucker factors with condition number 10..1e6 and scale 1e-2..1e2) | rankdef "
        "(rank-deficient bonds, collinear CP columns) | zero (a zero core or factor) | overrank (ranks up to 9 on modes of size 2..3) | "
        "scaled (a core or factor scaled by 1e-4..1e4) | decay (bond/column j weighted by q^j, q in {.5,.1,.01}) | tinynorm (norm of the "
        "tensor 1e-16..1e-14); a float32 stream (generic/decay tensors cast to float32 at overall norms 1e-11..1e2, eps 0.01..0.4, bound eps*1.05+5e-3 plus 1e-5 of the representation scale); each through round_tt, "
        "round_tucker (occasionally with dim=subset) and round, as in-place method on a clone or as copying tn.round*; "
        "eps log-uniform in [1e-6, 0.5], or (half of the cases) 1..1.3 times the value at which some unfolding of the dense input just "
        "crosses a truncation boundary, or eps=1e-12 with algorithm svd (the rank-revealing clause); algorithm svd|eig; rmax none | "
        "scalar | per-bond/per-mode list.  Dense arrays (generic, decaying, low-rank, zero, tiny) through Tensor(x, eps=, algorithm=); "
        "sparse sample sets through sparse_tt_svd (eps >= 1e-6, Gram path).  Oracle: ||x - y||_F on the independent NumPy "
        "decompression x of the input; allowed = (eps(1+1e-6) + 1e-12)||x|| + 1e-13*S where S = product of the Frobenius norms of "
        "the cores/factors (float noise floor of the representation); eig adds 1e-14/eps (squared singular values carry an absolute "
        "error 1e-16*sigma_1^2); round adds min(eps, 2e-8) (its Tucker budget comes from a dot-product based relative_error, "
        "accurate to 1e-8).  With rmax the error bound is asserted only when the cap provably cannot bind for a correct "
        "implementation (rmax_k >= smallest rank of the k-th unfolding of x meeting the per-step budget).  "
        "distinct = (op, format signature, shape, ranks, variant, algorithm, rmax kind, eps decade); non-trivial = >1 mode or rank>1 or a factor")
TRUSTED = ["NumPy SVD of the unfoldings of the dense input (numerical ranks, tails)",
           "the float64 slack terms listed in RULE; the rank-revealing clause (eps=1e-12) is asserted only for inputs whose unfoldings "
           "have no singular value in (1e-12, 1e-6)*sigma_1, factor condition numbers <= 100 and S/||x|| <= 100",
           "eig algorithm only searched with eps >= 1e-6 (Gram matrix squares the condition number)"]
ASSUMPTIONS = ["inputs are WFstd tensors (documented formats, outer TT ranks 1)",
               "round(rmax=...) only with a scalar rmax (the same kwargs go to round_tt (N-1 entries) and round_tucker (N entries))"]

VARIANTS = ["generic", "generic", "generic", "illcond", "illcond", "illcond", "decay", "decay", "rankdef", "rankdef", "zero", "overrank",
            "overrank", "scaled", "scaled", "tinynorm"]
OPS = ["round_tt", "round_tucker", "round"]


# ----------------------------------------------------------------------------- generation
def _mk_variant(rng, variant, N):
    hi = 5 if N <= 3 else (4 if N == 4 else 3)
    if variant == "overrank":
        shape = [rng.randint(2, 3) for _ in range(N)]
        t = gen_tensor(rng, shape, rmax=9, stream="float", p_rank1=0.05)
        return t
    shape = [1 if rng.random() < 0.1 else rng.randint(2, hi) for _ in range(N)]
    t = gen_tensor(rng, shape, rmax=4, stream="float")
    if variant == "illcond":
        idx = [n for n in range(N) if t.Us[n] is not None]
        if not idx or rng.random() < 0.3:
            idx = sorted(set(idx + [rng.randrange(N)]))
        for n in idx:
            if rng.random() < 0.8 or len(idx) == 1:
                I = shape[n]
                s = t.cores[n].shape[-2]
                t.Us[n] = cond_matrix(rng, I, s, 10 ** rng.uniform(1, 6), 10 ** rng.uniform(-2, 2))
    elif variant == "rankdef":
        for n in range(N):
            c = t.cores[n]
            if rng.random() < 0.6:
                if c.ndim == 3 and c.shape[2] >= 2:
                    k = rng.randint(1, c.shape[2] - 1)
                    W = rnd_entries(rng, (k, c.shape[2]), "float")
                    t.cores[n] = c[:, :, :k] @ W
                elif c.ndim == 2 and c.shape[1] >= 2:
                    j = rng.randrange(1, c.shape[1])
                    c = c.copy(); c[:, j] = rng.choice([1.0, -2.0, 0.5]) * c[:, 0]
                    t.cores[n] = c
                elif c.ndim == 3 and c.shape[1] >= 2:
                    c = c.copy(); c[:, rng.randrange(c.shape[1]), :] = 0.0          # an exactly zero slice, anywhere
                    t.cores[n] = c
            elif rng.random() < 0.25:
                c = t.cores[n].copy()
                if c.ndim == 3 and c.shape[2] >= 2:
                    c[:, :, rng.randrange(c.shape[2])] = 0.0                         # an exactly zero bond column (exact zero QR pivot)
                elif c.ndim == 2 and c.shape[1] >= 2:
                    c[:, rng.randrange(c.shape[1])] = 0.0                            # a zero CP term
                t.cores[n] = c
            if t.Us[n] is not None and rng.random() < 0.4 and t.Us[n].shape[1] >= 2:
                U = t.Us[n].copy()
                if rng.random() < 0.5:
                    U[:, -1] = U[:, 0]
                else:
                    U[:, rng.randrange(U.shape[1])] = 0.0                            # a pruned (all-zero) factor column, anywhere
                t.Us[n] = U
    elif variant == "decay":
        qd = rng.choice([0.5, 0.1, 0.01])
        for n in range(N):
            c = t.cores[n]
            w = np.array([qd ** j for j in range(c.shape[-1])])
            t.cores[n] = c * w            # weights the outgoing bond (TT) / the CP column index
            if t.Us[n] is not None and rng.random() < 0.5:
                U = t.Us[n]
                t.Us[n] = U * np.array([qd ** j for j in range(U.shape[1])])
    elif variant == "zero":
        n = rng.randrange(N)
        if t.Us[n] is not None and rng.random() < 0.4:
            t.Us[n] = np.zeros_like(t.Us[n])
        else:
            t.cores[n] = np.zeros_like(t.cores[n])
    elif variant == "scaled":
        for _ in range(rng.randint(1, 2)):
            n = rng.randrange(N)
            f = 10 ** rng.uniform(-4, 4)
            if t.Us[n] is not None and rng.random() < 0.6:
                t.Us[n] = t.Us[n] * f
            else:
                t.cores[n] = t.cores[n] * f
    elif variant == "tinynorm":
        nx = frob(t.dense())
        if nx > 0:
            target = 10 ** rng.uniform(-16, -14)
            n = rng.randrange(N)
            if t.Us[n] is not None and rng.random() < 0.5:
                t.Us[n] = t.Us[n] * (target / nx)
            else:
                t.cores[n] = t.cores[n] * (target / nx)
    return t


def _eps(rng, x=None):
    """log-uniform in [1e-6, 0.5], or (half of the time, when the dense input is given) aimed just above a truncation boundary:
    eps = u * sqrt(N-1 or N) * sqrt(tail_r(unfolding)) / ||x|| with u in [1, 1.3]"""
    if x is not None and x.ndim >= 2 and rng.random() < 0.5:
        nx = frob(x)
        if nx > 0:
            if rng.random() < 0.6:
                Ms = tt_unfoldings(x); f = math.sqrt(x.ndim - 1)
            else:
                Ms = mode_unfoldings(x); f = math.sqrt(x.ndim)
            s = svals(Ms[rng.randrange(len(Ms))])
            r = rng.randrange(len(s))
            e = rng.uniform(1.0, 1.3) * f * math.sqrt(tail(s, r)) / nx
            if 1e-6 <= e <= 0.95:
                return e
    return 10 ** rng.uniform(-6, math.log10(0.5))


def _mk_dense(rng, fill, shape):
    N = len(shape)
    n = int(np.prod(shape))
    if fill == "zero":
        return np.zeros(shape)
    if fill == "lowrank":
        t = gen_tensor(rng, shape, fmt=[("tt", None)] * N, rmax=2, stream="float")
        return t.dense()
    x = rnd_entries(rng, shape, "float")
    if fill == "decaying":
        # multiply entry (i1..iN) by 2^-(i1+..+iN) and add a smooth separable part: fast-decaying unfolding spectra
        g = np.zeros(shape)
        for idx in np.ndindex(*shape):
            g[idx] = 1.0 / (1.0 + sum(idx)) ** 2
        x = g + 1e-3 * x * np.exp(-rnd_entries(rng, shape, "float") ** 2)
    if fill == "tiny":
        x = x * (10 ** rng.uniform(-16, -14) / max(frob(x), 1e-300))
    return x


def cases(rng, tier):
    nh = {"quick": 2200, "thorough": 16000, "search": 5500}[tier]
    nd = {"quick": 240, "thorough": 2400, "search": 800}[tier]
    ns = {"quick": 160, "thorough": 1500, "search": 500}[tier]
    out = []
    for _ in range(nh):
        N = rng.choice([1, 2, 2, 3, 3, 3, 4, 4, 5])
        variant = rng.choice(VARIANTS)
        t = _mk_variant(rng, variant, N)
        tiny = rng.random() < 0.18
        alg = "svd" if tiny or rng.random() < 0.6 else "eig"
        c = {"kind": "hybrid", "variant": variant, "t": t.to_json(), "eps": 1e-12 if tiny else _eps(rng, t.dense()), "alg": alg,
             "copying": [rng.random() < 0.4 for _ in OPS], "rmax": None, "dim": None}
        r = rng.random()
        if not tiny and r < 0.45:
            if r < 0.25:
                k = rng.randint(1, 6)
                c["rmax"] = {"kind": "scalar", "tt": k, "tucker": k}
            else:
                c["rmax"] = {"kind": "list", "tt": [rng.randint(1, 6) for _ in range(N - 1)], "tucker": [rng.randint(1, 6) for _ in range(N)]}
        if N >= 2 and rng.random() < 0.12:  # `dim=` subsets of round_tucker: the error bound must hold for them too (repaired in /repo: fix: round_tucker …)
            k = rng.randint(1, N - 1)
            c["dim"] = sorted(rng.sample(range(N), k))
            if rng.random() < 0.3:
                c["dim"] = [d - N if rng.random() < 0.5 else d for d in c["dim"]]
        out.append(c)
    # round_tucker(dim=<proper subset>) at LARGE tolerances on tensors whose mode unfoldings all have something to discard: the regime in
    # which truncating modes that were not requested (each with the budget of len(dim)) exceeds eps
    for _ in range({"quick": 60, "thorough": 500, "search": 200}[tier]):
        N = rng.choice([3, 3, 4])
        # a full-rank tensor (exact TT of a dense array with slowly decaying unfolding spectra): every mode has something to discard
        shp = [rng.randint(3, 4) for _ in range(N)]
        xd = rnd_entries(rng, shp, "float") + 0.5 * rnd_entries(rng, shp, "int")
        t = core.from_tn(tn.Tensor(torch.tensor(xd)))
        k = rng.randint(1, N - 1)
        dim = sorted(rng.sample(range(N), k))
        out.append({"kind": "hybrid", "variant": "generic", "t": t.to_json(), "eps": rng.choice([0.2, 0.3, 0.5]), "alg": "svd",
                    "copying": [rng.random() < 0.4 for _ in OPS], "rmax": None,
                    "dim": [d - N if rng.random() < 0.3 else d for d in dim] if rng.random() < 0.8 else dim[0]})
    for _ in range(nd):
        N = rng.choice([1, 2, 2, 3, 3, 4])
        hi = 6 if N <= 2 else (5 if N == 3 else 4)
        shape = [1 if rng.random() < 0.08 else rng.randint(2, hi) for _ in range(N)]
        fill = rng.choice(["generic", "generic", "decaying", "decaying", "lowrank", "lowrank", "zero", "tiny"])
        tiny = rng.random() < 0.2
        alg = "svd" if tiny or rng.random() < 0.6 else "eig"
        x = _mk_dense(rng, fill, shape)
        out.append({"kind": "dense", "fill": fill, "x": x.tolist(), "eps": 1e-12 if tiny else _eps(rng, x), "alg": alg})
    for _ in range(ns):
        N = rng.choice([2, 2, 3, 3, 4])
        hi = 5 if N <= 3 else 3
        shape = [rng.randint(2, hi) for _ in range(N)]
        fill = rng.choice(["generic", "lowrank", "decaying"])
        x = _mk_dense(rng, fill, shape)
        allidx = list(np.ndindex(*shape))
        frac = rng.choice([0.15, 0.4, 0.7, 1.0])
        P = max(1, int(round(frac * len(allidx))))
        sel = rng.sample(allidx, P)
        out.append({"kind": "sparse", "fill": fill, "shape": shape, "X": [list(map(int, i)) for i in sel], "y": [float(x[i]) for i in sel],
                    "eps": _eps(rng), "rmax": rng.choice([None, None, 1, 2, 3, 5]), "given_shape": rng.random() < 0.8})
    return out


# ----------------------------------------------------------------------------- classification of failing inputs
def features(t, x):
    nx = frob(x)
    return {"tiny": 0 < nx < 1e-12, "lastU": t.Us[-1] is not None, "cpb": t.cores[0].ndim == 2 or t.cores[-1].ndim == 2,
            "N1": t.N == 1}


def predicate(op, f, dim=None, violation=None):
    """input-format predicate naming the failure class (same inputs -> same string)"""
    if op == "round" and violation == "Tucker rank > rmax":
        return "scalar rmax below a Tucker rank of the input"
    if f.get("tiny"):
        return "0 < norm(t) < 1e-12 (below the absolute zero threshold 1e-13 of truncated_svd)"
    if violation == "error > eps" and f.get("eigcap"):
        return "algorithm='eig' with rmax on a numerically rank-deficient unfolding (negative Gram eigenvalues are replaced by 1e-8)"
    if op in ("round_tt", "round") and f.get("lastU"):
        return "last mode has a Tucker factor"
    if op in ("round_tucker", "round") and f.get("cpb"):
        return "first or last core is CP"
    if dim is not None and op == "round_tucker":
        return "dim is a proper subset of the modes (no CP boundary core)"
    return "none of: tiny norm, Tucker factor on the last mode, CP boundary core"


def report(ctx, case, op, f, violation, what, dim=None):
    cls = {"op": op, "predicate": predicate(op, f, dim, violation), "violation": violation}
    rep = dict(case); rep["failing_op"] = op
    ctx.oracle("%s: %s [%s]" % (op, what, cls["predicate"]), rep, cls=cls)
    ctx.count("violation:%s:%s" % (op, violation))


# ----------------------------------------------------------------------------- oracle pieces
def allowed_error(op, eps, alg, nx, S):
    a = (eps * (1 + 1e-6) + 1e-12) * nx + 1e-13 * S
    if alg == "eig":
        a += 1e-14 / eps * nx
    if op in ("round", "Tensor(x,eps)"):
        a += min(eps, 2e-8) * nx
    return a


def cap_cannot_bind(op, x, t_shape_s, eps, alg, rm):
    """True when, for a correct implementation, rmax can never be the active constraint (oracle-only decision).
    t_shape_s: list of min(I_n, s_n)."""
    if rm is None:
        return True
    N = x.ndim
    nx2 = frob(x) ** 2
    marg = 1e-3 if alg == "eig" else 1e-6
    ok = True
    if op in ("round_tt", "round") and N >= 2:
        d2 = (eps / max(1.0, math.sqrt(N - 1))) ** 2 * nx2 * (1 - marg)
        caps = rm["tt"] if isinstance(rm["tt"], list) else [rm["tt"]] * (N - 1)
        for M, k in zip(tt_unfoldings(x), caps):
            if k < max(1, min_rank_for(svals(M), d2)):
                ok = False
    if op == "round_tucker":
        d2 = (eps / math.sqrt(N)) ** 2 * nx2 * (1 - marg)
        caps = rm["tucker"] if isinstance(rm["tucker"], list) else [rm["tucker"]] * N
        for M, k in zip(mode_unfoldings(x), caps):
            if k < max(1, min_rank_for(svals(M), d2)):
                ok = False
    if op == "round":
        # the Tucker stage runs with an unknown (possibly ~0) remaining budget: the cap is surely inactive only above the largest possible rank
        if any(rm["tucker"] < m for m in t_shape_s):
            ok = False
    return ok


def ranks_of(r):
    pt = from_tn(r)
    return pt, [int(v) for v in r.ranks_tt], [int(v) for v in r.ranks_tucker]


def check_result(ctx, case, op, f, t, x, S, r, eps, alg, rm, dim=None, before_tt=None, before_tucker=None):
    """r: the rounded tntorch tensor; t: input PT (or None for dense/sparse input)"""
    d = safe(lambda: r.torch().detach().double().numpy())
    if d[0] == "err":
        report(ctx, case, op, f, "raised", "result cannot be decompressed: %s: %s" % (d[1], d[2]), dim); return
    y = d[1]
    if tuple(y.shape) != tuple(x.shape):
        report(ctx, case, op, f, "shape", "result shape %s != %s" % (y.shape, x.shape), dim); return
    if not np.all(np.isfinite(y)):
        report(ctx, case, op, f, "non-finite", "result has non-finite entries", dim); return
    pt, rtt, rtk = ranks_of(r)
    N = x.ndim
    if tuple(rtt) != pt.ranks() or tuple(rtk) != pt.tranks():
        report(ctx, case, op, f, "accessors", "ranks_tt/ranks_tucker %s/%s disagree with the cores %s/%s" % (rtt, rtk, pt.ranks(), pt.tranks()), dim)
    # -- ranks never increase
    if before_tt is not None:
        inc = [k for k in range(len(before_tt)) if rtt[k] > before_tt[k]]
        if inc:
            report(ctx, case, op, f, "TT rank increased", "ranks_tt %s -> %s" % (list(before_tt), rtt), dim)
    if before_tucker is not None:
        inc = [k for k in range(N) if rtk[k] > before_tucker[k]]
        if inc:
            report(ctx, case, op, f, "Tucker rank increased", "ranks_tucker %s -> %s" % (list(before_tucker), rtk), dim)
    # -- rmax
    if rm is not None:
        if op in ("round_tt", "round", "sparse_tt_svd") and N >= 2:
            caps = rm["tt"] if isinstance(rm["tt"], list) else [rm["tt"]] * (N - 1)
            if any(rtt[k + 1] > caps[k] for k in range(N - 1)):
                report(ctx, case, op, f, "TT rank > rmax", "ranks_tt %s with rmax %s" % (rtt, rm["tt"]), dim)
        if op in ("round_tucker", "round"):
            caps = rm["tucker"] if isinstance(rm["tucker"], list) else [rm["tucker"]] * N
            sel = range(N) if dim is None else sorted({d % N for d in (dim if isinstance(dim, list) else [dim])})   # with dim= only the requested factors are truncated
            if any(rtk[k] > caps[k] for k in sel):
                report(ctx, case, op, f, "Tucker rank > rmax", "ranks_tucker %s with rmax %s" % (rtk, rm["tucker"]), dim)
    # -- error bound
    nx = frob(x)
    err = frob(x - y)
    tshape_s = [min(I, s) for I, s in zip(x.shape, t.tranks())] if t is not None else list(x.shape)
    if cap_cannot_bind(op if op != "Tensor(x,eps)" else "round", x, tshape_s, eps, alg, rm) or op == "sparse_tt_svd" and rm is None:
        ctx.count("error_bound_checked")
        al = allowed_error(op, eps, alg, nx, S)
        if err > al:
            report(ctx, case, op, f, "error > eps", "relative error %.3e > eps %.3e (ratio %.3f)" % (err / nx if nx else float("inf"), eps,
                                                                                                     (err / nx / eps) if nx else float("inf")), dim)
            ctx.count("oracle_mismatch")
    else:
        ctx.count("error_bound_skipped_rmax_may_bind")
    return y, rtt, rtk


def well_conditioned(t, x, S):
    nx = frob(x)
    if nx == 0 or S / nx > 100:
        return False
    for U in t.Us:
        if U is not None and factor_cond(U) > 100:
            return False
    return True


# ----------------------------------------------------------------------------- run
def run_case(ctx, case):
    kind = case["kind"]
    use_model = getattr(ctx, "use_model", False) and not getattr(ctx, "search_only", False)
    eps, alg = case["eps"], case.get("alg", "svd")
    tiny = eps == 1e-12
    if kind == "hybrid":
        t = PT.from_json(case["t"])
        x = t.dense()
        S = rep_scale(t)
        f = features(t, x)
        rm = case["rmax"]
        rk = "none" if rm is None else rm["kind"]
        if alg == "eig" and rm is not None and frob(x) > 0:
            # the Gram path replaces negative (round-off) eigenvalues by 1e-8, i.e. a spurious singular value 1e-4 in ABSOLUTE terms; on a
            # numerically rank-deficient matrix it can outrank genuine small singular values, and a rank cap then keeps the spurious one
            # (the recorded C05 eig finding, seen through round_* with rmax)
            def deficient(M, width):
                sv = svals(M)
                return int(np.sum(sv > 1e-12 * sv[0])) < min(min(M.shape), width) if len(sv) and sv[0] > 0 else False
            f["eigcap"] = any(deficient(M, w) for M, w in zip(mode_unfoldings(x), t.tranks())) or \
                any(deficient(M, w) for M, w in zip(tt_unfoldings(x), list(t.ranks())[1:-1]))
        ctx.case(("round*", t.sig(), case["variant"], alg, rk, int(math.floor(math.log10(eps))), repr(case["dim"])), t.nontrivial(),
                 {"ops": OPS, "t": t.describe(), "variant": case["variant"], "eps": eps, "algorithm": alg, "rmax": rm, "dim": case["dim"]})
        ctx.count("variant:" + case["variant"]); ctx.count("alg:" + alg); ctx.count("rmax:" + rk); ctx.count("tiny_eps" if tiny else "eps")
        fmt_counts(ctx, t)
        before_tt = list(t.ranks())          # interior bonds = bonds of t.tt(); boundary entries as reported for the input
        before_tucker = list(t.tranks())
        nranks, clear = (numerical_ranks(x) if tiny else (None, False))
        for op, copying in zip(OPS, case["copying"]):
            if op == "round" and rm is not None and rm["kind"] == "list":
                continue
            kw = {"eps": eps, "algorithm": alg}
            if rm is not None:
                kw["rmax"] = rm["tucker"] if op == "round_tucker" else rm["tt"]
            dim = case["dim"] if op == "round_tucker" else None
            if dim is not None:
                kw["dim"] = dim
            tt = t.to_tn()

            def impl():
                if copying:
                    return getattr(tn, op)(tt, **kw)
                r = tt.clone()
                getattr(r, op)(**kw)
                return r

            res = safe(impl)
            ctx.count("op:" + op + (":copy" if copying else ":inplace"))
            if res[0] == "err":
                report(ctx, case, op, f, "raised", "raised %s: %s" % (res[1], res[2]), dim); ctx.count("impl_raise:" + res[1]); continue
            r = res[1]
            if not isinstance(r, tn.Tensor):
                report(ctx, case, op, f, "raised", "returned %s" % type(r).__name__, dim); continue
            out = check_result(ctx, case, op, f, t, x, S, r, eps, alg, rm, dim, before_tt, before_tucker)
            # operand untouched (clone / copying variant)
            if core.cmp_struct(from_tn(tt), t, True) is not None:
                report(ctx, case, op, f, "operand modified", "the operand of the %s variant was modified" % ("copying" if copying else "clone+in-place"), dim)
            if out is None:
                continue
            y, rtt, rtk = out
            if tiny and op in ("round_tt", "round") and t.N >= 2 and clear and not f["tiny"] and well_conditioned(t, x, S):
                ctx.count("rank_revealing_checked")
                if list(rtt[1:-1]) != list(nranks):
                    report(ctx, case, op, f, "ranks at eps=1e-12 != unfolding ranks",
                           "TT ranks %s at eps=1e-12, numerical ranks of the unfoldings %s" % (rtt[1:-1], nranks), dim)
            if use_model:
                pass  # MODEL HOOK: `r` holds the produced cores/factors (from_tn(r)), `t` the input, kw the arguments
        return
    if kind == "dense":
        x = np.array(case["x"], dtype=np.float64)
        N = x.ndim
        nx = frob(x)
        f = {"tiny": 0 < nx < 1e-12}
        op = "Tensor(x,eps)"
        ctx.case((op, x.shape, case["fill"], alg, int(math.floor(math.log10(eps)))), N > 1,
                 {"op": op, "shape": list(x.shape), "fill": case["fill"], "eps": eps, "algorithm": alg})
        ctx.count("op:" + op); ctx.count("fill:" + case["fill"]); ctx.count("alg:" + alg); ctx.count("tiny_eps" if tiny else "eps")
        res = safe(lambda: tn.Tensor(torch.tensor(x, dtype=torch.float64), eps=eps, algorithm=alg))
        if res[0] == "err":
            report(ctx, case, op, f, "raised", "raised %s: %s" % (res[1], res[2])); return
        r = res[1]
        # ranks of the exact (full-rank) TT of x: min(prod left, prod right)
        full = [1] + [min(int(np.prod(x.shape[:k])), int(np.prod(x.shape[k:]))) for k in range(1, N)] + [1]
        out = check_result(ctx, case, op, f, None, x, nx, r, eps, alg, None, None, full, list(x.shape))
        if out is None:
            return
        y, rtt, rtk = out
        if tiny and N >= 2 and nx > 0 and not f["tiny"]:
            nranks, clear = numerical_ranks(x)
            if clear:
                ctx.count("rank_revealing_checked")
                if list(rtt[1:-1]) != list(nranks):
                    report(ctx, case, op, f, "ranks at eps=1e-12 != unfolding ranks",
                           "TT ranks %s at eps=1e-12, numerical ranks of the unfoldings %s" % (rtt[1:-1], nranks))
        if use_model:
            pass  # MODEL HOOK: from_tn(r) vs model of fullRankTT + round
        return
    if kind == "sparse":
        shape = case["shape"]
        N = len(shape)
        X = np.array(case["X"], dtype=np.int64)
        yv = np.array(case["y"], dtype=np.float64)
        shp = shape if case["given_shape"] else [int(v) + 1 for v in X.max(axis=0)]
        x = np.zeros(shp)
        x[tuple(X.T)] = yv
        nx = frob(x)
        f = {"tiny": 0 < nx < 1e-12}
        op = "sparse_tt_svd"
        rm = None if case["rmax"] is None else {"kind": "scalar", "tt": case["rmax"], "tucker": case["rmax"]}
        ctx.case((op, tuple(shp), len(yv), case["fill"], case["rmax"], int(math.floor(math.log10(eps)))), True,
                 {"op": op, "shape": list(shp), "samples": len(yv), "fill": case["fill"], "eps": eps, "rmax": case["rmax"]})
        ctx.count("op:" + op); ctx.count("rmax:" + ("none" if rm is None else "scalar"))
        res = safe(lambda: tn.sparse_tt_svd(torch.tensor(X), torch.tensor(yv, dtype=torch.float64), eps,
                                            shape=(list(shp) if case["given_shape"] else None), rmax=case["rmax"]))
        if res[0] == "err":
            report(ctx, case, op, f, "raised", "raised %s: %s" % (res[1], res[2])); return
        r = res[1]
        full = [1] + [min(int(np.prod(shp[:k])), int(np.prod(shp[k:]))) for k in range(1, N)] + [1]
        # error bound asserted when the cap cannot bind (same oracle decision as round_tt; the sweep is left-to-right but the
        # per-unfolding budget argument is symmetric)
        if rm is not None and not cap_cannot_bind("round_tt", x, list(shp), eps, "eig", rm):
            # ranks / rmax only
            rr = safe(lambda: ranks_of(r))
            if rr[0] == "ok":
                pt, rtt, rtk = rr[1]
                if any(rtt[k + 1] > case["rmax"] for k in range(N - 1)):
                    report(ctx, case, op, f, "TT rank > rmax", "ranks_tt %s with rmax %s" % (rtt, case["rmax"]))
                if any(rtt[k] > full[k] for k in range(N + 1)):
                    report(ctx, case, op, f, "TT rank increased", "ranks_tt %s exceed the unfolding sizes %s" % (rtt, full))
            ctx.count("error_bound_skipped_rmax_may_bind")
            return
        check_result(ctx, case, op, f, None, x, nx, r, eps, "eig", None if rm is None else rm, None, full, list(shp))
        return


# =============================================================================== correspondence with the Lean model (main session)
def _corr_cases(rng, tier):
    from core import gen_tensor
    n = {"quick": 120, "thorough": 2000, "search": 0}[tier]
    out = []
    for _ in range(n):
        N = rng.choice([2, 3, 3, 4])
        shape = [rng.randint(2, 4) for _ in range(N)]
        out.append({"kind": "corr", "t": gen_tensor(rng, shape, rmax=4, stream="float").to_json(),
                    "eps": 10 ** rng.uniform(-4, -0.3), "op": rng.choice(["round_tt", "round_tucker", "round"]),
                    "rmax": rng.choice([None, None, 1, 2, 3])})
    return out


def _sweep_cases(rng, tier):
    from core import gen_tensor
    n = {"quick": 100, "thorough": 1500, "search": 0}[tier]
    out = []
    for _ in range(n):
        N = rng.choice([2, 3, 3, 4, 5])
        shape = [rng.randint(2, 4) for _ in range(N)]
        stream = "float" if rng.random() < 0.8 else "int"
        out.append({"kind": "sweep", "t": gen_tensor(rng, shape, fmt=[("tt", None)] * N, rmax=4, stream=stream, p_rank1=0.1).to_json(),
                    "eps": rng.choice([0.0, 1e-12, 10 ** rng.uniform(-3, -0.2), 10 ** rng.uniform(-3, -0.2)]),
                    "rmax": rng.choice([None, None, None, 1, 2, 3])})
    return out


def _run_sweep(ctx, case):
    """round_tt on TT cores: the Lean sweep (Model/RoundTT.sweepRev, the subject of C04.roundTT_error_eq / roundTT_within_eps) is run on
    the state entering the sweep with the recorded SVD answers and compared core-for-core with the implementation; the hypotheses
    of the theorems (left-orthonormal state, kernel contract of every answer) and their conclusion are checked on the real run."""
    import numpy as np, torch
    from core import PT, q, safe, from_tn, parse_tensor, cmp_struct
    t = PT.from_json(case["t"])
    ctx.case(("sweep", t.sig(), case["rmax"], case["eps"] == 0.0), True,
             {"op": "model correspondence: round_tt sweep vs Model/RoundTT.sweepRev with recorded SVD answers", "t": t.describe(),
              "eps": case["eps"], "rmax": case["rmax"]})
    ctx.count("corr:sweep")
    if not (getattr(ctx, "use_model", False) and not getattr(ctx, "search_only", False)):
        return
    tt = t.to_tn()
    x0 = tt.torch().detach().clone()
    rec, snap, qrec = [], [], []
    orig_svd, orig_qr = torch.linalg.svd, torch.linalg.qr

    def qr_w(A, *a, **k):
        out = orig_qr(A, *a, **k)
        qrec.append((A.detach().clone(), out[0].detach().clone(), out[1].detach().clone()))
        return out

    def svd_w(A, *a, **k):
        if not snap:
            snap.append([c.detach().clone() for c in tt.cores])
        out = orig_svd(A, *a, **k)
        rec.append((A.detach().clone(), out[0].detach().clone(), out[1].detach().clone(), out[2].detach().clone()))
        return out
    torch.linalg.svd, torch.linalg.qr = svd_w, qr_w
    try:
        kw = {} if case["rmax"] is None else {"rmax": case["rmax"]}
        r = safe(lambda: tt.round_tt(case["eps"], **kw))
    finally:
        torch.linalg.svd, torch.linalg.qr = orig_svd, orig_qr
    if r[0] == "err":
        ctx.oracle("round_tt raised %s: %s" % (r[1], r[2]), case); return
    N = t.N
    if len(rec) != N - 1 or not snap:
        ctx.corr("round_tt made %d SVD calls on a %d-mode TT tensor (the model's sweep has %d steps)" % (len(rec), N, N - 1), case); return
    cores0 = snap[0]
    # ---- hypothesis chainLO: every core left of the last is left-orthonormal in the state entering the sweep
    for c in cores0[:-1]:
        L = c.reshape(-1, c.shape[-1])
        if float((L.T @ L - torch.eye(L.shape[1], dtype=L.dtype)).abs().max()) > 1e-9:
            if L.shape[0] < L.shape[1]:
                ctx.count("skipped:a left unfolding wider than tall cannot be left-orthonormal (rank-deficient bond)"); return
            ctx.corr("state entering the sweep is not left-orthonormal (hypothesis chainLO of C04.roundTT_within_eps)", case); return
    nrm2 = float((cores0[-1] ** 2).sum())
    d2 = case["eps"] ** 2 * nrm2 / max(1, N - 1)
    parts = []
    tails = 0.0
    for (A, U, S, Vh), mu in zip(rec, range(N - 1, 0, -1)):
        k = S.shape[0]
        sc = max(1.0, float(S[0]))
        if float(S[0]) < 1e-13:
            ctx.count("skipped:zero matrix special case"); return
        ok = float(((U * S) @ Vh - A).abs().max()) <= 1e-10 * sc and float((U.T @ U - torch.eye(k, dtype=U.dtype)).abs().max()) <= 1e-10 \
            and float((Vh @ Vh.T - torch.eye(k, dtype=U.dtype)).abs().max()) <= 1e-10
        if not ok:
            ctx.corr("kernel contract SVDokM does not hold for a recorded torch.linalg.svd call", case); return
        cs = torch.cumsum(torch.flip(S ** 2, [0]), 0).numpy()
        if d2 > 0 and np.any(np.abs(cs - d2) <= 1e-10 * max(1.0, float(cs[-1]))):
            ctx.count("discarded:near-tie"); return
        if d2 == 0 and np.any((cs > 0) & (cs <= 1e-20 * max(1.0, float(cs[-1])))):
            ctx.count("discarded:near-tie"); return
        s_, r1_ = tt.cores[mu].shape[1], tt.cores[mu].shape[2]
        rm = case["rmax"] if case["rmax"] is not None else 2147483647
        parts.append("%d M %d %d %s %d %s %d %d %s" % (rm, U.shape[0], k, " ".join(q(v) for v in U.reshape(-1).numpy()), k,
                                                     " ".join(q(v) for v in S.numpy()), s_, r1_, " ".join(q(v) for v in Vh.reshape(-1).numpy())))
        rk = tt.cores[mu].shape[0]
        tails += float((S[rk:] ** 2).sum())
    ctx.count("hypotheses of roundTT_within_eps validated (chainLO, SVDokM)")
    # ---- the orthogonalisation sweep as well: QR answers recorded from torch.linalg.qr, contract QRokM validated per call
    qparts = []
    if len(qrec) == N - 1:
        okq = True
        for (A, Qm, Rm) in qrec:
            kq = Qm.shape[1]
            okq = okq and float((Qm @ Rm - A).abs().max()) <= 1e-10 * max(1.0, float(A.abs().max())) and \
                float((Qm.T @ Qm - torch.eye(kq, dtype=Qm.dtype)).abs().max()) <= 1e-10
            qparts.append("M %d %d %s M %d %d %s" % (Qm.shape[0], kq, " ".join(q(v) for v in Qm.reshape(-1).numpy()),
                                                    Rm.shape[0], Rm.shape[1], " ".join(q(v) for v in Rm.reshape(-1).numpy())))
        if not okq:
            ctx.corr("kernel contract QRokM does not hold for a recorded torch.linalg.qr call", case); return
        ctx.count("hypotheses of roundTT_end_to_end validated (qrOK)")
        toks = ctx.drv().call("round_full %s %d %s %d %s %s" % (q(case["eps"]), N - 1, " ".join(qparts), N - 1, " ".join(parts), t.ser()))
    else:
        ctx.count("sweep: %d QR calls for %d modes (orthogonalisation not replayed)" % (len(qrec), N))
        pt0 = PT([c.numpy() for c in cores0], [None] * N)
        toks = ctx.drv().call("round_sweep %s %d %s %s" % (q(case["eps"]), N - 1, " ".join(parts), pt0.ser()))
    if toks[0] != "ok":
        ctx.corr("model round_sweep failed: %s" % " ".join(toks[:4]), case); return
    mt = parse_tensor(toks, 1)[0]
    d = cmp_struct(from_tn(tt), mt, False)
    if d is not None:
        ctx.corr("round_tt: implementation cores differ from the model sweep: %s" % d, case); return
    # ---- the theorem's conclusion on the real output: ||T - round_tt(T)||^2 = sum of the discarded tails
    err2 = float(((x0 - tt.torch()) ** 2).sum())
    if abs(err2 - tails) > 1e-9 * max(nrm2, 1e-300) + 1e-24:
        ctx.corr("||T - round_tt(T)||^2 = %.6g differs from the sum of discarded tails %.6g (C04.roundTT_error_eq)" % (err2, tails), case); return
    ctx.count("sweep: cores and error identity agree")


_orig_cases = cases
_orig_run_case = run_case


def _f32_cases(rng, tier):
    """float32 tensors at overall scales 1e-11..1e2 ("badly scaled" in the working precision of most users: torch's default dtype)"""
    out = []
    for _ in range({"quick": 40, "thorough": 300, "search": 150}[tier]):
        N = rng.choice([2, 3, 3, 4])
        variant = rng.choice(["generic", "generic", "decay"])
        t = _mk_variant(rng, variant, N)
        out.append({"kind": "f32", "variant": variant, "t": t.to_json(), "scale": 10 ** rng.uniform(-11, 2), "eps": 10 ** rng.uniform(-2, -0.4),
                    "copying": [rng.random() < 0.4 for _ in OPS], "where": rng.randrange(N)})
    return out


def _run_f32(ctx, case):
    t0 = PT.from_json(case["t"])
    nx0 = frob(t0.dense())
    if nx0 == 0:
        return
    n = case["where"]
    t0.cores[n] = t0.cores[n] * (case["scale"] / nx0)
    tt64 = t0.to_tn()
    tt = tn.Tensor([c.float() for c in tt64.cores], Us=[None if U is None else U.float() for U in tt64.Us])

    def as_pt(z):
        return from_tn(tn.Tensor([c.detach().double() for c in z.cores], Us=[None if U is None else U.detach().double() for U in z.Us]))
    t = as_pt(tt)
    x = t.dense(); nx = frob(x); S = rep_scale(t); eps = case["eps"]
    f = features(t, x)
    ctx.case(("round* float32", t.sig(), case["variant"], int(math.floor(math.log10(case["scale"]))), int(math.floor(math.log10(eps)))), t.nontrivial(),
             {"ops": OPS, "t": t.describe(), "dtype": "float32", "norm": nx, "eps": eps})
    ctx.count("float32 tensors"); ctx.count("float32 norm 1e%d" % int(math.floor(math.log10(nx))) if nx > 0 else "float32 norm 0")
    for op, copying in zip(OPS, case["copying"]):
        def impl():
            if copying:
                return getattr(tn, op)(tt, eps=eps)
            r_ = tt.clone(); getattr(r_, op)(eps=eps); return r_
        res = safe(impl)
        if res[0] == "err":
            report(ctx, case, op, f, "raised", "float32 input: raised %s: %s" % (res[1], res[2])); continue
        y = as_pt(res[1]).dense()
        if y.shape != x.shape:
            report(ctx, case, op, f, "shape changed", "float32 input: shape %s -> %s" % (x.shape, y.shape)); continue
        err = frob(x - y)
        # float32 working precision: eps with 5% slack, 5e-3 for the dot-product based error estimates, 1e-5 of the representation's scale
        if err > (1.05 * eps + 5e-3) * nx + 1e-5 * S:
            report(ctx, case, op, f, "error > eps", "float32 input of norm %.3e: relative error %.3e > eps %.3e" % (nx, err / nx if nx else float("inf"), eps))


def cases(rng, tier):  # noqa: F811
    return _orig_cases(rng, tier) + _corr_cases(rng, tier) + _sweep_cases(rng, tier) + _f32_cases(rng, tier)


def run_case(ctx, case):  # noqa: F811
    if case.get("kind") == "sweep":
        return _run_sweep(ctx, case)
    if case.get("kind") == "f32":
        return _run_f32(ctx, case)
    if case.get("kind") != "corr":
        return _orig_run_case(ctx, case)
    import numpy as np, torch
    from core import PT, q, safe
    t = PT.from_json(case["t"])
    ctx.case(("corr", case["op"], t.sig(), case["rmax"]), True,
             {"op": "model correspondence: every rank chosen inside %s vs rankSelect on the recorded singular values" % case["op"],
              "t": t.describe(), "eps": case["eps"], "rmax": case["rmax"]})
    ctx.count("corr:" + case["op"])
    if not (getattr(ctx, "use_model", False) and not getattr(ctx, "search_only", False)):
        return
    calls = []
    orig_tsvd, orig_svd = tn.truncated_svd, torch.linalg.svd
    last_S = []

    def svd_w(A, *a, **k):
        out = orig_svd(A, *a, **k); last_S.append(out[1].detach().clone()); return out

    def tsvd_w(M, delta=None, eps=None, rmax=None, **kw):
        n0 = len(last_S)
        left, right = orig_tsvd(M, delta=delta, eps=eps, rmax=rmax, **kw)
        d = delta if delta is not None else (eps * torch.norm(M).item() if eps is not None else 0)
        d = float(d)
        if len(last_S) > n0:
            calls.append((last_S[n0], d, rmax, left.shape[-1]))
        return left, right
    tn.truncated_svd, torch.linalg.svd = tsvd_w, svd_w
    try:
        tt = t.to_tn()
        kw = {} if case["rmax"] is None else {"rmax": case["rmax"]}
        r = safe(lambda: getattr(tt, case["op"])(case["eps"], **kw))
    finally:
        tn.truncated_svd, torch.linalg.svd = orig_tsvd, orig_svd
    if r[0] == "err":
        ctx.oracle("%s raised %s: %s" % (case["op"], r[1], r[2]), case); return
    ctx.count("corr:truncated_svd calls", len(calls))
    for S, d, rmax, rank in calls:
        if float(S[0]) < 1e-13:
            ctx.count("skipped:zero matrix special case"); continue
        S2 = S ** 2
        d2 = d ** 2
        cs = torch.cumsum(torch.flip(S2, [0]), 0).numpy()
        if d2 > 0 and np.any(np.abs(cs - d2) <= 1e-12 * max(1.0, float(cs[-1]))):
            ctx.count("discarded:near-tie"); continue
        rm = rmax if rmax is not None else 2147483647
        toks = ctx.drv().call("rank_select %d %s %s %d" % (len(S2), " ".join(q(v) for v in S2.numpy()), q(d2), rm))
        if toks[0] != "ok" or int(toks[2]) != rank:
            ctx.corr("%s: a truncated_svd call chose rank %d, the model's rankSelect gives %s (delta^2=%g, rmax=%s)" % (case["op"], rank, toks[2:3], d2, rmax), case)
            return
