"""C06 — norms, inner products and statistics equal their dense definitions (oracle search on the real code)."""
import itertools, random, math
import numpy as np, torch
import core
from core import PT, gen_tensor, gen_shape, tn, safe, close
from props._b_common import Judge, to_np, cmp, absdense, pick_dd, count_formats

RULE = ("cases from one PRNG(seed): kind in dot|norm|dist|sum|wmean|var|moment; tensors are WFstd hybrids (per mode TT|CP x factor "
        "none|narrow|square|wide, ranks 1..3) with 1..4 modes of size 1..4, int stream (exact in float64) or Gaussian stream, entries "
        "of both signs; 15% of the cases run under a float32 default dtype (operands stay float64). dot: full / k=None with N1!=N2 / "
        "explicit k in 0..min(N1,N2) / one dense torch operand; dist family: u in {-t, t, rescaled t, -2t, t+1e-3 perturbation, "
        "independent}, third tensor v for the triangle law, optional dense operand; sum/mean: EVERY subset of modes x keepdim x "
        "dim given as list|int|None|negative; weighted mean: dim None or a subset, positive marginals; var/std with and without "
        "marginals; raw/normalized moments k=1..3. Oracle: NumPy formulas on PT.dense() (independent decompression). "
        "Tolerances: 1e-9 scaled max-norm for exact algebra (scale also bounded below by 1e-4 x the sum of |terms|, so "
        "cancellation cannot raise an alarm); dist family: absolute 1e-6 x (|t|+|u|) computed from absolute-value cores because "
        "sqrt(a+b-2c) has absolute accuracy ~sqrt(eps) x (|t|+|u|); moments: 1e-4 x mean|x|^k because the routine rounds at eps "
        "(1e-6 / 1e-12, eig). Failure class = (op, first matching input predicate, kind raise|shape|value|law|dtype); a failure seen "
        "only under the float32 default is classed 'dtype'. distinct = (kind, format signatures, shapes, ranks, parameters); non-trivial = >1 mode or rank>1 "
        "or a factor")
TRUSTED = ["NumPy reference formulas on an independent decompression (core.PT.dense)",
           "float64 rounding: tolerances as stated in the rule (no bit-exact claim for sqrt / rounded moments)"]
ASSUMPTIONS = ["inputs are WFstd tensors (documented formats, outer TT ranks 1)", "marginals are positive vectors of the mode's size",
               "r_squared / normalized_moment are only compared where the dense denominator is not (numerically) zero",
               "dot with t2 fully contracted and >=2 trailing modes of t1: either order of the trailing modes is accepted "
               "(the property does not fix it; docstring and code disagree)"]

KINDS = {"dot": 400, "norm": 50, "dist": 300, "sum": 200, "wmean": 160, "var": 200, "moment": 160}


# ----------------------------------------------------------------------------------------------- generation
def _stream(rng):
    return "int" if rng.random() < 0.6 else "float"


def _marg(rng, n):
    return [round(rng.uniform(0.1, 2.0), 6) for _ in range(n)]


def neg_pt(t):
    return PT([(-c if i == 0 else c.copy()) for i, c in enumerate(t.cores)], [None if U is None else U.copy() for U in t.Us])


def scaled_pt(t, s):
    """same tensor times s, re-expressed: first core times 2s (or s if one mode), second core times 1/2"""
    cores = [c.copy() for c in t.cores]
    if t.N == 1:
        cores[0] = cores[0] * s
    else:
        cores[0] = cores[0] * (2.0 * s); cores[1] = cores[1] * 0.5
    return PT(cores, [None if U is None else U.copy() for U in t.Us])


def perturbed_pt(t, rng):
    cores = [c.copy() for c in t.cores]
    c = cores[rng.randrange(len(cores))]
    idx = tuple(rng.randrange(s) for s in c.shape)
    c[idx] += 1e-3
    return PT(cores, [None if U is None else U.copy() for U in t.Us])


def cases(rng, tier):
    mult = {"quick": 1, "thorough": 15, "search": 5}[tier]
    out = []
    for kind, n in KINDS.items():
        for _ in range(n * mult):
            out.append(gen_case(rng, kind))
    rng.shuffle(out)
    return out


def gen_case(rng, kind):
    stream = _stream(rng)
    c = {"kind": kind, "stream": stream, "dd": pick_dd(rng), "seed": rng.randrange(1 << 30)}
    if kind == "dot":
        mode = rng.choice(["full", "full", "knone", "kexp", "kexp", "kexp", "k0"])
        if mode == "full":
            N = rng.randint(1, 4)
            lead = gen_shape(rng, N, 1, 4); tr1 = []; tr2 = []; k = None
        elif mode == "knone":
            N1, N2 = rng.randint(1, 4), rng.randint(1, 4)
            kk = min(N1, N2)
            lead = gen_shape(rng, kk, 1, 4); tr1 = gen_shape(rng, N1 - kk, 1, 3); tr2 = gen_shape(rng, N2 - kk, 1, 3); k = None
        elif mode == "kexp":
            N1, N2 = rng.randint(1, 4), rng.randint(1, 4)
            kk = rng.randint(1, min(N1, N2))
            lead = gen_shape(rng, kk, 1, 4); tr1 = gen_shape(rng, N1 - kk, 1, 3); tr2 = gen_shape(rng, N2 - kk, 1, 3); k = kk
        else:
            lead = []; tr1 = gen_shape(rng, rng.randint(1, 2), 1, 3); tr2 = gen_shape(rng, rng.randint(1, 2), 1, 3); k = 0
        c["t1"] = gen_tensor(rng, lead + tr1, stream=stream).to_json()
        c["t2"] = gen_tensor(rng, lead + tr2, stream=stream).to_json()
        c["k"] = k
        c["dense"] = rng.choice([None, None, None, None, "t1", "t2"])
        return c
    if kind == "norm":
        c["t"] = gen_tensor(rng, gen_shape(rng, rng.randint(1, 4), 1, 4), stream=stream).to_json()
        return c
    if kind == "dist":
        N = rng.randint(1, 4)
        shape = gen_shape(rng, N, 1, 4)
        t = gen_tensor(rng, shape, stream=stream)
        rel = rng.choice(["neg", "neg", "same", "rescaled", "negscaled", "near", "indep", "indep", "indep"])
        if rel == "neg":
            u = neg_pt(t)
        elif rel == "same":
            u = PT([x.copy() for x in t.cores], [None if U is None else U.copy() for U in t.Us])
        elif rel == "rescaled":
            u = scaled_pt(t, 1.0)
        elif rel == "negscaled":
            u = scaled_pt(t, -2.0)
        elif rel == "near":
            u = perturbed_pt(t, rng)
        else:
            u = gen_tensor(rng, shape, stream=stream)
        v = gen_tensor(rng, shape, stream=stream)
        c.update({"t": t.to_json(), "u": u.to_json(), "v": v.to_json(), "rel": rel, "dense": rng.choice([None, None, None, "t", "u"])})
        return c
    if kind == "sum":
        N = rng.randint(1, 4)
        c["t"] = gen_tensor(rng, gen_shape(rng, N, 1, 4, p_one=0.25), stream=stream).to_json()
        return c
    if kind == "wmean":
        N = rng.randint(1, 4)
        shape = gen_shape(rng, N, 1, 4)
        c["t"] = gen_tensor(rng, shape, stream=stream).to_json()
        r = rng.random()
        if r < 0.4:
            dim = None
        else:
            dim = sorted(rng.sample(range(N), rng.randint(1, N)))
            if rng.random() < 0.25:
                rng.shuffle(dim)
        c["dim"] = dim
        c["dimform"] = "int" if (dim is not None and len(dim) == 1 and rng.random() < 0.5) else "list"
        c["marginals"] = [_marg(rng, shape[d]) for d in (range(N) if dim is None else dim)]
        c["keepdim"] = rng.random() < 0.4
        return c
    if kind == "var":
        N = rng.randint(1, 4)
        shape = gen_shape(rng, N, 1, 4)
        c["t"] = gen_tensor(rng, shape, stream=stream).to_json()
        c["marginals"] = [_marg(rng, s) for s in shape]
        return c
    if kind == "moment":
        N = rng.randint(1, 4)
        shape = gen_shape(rng, N, 1, 4 if N < 4 else 3)
        c["t"] = gen_tensor(rng, shape, stream=stream).to_json()
        c["marginals"] = [_marg(rng, s) for s in shape] if rng.random() < 0.4 else None
        return c
    raise KeyError(kind)


# ----------------------------------------------------------------------------------------------- oracles
def dot_expected(x, y, k_arg):
    """list of acceptable dense results of tn.dot(t1, t2, k)"""
    k = min(x.ndim, y.ndim) if k_arg is None else k_arg
    r = np.tensordot(x, y, axes=(list(range(k)), list(range(k))))
    n1, n2 = x.ndim - k, y.ndim - k
    rev = np.transpose(r, list(range(n1 - 1, -1, -1)) + list(range(n1, n1 + n2)))
    if n2 == 0 and n1 >= 2:
        # Only t1 keeps trailing modes: the property does not fix their order (the docstring's "sorted backwards" is
        # stated for the case where t2's trailing modes follow; the code returns them in their original order).
        # Demanding one order would ask more than the property states: accept both.
        return [r, rev]
    return [rev]


def weights(marginals, shape, dims):
    """dense weight array: product over dims of marginal/sum(marginal), broadcast to `shape`"""
    w = np.ones(shape)
    for d, m in zip(dims, marginals):
        m = np.asarray(m, dtype=np.float64)
        sh = [1] * len(shape); sh[d] = shape[d]
        w = w * (m / m.sum()).reshape(sh)
    return w


def tmarg(marginals):
    return [torch.tensor(m, dtype=torch.float64) for m in marginals]


# ----------------------------------------------------------------------------------------------- run
def run_case(ctx, case):
    kind = case["kind"]
    J = Judge(ctx, case)
    ctx.count("kind:" + kind); ctx.count("dd:" + case["dd"]); ctx.count("stream:" + case["stream"])
    globals()["run_" + kind](ctx, case, J)


def _one_mode_special(t):
    return t.N == 1 and (t.cores[0].ndim == 2 or t.Us[0] is not None)


def run_dot(ctx, case, J):
    a, b = PT.from_json(case["t1"]), PT.from_json(case["t2"])
    k, dense = case["k"], case["dense"]
    x, y = a.dense(), b.dense()
    ctx.case(("dot", a.sig(), b.sig(), k, dense), a.nontrivial() or b.nontrivial(),
             {"op": "dot", "t1": a.describe(), "t2": b.describe(), "k": k, "dense_operand": dense})
    count_formats(ctx, a, b)
    ctx.count("dot:k=%s" % ("None" if k is None else ("0" if k == 0 else ("min" if k == min(a.N, b.N) else "mid"))))
    if dense:
        ctx.count("dot:dense-operand")
    exps = dot_expected(x, y, k)
    kk = min(a.N, b.N) if k is None else k
    n1, n2 = a.N - kk, b.N - kk
    floor = 1e-4 * float(np.max(np.tensordot(absdense(a), absdense(b), axes=(list(range(kk)), list(range(kk))))))

    def thunk():
        ta = torch.tensor(x) if dense == "t1" else a.to_tn()
        tb = torch.tensor(y) if dense == "t2" else b.to_tn()
        return tn.dot(ta, tb) if k is None else tn.dot(ta, tb, k=k)

    def verify(r):
        got = to_np(r)
        msgs = [cmp(got, e, 1e-9, floor) for e in exps]
        if any(m is None for m in msgs):
            if n1 + n2 == 0 and isinstance(r, tn.Tensor):
                return "shape: full contraction returned a Tensor, not a scalar"
            return None
        if n2 == 0 and n1 >= 2 and cmp(got, np.tensordot(x, y, axes=(list(range(kk)), list(range(kk)))), 1e-9, floor) is None:
            return "law: explicit k: the trailing modes of t1 come in their original order, the docstring says reversed (%s)" % msgs[-1]
        return msgs[-1]

    feats = [("one dense torch operand and trailing (uncontracted) modes remain", bool(dense) and (n1 + n2 > 0 or kk < max(a.N, b.N))),
             ("k = 0", k == 0),
             ("explicit k == t2.dim() and t1 keeps >= 2 trailing modes (documented order: reversed)", k is not None and n2 == 0 and n1 >= 2),
             ("one dense torch operand", bool(dense)),
             ("trailing modes of both operands", n1 > 0 and n2 > 0)]
    J.check("dot", "dot(t1 %s, t2 %s, k=%s%s)" % (list(a.shape), list(b.shape), k, ", dense " + dense if dense else ""), thunk, verify, feats)


def run_norm(ctx, case, J):
    t = PT.from_json(case["t"])
    x = t.dense()
    ctx.case(("norm", t.sig()), t.nontrivial(), {"op": "norm/normsq", "t": t.describe()})
    count_formats(ctx, t)
    floor = 1e-4 * float(np.sum(absdense(t) ** 2))
    J.check("normsq", "normsq(t %s)" % list(t.shape), lambda: tn.normsq(t.to_tn()), lambda r: cmp(to_np(r), np.sum(x * x), 1e-9, floor))
    # norm: compare squares (sqrt would amplify the rounding of a cancelling sum) and require >= 0
    J.check("norm", "norm(t %s)" % list(t.shape), lambda: tn.norm(t.to_tn()),
            lambda r: ("value: negative norm" if float(to_np(r)) < 0 else cmp(to_np(r) ** 2, np.sum(x * x), 1e-9, floor)))
    J.check("norm", "t.norm() method", lambda: t.to_tn().norm(),
            lambda r: cmp(to_np(r) ** 2, np.sum(x * x), 1e-9, floor))


def run_dist(ctx, case, J):
    t, u, v = PT.from_json(case["t"]), PT.from_json(case["u"]), PT.from_json(case["v"])
    dense = case["dense"]
    x, y, z = t.dense(), u.dense(), v.dense()
    ctx.case(("dist", t.sig(), u.sig(), v.sig(), case["rel"], dense), t.nontrivial() or u.nontrivial(),
             {"op": "dist/relative_error/rmse/r_squared", "t": t.describe(), "u": u.describe(), "relation": case["rel"], "dense_operand": dense})
    count_formats(ctx, t, u, v)
    ctx.count("dist:rel=" + case["rel"])
    ax, ay, az = (float(np.linalg.norm(absdense(p))) for p in (t, u, v))

    def nrm(w):
        return float(np.linalg.norm(w))

    ip = float(np.sum(x * y))
    ctx.count("dist:<t,u>" + ("<0" if ip < 0 else (">0" if ip > 0 else "=0")))

    def mk(p, w, is_dense):
        return torch.tensor(w) if is_dense else p.to_tn()

    def feats(ipv, *pts):
        return [("<t,u> < 0", ipv < 0), ("1 mode, CP core or Tucker factor", any(_one_mode_special(p) for p in pts)),
                ("one dense torch operand", bool(dense))]

    def absck(exp, tol):
        def verify(r):
            g = to_np(r)
            if g.shape != ():
                return "shape %s, expected a scalar" % (g.shape,)
            if not np.isfinite(g):
                return "value: non-finite (%s), expected %.6g" % (g, exp)
            if abs(float(g) - exp) > tol:
                return "value %.9g differs from the dense oracle %.9g (|diff| %.3g, tolerance %.3g)" % (float(g), exp, abs(float(g) - exp), tol)
            return None
        return verify

    # dist(t,u), dist(u,t): value and symmetry
    d_tu = nrm(x - y); tol_tu = 1e-6 * (ax + ay) + 1e-12
    got = {}

    def run_d(name, p, w, pd, q_, w2, qd):
        def thunk():
            r = tn.dist(mk(p, w, pd), mk(q_, w2, qd))
            got[name] = float(to_np(r))
            return r
        return thunk

    J.check("dist", "dist(t,u) [u: %s]" % case["rel"], run_d("tu", t, x, dense == "t", u, y, dense == "u"), absck(d_tu, tol_tu), feats(ip, t, u))
    J.check("dist", "dist(u,t) [u: %s]" % case["rel"], run_d("ut", u, y, dense == "u", t, x, dense == "t"), absck(d_tu, tol_tu), feats(ip, t, u))
    # zero iff equal: d(t,t) = 0 (exactly representable radicand), d(t,u) > 0 whenever the dense arrays differ (value check above)
    J.check("dist", "dist(t,t)", lambda: tn.dist(t.to_tn(), t.to_tn()), absck(0.0, 2e-6 * ax + 1e-12), feats(1.0, t))
    # triangle inequality through v (all compressed)
    ipv1, ipv2 = float(np.sum(x * z)), float(np.sum(z * y))

    def tri():
        a_, b_, c_ = tn.dist(t.to_tn(), u.to_tn()), tn.dist(t.to_tn(), v.to_tn()), tn.dist(v.to_tn(), u.to_tn())
        return [float(to_np(a_)), float(to_np(b_)), float(to_np(c_))]

    def tri_verify(r):
        slack = 3e-6 * (ax + ay + az) + 1e-12
        if r[0] > r[1] + r[2] + slack:
            return "law: triangle inequality violated: dist(t,u)=%.9g > dist(t,v)+dist(v,u)=%.9g+%.9g" % (r[0], r[1], r[2])
        if r[1] > r[0] + r[2] + slack:
            return "law: triangle inequality violated: dist(t,v)=%.9g > dist(t,u)+dist(u,v)=%.9g+%.9g" % (r[1], r[0], r[2])
        return None

    J.check("dist", "triangle law on (t,u,v)", tri, tri_verify,
            [("<t,u> < 0", min(ip, ipv1, ipv2) < 0), ("1 mode, CP core or Tucker factor", any(_one_mode_special(p) for p in (t, u, v)))])
    # relative_error(gt=t, approx=u)
    if nrm(x) > 1e-6 * ax and nrm(x) > 0:
        J.check("relative_error", "relative_error(t,u) [u: %s]" % case["rel"],
                lambda: tn.relative_error(mk(t, x, dense == "t"), mk(u, y, dense == "u")),
                absck(d_tu / nrm(x), tol_tu / nrm(x) + 1e-9 * d_tu / nrm(x)), feats(ip, t, u))
    # rmse
    J.check("rmse", "rmse(t,u) [u: %s]" % case["rel"], lambda: tn.rmse(mk(t, x, dense == "t"), mk(u, y, dense == "u")),
            absck(d_tu / np.sqrt(x.size), tol_tu / np.sqrt(x.size)), feats(ip, t, u))
    # r_squared
    den = float(np.sum((x - x.mean()) ** 2))
    if den > 1e-6 * ax * ax and den > 0:
        exp = 1.0 - d_tu ** 2 / den
        tol = (2 * d_tu * tol_tu + tol_tu ** 2) / den + 1e-8 * (d_tu ** 2 / den) + 1e-9
        J.check("r_squared", "r_squared(t,u) [u: %s]" % case["rel"], lambda: tn.r_squared(mk(t, x, dense == "t"), mk(u, y, dense == "u")),
                absck(exp, tol), feats(ip, t, u))
    else:
        ctx.count("skipped:r_squared-constant-gt")


def run_sum(ctx, case, J):
    t = PT.from_json(case["t"])
    x = t.dense()
    N = t.N
    rng = random.Random(case["seed"])
    ctx.case(("sum", t.sig()), t.nontrivial(), {"op": "sum/mean over every subset of modes, keepdim on/off", "t": t.describe()})
    count_formats(ctx, t)
    floor_s = 1e-4 * float(np.max(absdense(t))) * 1.0
    ones_present = [d for d in range(N) if t.shape[d] == 1]
    for r_ in range(1, N + 1):
        for dims in itertools.combinations(range(N), r_):
            for keepdim in (False, True):
                forms = ["list"]
                if len(dims) == 1:
                    forms.append("int")
                if len(dims) == N:
                    forms.append("none")
                form = rng.choice(forms)
                negative = form != "none" and rng.random() < 0.2
                dl = [d - N if negative else d for d in dims]
                if form == "list" and rng.random() < 0.2:
                    rng.shuffle(dl)
                arg = None if form == "none" else (dl[0] if form == "int" else dl)
                for op in ("sum", "mean"):
                    exp = (x.sum if op == "sum" else x.mean)(axis=tuple(dims), keepdims=keepdim)
                    fl = floor_s * (float(np.prod([t.shape[d] for d in dims])) if op == "sum" else 1.0)
                    feats = [("keepdim=False and a pre-existing size-1 mode that is not summed",
                              (not keepdim) and any(d not in dims for d in ones_present)),
                             ("negative dim", negative),
                             ("1 mode, CP core or Tucker factor", _one_mode_special(t))]
                    fn = getattr(tn, op)
                    ctx.count("sum:form=" + form + (",neg" if negative else ""))

                    def thunk(fn=fn, arg=arg, keepdim=keepdim):
                        return fn(t.to_tn(), dim=arg, keepdim=keepdim) if arg is not None else fn(t.to_tn(), keepdim=keepdim)

                    def verify(r, exp=exp, fl=fl, dims=dims, keepdim=keepdim):
                        if isinstance(r, tn.Tensor) and tuple(r.shape) != tuple(exp.shape):
                            return "shape %s, expected %s (input shape %s, summed modes %s, keepdim=%s)" % (
                                tuple(r.shape), tuple(exp.shape), tuple(x.shape), list(dims), keepdim)
                        g = to_np(r)
                        if g.shape != exp.shape:
                            return "shape %s, expected %s (input shape %s, summed modes %s, keepdim=%s)" % (
                                tuple(g.shape), tuple(exp.shape), tuple(x.shape), list(dims), keepdim)
                        return cmp(g, exp, 1e-9, fl)

                    J.check(op, "%s(t %s, dim=%s, keepdim=%s)" % (op, list(t.shape), arg, keepdim), thunk, verify, feats)
    # method forms
    J.check("sum", "t.sum()", lambda: t.to_tn().sum(), lambda r: cmp(to_np(r), x.sum(), 1e-9, floor_s * x.size))
    J.check("mean", "t.mean()", lambda: t.to_tn().mean(), lambda r: cmp(to_np(r), x.mean(), 1e-9, floor_s))


def run_wmean(ctx, case, J):
    t = PT.from_json(case["t"])
    x = t.dense()
    N = t.N
    dim, keepdim, margs = case["dim"], case["keepdim"], case["marginals"]
    dims = list(range(N)) if dim is None else list(dim)
    ctx.case(("wmean", t.sig(), tuple(dims) if dim is not None else None, keepdim), t.nontrivial(),
             {"op": "mean(marginals)", "t": t.describe(), "dim": dim, "keepdim": keepdim})
    count_formats(ctx, t)
    subset = dim is not None and len(dims) < N
    ctx.count("wmean:dim=" + ("None" if dim is None else ("subset" if subset else "all-listed")))
    w = weights(margs, x.shape, dims)
    exp = (x * w).sum(axis=tuple(dims), keepdims=keepdim)
    floor = 1e-4 * float(np.max((absdense(t) * w).sum(axis=tuple(dims))))
    arg = None if dim is None else (dims[0] if case["dimform"] == "int" else dims)

    def thunk():
        if arg is None:
            return tn.mean(t.to_tn(), marginals=tmarg(margs), keepdim=keepdim)
        return tn.mean(t.to_tn(), dim=arg, marginals=tmarg(margs), keepdim=keepdim)

    def verify(r):
        g = to_np(r)
        if g.shape != exp.shape:
            return "shape %s, expected %s (input shape %s, modes %s, keepdim=%s)" % (tuple(g.shape), tuple(exp.shape), tuple(x.shape), dims, keepdim)
        return cmp(g, exp, 1e-9, floor)

    ones_present = [d for d in range(N) if t.shape[d] == 1]
    feats = [("dim given as an int", case["dimform"] == "int" and dim is not None),
             ("marginals with dim a proper subset of the modes", subset),
             ("keepdim=False and a pre-existing size-1 mode that is not summed", (not keepdim) and any(d not in dims for d in ones_present)),
             ("1 mode, CP core or Tucker factor", _one_mode_special(t))]
    J.check("mean(marginals)", "mean(t %s, dim=%s, marginals, keepdim=%s)" % (list(t.shape), arg, keepdim), thunk, verify, feats)


def run_var(ctx, case, J):
    t = PT.from_json(case["t"])
    x = t.dense()
    margs = case["marginals"]
    ctx.case(("var", t.sig()), t.nontrivial(), {"op": "var/std (+marginals)", "t": t.describe()})
    count_formats(ctx, t)
    ad = absdense(t)
    floor = 1e-4 * float(np.mean((ad + np.mean(ad)) ** 2))
    feats = [("1 mode, CP core or Tucker factor", _one_mode_special(t)), ("1 mode", t.N == 1)]
    v = float(np.var(x))
    J.check("var", "var(t %s)" % list(t.shape), lambda: tn.var(t.to_tn()), lambda r: cmp(to_np(r), v, 1e-9, floor), feats)
    J.check("std", "std(t %s)" % list(t.shape), lambda: tn.std(t.to_tn()),
            lambda r: ("value: negative std" if float(to_np(r)) < 0 else cmp(to_np(r) ** 2, v, 1e-9, floor)),
            [("constant tensor (dense variance is 0 up to rounding)", v <= 1e-9 * max(floor, 1e-300))] + feats)
    w = weights(margs, x.shape, range(t.N))
    mu = float(np.sum(w * x))
    vw = float(np.sum(w * (x - mu) ** 2))
    J.check("var(marginals)", "var(t %s, marginals)" % list(t.shape), lambda: tn.var(t.to_tn(), marginals=tmarg(margs)),
            lambda r: cmp(to_np(r), vw, 1e-9, floor), feats)


def run_moment(ctx, case, J):
    t = PT.from_json(case["t"])
    x = t.dense()
    margs = case["marginals"]
    ctx.case(("moment", t.sig(), margs is not None), t.nontrivial(), {"op": "raw_moment/normalized_moment k=1..3", "t": t.describe(), "marginals": margs is not None})
    count_formats(ctx, t)
    w = weights(margs, x.shape, range(t.N)) if margs is not None else np.ones(x.shape) / x.size
    mu = float(np.sum(w * x))
    var = float(np.sum(w * (x - mu) ** 2))
    ad = absdense(t)
    bcp = any(t.cores[i].ndim == 2 and t.cores[i].shape[1] > 1 for i in (0, -1))
    feats = [("1 mode", t.N == 1), ("marginals given and a boundary (first/last) core is CP with rank > 1", margs is not None and bcp),
             ("marginals given", margs is not None)]
    kw = (lambda: {"marginals": tmarg(margs)}) if margs is not None else (lambda: {})

    def rel(exp, scale):
        def verify(r):
            g = to_np(r)
            if g.shape != ():
                return "shape %s, expected a scalar" % (g.shape,)
            if not np.isfinite(g):
                return "value: non-finite"
            tol = 1e-4 * max(scale, abs(exp)) + 1e-12
            if abs(float(g) - exp) > tol:
                return "value %.9g differs from the dense oracle %.9g (|diff| %.3g, tolerance %.3g)" % (float(g), exp, abs(float(g) - exp), tol)
            return None
        return verify

    TINY = "the k-fold Hadamard power rounded inside hadamard_sum has norm < 1e-12 (absolute zero threshold 1e-13 of truncated_svd)"

    def tiny(xc, k):
        wk = w if margs is not None else np.ones(x.shape)
        return [(TINY, k >= 2 and 0 < float(np.linalg.norm(xc ** (k - 1) * (xc * wk))) < 1e-12)]

    for k in (1, 2, 3):
        exp = float(np.sum(w * x ** k))
        scale = float(np.sum(w * ad ** k))
        J.check("raw_moment", "raw_moment(t %s, k=%d%s)" % (list(t.shape), k, ", marginals" if margs else ""),
                lambda k=k: tn.raw_moment(t.to_tn(), k, **kw()), rel(exp, scale), tiny(x, k) + feats)
    if var > 1e-8 * float(np.sum(w * (ad + abs(mu)) ** 2)) and var > 0:
        for k in (1, 2, 3):
            exp = float(np.sum(w * (x - mu) ** k)) / var ** (k / 2.0)
            scale = float(np.sum(w * (ad + np.sum(w * ad)) ** k)) / var ** (k / 2.0)
            J.check("normalized_moment", "normalized_moment(t %s, k=%d%s)" % (list(t.shape), k, ", marginals" if margs else ""),
                    lambda k=k: tn.normalized_moment(t.to_tn(), k, **kw()), rel(exp, scale), tiny(x - mu, k) + feats)
    else:
        ctx.count("skipped:normalized_moment-constant")


# =============================================================================== correspondence with the Lean model (main session)
def _corr_cases(rng, tier):
    n = {"quick": 160, "thorough": 3000, "search": 0}[tier]
    out = []
    for _ in range(n):
        N = rng.choice([1, 2, 2, 3, 3, 4])
        stream = "int" if rng.random() < 0.7 else "float"
        shape = [1 if rng.random() < 0.15 else rng.randint(2, 4) for _ in range(N)]
        op = rng.choice(["dot", "normsq", "sumkeep", "sum", "mean", "meankeep", "mean_marg", "mean_marg", "var", "var_marg"])
        c = {"kind": "corr", "op": op, "t": gen_tensor(rng, shape, stream=stream).to_json(), "stream": stream, "dd": "float64"}
        if op in ("mean", "meankeep", "mean_marg"):
            bits = [rng.randint(0, 1) for _ in range(N)]
            if not any(bits):
                bits[rng.randrange(N)] = 1
            if rng.random() < 0.3:
                bits = [1] * N
            c["bits"] = bits
        if op in ("mean_marg", "var_marg"):
            listed = [i for i in range(N) if (op == "var_marg" or c["bits"][i])]
            margs = [[float(rng.randint(1, 4)) if stream == "int" else rng.uniform(0.2, 2.0) for _ in range(shape[i])] for i in listed]
            if op == "mean_marg" and len(margs) > 1 and rng.random() < 0.15:
                margs = margs[:-1]                 # fewer vectors than listed modes: zip() truncates, the rest is summed (model: '-')
            c["margs"] = margs
            c["keep"] = rng.random() < 0.4
        if op == "dot":
            c["u"] = gen_tensor(rng, shape, stream=stream).to_json()
        if op in ("sumkeep", "sum"):
            bits = [rng.randint(0, 1) for _ in range(N)]
            if not any(bits):
                bits[rng.randrange(N)] = 1
            c["bits"] = bits
        out.append(c)
    return out


_orig_cases = cases


def cases(rng, tier):  # noqa: F811
    return _orig_cases(rng, tier) + _corr_cases(rng, tier)


def run_corr(ctx, case, J):
    from core import parse_tensor, cmp_struct, from_tn, unq
    t = PT.from_json(case["t"])
    op = case["op"]
    exact = case["stream"] == "int"
    ctx.case(("corr", op, t.sig(), tuple(case.get("bits", []))), t.nontrivial(), {"op": "model correspondence: " + op, "t": t.describe(), "bits": case.get("bits")})
    ctx.count("corr:" + op)
    if not (getattr(ctx, "use_model", False) and not getattr(ctx, "search_only", False)):
        return
    x = t.dense()
    drv = ctx.drv()
    if op in ("dot", "normsq"):
        u = PT.from_json(case["u"]) if op == "dot" else t
        r = safe(lambda: float(tn.dot(t.to_tn(), u.to_tn())) if op == "dot" else float(tn.normsq(t.to_tn())))
        if r[0] == "err":
            ctx.oracle("%s raised %s: %s" % (op, r[1], r[2]), case); return
        toks = drv.call("dot " + t.ser() + " " + u.ser())
        mv = float(unq(toks[2]))
        spec = float(np.sum(x * u.dense()))
        if not close(np.asarray(mv), np.asarray(spec), 1e-9)[0]:
            ctx.spec("model dot %r differs from the dense inner product %r" % (mv, spec), case)
        if (exact and mv != r[1]) or not close(np.asarray(mv), np.asarray(r[1]), 1e-9)[0]:
            ctx.corr("%s: implementation %r differs from model %r" % (op, r[1], mv), case)
        return
    if op in ("var", "var_marg"):
        from core import q
        if op == "var":
            r = safe(lambda: float(tn.var(t.to_tn())))
            toks = drv.call("var " + t.ser())
            spec = float(np.var(x))
        else:
            ms = [np.array(m) for m in case["margs"]]
            r = safe(lambda: float(tn.var(t.to_tn(), marginals=[torch.tensor(m) for m in ms])))
            toks = drv.call("var_marg %d %s %s" % (len(ms), " ".join("%d %s" % (len(m), " ".join(q(v) for v in m)) for m in ms), t.ser()))
            W = np.ones_like(x)
            for i, m in enumerate(ms):
                W = W * (m / m.sum()).reshape([-1 if k == i else 1 for k in range(t.N)])
            mu = float(np.sum(x * W)); spec = float(np.sum((x - mu) ** 2 * W))
        if r[0] == "err":
            ctx.oracle("%s raised %s: %s" % (op, r[1], r[2]), case); return
        if toks[0] != "ok" or toks[1] != "S":
            ctx.corr("model %s answered %s" % (op, toks[:3]), case); return
        mv = float(unq(toks[2].split("~")[0]))
        sc = max(1.0, float(np.max(np.abs(x))) ** 2)
        if abs(mv - spec) > 1e-9 * sc:
            ctx.spec("model %s %r differs from the dense value %r" % (op, mv, spec), case)
        if abs(mv - r[1]) > 1e-9 * sc:
            ctx.corr("%s: implementation %r differs from model %r" % (op, r[1], mv), case)
        return
    bits = case["bits"]
    dims = [i for i, b in enumerate(bits) if b]
    keep = op == "sumkeep"
    if op in ("mean", "meankeep", "mean_marg"):
        from core import q
        exact = False
        keep = op == "meankeep" or (op == "mean_marg" and case["keep"])
        if op == "mean_marg":
            ms = [np.array(m) for m in case["margs"]]
            r = safe(lambda: tn.mean(t.to_tn(), dim=dims, marginals=[torch.tensor(m) for m in ms], keepdim=keep))
            per = {dims[k]: ms[k] for k in range(len(ms))}
            toks = drv.call("mean_marg %d %s %d %d %s %s" % (len(bits), " ".join(map(str, bits)), 1 if keep else 0, t.N, " ".join(
                ("%d %s" % (len(per[i]), " ".join(q(v) for v in per[i]))) if i in per else "-" for i in range(t.N)), t.ser()))
            W = np.ones_like(x)
            for i, m in per.items():
                W = W * (m / m.sum()).reshape([-1 if k == i else 1 for k in range(t.N)])
            exp = (x * W).sum(axis=tuple(dims), keepdims=keep)
        else:
            r = safe(lambda: tn.mean(t.to_tn(), dim=dims, keepdim=keep))
            toks = drv.call("%s %d %s %s" % (op, len(bits), " ".join(map(str, bits)), t.ser()))
            exp = x.mean(axis=tuple(dims), keepdims=keep)
        if r[0] == "err":
            ctx.oracle("%s(dim=%s) raised %s: %s" % (op, dims, r[1], r[2]), case); return
        if isinstance(r[1], torch.Tensor):
            r = ("ok", float(r[1]))
    else:
        r = safe(lambda: tn.sum(t.to_tn(), dim=dims, keepdim=keep))
        if r[0] == "err":
            ctx.oracle("sum(dim=%s, keepdim=%s) raised %s: %s" % (dims, keep, r[1], r[2]), case); return
        toks = drv.call("%s %d %s %s" % (op, len(bits), " ".join(map(str, bits)), t.ser()))
        exp = x.sum(axis=tuple(dims), keepdims=keep)
    if toks[0] != "ok":
        ctx.corr("model %s failed: %s" % (op, " ".join(toks[:4])), case); return
    if toks[1] == "S":
        mv = float(unq(toks[2].split("~")[0]))
        if isinstance(r[1], tn.Tensor):
            ctx.corr("sum: model returns a scalar, implementation a tensor", case); return
        if not close(np.asarray(mv), np.asarray(float(exp)), 1e-9)[0]:
            ctx.spec("model sum %r differs from dense sum %r" % (mv, float(exp)), case)
        if (exact and mv != float(r[1])) or not close(np.asarray(mv), np.asarray(float(r[1])), 1e-9)[0]:
            ctx.corr("sum: implementation %r differs from model %r" % (float(r[1]), mv), case)
        return
    m = parse_tensor(toks, 1)[0]
    if not isinstance(r[1], tn.Tensor):
        ctx.corr("sum: model returns a tensor, implementation a scalar", case); return
    d = cmp_struct(from_tn(r[1]), m, exact)
    if d is not None:
        ctx.corr("%s(dims=%s): implementation cores differ from model cores: %s" % (op, dims, d), case)
    md = PT([np.asarray(c, dtype=np.float64) for c in m.cores], [None if U is None else np.asarray(U, dtype=np.float64) for U in m.Us]).dense()
    if md.shape != exp.shape or not close(md, exp, 1e-9)[0]:
        ctx.spec("model %s differs from the dense sum" % op, case)


# =============================================================================== tensors too large to decompress (main session)
# "equal the same quantities computed on the decompressed arrays": for separable (rank-1) tensors every statistic has a closed form in
# the per-mode vectors, so the clause can be checked where TT is actually used — arrays with more than 2^63 virtual entries.
def _huge_cases(rng, tier):
    n = {"quick": 12, "thorough": 120, "search": 40}[tier]
    out = []
    for _ in range(n):
        shp = rng.choice([[60000] * 4, [50000, 70000, 40000, 90000], [10] * 20, [3000] * 6])
        out.append({"kind": "huge", "shape": shp, "seed": rng.randrange(1 << 30), "stream": "float", "dd": "float64", "fmt": rng.choice(["tt", "cp"])})
    return out


_orig_cases2 = cases


def cases(rng, tier):  # noqa: F811
    return _orig_cases2(rng, tier) + _huge_cases(rng, tier)


def run_huge(ctx, case, J):
    import random as _r
    rng = _r.Random(case["seed"])
    shp = case["shape"]
    N = len(shp)

    def mk():
        vs = []
        for s in shp:
            g = np.random.default_rng(rng.randrange(1 << 30))
            vs.append(g.uniform(0.5, 1.5, size=s) * rng.choice([1.0, -1.0]))
        if case["fmt"] == "tt":
            t = tn.Tensor([torch.tensor(v)[None, :, None] for v in vs])
        else:
            t = tn.Tensor([torch.tensor(v)[:, None] for v in vs])
        return vs, t
    va, a = mk()
    vb, b = mk()
    numel = float(np.prod([float(s) for s in shp]))
    ctx.case(("huge", tuple(shp), case["fmt"], case["seed"]), True, {"op": "var/std/rmse/moments of rank-1 tensors with %.3g virtual entries" % numel,
                                                                     "shape": shp, "format": case["fmt"]})
    ctx.count("huge:" + ("over 2^63 entries" if numel > 2 ** 63 else "below 2^63 entries"))
    mean_a = float(np.prod([v.mean() for v in va]))
    m2_a = float(np.prod([(v * v).mean() for v in va]))
    var_a = m2_a - mean_a ** 2
    # ||a-b||^2 / numel = E[a^2] + E[b^2] - 2 E[ab]
    m2_b = float(np.prod([(v * v).mean() for v in vb]))
    mab = float(np.prod([(u * v).mean() for u, v in zip(va, vb)]))
    rmse_ab = math.sqrt(max(m2_a + m2_b - 2 * mab, 0.0))
    checks = [("mean", lambda: tn.mean(a), mean_a), ("var", lambda: tn.var(a), var_a), ("std", lambda: tn.std(a), math.sqrt(max(var_a, 0.0))),
              ("rmse", lambda: tn.rmse(a, b), rmse_ab)]
    # (raw/normalised moments build I x I diagonal cores inside hadamard_sum: not feasible for modes of size 60000; they share numel())
    for name, fn, want in checks:
        r = safe(fn)
        if r[0] == "err":
            ctx.oracle("%s of a rank-1 tensor of shape %s raised %s: %s" % (name, shp, r[1], r[2]), case,
                       cls={"op": name, "predicate": "tensor too large to decompress"}); continue
        got = float(r[1])
        # var/rmse are differences of O(1) moments of the order of their own size: relative 1e-6 of the second moment is ample
        tol = 1e-6 * max(abs(want), m2_a, 1e-300)
        if not (abs(got - want) <= tol):
            ctx.oracle("%s of a rank-1 tensor of shape %s (%.3g virtual entries): %r, closed form %r" % (name, shp, numel, got, want), case,
                       cls={"op": name, "predicate": "tensor too large to decompress"})
    ctx.count("huge: statistics checked")
