"""C17 — maximum-volume row selection (tntorch/maxvol.py: py_maxvol, py_rect_maxvol).

Oracle search on the real code: post-conditions of both routines are checked with NumPy linear algebra
(products, ranks, norms) on the returned index list and coefficient matrix.
"""
import random
import numpy as np
import core
from core import close, safe, tn  # noqa: F401  (tn import pins the repository working tree)
from tntorch.maxvol import py_maxvol, py_rect_maxvol

RULE = ("real float64 matrices with 1..60 rows and 1..10 columns drawn from random.Random(seed): Gaussian, orthonormal columns (QR of a "
        "Gaussian, as produced inside cross), Gaussian with duplicated rows, Gaussian with rows scaled by 1e-8, badly scaled columns, "
        "small-integer entries; C or Fortran memory order; tall (n>r), square and wide (n<=r). square routine: tol in {0.5,1,1.01,1.05,1.5,2,5}, "
        "max_iters large (10^4) or small (0..3, to exercise the cap); rectangular routine: tol in {0.5,0.9,1,1.2,2,4}, maxK/minK/min_add_K "
        "None or any integer in 0..n+3, identity_submatrix on/off, start_maxvol_iters 0..10. "
        "distinct = (routine, matrix kind, n, r, tol, maxK, minK, min_add_K, flags); non-trivial = tall matrix with r >= 2 or n > r+1")
TRUSTED = ["LAPACK getrf/trtrs and BLAS ger called by the routines; NumPy matmul/SVD used by the oracle",
           "tolerances: C·A[idx]=A and C[idx]=I to 1e-8 (scaled max-norm); |C|<=tol and row norms <= tol with relative slack 1e-9 / 1e-6 "
           "(row norms are maintained by down-dating, so rounding of order n·eps·|C|^2 is allowed); tall inputs whose non-tiny rows, after column "
           "equilibration, have sigma_min/sigma_max < 1e-6 are discarded so that these tolerances cannot be reached by rounding alone",
           "one report per case: when several clauses fail on the same case only the most fundamental one (order in PRIORITY) is reported, so that "
           "one root cause gives one finding class",
           "the iteration cap is detected from outside: if max|C| > tol the routine is re-run with the cap doubled — a different answer means "
           "the cap had been hit (allowed by the property, counted), the same answer means the loop stopped on its own with |C| > tol (reported)"]
ASSUMPTIONS = ["float64 real matrices", "the square-routine clauses are claimed for tall matrices of full column rank; numerically "
               "rank-deficient draws (sigma_min/sigma_max < 1e-6 on the non-tiny rows) are discarded and counted",
               "top_k_index is left at its default (all rows are candidates)"]

KINDS = ["gauss", "gauss", "orth", "orth", "dup", "tiny", "colscale", "int"]
SQ_TOL = [0.5, 1.0, 1.01, 1.05, 1.05, 1.05, 1.5, 2.0, 5.0]
RECT_TOL = [0.5, 0.9, 1.0, 1.0, 1.0, 1.2, 2.0, 4.0]


def cases(rng, tier):
    n = {"quick": 900, "thorough": 15000, "search": 4500}[tier]
    out = []
    for _ in range(n):
        r = rng.choice([1, 1, 2, 2, 3, 3, 4, 5, 6, 8, 10])
        u = rng.random()
        if u < 0.12:
            rows = rng.randint(1, r)                     # not tall
        elif u < 0.3:
            rows = r + rng.randint(1, 3)                 # barely tall
        else:
            rows = rng.randint(r + 1, 60)
        kind = rng.choice(KINDS)
        big = rng.random() < 0.12
        if big:
            # long swap histories (rows enter, leave and re-enter the submatrix): larger ranks, tight tolerance
            r = rng.randint(12, 30); rows = r + rng.randint(10, 60); kind = rng.choice(["gauss", "gauss", "orth"])
        c = {"kind": kind, "n": rows, "r": r, "seed": rng.randrange(1 << 30), "order": rng.choice(["C", "F"])}
        if kind in ("gauss", "orth", "int") and rng.random() < 0.2:
            c["dtype"] = "float32"          # single-precision real matrices (what cross() feeds under PyTorch's default dtype)
        if big:
            c["routine"] = "maxvol"; c["tol"] = rng.choice([1.0, 1.0, 1.01, 1.05]); c["max_iters"] = 10000
        elif rng.random() < 0.5:
            c["routine"] = "maxvol"
            c["tol"] = rng.choice(SQ_TOL)
            c["max_iters"] = 10000 if rng.random() < 0.8 else rng.randint(0, 3)
        else:
            c["routine"] = "rect"
            c["tol"] = rng.choice(RECT_TOL)
            for k in ("maxK", "minK", "min_add_K"):
                c[k] = None if rng.random() < 0.5 else rng.randint(0, rows + 3)
            if c["min_add_K"] is not None and rng.random() < 0.5:
                c["min_add_K"] = rng.randint(0, 4)
            c["identity"] = rng.random() < 0.7
            c["start_iters"] = rng.choice([10, 10, 10, 0, 1, 3])
        out.append(c)
    return out


def mk_matrix(case):
    """returns (A, well) — well=False when the draw is numerically column-rank-deficient"""
    rng = random.Random(case["seed"])
    n, r, kind = case["n"], case["r"], case["kind"]
    if kind == "int":
        A = np.array([[float(rng.randint(-3, 3)) for _ in range(r)] for _ in range(n)])
    else:
        A = np.array([[rng.gauss(0, 1) for _ in range(r)] for _ in range(n)])
    A = A.reshape(n, r)
    scale_rows = np.ones(n)
    if kind == "orth" and n >= r:
        A, _ = np.linalg.qr(A)
    elif kind == "dup" and n >= 2:
        for _ in range(rng.randint(1, max(1, n // 2))):
            i, j = rng.randrange(n), rng.randrange(n)
            A[i] = A[j] * rng.choice([1.0, 1.0, -1.0, 0.5])
    elif kind == "tiny":
        for _ in range(rng.randint(1, max(1, n // 3))):
            i = rng.randrange(n)
            if scale_rows[i] == 1.0:
                scale_rows[i] = 1e-8
        A = A * scale_rows[:, None]
    elif kind == "colscale":
        A = A * np.array([10.0 ** rng.randint(-3, 3) for _ in range(r)])[None, :]
    A = np.array(A, dtype=np.float32 if case.get("dtype") == "float32" else np.float64, order=case["order"])
    well = True
    if n > r:
        big = A[scale_rows == 1.0].astype(np.float64)
        B = big / np.maximum(np.abs(big).max(axis=0, keepdims=True), 1e-300) if big.size else big
        if big.shape[0] < r:
            well = False
        else:
            s = np.linalg.svd(B, compute_uv=False)
            well = bool(s[-1] > 1e-6 * s[0])
    return A, well


def eff_rect_params(n, r, maxK, minK, min_add_K):
    """the documented clamping of maxK/minK (maxvol.py:53-64), re-stated"""
    if maxK is None or maxK > n:
        maxK = n
    if maxK < r:
        maxK = r
    if minK is None or minK < r:
        minK = r
    if minK > n:
        minK = n
    if min_add_K is not None:
        minK = max(minK, r + min_add_K)
    if minK > maxK:
        minK = maxK
    return maxK, minK


PRIORITY = ["raises", "result is not (index, C)", "not tall: index != all rows", "not tall: C != identity", "number of rows != r",
            "K outside [r, maxK]", "index out of range", "C has the wrong shape", "C not finite", "C·A[idx] != A", "repeated row index",
            "A[idx] singular", "C[idx] != I", "K < minK", "|C| > tol without hitting the cap", "unchosen row norm > tol with K < maxK",
            "modifies its argument"]


def run_case(ctx, case):
    A, well = mk_matrix(case)
    n, r = A.shape
    routine, kind = case["routine"], case["kind"]
    tall = n > r
    ctx.count("routine:" + routine); ctx.count("kind:" + kind); ctx.count("tall" if tall else "not_tall")
    if tall and not well:
        ctx.count("discarded_rank_deficient")
        return
    zero_rows = bool(np.any(np.all(A == 0, axis=1)))
    inp = ("tall" if tall else "not tall") + (", r=1" if r == 1 else ", r>1")
    found = []          # (clause, what): only the most fundamental failing clause of a case is reported (one root cause, one class)
    check(ctx, case, A, tall, lambda clause, what: found.append((clause, what)))
    if found:
        clause, what = sorted(found, key=lambda f: PRIORITY.index(f[0].split(" ")[0] if f[0].startswith("raises") else f[0]))[0]
        if clause == "repeated row index" and zero_rows:
            inp = ("tall" if tall else "not tall") + ", has an all-zero row"
        ctx.count("violation:%s:%s" % (routine, clause))
        ctx.oracle("%s on a %dx%d %s matrix: %s" % (routine, n, r, kind, what), case, cls={"op": routine, "clause": clause, "input": inp})


def check(ctx, case, A, tall, bad):
    n, r = A.shape
    routine, kind = case["routine"], case["kind"]
    A0 = A.copy()
    f32 = case.get("dtype") == "float32"
    if f32:
        ctx.count("dtype:float32")
    RT, QS, NS = (2e-4, 1e-4, 1e-3) if f32 else (1e-8, 1e-9, 1e-6)      # reproduction rtol, |C| slack, row-norm slack
    if routine == "maxvol":
        tol, cap = case["tol"], case["max_iters"]
        ctx.case(("maxvol", kind, n, r, tol, cap, case["order"]), tall and (r >= 2 or n > r + 1),
                 {"routine": "py_maxvol", "kind": kind, "shape": [n, r], "tol": tol, "max_iters": cap})
        res = safe(lambda: py_maxvol(A, tol, cap))
    else:
        tol = case["tol"]
        kw = dict(tol=tol, maxK=case["maxK"], min_add_K=case["min_add_K"], minK=case["minK"],
                  start_maxvol_iters=case["start_iters"], identity_submatrix=case["identity"])
        ctx.case(("rect", kind, n, r, tol, case["maxK"], case["minK"], case["min_add_K"], case["identity"], case["start_iters"]),
                 tall and (r >= 2 or n > r + 1), dict(kw, routine="py_rect_maxvol", kind=kind, shape=[n, r]))
        res = safe(lambda: py_rect_maxvol(A, **kw))
    if res[0] == "err":
        ctx.count("impl_raise:" + res[1])
        bad("raises " + res[1], "raised %s: %s" % (res[1], res[2]))
        return
    try:
        idx, C = res[1]
        idx = np.asarray(idx); C = np.asarray(C, dtype=np.float64)
    except Exception as e:  # noqa
        bad("result is not (index, C)", "unusable result: %r" % (e,))
        return
    if not np.array_equal(A, A0):
        bad("modifies its argument", "the input matrix was modified")
    # ---- not tall: all rows, identity
    if not tall:
        if not (idx.shape == (n,) and np.array_equal(idx, np.arange(n))):
            bad("not tall: index != all rows", "index %s is not 0..%d" % (idx.tolist(), n - 1))
        if not (C.shape == (n, n) and np.array_equal(C, np.eye(n))):
            bad("not tall: C != identity", "C of shape %s is not the identity" % (C.shape,))
        return
    # ---- common clauses
    K = int(idx.shape[0]) if idx.ndim == 1 else -1
    maxK = minK = r
    if routine == "maxvol":
        if K != r:
            bad("number of rows != r", "%d indices returned" % K); return
    else:
        maxK, minK = eff_rect_params(n, r, case["maxK"], case["minK"], case["min_add_K"])
        ctx.count("rect:K==maxK" if K == maxK else "rect:K<maxK")
        if not (r <= K <= maxK):
            bad("K outside [r, maxK]", "K=%d, r=%d, effective maxK=%d" % (K, r, maxK)); return
        if K < minK:
            bad("K < minK", "K=%d, effective minK=%d" % (K, minK))
    if not np.issubdtype(idx.dtype, np.integer) or idx.min() < 0 or idx.max() >= n:
        bad("index out of range", "indices %s" % idx.tolist()); return
    if C.shape != (n, K):
        bad("C has the wrong shape", "C shape %s, expected %s" % (C.shape, (n, K))); return
    if not np.all(np.isfinite(C)):
        bad("C not finite", "C has non-finite entries"); return
    distinct = len(set(idx.tolist())) == K
    if not distinct:
        bad("repeated row index", "indices %s" % idx.tolist())
    sub = A[idx]
    sub64 = sub.astype(np.float64)
    if np.linalg.matrix_rank(sub64 / np.maximum(np.abs(sub64).max(axis=0, keepdims=True), 1e-300)) < r:
        bad("A[idx] singular", "the selected rows have rank < %d" % r)
    ok, err = close(C @ sub.astype(np.float64), A.astype(np.float64), rtol=RT)
    if not ok:
        bad("C·A[idx] != A", "C @ A[idx] differs from A (%s); K=%d" % (err, K))
    if distinct and (routine == "maxvol" or case["identity"]):
        ok, err = close(C[idx], np.eye(K), rtol=RT)
        if not ok:
            bad("C[idx] != I", "C[idx] differs from the identity (%s)" % err)
    # ---- quality clauses
    if routine == "maxvol":
        t = max(tol, 1.0)           # documented: tol < 1 is replaced by 1
        m = float(np.max(np.abs(C)))
        if m > t * (1 + QS):
            res2 = safe(lambda: py_maxvol(A, tol, 2 * cap + 1))
            same = res2[0] == "ok" and np.array_equal(np.asarray(res2[1][0]), idx) and np.array_equal(np.asarray(res2[1][1]), C)
            if same:
                bad("|C| > tol without hitting the cap", "max|C| = %.12g > tol = %g and more iterations change nothing" % (m, t))
            else:
                ctx.count("maxvol:cap_hit")
        else:
            ctx.count("maxvol:converged")
    else:
        unchosen = np.setdiff1d(np.arange(n), idx)
        if unchosen.size and K < maxK:
            nr = float(np.max(np.linalg.norm(C[unchosen], axis=1)))
            if nr > tol * (1 + NS) + 1e-12:
                bad("unchosen row norm > tol with K < maxK", "max row norm %.12g > tol = %g, K=%d < maxK=%d" % (nr, tol, K, maxK))
    # ---- model hook (main session): swap sequence / final idx and C vs the Lean model of the loop
    if getattr(ctx, "use_model", False) and not getattr(ctx, "search_only", False):
        pass  # MODEL HOOK: A (exact rationals of the float entries), idx, C are available here


# =============================================================================== correspondence with the Lean model (main session)
def _corr_cases(rng, tier):
    n = {"quick": 150, "thorough": 2500, "search": 0}[tier]
    return [{"kind": "corr", "N": rng.randint(3, 14), "r": rng.randint(1, 4), "seed": rng.randrange(1 << 30),
             "tol": rng.choice([1.0, 1.05, 1.05, 1.2, 2.0]), "fill": rng.choice(["gauss", "int", "qr"])} for _ in range(n)]


_orig_cases = cases
_orig_run_case = run_case


def cases(rng, tier):  # noqa: F811
    return _orig_cases(rng, tier) + _corr_cases(rng, tier)


def run_case(ctx, case):  # noqa: F811
    if case.get("kind") != "corr":
        return _orig_run_case(ctx, case)
    import random as _r
    import numpy as np
    from core import q, safe
    from tntorch.maxvol import py_maxvol
    rng = _r.Random(case["seed"])
    N, r, tol = case["N"], case["r"], case["tol"]
    if N <= r:
        N = r + 2
    if case["fill"] == "int":
        A = np.array([[float(rng.randint(-3, 3)) for _ in range(r)] for _ in range(N)])
    else:
        A = np.array([[rng.gauss(0, 1) for _ in range(r)] for _ in range(N)])
        if case["fill"] == "qr":
            A = np.linalg.qr(A)[0]
    ctx.case(("corr", "maxvol", N, r, tol, case["fill"]), True, {"op": "model correspondence: swap loop of py_maxvol from the recorded LAPACK start", "N": N, "r": r, "tol": tol, "fill": case["fill"]})
    ctx.count("corr:maxvol")
    if not (getattr(ctx, "use_model", False) and not getattr(ctx, "search_only", False)):
        return
    if np.linalg.matrix_rank(A) < r:
        ctx.count("skipped:rank-deficient"); return
    st = safe(lambda: py_maxvol(A.copy(), tol, 0))
    full = safe(lambda: py_maxvol(A.copy(), tol, 200))
    if st[0] == "err" or full[0] == "err":
        ctx.oracle("py_maxvol raised: %s" % (st if st[0] == "err" else full,), case); return
    idx0, C0 = st[1]
    # float replica to detect near-ties (arg-max or tolerance decided by rounding): such cases are discarded and counted
    C = C0.T.copy()            # r x N, as stored in the code
    for _ in range(200):
        ab = np.abs(C)
        flat = np.sort(ab.reshape(-1))[::-1]
        i, j = divmod(int(ab.argmax()), N)
        if abs(flat[0] - tol) <= 1e-9 * max(1.0, flat[0]) or (len(flat) > 1 and flat[0] - flat[1] <= 1e-9 * max(1.0, flat[0]) and flat[0] > tol):
            ctx.count("discarded:near-tie"); return
        if not ab[i, j] > tol:
            break
        col = C[:, j].copy(); col[i] -= 1.0
        C = C - np.outer(col, C[i]) / C[i, j]
    Cs = C0.T
    line = "maxvol %d %d %s %d %s %d %s" % (r, N, q(tol), 200, " ".join(q(v) for v in Cs.reshape(-1)), r, " ".join(str(int(v)) for v in idx0))
    toks = ctx.drv().call(line)
    if toks[0] != "ok":
        ctx.corr("model maxvol failed: %s" % " ".join(toks[:4]), case); return
    k = int(toks[1])
    midx = [int(v) for v in toks[2:2 + k]]
    if midx != [int(v) for v in full[1][0]]:
        ctx.corr("py_maxvol returned rows %s, the model's swap loop from the same start gives %s" % (list(full[1][0]), midx), case)
