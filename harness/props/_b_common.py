"""helpers shared by the oracle-search modules c06 / c12 / c20 (dense NumPy oracles on the real tntorch)."""
import numpy as np, torch
import core
from core import PT, tn, safe, close, amax
from props.c02 import with_dd

# share of cases run with torch's default dtype set to float32 (operands are always float64): helper buffers allocated in
# the default dtype silently lower the precision of float64 data.  Such failures get their own class (see Judge).
DD_FLOAT32_SHARE = 0.15


def pick_dd(rng):
    return "float32" if rng.random() < DD_FLOAT32_SHARE else "float64"


def to_np(r):
    """numpy float64 view of whatever an implementation routine returned (tn.Tensor, torch tensor, number)"""
    if isinstance(r, tn.Tensor):
        return r.torch().detach().double().cpu().numpy()
    if isinstance(r, torch.Tensor):
        return r.detach().double().cpu().numpy()
    if isinstance(r, (int, float, np.floating, np.integer)):
        return np.asarray(float(r))
    if isinstance(r, np.ndarray):
        return r.astype(np.float64)
    raise TypeError("result of type %s is neither a tensor nor a number" % type(r).__name__)


def absdense(pt):
    """dense array of the tensor whose cores/factors are the absolute values: an upper bound of the sum of |terms|
    of every entry (used to scale tolerances so that cancellation inside the contraction cannot raise a false alarm)"""
    return PT([np.abs(c) for c in pt.cores], [None if U is None else np.abs(U) for U in pt.Us]).dense()


def cmp(got, exp, rtol=1e-9, floor=0.0):
    """None if got == exp (same shape, scaled max-norm error <= rtol, scale >= floor), else a description"""
    got = np.asarray(got, dtype=np.float64); exp = np.asarray(exp, dtype=np.float64)
    if got.shape != exp.shape:
        return "shape %s, expected %s" % (tuple(got.shape), tuple(exp.shape))
    if got.size == 0:
        return None
    if not np.all(np.isfinite(got)):
        return "non-finite entries"
    scale = max(amax(got), amax(exp), 1.0, float(floor))
    err = float(np.max(np.abs(got - exp))) / scale
    if err <= rtol + 1e-12:
        return None
    return "values differ from the dense oracle (scaled error %.3g, tolerance %.1g)" % (err, rtol)


def neg_dim(d, N):
    return d - N


class Judge:
    """runs implementation thunks under the case's default dtype, verifies against the oracle, classifies failures.

    thunk()            -> result          (must rebuild its tntorch operands itself: it may be run twice)
    verify(result)     -> None | str      (description of the violation)
    features           -> ordered list of (predicate text, bool[, kinds]): the first true one (whose optional set of failure
                          kinds contains the observed kind) names the failure class
    Failure class = {"op", "predicate", "kind"}, kind in raise | shape | value | law | dtype.
    A failure that occurs under a float32 default dtype and disappears under float64 is classed as a dtype defect.
    At most one report per class and case.
    """

    def __init__(self, ctx, case):
        self.ctx, self.case = ctx, case
        self.dd = case.get("dd", "float64")
        self.seen = set()
        self.failed = False

    def _attempt(self, dd, what, thunk, verify):
        res = with_dd(dd, lambda: safe(thunk))
        if res[0] == "err":
            return ("raise", "%s raised %s: %s" % (what, res[1], res[2]), None)
        v = with_dd(dd, lambda: safe(verify, res[1]))
        if v[0] == "err":
            return ("raise", "%s: result cannot be evaluated (%s: %s)" % (what, v[1], v[2]), res[1])
        if v[1] is not None:
            m = v[1]
            if m.startswith("<<") and ">>" in m:          # explicit failure kind chosen by the verifier
                kind, m = m[2:m.index(">>")], m[m.index(">>") + 2:].strip()
            else:
                kind = "shape" if m.startswith("shape") else ("law" if m.startswith("law") else "value")
            return (kind, "%s: %s" % (what, m), res[1])
        return (None, None, res[1])

    def check(self, op, what, thunk, verify, features=()):
        ctx = self.ctx
        ctx.count("check:" + op)
        kind, msg, result = self._attempt(self.dd, what, thunk, verify)
        if kind is None:
            self.model_hook(op, what, result)
            return True
        self.failed = True
        pred = None
        if self.dd == "float32":
            k2, _, _ = self._attempt("float64", what, thunk, verify)
            if k2 is None:
                pred = "float64 operands under default dtype float32"
                msg += " [passes under default dtype float64]"
        if pred is None:
            pred = "any input"
            for f in features:
                if f[1] and (len(f) < 3 or kind in f[2]):
                    pred = f[0]
                    break
        else:
            kind = "dtype"
        cls = {"op": op, "predicate": pred, "kind": kind}
        key = repr(sorted(cls.items()))
        ctx.count("fail:%s:%s" % (op, kind))
        if key in self.seen:
            return False
        self.seen.add(key)
        ctx.oracle("[%s | %s] %s" % (op, pred, msg), self.case, cls=cls)
        return False

    def model_hook(self, op, what, result):
        ctx = self.ctx
        if getattr(ctx, "use_model", False) and not getattr(ctx, "search_only", False):
            # MODEL HOOK: `result` (a tn.Tensor with .cores/.Us, or a scalar) is what the implementation produced for
            # operation `op` on self.case; the main session compares it structurally with the Lean model here.
            hook = getattr(ctx, "model_compare", None)
            if hook is not None:
                hook(self.case, op, what, result)


def count_formats(ctx, *pts):
    ks = set()
    for p in pts:
        ks |= set(p.kinds())
    for k in ks:
        ctx.count("fmt:" + k)
