"""C12 — array-manipulation and creation routines match their NumPy/PyTorch counterparts (oracle search on the real code)."""
import operator, random
import numpy as np, torch
import core
from core import PT, gen_tensor, gen_shape, tn
from props._b_common import Judge, to_np, cmp, absdense, pick_dd, count_formats

RULE = ("cases from one PRNG(seed): kind in cat|flip|transpose|cumsum|repeat|pad|ttm|meshgrid|mask|reduce|create; tensors are WFstd "
        "hybrids (per mode TT|CP x factor none|narrow|square|wide, ranks 1..3), 1..4 modes of size 1..4, int stream (exact) or "
        "Gaussian stream; 15% of the cases under a float32 default dtype (operands stay float64). cat: 2-3 operands of independent "
        "formats (20%: operands derived from ONE tensor — its flip / cumsum / negation / itself along any mode, or two slices of it along another mode — so that they share cores bitwise), every mode, negative mode numbers, varargs and list call forms; flip/cumsum: int | list | negative | None; "
        "repeat: 1..3 repetitions, 0..2 trailing new modes; pad: target int|list, dim None|int|list|negative, fill 0 or a constant; "
        "ttm: 1..N distinct modes, vector or matrix factors, transpose flag, dim None|int|list|negative, bare factor or list; "
        "meshgrid: ints and/or torch vectors, list and varargs call forms; mask: mask tensor in any format, same shape or smaller "
        "(clamped slices); reduce: 2..5 tensors (list or generator) folded with operator.add, operator.mul, tn.cat(dim=d); "
        "create: ones/zeros/full/*_like, eye(n), eye(n,m), arange/linspace/logspace vs torch, gaussian sums to 1, "
        "rand/randn/rand_like/randn_like: requested shape, per-core TT/CP/Tucker ranks. Oracle: NumPy on PT.dense(). Tolerance 1e-9 "
        "scaled max-norm (exact algebra); 1e-7 for reduce (SVD rounding at eps=0); gaussian sum 1e-5; creation routines and meshgrid "
        "(which build their values in the default dtype by design) 1e-6 under a float32 default. Failure class = (op, first matching "
        "input predicate, kind raise|shape|value|dtype); a failure seen only under the float32 default is classed 'dtype'. "
        "distinct = (kind, format signatures, shapes, ranks, parameters); non-trivial = >1 mode or rank>1 or a factor")
TRUSTED = ["NumPy/PyTorch reference operations on an independent decompression (core.PT.dense)",
           "float64 rounding: tolerances as stated in the rule"]
ASSUMPTIONS = ["inputs are WFstd tensors (documented formats, outer TT ranks 1)",
               "repeat with more repetitions than modes appends TRAILING new modes (tntorch docstring/DESIGN), unlike torch.repeat",
               "rand/randn rank requests are consistent (a run of adjacent CP cores shares one rank; ranks_tt is None next to CP cores)",
               "mask smaller than the tensor: slices beyond the mask are matched to its last slice (the clamp in tools.mask)"]

KINDS = {"cat": 300, "flip": 120, "transpose": 60, "cumsum": 120, "repeat": 160, "pad": 260, "ttm": 320, "meshgrid": 100, "mask": 140,
         "reduce": 140, "create": 400}


# ----------------------------------------------------------------------------------------------- generation
def _stream(rng):
    return "int" if rng.random() < 0.6 else "float"


def _vals(rng, shape, stream):
    return core.rnd_entries(rng, tuple(shape), stream).tolist()


def _dimform(rng, dims, N, allow_none=False, p_neg=0.25):
    """choose how a list of modes is passed: returns (arg, form, negative)"""
    dl = list(dims)
    negative = rng.random() < p_neg
    if negative:
        dl = [d - N if rng.random() < 0.7 else d for d in dl]
        negative = any(d < 0 for d in dl)
    if allow_none and dl == list(range(N)) and rng.random() < 0.5:
        return None, "none", False
    if len(dl) == 1 and rng.random() < 0.5:
        return dl[0], "int", negative
    return dl, "list", negative


def cases(rng, tier):
    mult = {"quick": 1, "thorough": 15, "search": 5}[tier]
    out = []
    for kind, n in KINDS.items():
        for _ in range(n * mult):
            out.append(gen_case(rng, kind))
    rng.shuffle(out)
    return out


def gen_case(rng, kind):
    stream = _stream(rng)
    c = {"kind": kind, "stream": stream, "dd": pick_dd(rng), "seed": rng.randrange(1 << 30)}
    N = rng.randint(1, 4)
    if kind == "cat":
        shape = gen_shape(rng, N, 1, 4)
        d = rng.randrange(N)
        ts = []
        for _ in range(rng.choice([2, 2, 3])):
            sh = list(shape); sh[d] = rng.randint(1, 3)
            ts.append(gen_tensor(rng, sh, stream=stream).to_json())
        c.update({"ts": ts, "d": d, "neg": rng.random() < 0.25, "form": rng.choice(["varargs", "list"])})
        if rng.random() < 0.2:
            # operands DERIVED from the first one (its flip / cumulative sum / negation / itself / two slices along another mode): they share
            # cores (bitwise) and differ in one core or one Tucker factor only
            ts[:] = ts[:1]
            sh0 = PT.from_json(ts[0]).shape
            c["derive"] = [[rng.choice(["flip", "flip", "cumsum", "neg", "self"]), rng.randrange(N)] for _ in range(rng.choice([1, 1, 2]))]
            others = [k for k in range(N) if k != d and sh0[k] >= 2]
            if others and rng.random() < 0.3:
                k = rng.choice(others); cut = rng.randint(1, sh0[k] - 1)
                c["derive"] = [["slices", k, cut]]
        elif rng.random() < 0.15:
            # operands of different precision: the first one float32 (small integers: exact), the others full-mantissa float64
            sh0 = list(shape); sh0[d] = rng.randint(1, 3)
            ts[0] = gen_tensor(rng, sh0, stream="int").to_json()
            for k_ in range(1, len(ts)):
                shk = list(PT.from_json(ts[k_]).shape)
                ts[k_] = gen_tensor(rng, shk, stream="float").to_json()
            c["f32_first"] = True; c["stream"] = "float"
    elif kind in ("flip", "cumsum"):
        shape = gen_shape(rng, N, 1, 4)
        c["t"] = gen_tensor(rng, shape, stream=stream).to_json()
        dims = sorted(rng.sample(range(N), rng.randint(1, N)))
        if rng.random() < 0.2:
            rng.shuffle(dims)
        arg, form, negative = _dimform(rng, dims, N, allow_none=(kind == "cumsum"))
        c.update({"dims": dims, "arg": arg, "form": form, "neg": negative})
    elif kind == "transpose":
        c["t"] = gen_tensor(rng, gen_shape(rng, N, 1, 4), stream=stream).to_json()
    elif kind == "repeat":
        shape = gen_shape(rng, N, 1, 3)
        c["t"] = gen_tensor(rng, shape, stream=stream).to_json()
        extra = rng.choice([0, 0, 1, 1, 2]) if N <= 3 else rng.choice([0, 0, 1])
        c["rep"] = [rng.choice([1, 1, 2, 3]) for _ in range(N + extra)]
    elif kind == "pad":
        shape = gen_shape(rng, N, 1, 3)
        c["t"] = gen_tensor(rng, shape, stream=stream).to_json()
        form = rng.choice(["all-int", "all-list", "some", "some", "one-int"])
        if form == "all-int":
            dims = list(range(N)); target = max(shape) + rng.randint(0, 2); arg = None
            c.update({"dims": dims, "target": target, "arg": None, "neg": False})
        elif form == "all-list":
            dims = list(range(N)); target = [s + rng.choice([0, 1, 2]) for s in shape]
            c.update({"dims": dims, "target": target, "arg": None, "neg": False})
        elif form == "some":
            dims = sorted(rng.sample(range(N), rng.randint(1, N)))
            if rng.random() < 0.2:
                rng.shuffle(dims)
            target = [shape[d] + rng.choice([0, 1, 2]) for d in dims]
            neg = rng.random() < 0.25
            arg = [d - N if neg else d for d in dims]
            c.update({"dims": dims, "target": target, "arg": arg, "neg": neg})
        else:
            d = rng.randrange(N); neg = rng.random() < 0.25
            c.update({"dims": [d], "target": shape[d] + rng.choice([0, 1, 2]), "arg": d - N if neg else d, "neg": neg})
        c["form"] = form
        if rng.random() < 0.5:
            c["fill"] = 0
        else:
            c["fill"] = rng.choice([1, -1, 2, 3]) if stream == "int" else round(rng.uniform(-2, 2), 3)
    elif kind == "ttm":
        shape = gen_shape(rng, N, 1, 4)
        c["t"] = gen_tensor(rng, shape, stream=stream).to_json()
        m = rng.randint(1, N)
        form = rng.choice(["none", "list", "list", "list", "int"])
        if form == "none":
            dims = list(range(m))
        elif form == "int":
            dims = [rng.randrange(N)]
        else:
            dims = rng.sample(range(N), m)
        transpose = rng.random() < 0.35
        Us = []
        for d in dims:
            if rng.random() < 0.3:
                Us.append(_vals(rng, (shape[d],), stream))
            else:
                J = rng.randint(1, 4)
                Us.append(_vals(rng, (shape[d], J) if transpose else (J, shape[d]), stream))
        neg = form != "none" and rng.random() < 0.3
        arg = None if form == "none" else ([d - N if neg else d for d in dims] if form == "list" else (dims[0] - N if neg else dims[0]))
        c.update({"dims": dims, "Us": Us, "transpose": transpose, "arg": arg, "form": form, "neg": neg,
                  "bare": len(dims) == 1 and rng.random() < 0.5})
    elif kind == "meshgrid":
        axes = []
        for _ in range(N):
            if rng.random() < 0.4:
                axes.append(rng.randint(1, 4))
            else:
                axes.append(_vals(rng, (rng.randint(1, 4),), stream))
        c.update({"axes": axes, "form": rng.choice(["list", "list", "varargs"])})
    elif kind == "mask":
        shape = gen_shape(rng, N, 1, 4)
        c["t"] = gen_tensor(rng, shape, stream=stream).to_json()
        msh = list(shape)
        if rng.random() < 0.25:
            for n in range(N):
                if rng.random() < 0.5:
                    msh[n] = rng.randint(1, shape[n])
        c["m"] = gen_tensor(rng, msh, stream=stream).to_json()
    elif kind == "reduce":
        N = rng.randint(1, 3)
        shape = gen_shape(rng, N, 1, 3)
        fn = rng.choice(["add", "add", "cat", "cat", "mul"])
        k = rng.randint(2, 5 if fn != "mul" else 3)
        d = rng.randrange(N)
        ts = []
        for _ in range(k):
            sh = list(shape)
            if fn == "cat":
                sh[d] = rng.randint(1, 2)
            ts.append(gen_tensor(rng, sh, rmax=2, stream=stream).to_json())
        c.update({"ts": ts, "fn": fn, "d": d, "gen": rng.random() < 0.4})
        if fn in ("add", "cat") and rng.random() < 0.15:
            sh0 = list(PT.from_json(ts[0]).shape)
            ts[0] = gen_tensor(rng, sh0, rmax=2, stream="int").to_json()
            for k_ in range(1, len(ts)):
                ts[k_] = gen_tensor(rng, list(PT.from_json(ts[k_]).shape), rmax=2, stream="float").to_json()
            c["f32_first"] = True; c["stream"] = "float"
    elif kind == "create":
        c.update(gen_create(rng, stream))
    else:
        raise KeyError(kind)
    return c


def gen_create(rng, stream):
    sub = rng.choice(["ones", "zeros", "full", "ones_like", "zeros_like", "full_like", "eye", "eye", "eye_nm", "arange", "linspace",
                      "logspace", "gaussian", "rand", "rand", "randn", "randn", "rand_like", "randn_like"])
    N = rng.randint(1, 4)
    shape = gen_shape(rng, N, 1, 4)
    c = {"sub": sub, "shape": shape, "varargs": rng.random() < 0.5}
    if sub in ("full", "full_like"):
        c["fill"] = rng.choice([2, -1, 0, 3, 0.5, -1.5]) if stream == "int" else round(rng.uniform(-3, 3), 4)
    if sub.endswith("_like"):
        c["t"] = gen_tensor(rng, shape, stream=stream).to_json()
    if sub == "eye":
        c["n"] = rng.randint(1, 5)
    if sub == "eye_nm":
        c["n"] = rng.randint(1, 5); c["m"] = rng.randint(1, 5)
    if sub == "arange":
        r = rng.random()
        if r < 0.4:
            c["args"] = [rng.randint(1, 6)]
        elif r < 0.7:
            a = rng.randint(-3, 3); c["args"] = [a, a + rng.randint(1, 5)]
        else:
            a = rng.randint(-3, 3); c["args"] = [a, a + rng.randint(1, 5), rng.choice([1, 2, 0.5, 0.25])]
    if sub in ("linspace", "logspace"):
        a = rng.randint(-3, 2)
        c["args"] = [a, a + rng.randint(0, 4), rng.randint(1, 6)]
        if sub == "logspace" and rng.random() < 0.4:
            c["base"] = rng.choice([2, 3, 10.0])
    if sub == "gaussian":
        r = rng.random()
        c["sigma"] = None if r < 0.3 else (round(rng.uniform(0.05, 1.0), 3) if r < 0.6 else [round(rng.uniform(0.05, 1.0), 3) for _ in range(N)])
    if sub in ("rand", "randn", "rand_like", "randn_like"):
        c.update(gen_rank_request(rng, N))
    return c


def gen_rank_request(rng, N):
    """a consistent request: per-core kind, bond ranks, Tucker ranks; and how it is passed"""
    mode = rng.choice(["tt", "tt", "cp", "mixed", "mixed", "tucker-only"])
    r = rng.random()
    if r < 0.4 and mode != "tucker-only":
        tucker = [None] * N; tucker_arg = None
    elif r < 0.55:
        v = rng.randint(1, 3); tucker = [v] * N; tucker_arg = v
    else:
        tucker = [rng.randint(1, 4) if rng.random() < 0.6 else None for _ in range(N)]
        if all(x is None for x in tucker):
            tucker[rng.randrange(N)] = rng.randint(1, 3)
        tucker_arg = tucker
    if mode == "tucker-only":
        return {"rmode": mode, "ranks_tt": None, "ranks_cp": None, "ranks_tucker": tucker_arg, "kinds": None, "bonds": None, "tucker": tucker}
    if mode == "tt":
        kinds = ["tt"] * N
    elif mode == "cp":
        kinds = ["cp"] * N
    else:
        kinds = [rng.choice(["tt", "cp"]) for _ in range(N)]
    bonds = [None] * (N + 1)
    bonds[0] = 1 if kinds[0] == "tt" else rng.randint(1, 3)
    for n in range(N):
        if kinds[n] == "cp":
            bonds[n + 1] = bonds[n]
        else:
            bonds[n + 1] = 1 if n == N - 1 else rng.randint(1, 3)
    # request
    if all(k == "tt" for k in kinds):
        if N > 1 and len(set(bonds[1:N])) == 1 and rng.random() < 0.5:
            rtt = bonds[1]
        else:
            rtt = bonds[1:N]
        rcp = None
    elif all(k == "cp" for k in kinds):
        rtt = None
        rcp = bonds[0] if rng.random() < 0.6 else [bonds[0]] * N
    else:
        rtt = [bonds[b] if (kinds[b - 1] == "tt" and kinds[b] == "tt") else None for b in range(1, N)]
        rcp = [bonds[n] if kinds[n] == "cp" else None for n in range(N)]
    return {"rmode": mode, "ranks_tt": rtt, "ranks_cp": rcp, "ranks_tucker": tucker_arg, "kinds": kinds, "bonds": bonds, "tucker": tucker}


# ----------------------------------------------------------------------------------------------- run
def run_case(ctx, case):
    kind = case["kind"]
    J = Judge(ctx, case)
    ctx.count("kind:" + kind); ctx.count("dd:" + case["dd"]); ctx.count("stream:" + case["stream"])
    globals()["run_" + kind](ctx, case, J)


def _special1(*pts):
    return any(p.N == 1 and (p.cores[0].ndim == 2 or p.Us[0] is not None) for p in pts)


def tensor_verify(exp, rtol=1e-9, floor=0.0, made_in_default_dtype=False):
    """made_in_default_dtype: the routine has no float64 operand (creation routines) or documents/explicitly casts to the default
    dtype (meshgrid): under a float32 default its values are float32 numbers, so the tolerance is 1e-6 there"""
    def verify(r):
        if not isinstance(r, tn.Tensor):
            return "shape: returned %s, not a Tensor" % type(r).__name__
        if tuple(r.shape) != tuple(exp.shape):
            return "shape %s, expected %s" % (tuple(r.shape), tuple(exp.shape))
        rt = 1e-6 if (made_in_default_dtype and torch.get_default_dtype() == torch.float32) else rtol
        return cmp(to_np(r), exp, rt, floor)
    return verify



def _to_f32(t):
    return tn.Tensor([c.float() for c in t.cores], Us=[None if U is None else U.float() for U in t.Us])


def _derive(x, how, lib):
    """the operand derived from x (a tn.Tensor if lib else a dense array)"""
    op, k = how[0], how[1]
    if op == "flip":
        return tn.flip(x, k) if lib else np.flip(x, axis=k)
    if op == "cumsum":
        return tn.cumsum(x, k) if lib else np.cumsum(x, axis=k)
    if op == "neg":
        return -x
    return x


def run_cat(ctx, case, J):
    ts = [PT.from_json(t) for t in case["ts"]]
    d, N = case["d"], ts[0].N
    arg = d - N if case["neg"] else d
    der = case.get("derive")
    if der:
        x0 = ts[0].dense()
        if der[0][0] == "slices":
            k, cut = der[0][1], der[0][2]
            ix = lambda a, b: tuple([slice(None)] * k + [slice(a, b)])
            parts = [x0[ix(0, cut)], x0[ix(cut, None)]]
            if parts[0].shape[k] != parts[1].shape[k]:          # equal extents along k are needed to put the two blocks side by side
                m = min(parts[0].shape[k], parts[1].shape[k]); parts = [x0[ix(0, m)], x0[ix(cut, cut + m)]]
                der = [["slices", k, cut, m]]
            else:
                der = [["slices", k, cut, parts[0].shape[k]]]
            dense_ops = parts
        else:
            dense_ops = [x0] + [_derive(x0, h, False) for h in der]
        exp = np.concatenate(dense_ops, axis=d)
        ctx.count("cat:derived operands:" + der[0][0])
    else:
        exp = np.concatenate([t.dense() for t in ts], axis=d)
    ctx.case(("cat", tuple(t.sig() for t in ts), arg, case["form"]), any(t.nontrivial() for t in ts),
             {"op": "cat", "operands": [t.describe() for t in ts], "dim": arg, "call": case["form"]})
    count_formats(ctx, *ts)
    ctx.count("cat:n=%d" % len(ts)); ctx.count("cat:" + case["form"] + (",neg" if case["neg"] else ""))
    floor = 1e-4 * max(float(np.max(absdense(t))) for t in ts)

    def thunk():
        tt = [t.to_tn() for t in ts]
        if der and der[0][0] == "slices":
            k, cut, m = der[0][1], der[0][2], der[0][3]
            ix = lambda a, b: tuple([slice(None)] * k + [slice(a, b)])
            tt = [tt[0][ix(0, m)], tt[0][ix(cut, cut + m)]]
        elif der:
            tt = [tt[0]] + [_derive(tt[0], h, True) for h in der]
        if case.get("f32_first"):
            tt[0] = _to_f32(tt[0])
        return tn.cat(*tt, dim=arg) if case["form"] == "varargs" else tn.cat(tt, dim=arg)
    if case.get("f32_first"):
        ctx.count("cat:first operand float32, others float64")

    kd = set(t.kinds()[d] for t in ts)
    feats = [("1 mode, CP core or Tucker factor", _special1(*ts)), ("1 mode", N == 1), ("negative dim", case["neg"]),
             ("operands of different format at the concatenated mode", len(kd) > 1), ("operands derived from one tensor", bool(der))]
    J.check("cat", "cat(%s, dim=%s) [%s]" % (", ".join(str(list(t.shape)) for t in ts), arg, case["form"]), thunk, tensor_verify(exp, 1e-9, floor), feats)


def run_flip(ctx, case, J):
    t = PT.from_json(case["t"])
    exp = np.flip(t.dense(), axis=tuple(case["dims"]))
    ctx.case(("flip", t.sig(), repr(case["arg"])), t.nontrivial(), {"op": "flip", "t": t.describe(), "dim": case["arg"]})
    count_formats(ctx, t); ctx.count("flip:" + case["form"] + (",neg" if case["neg"] else ""))
    J.check("flip", "flip(t %s, %s)" % (list(t.shape), case["arg"]), lambda: tn.flip(t.to_tn(), case["arg"]), tensor_verify(exp),
            [("negative dim", case["neg"])])


def run_transpose(ctx, case, J):
    t = PT.from_json(case["t"])
    exp = np.transpose(t.dense())
    ctx.case(("transpose", t.sig()), t.nontrivial(), {"op": "transpose", "t": t.describe()})
    count_formats(ctx, t)
    J.check("transpose", "transpose(t %s)" % (list(t.shape),), lambda: tn.transpose(t.to_tn()), tensor_verify(exp))


def run_cumsum(ctx, case, J):
    t = PT.from_json(case["t"])
    exp = t.dense()
    for d in case["dims"]:
        exp = np.cumsum(exp, axis=d)
    ctx.case(("cumsum", t.sig(), repr(case["arg"])), t.nontrivial(), {"op": "cumsum", "t": t.describe(), "dim": case["arg"]})
    count_formats(ctx, t); ctx.count("cumsum:" + case["form"] + (",neg" if case["neg"] else ""))
    ad = absdense(t)
    for d in case["dims"]:
        ad = np.cumsum(ad, axis=d)
    thunk = (lambda: tn.cumsum(t.to_tn())) if case["arg"] is None else (lambda: tn.cumsum(t.to_tn(), case["arg"]))
    J.check("cumsum", "cumsum(t %s, %s)" % (list(t.shape), case["arg"]), thunk, tensor_verify(exp, 1e-9, 1e-4 * float(np.max(ad))),
            [("negative dim", case["neg"])])


def run_repeat(ctx, case, J):
    t = PT.from_json(case["t"])
    rep = case["rep"]
    x = t.dense()
    extra = len(rep) - t.N
    exp = np.tile(x.reshape(x.shape + (1,) * extra), rep)
    ctx.case(("repeat", t.sig(), tuple(rep)), t.nontrivial(), {"op": "repeat", "t": t.describe(), "rep": rep})
    count_formats(ctx, t); ctx.count("repeat:extra=%d" % extra)
    J.check("repeat", "t %s .repeat(%s)" % (list(t.shape), rep), lambda: t.to_tn().repeat(*rep), tensor_verify(exp),
            [("trailing new modes and last core CP", extra > 0 and t.cores[-1].ndim == 2), ("trailing new modes", extra > 0)])


def run_pad(ctx, case, J):
    t = PT.from_json(case["t"])
    x = t.dense()
    dims, target, fill = case["dims"], case["target"], case["fill"]
    tl = target if isinstance(target, list) else [target] * len(dims)
    widths = [(0, 0)] * t.N
    for d, s in zip(dims, tl):
        widths[d] = (0, s - x.shape[d])
    exp = np.pad(x, widths, mode="constant", constant_values=fill)
    grows = sum(1 for w in widths if w[1] > 0)
    ctx.case(("pad", t.sig(), repr(target), repr(case["arg"]), fill != 0), t.nontrivial(),
             {"op": "pad", "t": t.describe(), "shape": target, "dim": case["arg"], "fill_value": fill})
    count_formats(ctx, t); ctx.count("pad:" + case["form"] + (",neg" if case["neg"] else "")); ctx.count("pad:fill=" + ("0" if fill == 0 else "c"))

    def thunk():
        kw = {}
        if case["arg"] is not None:
            kw["dim"] = case["arg"]
        if fill != 0 or case["seed"] % 2:
            kw["fill_value"] = fill
        return tn.pad(t.to_tn(), target, **kw)

    feats = [("fill_value != 0 and some mode grows", fill != 0 and grows > 0), ("negative dim", case["neg"])]
    J.check("pad", "pad(t %s, %s, dim=%s, fill_value=%s)" % (list(t.shape), target, case["arg"], fill), thunk,
            tensor_verify(exp, 1e-9, 1e-4 * float(np.max(absdense(t)))), feats)


def run_ttm(ctx, case, J):
    t = PT.from_json(case["t"])
    x = t.dense(); ad = absdense(t)
    dims, tr = case["dims"], case["transpose"]
    Us = [np.array(u, dtype=np.float64) for u in case["Us"]]
    exp = x
    for d, U in zip(dims, Us):
        M = U[None, :] if U.ndim == 1 else (U.T if tr else U)
        exp = np.moveaxis(np.tensordot(M, exp, axes=(1, d)), 0, d)
        ad = np.moveaxis(np.tensordot(np.abs(M), ad, axes=(1, d)), 0, d)
    ctx.case(("ttm", t.sig(), tuple(U.shape for U in Us), repr(case["arg"]), tr, case["bare"]), t.nontrivial(),
             {"op": "ttm", "t": t.describe(), "factors": [list(U.shape) for U in Us], "dim": case["arg"], "transpose": tr})
    count_formats(ctx, t)
    ctx.count("ttm:" + case["form"] + (",neg" if case["neg"] else "") + (",T" if tr else ""))
    for d, U in zip(dims, Us):
        ctx.count("ttm:%s on %s" % ("vector" if U.ndim == 1 else "matrix", t.kinds()[d]))

    def thunk():
        tu = [torch.tensor(U, dtype=torch.float64) for U in Us]
        Uarg = tu[0] if case["bare"] else tu
        kw = {}
        if case["arg"] is not None:
            kw["dim"] = case["arg"]
        if tr or case["seed"] % 2:
            kw["transpose"] = tr
        return tn.ttm(t.to_tn(), Uarg, **kw)

    feats = [("negative dim", case["neg"]), ("transpose=True with a vector factor", tr and any(U.ndim == 1 for U in Us)),
             ("transpose=True", tr), ("a mode with an existing Tucker factor", any(t.Us[d] is not None for d in dims))]
    J.check("ttm", "ttm(t %s, factors %s, dim=%s, transpose=%s)" % (list(t.shape), [list(U.shape) for U in Us], case["arg"], tr), thunk,
            tensor_verify(exp, 1e-9, 1e-4 * float(np.max(ad))), feats)


def run_meshgrid(ctx, case, J):
    axes = case["axes"]
    N = len(axes)
    vecs = [np.arange(a, dtype=np.float64) if isinstance(a, int) else np.array(a, dtype=np.float64) for a in axes]
    exps = np.meshgrid(*vecs, indexing="ij")
    ctx.case(("meshgrid", tuple("int" if isinstance(a, int) else len(a) for a in axes), case["form"]), N > 1,
             {"op": "meshgrid", "axes": ["int %d" % a if isinstance(a, int) else "vector of %d" % len(a) for a in axes], "call": case["form"]})
    ctx.count("meshgrid:" + case["form"])

    def thunk():
        ax = [a if isinstance(a, int) else torch.tensor(a, dtype=torch.float64) for a in axes]
        return tn.meshgrid(ax) if case["form"] == "list" else tn.meshgrid(*ax)

    def verify(r):
        if not isinstance(r, (list, tuple)) or len(r) != N:
            return "shape: expected a list of %d tensors" % N
        for n in range(N):
            m = tensor_verify(exps[n], made_in_default_dtype=True)(r[n])
            if m is not None:
                return ("shape: " if m.startswith("shape") else "") + "grid %d: %s" % (n, m)
        return None

    feats = [("separate arguments (varargs) and the first one is a torch vector", case["form"] == "varargs" and not isinstance(axes[0], int)),
             ("a single int axis", N == 1 and isinstance(axes[0], int)),
             ("varargs", case["form"] == "varargs")]
    J.check("meshgrid", "meshgrid(%s) [%s]" % (", ".join("%d" % a if isinstance(a, int) else "vec%d" % len(a) for a in axes), case["form"]),
            thunk, verify, feats)


def run_mask(ctx, case, J):
    t, m = PT.from_json(case["t"]), PT.from_json(case["m"])
    x, y = t.dense(), m.dense()
    idx = np.ix_(*[np.minimum(np.arange(s), ms - 1) for s, ms in zip(x.shape, y.shape)])
    exp = x * y[idx]
    smaller = tuple(m.shape) != tuple(t.shape)
    ctx.case(("mask", t.sig(), m.sig()), t.nontrivial() or m.nontrivial(), {"op": "mask", "t": t.describe(), "mask": m.describe()})
    count_formats(ctx, t, m); ctx.count("mask:" + ("smaller" if smaller else "same-shape"))
    floor = 1e-4 * float(np.max(absdense(t) * absdense(m)[idx]))
    J.check("mask", "mask(t %s, mask %s)" % (list(t.shape), list(m.shape)), lambda: tn.mask(t.to_tn(), m.to_tn()), tensor_verify(exp, 1e-9, floor),
            [("mask smaller than the tensor along a mode", smaller), ("1 mode, CP core or Tucker factor", _special1(t, m))])
    # a second, full-size mask applied to the SAME tensor object (and to a clone of it) after the first call: masking is a pure
    # function of (t, mask), whatever was masked before
    import random as _r
    import zlib as _z
    m2 = gen_tensor(_r.Random(_z.crc32(repr(case["t"]["cores"]).encode())), list(t.shape), rmax=2, stream="int")
    exp2 = x * m2.dense()

    def twice():
        tt = t.to_tn()
        tn.mask(tt, m.to_tn())
        return tn.mask(tt, m2.to_tn()), tn.mask(tt.clone(), m2.to_tn())

    def verify2(rs):
        v = tensor_verify(exp2, 1e-9, 1e-4 * float(np.max(absdense(t) * absdense(m2))))
        return v(rs[0]) or v(rs[1])
    J.check("mask", "mask(t, full-size mask) after mask(t %s, mask %s) on the same tensor" % (list(t.shape), list(m.shape)), twice, verify2,
            [("a second mask on a tensor that was masked before", True)])


def run_reduce(ctx, case, J):
    ts = [PT.from_json(t) for t in case["ts"]]
    fn, d = case["fn"], case["d"]
    xs = [t.dense() for t in ts]
    ads = [absdense(t) for t in ts]
    if fn == "add":
        exp = sum(xs[1:], xs[0]); ad = sum(ads[1:], ads[0])
    elif fn == "mul":
        exp = xs[0]; ad = ads[0]
        for x_, a_ in zip(xs[1:], ads[1:]):
            exp = exp * x_; ad = ad * a_
    else:
        exp = np.concatenate(xs, axis=d); ad = np.concatenate(ads, axis=d)
    ctx.case(("reduce", fn, tuple(t.sig() for t in ts), d if fn == "cat" else None, case["gen"]), True,
             {"op": "reduce", "function": fn, "operands": [t.describe() for t in ts], "generator": case["gen"]})
    count_formats(ctx, *ts); ctx.count("reduce:%s,n=%d" % (fn, len(ts)))

    if case.get("f32_first"):
        ctx.count("reduce:first operand float32, others float64")

    def thunk():
        tt = [t.to_tn() for t in ts]
        if case.get("f32_first"):
            tt[0] = _to_f32(tt[0])
        seq = (t_ for t_ in tt) if case["gen"] else tt
        if fn == "add":
            return tn.reduce(seq, operator.add)
        if fn == "mul":
            return tn.reduce(seq, operator.mul)
        return tn.reduce(seq, tn.cat, dim=d)

    feats = [("1 mode", ts[0].N == 1), ("function tn.cat", fn == "cat"), ("function operator.mul", fn == "mul")]
    J.check("reduce", "reduce(%d tensors %s, %s)" % (len(ts), list(ts[0].shape), fn if fn != "cat" else "tn.cat, dim=%d" % d), thunk,
            tensor_verify(exp, 1e-7, float(np.max(ad))), feats)


# ----------------------------------------------------------------------------------------------- creation routines
def run_create(ctx, case, J):
    sub, shape = case["sub"], case["shape"]
    N = len(shape)
    ctx.count("create:" + sub)
    sample = {"op": sub, "shape": shape}

    def call(fn, *extra, **kw):
        return fn(*shape, *extra, **kw) if case["varargs"] else fn(shape, *extra, **kw)

    if sub in ("ones", "zeros"):
        ctx.case((sub, tuple(shape), case["varargs"]), N > 1, sample)
        v = 1.0 if sub == "ones" else 0.0
        J.check(sub, "%s(%s)" % (sub, shape), lambda: call(getattr(tn, sub)), tensor_verify(np.full(shape, v), made_in_default_dtype=True),
                [("shape given as separate ints", case["varargs"])])
    elif sub == "full":
        ctx.case((sub, tuple(shape), case["fill"]), N > 1, dict(sample, fill=case["fill"]))
        J.check(sub, "full(%s, %s)" % (shape, case["fill"]), lambda: tn.full(shape, case["fill"]), tensor_verify(np.full(shape, float(case["fill"])), made_in_default_dtype=True),
                [("fill_value = 0", case["fill"] == 0), ("fill_value < 0", case["fill"] < 0)])
    elif sub in ("ones_like", "zeros_like", "full_like"):
        t = PT.from_json(case["t"])
        ctx.case((sub, t.sig(), case.get("fill")), t.nontrivial(), dict(sample, t=t.describe(), fill=case.get("fill")))
        if sub == "full_like":
            J.check(sub, "full_like(t %s, %s)" % (shape, case["fill"]), lambda: tn.full_like(t.to_tn(), case["fill"]),
                    tensor_verify(np.full(shape, float(case["fill"])), made_in_default_dtype=True), [("fill_value = 0", case["fill"] == 0), ("fill_value < 0", case["fill"] < 0)])
        else:
            v = 1.0 if sub == "ones_like" else 0.0
            J.check(sub, "%s(t %s)" % (sub, shape), lambda: getattr(tn, sub)(t.to_tn()), tensor_verify(np.full(shape, v), made_in_default_dtype=True))
    elif sub == "eye":
        n = case["n"]
        ctx.case((sub, n), True, {"op": "eye(n)", "n": n})
        J.check("eye", "eye(%d)" % n, lambda: tn.eye(n), tensor_verify(np.eye(n), made_in_default_dtype=True), [("m omitted", True)])
    elif sub == "eye_nm":
        n, m = case["n"], case["m"]
        ctx.case((sub, n, m), True, {"op": "eye(n,m)", "n": n, "m": m})
        J.check("eye", "eye(%d, %d)" % (n, m), lambda: tn.eye(n, m), tensor_verify(np.eye(n, m), made_in_default_dtype=True), [("n > m", n > m), ("n < m", n < m)])
    elif sub in ("arange", "linspace", "logspace"):
        args = case["args"]
        kw = {"base": case["base"]} if case.get("base") is not None else {}
        ctx.case((sub, tuple(args), case.get("base")), True, {"op": sub, "args": args, "kwargs": kw})

        def verify(r):
            # the reference is the PyTorch routine of the same name under the same default dtype
            if sub == "arange":
                ref = torch.arange(*args, dtype=torch.get_default_dtype())
            else:
                ref = getattr(torch, sub)(*args, **kw)
            return tensor_verify(ref.double().numpy(), made_in_default_dtype=True)(r)

        J.check(sub, "%s(%s%s)" % (sub, ", ".join(map(str, args)), ", base=%s" % kw["base"] if kw else ""),
                lambda: getattr(tn, sub)(*args, **kw), verify, [("a single point", sub != "arange" and args[2] == 1)])
    elif sub == "gaussian":
        sg = case["sigma"]
        ctx.case((sub, tuple(shape), repr(sg), case["varargs"]), N > 1, dict(sample, sigma_factor=sg))
        kw = {} if sg is None else {"sigma_factor": sg}

        def verify(r):
            if not isinstance(r, tn.Tensor):
                return "shape: returned %s" % type(r).__name__
            if tuple(r.shape) != tuple(shape):
                return "shape %s, expected %s" % (tuple(r.shape), tuple(shape))
            g = to_np(r)
            if not np.all(np.isfinite(g)):
                return "non-finite entries"
            if abs(float(g.sum()) - 1.0) > 1e-5:
                return "sums to %.9g, not 1" % float(g.sum())
            if np.min(g) < 0:
                return "negative entries"
            # axis-aligned Gaussian: separable, symmetric under flipping every mode
            if cmp(np.flip(g, axis=tuple(range(N))), g, 1e-5) is not None:
                return "not symmetric about the centre"
            return None

        J.check(sub, "gaussian(%s, sigma_factor=%s)" % (shape, sg), lambda: call(tn.gaussian, **kw), verify,
                [("a mode of size 1", 1 in shape), ("sigma_factor given as a list", isinstance(sg, list))])
    else:
        run_rand(ctx, case, J)


def run_rand(ctx, case, J):
    sub, shape = case["sub"], case["shape"]
    N = len(shape)
    kinds, bonds = case["kinds"], case["bonds"]
    tucker = case.get("tucker") or case["ranks_tucker"]
    if not isinstance(tucker, list):
        tucker = [tucker] * N
    ctx.case((sub, tuple(shape), repr(case["ranks_tt"]), repr(case["ranks_cp"]), repr(case["ranks_tucker"])), N > 1,
             {"op": sub, "shape": shape, "ranks_tt": case["ranks_tt"], "ranks_cp": case["ranks_cp"], "ranks_tucker": case["ranks_tucker"]})
    ctx.count("rand:" + case["rmode"])
    kw = {}
    for k in ("ranks_tt", "ranks_cp", "ranks_tucker"):
        if case[k] is not None:
            kw[k] = case[k]
    base = tn.rand if sub.startswith("rand_") or sub == "rand" else tn.randn
    uniform = sub in ("rand", "rand_like")
    if sub.endswith("_like"):
        like = PT.from_json(case["t"])
        fn = getattr(tn, sub)
        thunk = lambda: fn(like.to_tn(), **kw)
    else:
        fn = getattr(tn, sub)
        thunk = (lambda: fn(*shape, **kw)) if case["varargs"] else (lambda: fn(shape, **kw))

    def verify(r):
        if not isinstance(r, tn.Tensor):
            return "shape: returned %s" % type(r).__name__
        if tuple(r.shape) != tuple(shape):
            return "shape %s, expected %s" % (tuple(r.shape), tuple(shape))
        S = [tucker[n] if tucker[n] is not None else shape[n] for n in range(N)]
        for n in range(N):
            c, U = r.cores[n], r.Us[n]
            if (U is not None) != (tucker[n] is not None):
                return "shape: mode %d: Tucker factor %s, requested ranks_tucker %s" % (n, "present" if U is not None else "absent", tucker[n])
            if U is not None and tuple(U.shape) != (shape[n], tucker[n]):
                return "shape: mode %d: factor shape %s, expected %s" % (n, tuple(U.shape), (shape[n], tucker[n]))
            if kinds is not None:
                want = (bonds[n], S[n], bonds[n + 1]) if kinds[n] == "tt" else (S[n], bonds[n])
                if tuple(c.shape) != want:
                    return "shape: core %d has shape %s, requested %s (%s)" % (n, tuple(c.shape), want, kinds[n])
            elif c.shape[-2] != S[n]:
                return "shape: core %d spatial size %d, expected %d" % (n, c.shape[-2], S[n])
            if uniform and (float(c.min()) < 0 or float(c.max()) > 1):
                return "entries of core %d outside [0,1]" % n
        if kinds is not None:
            if [int(v) for v in r.ranks_tt] != list(bonds):
                return "shape: ranks_tt %s, requested %s" % ([int(v) for v in r.ranks_tt], bonds)
        if [int(v) for v in r.ranks_tucker] != S:
            return "shape: ranks_tucker %s, requested %s" % ([int(v) for v in r.ranks_tucker], S)
        g = to_np(r)
        if g.shape != tuple(shape) or not np.all(np.isfinite(g)):
            return "shape: decompressed shape %s / non-finite" % (g.shape,)
        return None

    feats = [("only ranks_tucker given", case["rmode"] == "tucker-only"), ("CP and TT cores mixed", case["rmode"] == "mixed"),
             ("all cores CP", case["rmode"] == "cp"), ("1 mode", N == 1)]
    J.check(sub, "%s(%s, %s)" % (sub, shape, ", ".join("%s=%s" % kv for kv in kw.items())), thunk, verify, feats)


# =============================================================================== correspondence with the Lean model (main session)
def _corr_cases(rng, tier):
    n = {"quick": 200, "thorough": 3000, "search": 0}[tier]
    out = []
    for _ in range(n):
        N = rng.choice([1, 2, 2, 3, 3, 4])
        stream = "int" if rng.random() < 0.7 else "float"
        shape = [1 if rng.random() < 0.15 else rng.randint(2, 4) for _ in range(N)]
        op = rng.choice(["flip", "cumsum", "pad0", "ttm", "ttm", "cat", "cat", "padc"])
        c = {"kind": "corr", "op": op, "t": gen_tensor(rng, shape, stream=stream).to_json(), "stream": stream, "dd": "float64"}
        if op == "cat":
            d = rng.randrange(N)
            others = []
            for _ in range(rng.randint(1, 2)):
                sh = list(shape); sh[d] = rng.randint(1, 3)
                if rng.random() < 0.12:                       # a size that differs off `dim`: both sides must reject
                    e = rng.randrange(N); sh[e] = sh[e] + 1
                others.append(gen_tensor(rng, sh, stream=stream).to_json())
            c["others"] = others
            c["dim"] = d - N if rng.random() < 0.3 else d
        if op == "padc":
            c["fill"] = float(rng.choice([-2, -1, 1, 2, 3])) if stream == "int" else rng.gauss(0, 2)
        bits = [rng.randint(0, 1) for _ in range(N)]
        if not any(bits):
            bits[rng.randrange(N)] = 1
        c["bits"] = bits
        if op == "pad0":
            c["sizes"] = [shape[i] + rng.randint(0, 2) if bits[i] else -1 for i in range(N)]
        if op == "ttm":
            mats = []
            for i in range(N):
                if bits[i]:
                    r = rng.randint(1, 3)
                    mats.append([[float(rng.randint(-2, 2)) if stream == "int" else rng.gauss(0, 1) for _ in range(shape[i])] for _ in range(r)])
                else:
                    mats.append(None)
            c["mats"] = mats
        out.append(c)
    return out


_orig_cases = cases


def cases(rng, tier):  # noqa: F811
    return _orig_cases(rng, tier) + _corr_cases(rng, tier)


def run_corr(ctx, case, J):
    from core import parse_tensor, cmp_struct, from_tn, q, safe, close
    t = PT.from_json(case["t"])
    op = case["op"]
    exact = case["stream"] == "int"
    bits = case["bits"]
    dims = [i for i, b in enumerate(bits) if b]
    ctx.case(("corr", op, t.sig(), tuple(bits)), t.nontrivial(), {"op": "model correspondence: " + op, "t": t.describe(), "dims": dims})
    ctx.count("corr:" + op)
    if not (getattr(ctx, "use_model", False) and not getattr(ctx, "search_only", False)):
        return
    x = t.dense()
    tt = t.to_tn()
    hdr = "%d %s" % (len(bits), " ".join(map(str, bits)))
    if op == "cat":
        ts = [t] + [PT.from_json(o) for o in case["others"]]
        d = case["dim"]
        r = safe(lambda: tn.cat([u.to_tn() for u in ts], dim=d))
        toks = ctx.drv().call("cat %d %d %s" % (len(ts), d, " ".join(u.ser() for u in ts)))
        off = [n for n in range(t.N) if n != d % t.N]
        mismatch = any(u.shape[n] != t.shape[n] for u in ts[1:] for n in off)
        ctx.count("corr:cat " + ("rejected" if mismatch else "accepted"))
        if r[0] == "err" or toks[0] != "ok":
            if not (r[0] == "err" and toks[0] == "err"):
                ctx.corr("cat: implementation %s, model %s" % (r[:2] if r[0] == "err" else "ok", toks[:2]), case)
            elif not mismatch:
                ctx.oracle("cat(%s, dim=%d) raised %s: %s" % ([list(u.shape) for u in ts], d, r[1], r[2]), case)
            elif (toks[1], r[1]) != ("shape", "ValueError"):
                ctx.corr("cat on mismatching shapes: implementation raises %s, model says %s" % (r[1], toks[1]), case)
            return
        exp = np.concatenate([u.dense() for u in ts], axis=d)
    elif op == "padc":
        sizes = [x.shape[i] + (1 + i % 2) if bits[i] else -1 for i in range(t.N)]
        c = case["fill"]
        r = safe(lambda: tn.pad(tt, [sizes[i] for i in dims], dim=dims, fill_value=c))
        exp = np.full([sizes[i] if bits[i] else x.shape[i] for i in range(t.N)], c); exp[tuple(slice(0, s) for s in x.shape)] = x
        rho = abs(c) ** (1.0 / t.N)
        line = "padc %d %s %s %s %s" % (t.N, " ".join(map(str, sizes)), q(rho), q(1.0 if c > 0 else -1.0), t.ser())
        exact = False
    elif op == "flip":
        r = safe(lambda: tn.flip(tt, dims)); exp = np.flip(x, axis=tuple(dims)); line = "flip %s %s" % (hdr, t.ser())
    elif op == "cumsum":
        r = safe(lambda: tn.cumsum(tt, dims)); exp = x
        for d in dims:
            exp = np.cumsum(exp, axis=d)
        line = "cumsum %s %s" % (hdr, t.ser())
    elif op == "pad0":
        sizes = case["sizes"]
        r = safe(lambda: tn.pad(tt, [sizes[d] for d in dims], dim=dims))
        exp = np.zeros([sizes[i] if bits[i] else x.shape[i] for i in range(t.N)]); exp[tuple(slice(0, s) for s in x.shape)] = x
        line = "pad0 %d %s %s" % (len(sizes), " ".join(map(str, sizes)), t.ser())
    else:
        mats = case["mats"]
        Us = [torch.tensor(np.array(mats[d], dtype=np.float64)) for d in dims]
        r = safe(lambda: tn.ttm(tt, Us, dim=dims))
        exp = x
        for d in dims:
            exp = np.moveaxis(np.tensordot(np.array(mats[d]), exp, axes=(1, d)), 0, d)
        parts = []
        for i in range(t.N):
            if mats[i] is None:
                parts.append("-")
            else:
                M = np.array(mats[i], dtype=np.float64)
                parts.append("M %d %d %s" % (M.shape[0], M.shape[1], " ".join(q(v) for v in M.reshape(-1))))
        line = "ttm %d %s %s" % (t.N, " ".join(parts), t.ser())
    if r[0] == "err":
        ctx.oracle("%s(dims=%s) raised %s: %s" % (op, dims, r[1], r[2]), case); return
    if op != "cat":
        toks = ctx.drv().call(line)
    if toks[0] != "ok":
        ctx.corr("model %s failed: %s" % (op, " ".join(toks[:4])), case); return
    m = parse_tensor(toks, 1)[0]
    d = cmp_struct(from_tn(r[1]), m, exact)
    if d is not None:
        ctx.corr("%s(dims=%s): implementation cores differ from model cores: %s" % (op, dims, d), case)
    md = PT([np.asarray(c, dtype=np.float64) for c in m.cores], [None if U is None else np.asarray(U, dtype=np.float64) for U in m.Us]).dense()
    if md.shape != exp.shape or not close(md, exp, 1e-9)[0]:
        ctx.spec("model %s differs from the NumPy result" % op, case)
