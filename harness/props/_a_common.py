"""helpers shared by the C04 / C05 / C13 search modules (dense NumPy oracles only; nothing here calls tntorch)"""
import numpy as np
from core import PT, rnd_entries


def frob(a):
    a = np.asarray(a, dtype=np.float64)
    return float(np.sqrt(np.sum(a * a))) if a.size else 0.0


def rep_scale(pt):
    """product of the Frobenius norms of all cores and factors: an upper bound of ||dense|| and the natural scale of the
    floating-point noise of any backward-stable manipulation of the representation"""
    s = 1.0
    for c, U in zip(pt.cores, pt.Us):
        s *= frob(c)
        if U is not None:
            s *= frob(U)
    return s


def tt_unfoldings(x):
    """the N-1 unfoldings (i_1..i_k) x (i_k+1..i_N), k = 1..N-1"""
    sh = x.shape
    return [x.reshape(int(np.prod(sh[:k])), -1) for k in range(1, x.ndim)]


def mode_unfoldings(x):
    return [np.moveaxis(x, n, 0).reshape(x.shape[n], -1) for n in range(x.ndim)]


def svals(M):
    if M.size == 0:
        return np.zeros(0)
    return np.linalg.svd(M, compute_uv=False)


def tail(s, r):
    """sum of the squared singular values discarded at rank r"""
    r = max(0, int(r))
    return float(np.sum(s[r:] ** 2))


def min_rank_for(s, delta2):
    """smallest r >= 0 with tail(s, r) <= delta2"""
    for r in range(len(s) + 1):
        if tail(s, r) <= delta2:
            return r
    return len(s)


def rand_orth(rng, n, k):
    """n x k matrix with orthonormal columns (k <= n), entries drawn from rng"""
    A = rnd_entries(rng, (n, k), "float")
    Q, R = np.linalg.qr(A)
    return Q[:, :k]


def cond_matrix(rng, m, n, cond, scale=1.0):
    """m x n matrix with singular values log-spaced between scale and scale/cond (random order of magnitudes)"""
    k = min(m, n)
    A = rand_orth(rng, m, k)
    B = rand_orth(rng, n, k)
    if k == 1:
        sv = np.array([1.0])
    else:
        sv = np.array([cond ** (-(i / (k - 1.0))) for i in range(k)])
    return scale * (A * sv) @ B.T


def factor_cond(U):
    s = svals(np.asarray(U, dtype=np.float64))
    if len(s) == 0 or s[-1] == 0:
        return float("inf")
    return float(s[0] / s[-1])


def gram_dev(Q):
    """max |Q^T Q - I| for a 2-D array"""
    Q = np.asarray(Q, dtype=np.float64)
    if Q.size == 0:
        return 0.0
    G = Q.T @ Q
    return float(np.max(np.abs(G - np.eye(G.shape[0]))))


def fmt_counts(ctx, pt):
    for k in set(pt.kinds()):
        ctx.count("fmt:" + k)
    ctx.count("N:%d" % pt.N)


def numerical_ranks(x, rtol=1e-10):
    """numerical ranks of the TT unfoldings of a dense array, plus a flag telling whether the decision is clear-cut
    (no singular value in the ambiguous band (1e-14, 1e-6) * sigma_1: anything above the float64 noise floor ~1e-15 may be a genuine
    singular value that rounding at eps=1e-12 rightly keeps or drops depending on the budget split)"""
    ranks, clear = [], True
    for M in tt_unfoldings(x):
        s = svals(M)
        if len(s) == 0 or s[0] == 0:
            ranks.append(0); continue
        ranks.append(int(np.sum(s > rtol * s[0])))
        if np.any((s > 1e-14 * s[0]) & (s < 1e-6 * s[0])):
            clear = False
    return ranks, clear
