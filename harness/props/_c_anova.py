"""Brute-force ANOVA / Sobol oracle on dense NumPy arrays (shared by C09 and C10).

Everything here is computed from the dense array and the marginals only (no tntorch).
"""
import itertools
import numpy as np


def norm_marginals(shape, marginals):
    """list of float64 vectors summing to 1 (None -> uniform)"""
    out = []
    for n, I in enumerate(shape):
        m = None if marginals is None else marginals[n]
        if m is None:
            out.append(np.ones(I, dtype=np.float64) / I)
        else:
            m = np.asarray(m, dtype=np.float64)
            out.append(m / m.sum())
    return out


def subsets(N):
    """all subsets of range(N) as sorted tuples, by size then lexicographic"""
    for k in range(N + 1):
        for S in itertools.combinations(range(N), k):
            yield S


def cond_expect(x, w, S):
    """E[f | x_S]: weighted sum over the modes not in S, kept as size-1 modes (broadcastable to x.shape)"""
    y = x
    for n in range(x.ndim):
        if n not in S:
            sh = [1] * x.ndim
            sh[n] = x.shape[n]
            y = np.sum(y * w[n].reshape(sh), axis=n, keepdims=True)
    return y


def anova_terms(x, w):
    """inclusion-exclusion ANOVA: f_S = sum_{T subset S} (-1)^{|S|-|T|} E[f | x_T]; dict S -> array (size 1 outside S)"""
    N = x.ndim
    ce = {S: cond_expect(x, w, S) for S in subsets(N)}
    terms = {}
    for S in subsets(N):
        acc = 0.0
        for k in range(len(S) + 1):
            for T in itertools.combinations(S, k):
                acc = acc + (-1.0) ** (len(S) - len(T)) * ce[T]
        terms[S] = acc
    return terms


def term_variances(x, w):
    """D_S = sum_{x_S} w_S(x_S) f_S(x_S)^2 for every subset (D_empty = mean^2)"""
    terms = anova_terms(x, w)
    D = {}
    for S, f in terms.items():
        g = f * f
        for n in S:
            sh = [1] * x.ndim
            sh[n] = x.shape[n]
            g = g * w[n].reshape(sh)
        D[S] = float(np.sum(g))
    return terms, D


def total_variance(x, w):
    """Var f under the product measure, computed directly (not from the terms)"""
    p = 1.0
    for n in range(x.ndim):
        sh = [1] * x.ndim
        sh[n] = x.shape[n]
        p = p * w[n].reshape(sh)
    mean = float(np.sum(x * p))
    return float(np.sum((x - mean) ** 2 * p)), mean


def indicator(N, S):
    return tuple(1 if n in S else 0 for n in range(N))


def inner(f, g, w, shape):
    """<f, g> under the product measure (f, g broadcastable to shape)"""
    p = 1.0
    for n in range(len(shape)):
        sh = [1] * len(shape)
        sh[n] = shape[n]
        p = p * w[n].reshape(sh)
    return float(np.sum(np.broadcast_to(f, shape) * np.broadcast_to(g, shape) * p))
