"""C16 — weight automata accept exactly the strings they describe; accepted_inputs enumerates in order (oracle search on the real code)."""
import itertools, random
import numpy as np, torch
import core
from core import PT, close, safe, tn, from_tn
from props.c02 import with_dd

RULE = ("N in 1..6, alphabet sizes 2..4 (uniform int or per-position list; per-position only where the API takes a list: weight_mask, "
        "weight_one_hot); weight_mask: a single weight (int / numpy integer) or a list/tuple/ndarray of distinct weights in any order, "
        "from 0 up to max sum + 1 (incl. unreachable weights); weight: uniform alphabets; weight_one_hot: r = None or 1..max sum + 2 "
        "(overflow beyond r-1 must be dropped), read (i) from the cores with the trailing bond left open and (ii) through .torch() after "
        "appending an identity core (as anova.sobol does); accepted_inputs: non-negative integer-valued TT tensors with 1..5 modes of size "
        "1..4 built from a dense array, from non-negative integer cores, as the square of a mixed-sign integer TT, or from an automaton; "
        "optionally orthogonalised / round_tt'ed first (float cores, integer values up to 1e-13); sum of values <= 400. "
        "All compared with brute-force tables over all strings (1e-9) / np.argwhere with multiplicity (exact). Default dtype float64, "
        "and float32 for a fifth of the cases (automata values are small integers: exact in float32). "
        "distinct = (function, N, alphabet, weights | r | tensor signature, dd); non-trivial = N > 1")
TRUSTED = ["brute-force enumeration of all strings in NumPy is the oracle",
           "float64 round-off of orthogonalised cores (<= 1e-13) is far from the .round() threshold 0.5 inside accepted_inputs"]
ASSUMPTIONS = ["weights are distinct non-negative integers (a repeated weight would be counted twice by construction)",
               "accepted_inputs is called on non-negative integer-valued tensors: TT-format (dense-built, hand-built cores, squares, automata) and 0/1 hybrid tensors (CP/TT mixes, Tucker factors)"]


def sums_grid(ns):
    g = np.zeros(tuple(ns), dtype=np.int64)
    for n, I in enumerate(ns):
        sh = [1] * len(ns)
        sh[n] = I
        g = g + np.arange(I).reshape(sh)
    return g


def gen_alphabet(rng, N):
    if rng.random() < 0.5:
        a = rng.randint(2, 4)
        return a, [a] * N
    ns = [rng.randint(2, 4) for _ in range(N)]
    return ns, ns


def gen_N(rng, tier):
    return rng.choice([1, 2, 2, 3, 3, 4, 4, 5, 6] if tier != "quick" else [1, 2, 2, 3, 3, 4, 4, 5, 5, 6])


def gen_dd(rng):
    return "float32" if rng.random() < 0.2 else "float64"


def cases(rng, tier):
    n = {"quick": 600, "thorough": 5000, "search": 1500}[tier]
    out = []
    for _ in range(n):
        N = gen_N(rng, tier)
        arg, ns = gen_alphabet(rng, N)
        mx = sum(I - 1 for I in ns)
        r = rng.random()
        if r < 0.45:
            wk = rng.choice(["int", "npint"])
            W = rng.choice([0, mx, mx + 1, rng.randint(0, mx)])
        else:
            wk = rng.choice(["list", "list", "tuple", "ndarray"])
            W = rng.sample(range(0, mx + 2), rng.randint(1, min(4, mx + 2)))
        out.append({"kind": "weight_mask", "N": N, "nsymbols": arg, "weight": W, "wkind": wk, "dd": gen_dd(rng)})
    for _ in range(n // 2):
        N = gen_N(rng, tier)
        a = rng.randint(2, 4)
        out.append({"kind": "weight", "N": N, "nsymbols": a, "default_arg": a == 2 and rng.random() < 0.5, "dd": gen_dd(rng)})
    for _ in range(n):
        N = gen_N(rng, tier)
        arg, ns = gen_alphabet(rng, N)
        mx = sum(I - 1 for I in ns)
        r = None if rng.random() < 0.3 else rng.randint(1, mx + 2)
        out.append({"kind": "weight_one_hot", "N": N, "nsymbols": arg, "r": r, "dd": gen_dd(rng)})
    for _ in range(n):
        out.append(gen_accepted(rng))
    return out


def gen_accepted(rng):
    for _ in range(100):
        N = rng.choice([1, 2, 2, 3, 3, 4, 5])
        hi = 4 if N <= 3 else 3
        shape = [1 if rng.random() < 0.1 else rng.randint(2, hi) for _ in range(N)]
        src = rng.choice(["dense", "cores", "square", "automaton", "hybrid"])
        c = {"kind": "accepted_inputs", "src": src, "transform": rng.choice([None, None, "orthogonalize", "round_tt"]), "dd": gen_dd(rng)}
        if src == "dense":
            x = np.array([rng.choice([0, 0, 0, 1, 1, 2, 3]) for _ in range(int(np.prod(shape)))], dtype=np.float64).reshape(shape)
            c["x"] = x.tolist()
        elif src == "hybrid":
            # "any non-negative integer-valued tensor": 0/1 cores and factors in any format mix (CP next to TT, Tucker factors)
            from core import gen_tensor
            g = gen_tensor(rng, shape, rmax=2, stream="int")
            g = PT([np.minimum(np.abs(cc), 1.0) for cc in g.cores], [None if U is None else np.minimum(np.abs(U), 1.0) for U in g.Us])
            x = g.dense()
            c["t"] = g.to_json()
            c["transform"] = None
        elif src == "cores":
            rs = [1] + [rng.randint(1, 3) for _ in range(N - 1)] + [1]
            cs = [np.array([rng.choice([0, 0, 1, 1, 2]) for _ in range(rs[k] * shape[k] * rs[k + 1])], dtype=np.float64)
                  .reshape(rs[k], shape[k], rs[k + 1]) for k in range(N)]
            x = PT(cs).dense()
            c["t"] = PT(cs).to_json()
        elif src == "square":
            rs = [1] + [rng.randint(1, 2) for _ in range(N - 1)] + [1]
            cs = [np.array([rng.choice([-1, 0, 0, 1, 1]) for _ in range(rs[k] * shape[k] * rs[k + 1])], dtype=np.float64)
                  .reshape(rs[k], shape[k], rs[k + 1]) for k in range(N)]
            # cores of a*a: Kronecker product of each core with itself (values = squares: non-negative integers)
            cs2 = [np.einsum("aib,cid->acibd", g, g).reshape(g.shape[0] ** 2, g.shape[1], g.shape[2] ** 2) for g in cs]
            x = PT(cs2).dense()
            c["t"] = PT(cs2).to_json()
        else:
            a = rng.randint(2, 3)
            mx = N * (a - 1)
            if rng.random() < 0.4:
                c["auto"] = ["weight", N, a]
                x = sums_grid([a] * N).astype(np.float64)
            else:
                W = rng.sample(range(0, mx + 1), rng.randint(1, min(3, mx + 1)))
                c["auto"] = ["weight_mask", N, a, W]
                x = np.isin(sums_grid([a] * N), W).astype(np.float64)
        if np.min(x) >= 0 and np.sum(x) <= 400:
            return c
    raise RuntimeError("generator")


def mk_weight(W, wk):
    if wk == "int":
        return int(W)
    if wk == "npint":
        return np.int64(W)
    if wk == "list":
        return list(W)
    if wk == "tuple":
        return tuple(W)
    return np.array(W, dtype=np.int64)


def alph(arg, N):
    return list(arg) if isinstance(arg, list) else [arg] * N


def in_class(case):
    s = "alphabet %s" % ("per-position list" if isinstance(case.get("nsymbols"), list) else "uniform")
    if case["dd"] == "float32":
        s += ", default dtype float32"
    return s


def check_is_tt(ctx, case, what, t, ns, cls):
    if not isinstance(t, tn.Tensor):
        ctx.oracle("%s returned %s" % (what, type(t).__name__), case, cls=cls)
        return False
    if tuple(t.shape) != tuple(ns):
        ctx.oracle("%s has shape %s, expected %s" % (what, tuple(t.shape), tuple(ns)), case, cls=cls)
        return False
    return True


def run_case(ctx, case):
    kind, dd = case["kind"], case["dd"]
    ctx.count("kind:" + kind); ctx.count("dd:" + dd)

    def call(name, fn, cls):
        r = with_dd(dd, lambda: safe(fn))
        if r[0] == "err":
            ctx.count("impl_raise:%s:%s" % (name, r[1]))
            ctx.oracle("%s raised %s: %s" % (name, r[1], r[2]), case, cls=dict(cls, predicate=cls["predicate"] + " (raises %s)" % r[1]))
            return None
        return r[1]

    if kind == "weight_mask":
        N, arg = case["N"], case["nsymbols"]
        ns = alph(arg, N)
        W = mk_weight(case["weight"], case["wkind"])
        S = sums_grid(ns)
        exp = np.isin(S, np.atleast_1d(np.asarray(case["weight"]))).astype(np.float64)
        cls = {"op": "weight_mask", "predicate": in_class(case) + ", weight given as " + ("a single integer" if case["wkind"] in ("int", "npint") else "a collection")}
        ctx.case((kind, N, repr(arg), repr(case["weight"]), case["wkind"], dd), N > 1,
                 {"op": kind, "N": N, "nsymbols": arg, "weight": case["weight"], "weight_kind": case["wkind"], "default_dtype": dd})
        ctx.count("N:%d" % N); ctx.count("alphabet:" + ("list" if isinstance(arg, list) else "int")); ctx.count("wkind:" + case["wkind"])
        use_default = arg == 2
        t = call("weight_mask", (lambda: tn.weight_mask(N, W)) if use_default else (lambda: tn.weight_mask(N, W, arg)), cls)
        if t is None or not check_is_tt(ctx, case, "weight_mask", t, ns, cls):
            return
        d = call("weight_mask(...).torch()", lambda: t.torch().detach().double().numpy(), cls)
        if d is None:
            return
        ok, err = close(d, exp, rtol=1e-9)
        if not ok:
            ctx.count("oracle_mismatch")
            ctx.oracle("weight_mask(N=%d, weight=%r, nsymbols=%r) does not accept exactly the strings of the requested weights (%s)"
                       % (N, case["weight"], arg, err), case, cls=cls)
        s = call("sum(weight_mask)", lambda: float(tn.sum(t)), cls)
        if s is not None and not close(s, float(exp.sum()), rtol=1e-9)[0]:
            ctx.oracle("sum of weight_mask = %r, number of accepted strings = %d" % (s, int(exp.sum())), case, cls=dict(cls, op="sum(weight_mask)"))
        model_hook(ctx, case, t)
        return

    if kind == "weight":
        N, a = case["N"], case["nsymbols"]
        ns = [a] * N
        cls = {"op": "weight", "predicate": in_class(case)}
        ctx.case((kind, N, a, dd), N > 1, {"op": kind, "N": N, "nsymbols": a, "default_dtype": dd})
        ctx.count("N:%d" % N)
        t = call("weight", (lambda: tn.weight(N)) if case.get("default_arg") else (lambda: tn.weight(N, a)), cls)
        if t is None or not check_is_tt(ctx, case, "weight", t, ns, cls):
            return
        d = call("weight(...).torch()", lambda: t.torch().detach().double().numpy(), cls)
        if d is None:
            return
        ok, err = close(d, sums_grid(ns).astype(np.float64), rtol=1e-9)
        if not ok:
            ctx.count("oracle_mismatch")
            ctx.oracle("weight(N=%d, nsymbols=%d) is not the sum of the symbol values (%s)" % (N, a, err), case, cls=cls)
        model_hook(ctx, case, t)
        return

    if kind == "weight_one_hot":
        N, arg, r = case["N"], case["nsymbols"], case["r"]
        ns = alph(arg, N)
        rr = N + 1 if r is None else r
        cls = {"op": "weight_one_hot", "predicate": in_class(case) + (", r given" if r is not None else ", r default")}
        ctx.case((kind, N, repr(arg), r, dd), N > 1, {"op": kind, "N": N, "nsymbols": arg, "r": r, "default_dtype": dd})
        ctx.count("N:%d" % N); ctx.count("alphabet:" + ("list" if isinstance(arg, list) else "int"))
        if arg == 2 and r is None:
            fn = lambda: tn.weight_one_hot(N)
        elif arg == 2:
            fn = lambda: tn.weight_one_hot(N, r)
        else:
            fn = lambda: tn.weight_one_hot(N, r, arg)
        t = call("weight_one_hot", fn, cls)
        if t is None:
            return
        if not isinstance(t, tn.Tensor) or len(t.cores) != N or any(c.dim() != 3 for c in t.cores):
            ctx.oracle("weight_one_hot did not return an N-core TT tensor", case, cls=cls)
            return
        S = sums_grid(ns)
        exp = np.zeros(tuple(ns) + (rr,), dtype=np.float64)
        for k in range(rr):
            exp[..., k] = (S == k)
        cs = [c.detach().double().numpy() for c in t.cores]
        if cs[0].shape[0] != 1 or cs[-1].shape[2] != rr or tuple(c.shape[1] for c in cs) != tuple(ns):
            ctx.oracle("weight_one_hot cores have shapes %s: expected leading bond 1, sizes %s, trailing bond %d"
                       % ([c.shape for c in cs], ns, rr), case, cls=cls)
            return
        acc = cs[0][0]
        for c in cs[1:]:
            acc = np.einsum("...a,aib->...ib", acc, c)
        ok, err = close(acc, exp, rtol=1e-9)
        if not ok:
            ctx.count("oracle_mismatch")
            ctx.oracle("weight_one_hot(N=%d, r=%r, nsymbols=%r): the open trailing bond is not the one-hot encoding of the sum (%s)"
                       % (N, r, arg, err), case, cls=cls)
        # the way anova.sobol observes it: append an identity core, decompress

        def via_identity():
            t2 = tn.Tensor([c.clone() for c in t.cores] + [torch.eye(rr, dtype=t.cores[-1].dtype)[:, :, None]])
            return t2.torch().detach().double().numpy()

        d = call("Tensor(cores + [identity]).torch()", via_identity, dict(cls, op="weight_one_hot + identity core"))
        if d is not None:
            ok, err = close(d, exp, rtol=1e-9)
            if not ok:
                ctx.count("oracle_mismatch")
                ctx.oracle("weight_one_hot read through an appended identity core differs from the one-hot table (%s)" % (err,), case,
                           cls=dict(cls, op="weight_one_hot + identity core"))
        model_hook(ctx, case, t)
        return

    # accepted_inputs
    def mk():
        if case["src"] == "dense":
            t = tn.Tensor(torch.tensor(np.array(case["x"], dtype=np.float64)))
        elif case["src"] == "automaton":
            a = case["auto"]
            t = tn.weight(a[1], a[2]) if a[0] == "weight" else tn.weight_mask(a[1], a[3], a[2])
        else:
            t = PT.from_json(case["t"]).to_tn()
        if case["transform"] == "orthogonalize":
            t.orthogonalize(t.dim() // 2)
        elif case["transform"] == "round_tt":
            t.round_tt()
        return t

    if case["src"] == "dense":
        x = np.array(case["x"], dtype=np.float64)
    elif case["src"] == "automaton":
        a = case["auto"]
        x = sums_grid([a[2]] * a[1]).astype(np.float64) if a[0] == "weight" else np.isin(sums_grid([a[2]] * a[1]), a[3]).astype(np.float64)
    else:
        x = PT.from_json(case["t"]).dense()
    N = x.ndim
    cls = {"op": "accepted_inputs", "predicate": "tensor from %s%s%s" % (
        case["src"], (", after %s" % case["transform"]) if case["transform"] else "", ", default dtype float32" if dd == "float32" else "")}
    res = with_dd(dd, lambda: safe(mk))
    if res[0] == "err":
        ctx.count("setup_raise:" + res[1])   # building the operand is other properties' business (C01/C04/C13)
        return
    t = res[1]
    pt = from_tn(t)
    ctx.case((kind, case["src"], case["transform"], pt.sig(), dd), N > 1,
             {"op": kind, "source": case["src"], "transform": case["transform"], "t": pt.describe(), "total": float(x.sum()), "default_dtype": dd})
    ctx.count("src:" + case["src"]); ctx.count("transform:%s" % case["transform"]); ctx.count("N:%d" % N)
    # the operand must really hold the integer values (it was produced by tntorch routines when transformed)
    if not close(pt.dense(), x, rtol=1e-9 if t.cores[0].dtype == torch.float64 else 1e-5)[0]:
        ctx.count("operand_unusable")
        return
    xi = np.rint(x).astype(np.int64)
    exp = np.array([idx for idx in itertools.product(*[range(I) for I in x.shape]) for _ in range(int(xi[idx]))], dtype=np.int64).reshape(-1, N)
    X = call("accepted_inputs", lambda: tn.accepted_inputs(t), cls)
    if X is None:
        return
    if not isinstance(X, torch.Tensor) or X.dim() != 2:
        ctx.oracle("accepted_inputs returned %s" % (type(X).__name__,), case, cls=cls)
        return
    Xn = X.detach().cpu().numpy()
    if Xn.shape != exp.shape:
        ctx.count("oracle_mismatch")
        ctx.oracle("accepted_inputs returned %d rows x %d columns, expected %d x %d (sum of values)" % (Xn.shape + exp.shape), case,
                   cls=dict(cls, op="accepted_inputs (row count)"))
        return
    if not np.array_equal(Xn.astype(np.int64), exp):
        ctx.count("oracle_mismatch")
        same_set = sorted(map(tuple, Xn.tolist())) == sorted(map(tuple, exp.tolist()))
        ctx.oracle("accepted_inputs rows differ from np.argwhere with multiplicity (%s)" % ("same multiset, wrong order" if same_set else "different multiset"),
                   case, cls=dict(cls, op="accepted_inputs (%s)" % ("order" if same_set else "rows")))
    if X.dtype != torch.long:
        ctx.oracle("accepted_inputs returns dtype %s, not integer indices" % X.dtype, case, cls=dict(cls, op="accepted_inputs (dtype)"))
    # model side (Model/Accepted.lean; theorems C16.accepted_inputs_spec_any / accepted_inputs_arr_spec / accepted_inputs_arr_refines): the
    # compiled array-level model (the exact sequence of writes into Xs) and the list-level model on the implementation's own cores
    if getattr(ctx, "use_model", False) and not getattr(ctx, "search_only", False) and x.size <= 400 and x.sum() <= 300:
        for cmd in ("accepted_arr", "accepted"):
            a = ctx.drv().call(cmd + " " + pt.ser())
            ctx.count("model:" + cmd)
            if a[0] == "err" and a[1] == "negative" and case["transform"]:
                ctx.count("model:%s skipped (round-off below zero after %s)" % (cmd, case["transform"])); continue
            rows = None
            if a[0] == "ok" and a[1] == "R":
                nr, nc = int(a[2]), int(a[3])
                rows = np.array([int(v) for v in a[4:4 + nr * nc]], dtype=np.int64).reshape(nr, nc)
            if rows is None or rows.shape != Xn.shape or not np.array_equal(rows, Xn.astype(np.int64)):
                ctx.corr("accepted_inputs: implementation rows differ from the model's (%s): model %s" % (cmd, a[:10]), case)
                break
    model_hook(ctx, case, t)


def model_hook(ctx, case, t):
    """MODEL HOOK (main session): the produced cores are core.from_tn(t); compare with the Lean model's cores structurally."""
    if getattr(ctx, "use_model", False) and not getattr(ctx, "search_only", False):
        pass


# =============================================================================== correspondence with the Lean model (main session)
def _corr_cases(rng, tier):
    n = {"quick": 120, "thorough": 1500, "search": 0}[tier]
    out = []
    for _ in range(n):
        N = rng.randint(1, 6)
        op = rng.choice(["weight_mask", "weight_one_hot", "weight"])
        c = {"kind": "corr", "op": op, "N": N}
        if op == "weight":
            c["ns"] = rng.randint(2, 4)
        else:
            c["nss"] = [rng.randint(2, 4) for _ in range(N)] if rng.random() < 0.5 else [rng.randint(2, 4)] * N
        if op == "weight_mask":
            mx = sum(s - 1 for s in c["nss"])
            k = rng.randint(1, 3)
            c["W"] = sorted(rng.sample(range(0, mx + 2), min(k, mx + 2)))
        if op == "weight_one_hot":
            c["r"] = rng.randint(1, sum(s - 1 for s in c["nss"]) + 2)
        out.append(c)
    return out


_orig_cases = cases
_orig_run_case = run_case


def cases(rng, tier):  # noqa: F811
    return _orig_cases(rng, tier) + _corr_cases(rng, tier)


def run_case(ctx, case):  # noqa: F811
    if case.get("kind") != "corr":
        return _orig_run_case(ctx, case)
    from core import parse_tensor, cmp_struct, from_tn, safe
    op, N = case["op"], case["N"]
    ctx.case(("corr", op, N, tuple(case.get("nss", [])), tuple(case.get("W", [])), case.get("r"), case.get("ns")), True,
             {"op": "model correspondence: " + op, **{k: v for k, v in case.items() if k not in ("kind", "op")}})
    ctx.count("corr:" + op)
    if not (getattr(ctx, "use_model", False) and not getattr(ctx, "search_only", False)):
        return
    if op == "weight_mask":
        r = safe(lambda: tn.automata.weight_mask(N, case["W"], case["nss"]))
        line = "weight_mask %d %s %d %d %s" % (len(case["W"]), " ".join(map(str, case["W"])), max(case["W"]) + 1, N, " ".join(map(str, case["nss"])))
    elif op == "weight_one_hot":
        r = safe(lambda: tn.automata.weight_one_hot(N, case["r"], case["nss"]))
        line = "weight_one_hot %d %d %s" % (case["r"], N, " ".join(map(str, case["nss"])))
    else:
        r = safe(lambda: tn.automata.weight(N, case["ns"]))
        line = "weight %d %d" % (case["ns"], N)
    if r[0] == "err":
        ctx.oracle("%s raised %s: %s" % (op, r[1], r[2]), case); return
    toks = ctx.drv().call(line)
    if toks[0] != "ok":
        ctx.corr("model %s failed: %s" % (op, " ".join(toks[:4])), case); return
    m = parse_tensor(toks, 1)[0]
    d = cmp_struct(from_tn(r[1]), m, True)
    if d is not None:
        ctx.corr("%s: implementation cores differ from model cores: %s" % (op, d), case)
