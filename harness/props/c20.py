"""C20 — finite-difference calculus on compressed tensors matches the dense stencil (oracle search on the real code)."""
import itertools, random
import numpy as np, torch
import core
from core import PT, gen_tensor, gen_format, tn
from props._b_common import Judge, to_np, cmp, absdense, pick_dd, count_formats

RULE = ("cases from one PRNG(seed): kind in partial|linear|const|affine|gradient|divergence|curl|laplacian|partialset; tensors are "
        "WFstd hybrids (per mode TT|CP x factor none|narrow|square|wide, ranks 1..3) with 1..4 modes of sizes 3..5, sizes drawn "
        "independently per mode (so modes differ in size), int or Gaussian stream; 15% under a float32 default dtype. partial: dim int | "
        "[d] | list of 2 distinct modes in any order, order 1..3, bounds default | explicit (a pair for one mode, a list of pairs aligned "
        "with the dim list, different per mode), periodic False|True|list. Oracle: dense central difference along mode d with linearly "
        "extrapolated (or periodic) boundary divided by 2h, h = (b1-b0)/(I_d+1) from THAT mode's bounds and size (default bounds "
        "[0, I_d]) — the step formula of derivatives.py:96, applied per mode. Laws: linearity of partial, annihilation of tensors "
        "constant along the mode, affine -> constant (and order 2 -> 0). gradient (dim 'all'|list|int), divergence, curl (3 modes), "
        "laplacian vs the combinations of dense stencils, bounds None | one pair | per-mode pairs. partialset: order int|list (max 3), "
        "mask None or a 0/1 tensor over {0,1}^N, bounds None|per-mode: every block (o_1..o_N) of the result equals the iterated "
        "forward difference D^o/h^|o| (h = (b1-b0)/(I-1), default 1) if |o| is a requested order and the mask selects "
        "(o_n>0)_n, and is 0 otherwise. Tolerance 1e-9 scaled max-norm with scale >= 1e-4 x (2/h)^order x sum of |terms|. "
        "distinct = (kind, format signature, shape, ranks, parameters); non-trivial = >1 mode or rank>1 or a factor")
TRUSTED = ["NumPy stencils on an independent decompression (core.PT.dense)", "float64 rounding (1e-9 scaled)"]
ASSUMPTIONS = ["inputs are WFstd tensors with every mode size >= 3",
               "explicit bounds are aligned with the dim list (a pair for a single mode), as gradient/divergence/curl/laplacian pass them",
               "the step convention h = (b1-b0)/(I+1) of partial and h = (b1-b0)/(I-1) of partialset are taken from the source; only "
               "their per-mode use is checked",
               "partialset masks are 0/1 tensors of shape [2]^N (as produced by tn.symbols and the logic operators)"]

KINDS = {"partial": 800, "linear": 120, "const": 120, "affine": 140, "gradient": 200, "divergence": 140, "curl": 100, "laplacian": 140,
         "partialset": 220}


RAISE, VALUE, STEP = {"raise"}, {"value", "law"}, {"step"}

# convention for the step of the k-th repeated forward difference in partialset:
#   "grid"   : every difference along mode n is divided by the grid step h_n = (b1-b0)/(I_n-1)  (docstring: default steps are 1)
#   "source" : what derivatives.py:45 does: the k-th difference is divided by (b1-b0)/(I_n-k)   (size of the already shortened array)
PARTIALSET_STEP = "grid"


# ----------------------------------------------------------------------------------------------- generation
def _stream(rng):
    return "int" if rng.random() < 0.6 else "float"


def _shape(rng, N, small=True):
    """mode sizes 3..5; with `small`, now and then a mode of size 1 or 2 (a size-1 mode is constant along itself: its derivative is 0)"""
    hi = 5 if N <= 3 else 4
    return [rng.randint(1, 2) if (small and rng.random() < 0.12) else rng.randint(3, hi) for _ in range(N)]


def _bounds(rng):
    a = rng.choice([0, 0, -1, 1, -2.5, 0.5])
    return [a, a + rng.choice([1, 2, 3, 0.5, 4.5])]


def _fmt(rng, N, dims, p_safe=0.6):
    """format; with probability p_safe the differentiated modes are not bare CP cores (so that other failure classes stay reachable)"""
    fmt = gen_format(rng, N)
    if rng.random() < p_safe:
        for d in dims:
            if fmt[d] == ("cp", None):
                fmt[d] = rng.choice([("tt", None), ("cp", "square"), ("tt", "narrow"), ("cp", "wide")])
    return fmt


def cases(rng, tier):
    mult = {"quick": 1, "thorough": 15, "search": 5}[tier]
    out = []
    for kind, n in KINDS.items():
        for _ in range(n * mult):
            out.append(gen_case(rng, kind))
    rng.shuffle(out)
    return out


def _structured(rng, t, d, mode, stream):
    """make t constant / affine along mode d (on the factor if there is one, else on the core)"""
    cores = [c.copy() for c in t.cores]; Us = [None if U is None else U.copy() for U in t.Us]
    if Us[d] is not None:
        I, s = Us[d].shape
        A = core.rnd_entries(rng, (s,), stream); B = core.rnd_entries(rng, (s,), stream) if mode == "affine" else np.zeros(s)
        for i in range(I):
            Us[d][i, :] = A + i * B
    else:
        c = cores[d]
        I = c.shape[-2]
        sh = c.shape[:-2] + c.shape[-1:]
        A = core.rnd_entries(rng, sh, stream); B = core.rnd_entries(rng, sh, stream) if mode == "affine" else np.zeros(sh)
        for i in range(I):
            c[..., i, :] = A + i * B
    return PT(cores, Us)


def gen_case(rng, kind):
    stream = _stream(rng)
    c = {"kind": kind, "stream": stream, "dd": pick_dd(rng), "seed": rng.randrange(1 << 30)}
    N = rng.randint(1, 4)
    if kind in ("partial", "linear"):
        shape = _shape(rng, N)
        r = rng.random()
        if r < 0.65 or N == 1:
            dims = [rng.randrange(N)]
            c["dimform"] = "int" if rng.random() < 0.7 else "list"
        else:
            dims = rng.sample(range(N), 2)
            c["dimform"] = "list"
        c["dims"] = dims
        c["order"] = rng.choice([1, 1, 2, 3])
        if rng.random() < 0.5:
            c["bounds"] = None
        else:
            bl = [_bounds(rng) for _ in dims]
            c["bounds"] = bl[0] if (len(dims) == 1 and rng.random() < 0.7) else bl
        r = rng.random()
        c["periodic"] = False if r < 0.5 else (True if r < 0.8 else [rng.random() < 0.5 for _ in dims])
        fmt = _fmt(rng, N, dims)
        c["t"] = gen_tensor(rng, shape, fmt=fmt, stream=stream).to_json()
        if kind == "linear":
            c["u"] = gen_tensor(rng, shape, fmt=_fmt(rng, N, dims), stream=stream).to_json()
            c["ab"] = [rng.choice([2, -1, 3, 0.5]), rng.choice([1, -2, 4, -0.25])]
    elif kind in ("const", "affine"):
        shape = _shape(rng, N, small=False)
        d = rng.randrange(N)
        fmt = _fmt(rng, N, [d])
        t = gen_tensor(rng, shape, fmt=fmt, stream=stream)
        c["t"] = _structured(rng, t, d, kind, stream).to_json()
        c["d"] = d
        c["order"] = rng.choice([1, 2, 3]) if kind == "const" else rng.choice([1, 1, 2])
        c["periodic"] = (rng.random() < 0.4) if kind == "const" else False
        c["bounds"] = None if rng.random() < 0.5 else _bounds(rng)
    elif kind == "gradient":
        shape = _shape(rng, N)
        r = rng.random()
        if r < 0.35:
            c["dimform"] = "all"; dims = list(range(N))
        elif r < 0.75:
            c["dimform"] = "list"; dims = rng.sample(range(N), rng.randint(1, N))
        else:
            c["dimform"] = "int"; dims = [rng.randrange(N)]
        c["dims"] = dims
        if rng.random() < 0.5:
            c["bounds"] = None
        else:
            bl = [_bounds(rng) for _ in dims]
            c["bounds"] = bl[0] if c["dimform"] == "int" else bl
        c["t"] = gen_tensor(rng, shape, fmt=_fmt(rng, N, dims), stream=stream).to_json()
    elif kind in ("divergence", "curl"):
        N = 3 if kind == "curl" else rng.randint(1, 3)
        shape = _shape(rng, N)
        c["ts"] = [gen_tensor(rng, shape, fmt=_fmt(rng, N, range(N), 0.7), rmax=2, stream=stream).to_json() for _ in range(N)]
        r = rng.random()
        c["bounds"] = None if r < 0.45 else (_bounds(rng) if r < 0.6 else [_bounds(rng) for _ in range(N)])
    elif kind == "laplacian":
        shape = _shape(rng, N)
        c["t"] = gen_tensor(rng, shape, fmt=_fmt(rng, N, range(N), 0.7), stream=stream).to_json()
        r = rng.random()
        c["bounds"] = None if r < 0.45 else (_bounds(rng) if r < 0.6 else [_bounds(rng) for _ in range(N)])
    elif kind == "partialset":
        N = rng.randint(1, 3)
        shape = [rng.randint(3, 5) for _ in range(N)]
        if rng.random() < 0.35:
            shape = [rng.randint(4, 5) for _ in range(N)]
        maxo = 3 if min(shape) >= 4 and rng.random() < 0.6 else 2
        r = rng.random()
        if r < 0.35:
            order = rng.randint(1, maxo)
        elif r < 0.55 and maxo == 3:
            order = rng.choice([[1, 3], [3, 1], [1, 3], [3], [2, 3]])        # non-contiguous / unsorted selections of orders
        else:
            order = sorted(rng.sample(range(1, maxo + 1), rng.randint(1, maxo)))
            if rng.random() < 0.2:
                order = order[::-1]
        c["order"] = order
        fmt = gen_format(rng, N)
        if rng.random() < 0.6:      # formats the routine is written for (TT cores), so that value classes stay reachable
            fmt = [("tt", f) for _, f in fmt]
        c["t"] = gen_tensor(rng, shape, fmt=fmt, stream=stream).to_json()
        if rng.random() < 0.5:
            c["mask"] = None
        else:
            M = [[rng.choice([0, 1, 1]) for _ in range(2 ** N)]]
            if not any(M[0]):
                M[0][-1] = 1
            c["mask"] = M[0]
        c["bounds"] = None if rng.random() < 0.55 else [_bounds(rng) for _ in range(N)]
    else:
        raise KeyError(kind)
    return c


# ----------------------------------------------------------------------------------------------- oracle
def step_of(b, I):
    return (b[1] - b[0]) / (I + 1)


def stencil(x, d, order, h, periodic):
    """central difference along axis d, iterated `order` times; boundary: linear extrapolation or wrap-around"""
    I = x.shape[d]
    for _ in range(order):
        if periodic:
            x = (np.roll(x, -1, axis=d) - np.roll(x, 1, axis=d)) / (2 * h)
        elif I == 1:
            x = np.zeros_like(x)             # a single point: constant along the mode, annihilated
        else:
            lo = 2 * np.take(x, [0], axis=d) - np.take(x, [1], axis=d)
            hi = 2 * np.take(x, [I - 1], axis=d) - np.take(x, [I - 2], axis=d)
            p = np.concatenate([lo, x, hi], axis=d)
            x = (np.take(p, range(2, I + 2), axis=d) - np.take(p, range(0, I), axis=d)) / (2 * h)
    return x


def partial_expected(x, dims, order, bounds, periodic, conv="own"):
    """bounds: None | pair | list of pairs aligned with dims; periodic: bool | list aligned with dims.
    conv="own": default bounds of mode d are [0, I_d] (the property); conv="source": what derivatives.py:88-96 does with default
    bounds, i.e. the i-th entry of the dim list takes the extent of mode i (used only to recognise that defect in a mismatch)"""
    if bounds is None:
        bl = [[0, x.shape[d if conv == "own" else i]] for i, d in enumerate(dims)]
    elif not isinstance(bounds[0], list):
        bl = [bounds]
    else:
        bl = bounds
    pl = periodic if isinstance(periodic, list) else [periodic] * len(dims)
    amp = 1.0
    for d, b, p in zip(dims, bl, pl):
        h = step_of(b, x.shape[d])
        x = stencil(x, d, order, h, p)
        amp *= (2.0 / abs(h)) ** order
    return x, amp


def bare_cp(t, dims):
    return any(t.cores[d].ndim == 2 and t.Us[d] is None for d in dims)


STEP_NOTE = " — the result equals the stencil divided by the step of ANOTHER mode (default bounds indexed by position, not by mode)"


def tensor_verify(exp, floor, exp_src=None):
    """exp_src: what the source's mis-indexed default step would give; a result equal to it is reported with kind 'step'"""
    def verify(r):
        if not isinstance(r, tn.Tensor):
            return "shape: returned %s, not a Tensor" % type(r).__name__
        if tuple(r.shape) != tuple(exp.shape):
            return "shape %s, expected %s" % (tuple(r.shape), tuple(exp.shape))
        g = to_np(r)
        m = cmp(g, exp, 1e-9, floor)
        if m is not None and exp_src is not None and cmp(g, exp_src, 1e-9, floor) is None:
            return "<<step>> " + m + STEP_NOTE
        return m
    return verify


def _kinded(m, prefix):
    """prepend a component label to a verifier message, keeping its kind marker in front"""
    if m.startswith("<<"):
        k = m.index(">>") + 2
        return m[:k] + " " + prefix + m[k:].strip()
    if m.startswith("shape"):
        return "shape: " + prefix + m
    return prefix + m


# ----------------------------------------------------------------------------------------------- run
def run_case(ctx, case):
    kind = case["kind"]
    J = Judge(ctx, case)
    ctx.count("kind:" + kind); ctx.count("dd:" + case["dd"]); ctx.count("stream:" + case["stream"])
    globals()["run_" + kind](ctx, case, J)


def _partial_call(t, case):
    dims = case["dims"]
    arg = dims[0] if case["dimform"] == "int" else list(dims)
    kw = {}
    if case["order"] != 1 or case["seed"] % 2:
        kw["order"] = case["order"]
    if case["bounds"] is not None:
        kw["bounds"] = case["bounds"]
    if case["periodic"] is not False or case["seed"] % 3 == 0:
        kw["periodic"] = case["periodic"]
    return tn.partial(t, arg, **kw)


def _partial_feats(t, dims, bounds):
    shape = t.shape
    return [("a differentiated mode is a CP core without Tucker factor", bare_cp(t, dims), RAISE),
            ("default bounds and a mode d at position i of the dim list with shape[d] != shape[i]",
             bounds is None and any(shape[d] != shape[i] for i, d in enumerate(dims)), STEP),
            ("list of two modes", len(dims) > 1)]


def _descr(case):
    return "dim=%s, order=%s, bounds=%s, periodic=%s" % (case["dims"][0] if case["dimform"] == "int" else case["dims"], case["order"],
                                                       case["bounds"], case["periodic"])


def run_partial(ctx, case, J):
    t = PT.from_json(case["t"])
    x = t.dense()
    dims = case["dims"]
    exp, amp = partial_expected(x, dims, case["order"], case["bounds"], case["periodic"])
    ctx.case(("partial", t.sig(), tuple(dims), case["dimform"], case["order"], repr(case["bounds"]), repr(case["periodic"])), t.nontrivial(),
             {"op": "partial", "t": t.describe(), "dim": dims, "order": case["order"], "bounds": case["bounds"], "periodic": case["periodic"]})
    count_formats(ctx, t)
    ctx.count("partial:order=%d" % case["order"]); ctx.count("partial:bounds=" + ("default" if case["bounds"] is None else "explicit"))
    ctx.count("partial:periodic=" + repr(case["periodic"] if not isinstance(case["periodic"], list) else "list"))
    ctx.count("partial:dims=%d" % len(dims))
    for d in dims:
        ctx.count("partial:on " + t.kinds()[d])
    floor = 1e-4 * amp * float(np.max(absdense(t)))
    exp_src = partial_expected(x, dims, case["order"], case["bounds"], case["periodic"], "source")[0]
    J.check("partial", "partial(t %s, %s)" % (list(t.shape), _descr(case)), lambda: _partial_call(t.to_tn(), case),
            tensor_verify(exp, floor, exp_src), _partial_feats(t, dims, case["bounds"]))


def run_linear(ctx, case, J):
    t, u = PT.from_json(case["t"]), PT.from_json(case["u"])
    a, b = case["ab"]
    dims = case["dims"]
    ctx.case(("linear", t.sig(), u.sig(), tuple(dims), case["order"]), True,
             {"op": "partial(a t + b u) = a partial(t) + b partial(u)", "t": t.describe(), "u": u.describe(), "a": a, "b": b, "dim": dims})
    count_formats(ctx, t, u)
    _, amp = partial_expected(t.dense(), dims, case["order"], case["bounds"], case["periodic"])
    floor = 1e-4 * amp * (abs(a) * float(np.max(absdense(t))) + abs(b) * float(np.max(absdense(u))))

    def thunk():
        tt, tu = t.to_tn(), u.to_tn()
        comb = a * tt + b * tu
        return [to_np(_partial_call(comb, case)), to_np(_partial_call(tt, case)), to_np(_partial_call(tu, case))]

    def verify(r):
        m = cmp(r[0], a * r[1] + b * r[2], 1e-9, floor)
        return None if m is None else "law: partial(a t + b u) != a partial(t) + b partial(u): " + m

    feats = [("a differentiated mode is a CP core without Tucker factor", bare_cp(t, dims) or bare_cp(u, dims), RAISE)]
    J.check("partial", "linearity of partial(%s) on t,u %s, a=%s, b=%s" % (_descr(case), list(t.shape), a, b), thunk, verify, feats)


def run_const(ctx, case, J):
    t = PT.from_json(case["t"])
    d = case["d"]
    x = t.dense()
    ctx.case(("const", t.sig(), d, case["order"], case["periodic"]), t.nontrivial(),
             {"op": "partial of a tensor constant along the mode", "t": t.describe(), "dim": d, "order": case["order"], "periodic": case["periodic"]})
    count_formats(ctx, t)
    assert np.max(np.abs(x - np.take(x, [0], axis=d))) <= 1e-9 * max(1.0, float(np.max(np.abs(x))))
    b = case["bounds"]
    h = step_of(b if b is not None else [0, x.shape[d]], x.shape[d])
    floor = 1e-4 * (2 / abs(h)) ** case["order"] * float(np.max(absdense(t)))
    kw = {} if b is None else {"bounds": b}

    def verify(r):
        m = tensor_verify(np.zeros(x.shape), floor)(r)
        return None if m is None else (m if m.startswith("shape") else "law: tensor constant along mode %d is not annihilated: %s" % (d, m))

    J.check("partial", "partial(t %s constant along %d, dim=%d, order=%d, periodic=%s, bounds=%s)" % (list(t.shape), d, d, case["order"], case["periodic"], b),
            lambda: tn.partial(t.to_tn(), d, order=case["order"], periodic=case["periodic"], **kw), verify,
            [("a differentiated mode is a CP core without Tucker factor", bare_cp(t, [d]), RAISE)])


def run_affine(ctx, case, J):
    t = PT.from_json(case["t"])
    d = case["d"]
    x = t.dense()
    order = case["order"]
    b = case["bounds"]
    ctx.case(("affine", t.sig(), d, order, repr(b)), t.nontrivial(),
             {"op": "partial of a tensor affine along the mode", "t": t.describe(), "dim": d, "order": order, "bounds": b})
    count_formats(ctx, t)
    exp, amp = partial_expected(x, [d], order, b, False)
    floor = 1e-4 * amp * float(np.max(absdense(t)))
    kw = {} if b is None else {"bounds": b}

    exp_src = partial_expected(x, [d], order, b, False, "source")[0]

    def verify(r):
        m = tensor_verify(exp, floor, exp_src)(r)
        g = to_np(r) if isinstance(r, tn.Tensor) else None
        if g is not None and g.shape == x.shape:
            m2 = cmp(g, np.broadcast_to(np.take(g, [0], axis=d), g.shape), 1e-9, floor)
            if m2 is not None:
                return "law: the derivative of a tensor affine along mode %d is not constant along it: %s" % (d, m2)
            if order >= 2 and cmp(g, np.zeros(g.shape), 1e-9, floor) is not None:
                return "law: order-%d derivative of a tensor affine along mode %d is not 0" % (order, d)
        return m

    feats = [("a differentiated mode is a CP core without Tucker factor", bare_cp(t, [d]), RAISE),
             ("default bounds and a mode d at position i of the dim list with shape[d] != shape[i]", b is None and t.shape[d] != t.shape[0], STEP)]
    J.check("partial", "partial(t %s affine along %d, dim=%d, order=%d, bounds=%s)" % (list(t.shape), d, d, order, b),
            lambda: tn.partial(t.to_tn(), d, order=order, **kw), verify, feats)


def _per_mode_bounds(bounds, N, shape):
    """bounds argument of divergence/curl/laplacian -> list of pairs per mode (None -> that mode's default)"""
    if bounds is None:
        return [[0, shape[n]] for n in range(N)]
    if not isinstance(bounds[0], list):
        return [bounds] * N
    return bounds


def _src_bounds(bounds, N, shape):
    """what the source does for divergence/curl/laplacian with default bounds: every mode takes mode 0's extent"""
    return [[0, shape[0]] for _ in range(N)] if bounds is None else _per_mode_bounds(bounds, N, shape)


def run_gradient(ctx, case, J):
    t = PT.from_json(case["t"])
    x = t.dense()
    dims, form, bounds = case["dims"], case["dimform"], case["bounds"]
    ctx.case(("gradient", t.sig(), form, tuple(dims), repr(bounds)), t.nontrivial(),
             {"op": "gradient", "t": t.describe(), "dim": "all" if form == "all" else (dims[0] if form == "int" else dims), "bounds": bounds})
    count_formats(ctx, t); ctx.count("gradient:dim=" + form); ctx.count("gradient:bounds=" + ("default" if bounds is None else "explicit"))
    bl = [[0, x.shape[d]] for d in dims] if bounds is None else ([bounds] if form == "int" else bounds)
    exps = [stencil(x, d, 1, step_of(b, x.shape[d]), False) for d, b in zip(dims, bl)]
    floors = [1e-4 * (2 / abs(step_of(b, x.shape[d]))) * float(np.max(absdense(t))) for d, b in zip(dims, bl)]

    def thunk():
        kw = {} if bounds is None else {"bounds": bounds}
        if form == "all":
            return tn.gradient(t.to_tn(), **kw) if case["seed"] % 2 else tn.gradient(t.to_tn(), dim="all", **kw)
        return tn.gradient(t.to_tn(), dim=(dims[0] if form == "int" else list(dims)), **kw)

    def verify(r):
        if form == "int":
            return tensor_verify(exps[0], floors[0])(r)
        if not isinstance(r, (list, tuple)) or len(r) != len(dims):
            return "shape: expected a list of %d tensors, got %s" % (len(dims), type(r).__name__)
        for i in range(len(dims)):
            m = tensor_verify(exps[i], floors[i])(r[i])
            if m is not None:
                return _kinded(m, "component %d (mode %d): " % (i, dims[i]))
        return None

    feats = [("dim given as an int", form == "int"), ("a differentiated mode is a CP core without Tucker factor", bare_cp(t, dims), RAISE),
             ("default bounds and modes of different sizes", bounds is None and len(set(t.shape)) > 1, VALUE)]
    J.check("gradient", "gradient(t %s, dim=%s, bounds=%s)" % (list(t.shape), "all" if form == "all" else (dims[0] if form == "int" else dims), bounds),
            thunk, verify, feats)


def _field_feats(ts, bounds, modes):
    return [("a differentiated mode is a CP core without Tucker factor", any(bare_cp(t, [d]) for t, d in modes), RAISE),
            ("default bounds and modes of different sizes", bounds is None and len(set(ts[0].shape)) > 1, STEP),
            ("1 mode", ts[0].N == 1)]


def run_divergence(ctx, case, J):
    ts = [PT.from_json(t) for t in case["ts"]]
    N = len(ts)
    xs = [t.dense() for t in ts]
    bounds = case["bounds"]
    bl = _per_mode_bounds(bounds, N, xs[0].shape)
    ctx.case(("divergence", tuple(t.sig() for t in ts), repr(bounds)), True, {"op": "divergence", "field": [t.describe() for t in ts], "bounds": bounds})
    count_formats(ctx, *ts); ctx.count("divergence:bounds=" + ("default" if bounds is None else ("pair" if not isinstance(bounds[0], list) else "per-mode")))
    exp = sum(stencil(xs[n], n, 1, step_of(bl[n], xs[n].shape[n]), False) for n in range(N))
    floor = 1e-4 * sum((2 / abs(step_of(bl[n], xs[n].shape[n]))) * float(np.max(absdense(ts[n]))) for n in range(N))
    kw = {} if bounds is None else {"bounds": bounds}
    bs = _src_bounds(bounds, N, xs[0].shape)
    exp_src = sum(stencil(xs[n], n, 1, step_of(bs[n], xs[n].shape[n]), False) for n in range(N))
    J.check("divergence", "divergence(%d fields %s, bounds=%s)" % (N, list(ts[0].shape), bounds), lambda: tn.divergence([t.to_tn() for t in ts], **kw),
            tensor_verify(exp, floor, exp_src), _field_feats(ts, bounds, [(ts[n], n) for n in range(N)]))


def run_curl(ctx, case, J):
    ts = [PT.from_json(t) for t in case["ts"]]
    xs = [t.dense() for t in ts]
    bounds = case["bounds"]
    bl = _per_mode_bounds(bounds, 3, xs[0].shape)
    ctx.case(("curl", tuple(t.sig() for t in ts), repr(bounds)), True, {"op": "curl", "field": [t.describe() for t in ts], "bounds": bounds})
    count_formats(ctx, *ts); ctx.count("curl:bounds=" + ("default" if bounds is None else ("pair" if not isinstance(bounds[0], list) else "per-mode")))

    def D(i, n, b=bl):
        return stencil(xs[i], n, 1, step_of(b[n], xs[i].shape[n]), False)

    exps = [D(2, 1) - D(1, 2), D(0, 2) - D(2, 0), D(1, 0) - D(0, 1)]
    bs = _src_bounds(bounds, 3, xs[0].shape)
    exps_src = [D(2, 1, bs) - D(1, 2, bs), D(0, 2, bs) - D(2, 0, bs), D(1, 0, bs) - D(0, 1, bs)]
    sc = max(float(np.max(absdense(t))) for t in ts)
    floor = 1e-4 * 2 * max(2 / abs(step_of(bl[n], xs[0].shape[n])) for n in range(3)) * sc
    kw = {} if bounds is None else {"bounds": bounds}

    def verify(r):
        if not isinstance(r, (list, tuple)) or len(r) != 3:
            return "shape: expected 3 tensors"
        for i in range(3):
            m = tensor_verify(exps[i], floor, exps_src[i])(r[i])
            if m is not None:
                return _kinded(m, "component %d: " % i)
        return None

    modes = [(ts[2], 1), (ts[1], 2), (ts[0], 2), (ts[2], 0), (ts[1], 0), (ts[0], 1)]
    J.check("curl", "curl(3 fields %s, bounds=%s)" % (list(ts[0].shape), bounds), lambda: tn.curl([t.to_tn() for t in ts], **kw), verify,
            _field_feats(ts, bounds, modes))


def run_laplacian(ctx, case, J):
    t = PT.from_json(case["t"])
    x = t.dense()
    N = t.N
    bounds = case["bounds"]
    bl = _per_mode_bounds(bounds, N, x.shape)
    ctx.case(("laplacian", t.sig(), repr(bounds)), t.nontrivial(), {"op": "laplacian", "t": t.describe(), "bounds": bounds})
    count_formats(ctx, t); ctx.count("laplacian:bounds=" + ("default" if bounds is None else ("pair" if not isinstance(bounds[0], list) else "per-mode")))
    exp = sum(stencil(x, n, 2, step_of(bl[n], x.shape[n]), False) for n in range(N))
    floor = 1e-4 * sum((2 / abs(step_of(bl[n], x.shape[n]))) ** 2 for n in range(N)) * float(np.max(absdense(t)))
    kw = {} if bounds is None else {"bounds": bounds}
    bs = _src_bounds(bounds, N, x.shape)
    exp_src = sum(stencil(x, n, 2, step_of(bs[n], x.shape[n]), False) for n in range(N))
    J.check("laplacian", "laplacian(t %s, bounds=%s)" % (list(t.shape), bounds), lambda: tn.laplacian(t.to_tn(), **kw), tensor_verify(exp, floor, exp_src),
            _field_feats([t], bounds, [(t, n) for n in range(N)]))


# ----------------------------------------------------------------------------------------------- partialset
def fdiff(x, d, o, h, conv):
    I0 = x.shape[d]
    for k in range(o):
        I = x.shape[d]
        hk = h if conv == "grid" else h * (I0 - 1) / (I0 - 1 - k)
        x = (np.take(x, range(1, I), axis=d) - np.take(x, range(0, I - 1), axis=d)) / hk
    return x


def partialset_expected(x, orders, M, bounds, conv):
    N = x.ndim
    maxo = max(orders)
    hs = [1.0 if bounds is None else (bounds[n][1] - bounds[n][0]) / (x.shape[n] - 1) for n in range(N)]
    offs = [[sum(x.shape[n] - k for k in range(o)) for o in range(maxo + 2)] for n in range(N)]
    out = np.zeros([offs[n][maxo + 1] for n in range(N)])
    amp = 1.0
    for o in itertools.product(range(maxo + 1), repeat=N):
        if sum(o) not in orders:
            continue
        w = 1.0 if M is None else float(M[tuple(min(v, 1) for v in o)])
        if w == 0:
            continue
        blk = x
        for n in range(N):
            blk = fdiff(blk, n, o[n], hs[n], conv)
        amp = max(amp, float(np.prod([(2 / abs(hs[n])) ** o[n] for n in range(N)])))
        out[tuple(slice(offs[n][o[n]], offs[n][o[n] + 1]) for n in range(N))] = w * blk
    return out, amp


def run_partialset(ctx, case, J):
    t = PT.from_json(case["t"])
    x = t.dense()
    N = t.N
    order, bounds = case["order"], case["bounds"]
    orders = order if isinstance(order, list) else [order]
    M = None if case["mask"] is None else np.array(case["mask"], dtype=np.float64).reshape([2] * N)
    exp, amp = partialset_expected(x, orders, M, bounds, PARTIALSET_STEP)
    exp_src = partialset_expected(x, orders, M, bounds, "source")[0]
    ctx.case(("partialset", t.sig(), repr(order), repr(case["mask"]), repr(bounds)), t.nontrivial(),
             {"op": "partialset", "t": t.describe(), "order": order, "mask": case["mask"], "bounds": bounds})
    count_formats(ctx, t); ctx.count("partialset:maxorder=%d" % max(orders)); ctx.count("partialset:mask=" + ("none" if M is None else "given"))
    ctx.count("partialset:bounds=" + ("default" if bounds is None else "explicit"))
    floor = 1e-4 * amp * float(np.max(absdense(t)))

    def thunk():
        kw = {}
        if M is not None:
            kw["mask"] = tn.Tensor(torch.tensor(M, dtype=torch.float64))
        if bounds is not None:
            kw["bounds"] = bounds
        return tn.partialset(t.to_tn(), order, **kw)

    def verify(r):
        if not isinstance(r, tn.Tensor):
            return "shape: returned %s" % type(r).__name__
        if tuple(r.shape) != tuple(exp.shape):
            return "shape %s, expected %s" % (tuple(r.shape), tuple(exp.shape))
        g = to_np(r)
        m = cmp(g, exp, 1e-9, floor)
        if m is not None and cmp(g, exp_src, 1e-9, floor) is None:
            return ("<<step>> " + m + " — every block equals the forward differences if the k-th difference along a mode is divided by "
                    "(b1-b0)/(I-k) (size of the shortened array) instead of the grid step (b1-b0)/(I-1)")
        return m

    feats = [("a CP core with a Tucker factor", any(t.cores[n].ndim == 2 and t.Us[n] is not None for n in range(N)), RAISE),
             ("a CP core of rank 1 without Tucker factor", any(t.cores[n].ndim == 2 and t.Us[n] is None and t.cores[n].shape[1] == 1 for n in range(N)), RAISE),
             ("maximal order >= 2 (step of the k-th repeated difference)", max(orders) >= 2, {"step"}),
             ("a CP core", any(t.cores[n].ndim == 2 for n in range(N))),
             ("mask given", M is not None)]
    J.check("partialset", "partialset(t %s, order=%s, mask=%s, bounds=%s)" % (list(t.shape), order, case["mask"], bounds), thunk, verify, feats)


# =============================================================================== correspondence with the Lean model (main session)
def _corr_cases(rng, tier):
    n = {"quick": 150, "thorough": 2500, "search": 0}[tier]
    out = []
    for _ in range(n):
        N = rng.choice([1, 2, 2, 3, 3])
        stream = "int" if rng.random() < 0.6 else "float"
        shape = [rng.randint(3, 5) if rng.random() < 0.8 else rng.randint(1, 2) for _ in range(N)]
        sub = rng.choice(["partial", "partial", "partial_list", "laplacian", "gradient", "partialset", "partialset", "stencil_steps"])
        c = {"kind": "corr", "sub": sub, "t": gen_tensor(rng, shape, stream=stream).to_json(), "stream": stream, "dd": "float64",
             "d": rng.randrange(N), "order": rng.randint(1, 3), "periodic": rng.random() < 0.3,
             "bounds": None if rng.random() < 0.5 else [float(rng.randint(-2, 0)), float(rng.randint(1, 4))], "seed": rng.randrange(1 << 30)}
        if sub == "partial_list":
            k = rng.randint(1, 3)
            c["dims"] = [rng.randrange(N) for _ in range(k)] if rng.random() < 0.3 else rng.sample(range(N), min(k, N))
            c["pers"] = [rng.random() < 0.3 for _ in c["dims"]]
            c["blist"] = [[float(rng.randint(-2, 0)), float(rng.randint(1, 4))] for _ in c["dims"]]
            c["order"] = rng.randint(1, 2)
        if sub in ("laplacian", "gradient"):
            c["blist"] = [[float(rng.randint(-2, 0)), float(rng.randint(1, 4))] for _ in range(N)]
        if sub == "partialset":
            mo = rng.randint(1, 3)
            c["orders"] = sorted(set([mo] + [rng.randint(0, mo) for _ in range(rng.randint(0, 2))]))
            c["blist"] = [[0.0, float(rng.randint(1, 4))] for _ in range(N)]
            c["umask"] = rng.choice([None, None, "x", "only"])
        out.append(c)
    return out


_orig_cases = cases


def cases(rng, tier):  # noqa: F811
    return _orig_cases(rng, tier) + _corr_cases(rng, tier)


def _model_dense(m):
    return PT([np.asarray(c_, dtype=np.float64) for c_ in m.cores], [None if U is None else np.asarray(U, dtype=np.float64) for U in m.Us]).dense()


def run_corr_ops(ctx, case, J):
    """the routines built on top of `partial` (Model/DerivOps.lean, Model/PartialSet.lean) against the compiled model: structure where the
    code's result is a tensor, exact error behaviour (assert / ValueError) where the model has a guard"""
    import random as _r
    from fractions import Fraction
    from core import parse_tensor, cmp_struct, from_tn, q, safe, close
    t = PT.from_json(case["t"]); sub = case["sub"]; N = t.N
    rng = _r.Random(case["seed"])
    ctx.case(("corr", sub, t.sig(), repr(case.get("dims")), repr(case.get("orders")), case.get("umask")), t.nontrivial(),
             {"op": "model correspondence: " + sub, "t": t.describe()})
    ctx.count("corr:" + sub)
    if not (getattr(ctx, "use_model", False) and not getattr(ctx, "search_only", False)):
        return
    drv = ctx.drv()

    def cof(b, I):          # 1/step of tn.partial: step = (b1-b0)/(I+1)*2
        return Fraction(I + 1) / (Fraction(b[1]) - Fraction(b[0])) / 2

    def cmp_t(what, impl, toks, pos=1):
        m, pos2 = parse_tensor(toks, pos)
        dd = cmp_struct(from_tn(impl), m, False, rtol=1e-9)
        if dd is not None:
            ctx.corr("%s: implementation cores differ from model cores: %s" % (what, dd), case)
        return m, pos2
    if sub == "stencil_steps":
        n = rng.randint(1, 6); per = case["periodic"]
        x = np.array([float(rng.randint(-3, 3)) for _ in range(n)])
        b = case["bounds"] or [0.0, float(n)]
        r = safe(lambda: tn.partial(tn.Tensor([torch.tensor(x)[None, :, None]]), 0, bounds=b, periodic=per).torch().numpy())
        toks = drv.call("stencil_steps %d %s %d %s" % (1 if per else 0, q(cof(b, n)), n, " ".join(q(v) for v in x)))
        if r[0] == "err":
            ctx.oracle("partial on a single fibre of size %d (periodic=%s) raised %s: %s" % (n, per, r[1], r[2]), case); return
        mv = np.array([float(core.unq(v.split("~")[0])) for v in toks[2:]]) if toks[0] == "ok" else None
        if mv is None or not close(mv, r[1], 1e-9)[0]:
            ctx.corr("partial on one fibre %s (periodic=%s): implementation %s, the model's step-by-step stencil %s" % (x.tolist(), per, r[1].tolist(), toks[:8]), case)
        return
    if sub == "partial_list":
        dims, pers, bl, order = case["dims"], case["pers"], case["blist"], case["order"]
        r = safe(lambda: tn.partial(t.to_tn(), dims, order=order, bounds=bl, periodic=pers))
        if r[0] == "err":
            ctx.oracle("partial(dim=%s, order=%d, periodic=%s) raised %s: %s" % (dims, order, pers, r[1], r[2]), case); return
        toks = drv.call("partial_list %d %d %s %s" % (order, len(dims), " ".join("%d %s %d" % (d, q(cof(b, t.shape[d])), 1 if p_ else 0)
                                                                                 for d, b, p_ in zip(dims, bl, pers)), t.ser()))
        if toks[0] != "ok":
            ctx.corr("model partial_list failed: %s" % " ".join(toks[:4]), case); return
        cmp_t("partial(dim=%s)" % dims, r[1], toks)
        return
    if sub == "laplacian":
        bl = case["blist"]
        if rng.random() < 0.1 and N > 1:
            bl = bl[:-1]                                             # wrong number of bounds: both sides must reject
        r = safe(lambda: tn.laplacian(t.to_tn(), bounds=bl))
        toks = drv.call("laplacian %d %s %s" % (len(bl), " ".join(q(cof(b, t.shape[n])) for n, b in enumerate(bl)), t.ser()))
        if r[0] == "err" or toks[0] != "ok":
            if not (r[0] == "err" and toks[0] == "err" and r[1] == "AssertionError" and len(bl) != N):
                ctx.corr("laplacian: implementation %s, model %s" % (r[:2] if r[0] == "err" else "ok", toks[:2]), case)
            return
        cmp_t("laplacian", r[1], toks)
        return
    if sub == "gradient":
        bl = case["blist"]; dims = list(range(N))
        r = safe(lambda: tn.gradient(t.to_tn(), dim=dims, bounds=bl))
        if r[0] == "err":
            ctx.oracle("gradient raised %s: %s" % (r[1], r[2]), case); return
        toks = drv.call("gradient %d %s %s" % (N, " ".join("%d %s" % (d, q(cof(bl[d], t.shape[d]))) for d in dims), t.ser()))
        if toks[0] != "ok" or toks[1] != "L" or int(toks[2]) != len(r[1]):
            ctx.corr("model gradient answered %s" % " ".join(toks[:4]), case); return
        pos = 3
        for k, g in enumerate(r[1]):
            _, pos = cmp_t("gradient component %d" % k, g, toks, pos)
        return
    # partialset
    orders, bl, um = case["orders"], case["blist"], case["umask"]
    mask = None
    if um is not None:
        xs = tn.symbols(N)
        mask = xs[rng.randrange(N)] if um == "x" else tn.only(xs[rng.randrange(N)] | xs[rng.randrange(N)])
    r = safe(lambda: tn.partialset(t.to_tn(), orders, mask, bl))
    cs = [(Fraction(s - 1) / (Fraction(b[1]) - Fraction(b[0]))) if s > 1 else Fraction(1) for s, b in zip(t.shape, bl)]
    toks = drv.call("partialset %d %s %d %s %s%s" % (len(orders), " ".join(map(str, orders)), N, " ".join(q(c) for c in cs),
                                                      ("1 " + from_tn(mask).ser() + " ") if mask is not None else "0 ", t.ser()))
    if r[0] == "err" or toks[0] != "ok":
        if not (r[0] == "err" and toks[0] == "err" and r[1] in ("ValueError", "ZeroDivisionError")):
            ctx.corr("partialset(order=%s): implementation %s, model %s" % (orders, r[:3] if r[0] == "err" else "ok", toks[:2]), case)
        else:
            ctx.count("corr:partialset rejected by both")
        return
    cmp_t("partialset(order=%s, mask=%s)" % (orders, um), r[1], toks)


def run_corr(ctx, case, J):
    if case.get("sub", "partial") != "partial":
        return run_corr_ops(ctx, case, J)
    from fractions import Fraction
    from core import parse_tensor, cmp_struct, from_tn, q, safe, close
    t = PT.from_json(case["t"])
    d, order, per, bounds = case["d"], case["order"], case["periodic"], case["bounds"]
    ctx.case(("corr", "partial", t.sig(), d, order, per, bounds is None), t.nontrivial(),
             {"op": "model correspondence: partial", "t": t.describe(), "dim": d, "order": order, "periodic": per, "bounds": bounds})
    ctx.count("corr:partial")
    if not (getattr(ctx, "use_model", False) and not getattr(ctx, "search_only", False)):
        return
    I = t.shape[d]
    b0, b1 = (0, I) if bounds is None else bounds
    c = Fraction(I + 1) / (Fraction(b1) - Fraction(b0)) / 2          # 1/step, step = (b1-b0)/(I+1)*2
    r = safe(lambda: tn.partial(t.to_tn(), d, order=order, bounds=bounds, periodic=per))
    if r[0] == "err":
        ctx.oracle("partial(dim=%d, order=%d, periodic=%s, bounds=%s) raised %s: %s" % (d, order, per, bounds, r[1], r[2]), case); return
    toks = ctx.drv().call("partial %d %d %s %d %s" % (d, order, q(c), 1 if per else 0, t.ser()))
    if toks[0] != "ok":
        ctx.corr("model partial failed: %s" % " ".join(toks[:4]), case); return
    m = parse_tensor(toks, 1)[0]
    dd = cmp_struct(from_tn(r[1]), m, False, rtol=1e-9)
    if dd is not None:
        ctx.corr("partial(dim=%d, order=%d, periodic=%s): implementation cores differ from model cores: %s" % (d, order, per, dd), case)
    # dense stencil oracle for the model
    x = t.dense()
    step = float((Fraction(b1) - Fraction(b0)) / (I + 1) * 2)
    y = x
    for _ in range(order):
        if per:
            y = (np.roll(y, -1, axis=d) - np.roll(y, 1, axis=d)) / step
        elif I == 1:
            y = np.zeros_like(y)            # a single point: nothing to difference (the padded fibre is constant)
        else:
            first = np.take(y, [0], axis=d); second = np.take(y, [1], axis=d)
            last = np.take(y, [-1], axis=d); prev = np.take(y, [-2], axis=d)
            pad = np.concatenate([2 * first - second, y, 2 * last - prev], axis=d)
            y = (np.take(pad, range(2, I + 2), axis=d) - np.take(pad, range(0, I), axis=d)) / step
    md = PT([np.asarray(c_, dtype=np.float64) for c_ in m.cores], [None if U is None else np.asarray(U, dtype=np.float64) for U in m.Us]).dense()
    if not close(md, y, 1e-9)[0]:
        ctx.spec("model partial differs from the dense stencil", case)
