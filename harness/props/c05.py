"""C05 — fixed-rank decompositions: rank bounds, two-sided error bounds against the singular-value tails, exactness on low-rank input;
truncated_svd = Eckart-Young truncation at the smallest admissible rank; CP-ALS on rank-1 arrays (oracle search on the real code)."""
import math, random
import numpy as np, torch
import core
from core import PT, gen_tensor, from_tn, safe, tn, rnd_entries
from props._a_common import frob, tt_unfoldings, mode_unfoldings, svals, tail, min_rank_for, cond_matrix, rand_orth, gram_dev

RULE = ("one PRNG(seed). (a) dense arrays with 2..4 modes of size 1..6 (generic | decaying spectrum | exactly low TT rank | zero | "
        "small = norm 1e-6..1e-4 and low rank) through Tensor(x, ranks_tt=r | ranks_tucker=r | both, algorithm=svd|eig), r scalar or "
        "per-bond/per-mode list in 1..6: result ranks <= r; ||x-y||^2 <= sum_k tail_k(r_k)(1+1e-9)+a and >= max_k tail_k(r_k)(1-1e-9)-a "
        "(compared as norms, with absolute slack a = 1e-12||x|| for svd, 3e-7||x|| for eig: Gram path, singular "
        "vectors accurate to 1e-8), tail_k from NumPy SVDs of the unfoldings of x; hence exact reproduction when the unfolding ranks fit. (b) matrices 1..8 x 1..8 (generic | "
        "decaying | low rank | repeated singular values | zero | small | tiny | large) through truncated_svd with delta | eps | no "
        "budget (budgets aimed around the tail boundaries), rmax none|1..8, left_ortho, algorithm: rank = min(rmax, max(1, least r "
        "with tail(r) <= delta^2)) decided with a tolerance band on the tail comparison; ||M - left@right||^2 = tail(r); "
        "left@right = NumPy rank-r truncation when sigma_r - sigma_(r+1) is resolvable; requested side orthonormal (tolerance "
        "scaled by sigma_1/sigma_r). (c) Tensor(x, ranks_cp=R), R = 1..4: rank-1 arrays with 2..4 modes reproduced to 1e-6 "
        "relative; generic/zero arrays: relative error <= 1+1e-9. "
        "distinct = (op, shape, fill, ranks, algorithm, budget kind, left_ortho); non-trivial = always (>= 2 modes / a matrix)")
TRUSTED = ["NumPy SVD of the unfoldings (tails, truncations)",
           "classical facts used by the oracle: Eckart-Young (lower bounds) and monotonicity of singular values under projection (upper bounds)",
           "float64 slack terms listed in RULE; eig-path checks use tolerances reflecting the squared condition number of the Gram matrix"]
ASSUMPTIONS = ["CP-ALS is run with its defaults (max_iter=25, tol=1e-4) and torch.manual_seed(case seed) for the random completion of the HOSVD start"]


# ----------------------------------------------------------------------------- generation
def mk_dense(rng, fill, shape):
    N = len(shape)
    if fill == "zero":
        return np.zeros(shape)
    if fill in ("lowrank", "small"):
        t = gen_tensor(rng, shape, fmt=[("tt", None)] * N, rmax=rng.choice([1, 2, 2, 3]), stream="float", p_rank1=0.1)
        x = t.dense()
        if fill == "small":
            x = x * (10 ** rng.uniform(-6, -4) / max(frob(x), 1e-300))
        return x
    x = rnd_entries(rng, shape, "float")
    if fill == "decaying":
        g = np.zeros(shape)
        for idx in np.ndindex(*shape):
            g[idx] = 1.0 / (1.0 + sum(idx)) ** 2
        x = g + 10 ** rng.uniform(-4, -1) * x
    return x


def mk_matrix(rng, fill, m, n):
    k = min(m, n)
    A = rand_orth(rng, m, k); B = rand_orth(rng, n, k)
    if fill == "zero":
        return np.zeros((m, n))
    if fill == "generic":
        return rnd_entries(rng, (m, n), "float")
    if fill == "decaying":
        qd = rng.choice([0.5, 0.1, 0.01])
        sv = np.array([qd ** i for i in range(k)])
    elif fill in ("lowrank", "small", "tiny", "large"):
        kk = rng.randint(1, k)
        sv = np.array([rng.uniform(0.5, 2.0) if i < kk else 0.0 for i in range(k)])
        sv = np.sort(sv)[::-1]
    elif fill == "repeated":
        sv = np.array([1.0 if i < (k + 1) // 2 else 0.25 for i in range(k)])
    M = (A * sv) @ B.T
    if fill == "small":
        M = M * 10 ** rng.uniform(-6, -4)
    if fill == "tiny":
        M = M * 10 ** rng.uniform(-16, -14)
    if fill == "large":
        M = M * 10 ** rng.uniform(3, 6)
    return M


def cases(rng, tier):
    n1 = {"quick": 700, "thorough": 10000, "search": 3500}[tier]
    n2 = {"quick": 900, "thorough": 13000, "search": 4500}[tier]
    n3 = {"quick": 200, "thorough": 2800, "search": 1000}[tier]
    out = []
    for _ in range(n1):
        N = rng.choice([2, 2, 3, 3, 4])
        hi = {2: 10, 3: 7, 4: 5}[N]
        shape = [1 if rng.random() < 0.05 else rng.randint(2, hi) for _ in range(N)]
        fill = rng.choice(["generic", "generic", "generic", "decaying", "decaying", "decaying", "lowrank", "lowrank", "zero", "small"])
        what = rng.choice(["tt", "tt", "tucker", "tucker", "both"])
        x_ = mk_dense(rng, fill, shape)
        if fill in ("generic", "decaying", "lowrank") and rng.random() < 0.3:
            # zero padding / structural zeros: exactly zero slices at the front or back of one or two axes
            for _z in range(rng.randint(1, 2)):
                ax = rng.randrange(N)
                if shape[ax] >= 2:
                    k_ = rng.randint(1, max(1, shape[ax] // 2))
                    sl = [slice(None)] * N
                    sl[ax] = slice(0, k_) if rng.random() < 0.6 else slice(shape[ax] - k_, None)
                    x_[tuple(sl)] = 0.0
            fill = fill + "+zeropad"
        c = {"kind": "ranks", "what": what, "fill": fill, "x": x_.tolist(), "alg": rng.choice(["svd", "svd", "eig"])}
        if what in ("tt", "both"):
            c["ranks_tt"] = rng.randint(1, 6) if rng.random() < 0.5 else [rng.randint(1, 6) for _ in range(N - 1)]
        if what in ("tucker", "both"):
            c["ranks_tucker"] = rng.randint(1, 6) if rng.random() < 0.5 else [rng.randint(1, 6) for _ in range(N)]
        out.append(c)
    for _ in range(n2):
        m, n = rng.randint(1, 8), rng.randint(1, 8)
        fill = rng.choice(["generic"] * 4 + ["decaying"] * 4 + ["lowrank"] * 4 + ["repeated"] * 2 + ["zero", "small", "small", "tiny", "large", "large"])
        M = mk_matrix(rng, fill, m, n)
        s = svals(M)
        bk = rng.choice(["none", "delta", "delta", "eps", "eps"])
        c = {"kind": "tsvd", "fill": fill, "M": M.tolist(), "budget": bk, "value": None, "rmax": rng.choice([None, None] + list(range(1, 9))),
             "left_ortho": rng.random() < 0.5, "alg": rng.choice(["svd", "eig"])}
        if bk != "none":
            r = rng.randrange(len(s) + 1)
            base = math.sqrt(tail(s, r))
            if base == 0 or rng.random() < 0.15:
                base = frob(M) * 10 ** rng.uniform(-9, 0.2)
            d = base * rng.choice([0.7, 0.97, 1.03, 1.5])
            c["value"] = d if bk == "delta" else (d / frob(M) if frob(M) > 0 else rng.uniform(0, 1))
        out.append(c)
    # exact ties: signed permutations of diag(sigma) with integer sigma whose tails are perfect squares, budget = a tail exactly
    # (delta^2 == tail in floating point too), and exact zero singular values under a zero budget: "the smallest rank meeting the budget"
    TIES = [([5, 2, 2, 1], [3, 1]), ([9, 4, 4, 4, 1], [7, 1]), ([6, 4, 3], [5, 3]), ([20, 12, 5], [13, 5]), ([4, 2, 2, 1, 0, 0], [3, 1, 0]),
            ([3, 1, 0], [1, 0]), ([2, 2, 0, 0], [2, 0]), ([7, 0, 0], [0]), ([12, 4, 3, 0], [5, 3, 0])]
    for _ in range(max(20, n2 // 12)):
        sig, deltas = rng.choice(TIES)
        K = len(sig)
        m, n = K + rng.randint(0, 2), K + rng.randint(0, 2)
        P, Q = rng.sample(range(m), K), rng.sample(range(n), K)
        M = np.zeros((m, n))
        for i in range(K):
            M[P[i], Q[i]] = sig[i] * rng.choice([1.0, -1.0])
        out.append({"kind": "tie", "M": M.tolist(), "sigma": sig, "delta": rng.choice(deltas), "rmax": rng.choice([None, None, None, 2, 5]),
                    "left_ortho": rng.random() < 0.5, "alg": rng.choice(["svd", "svd", "eig"]), "budget": rng.choice(["delta", "eps"])})
    for _ in range(n3):
        N = rng.choice([2, 3, 3, 4])
        hi = 5 if N <= 3 else 4
        shape = [1 if rng.random() < 0.07 else rng.randint(2, hi) for _ in range(N)]
        fill = rng.choice(["rank1", "rank1", "rank1", "rank1z", "generic", "zero"])
        if fill.startswith("rank1"):
            vs = [rnd_entries(rng, (s,), "float") * 10 ** rng.uniform(-2, 2) for s in shape]
            if fill == "rank1z":
                for v in vs:
                    if len(v) > 1 and rng.random() < 0.5:
                        v[rng.randrange(len(v))] = 0.0
            x = vs[0]
            for v in vs[1:]:
                x = np.multiply.outer(x, v)
        elif fill == "zero":
            x = np.zeros(shape)
        else:
            x = rnd_entries(rng, shape, "float")
        out.append({"kind": "cp", "fill": fill, "x": np.asarray(x).reshape(shape).tolist(), "R": rng.randint(1, 4), "seed": rng.randrange(1 << 30)})
    return out


# ----------------------------------------------------------------------------- reporting
def report(ctx, case, op, pred, violation, what):
    cls = {"op": op, "predicate": pred, "violation": violation}
    ctx.oracle("%s: %s [%s]" % (op, what, pred), case, cls=cls)
    ctx.count("violation:%s:%s" % (op, violation))


def pred_ranks(x, alg, rtt_req=None, rtk_req=None):
    nx = frob(x)
    if 0 < nx < 1e-12:
        return "0 < norm(x) < 1e-12"
    if alg == "eig" and 0 < nx < 1e-3:
        return "algorithm='eig' and norm(x) < 1e-3 (squared singular values below the 1e-8 substituted for negative eigenvalues)"
    if alg == "eig" and nx > 0:
        # the same substitution (negative Gram eigenvalue -> 1e-8, i.e. a spurious singular value 1e-4 in absolute terms) at ordinary norms:
        # on a numerically rank-deficient unfolding (e.g. zero padding) that also has GENUINE singular values below 1e-4, the spurious value
        # outranks them and a prescribed rank keeps it instead
        for M in list(tt_unfoldings(x)) + list(mode_unfoldings(x)):
            sv = svals(M)
            if len(sv) >= 2 and sv[0] > 0 and sv[-1] <= 1e-7 * sv[0] and np.any((sv > 1e-9 * sv[0]) & (sv < 1.05e-4)):
                return ("algorithm='eig', a numerically rank-deficient unfolding with genuine singular values below 1e-4 (outranked by the "
                        "spurious 1e-4 substituted for negative Gram eigenvalues)")
    if alg == "eig" and nx > 0:
        # a requested rank ABOVE the numerical rank of an unfolding: the svd path drops the rank, the Gram path keeps directions belonging to the
        # 1e-8 it substitutes for negative round-off eigenvalues, and the reconstruction error rises from 1e-16 to ~1e-7
        def above(Ms, req):
            for M, k in zip(Ms, req or []):
                sv = svals(M)
                if len(sv) and sv[0] > 0 and k > int(np.sum(sv > 1e-10 * sv[0])):
                    return True
            return False
        if above(tt_unfoldings(x), rtt_req) or above(mode_unfoldings(x), rtk_req):
            return ("algorithm='eig' and a requested rank above the numerical rank of an unfolding (directions of the 1e-8 substituted for negative "
                    "Gram eigenvalues are kept)")
    return "none of: tiny norm, eig with small norm"


def pred_tsvd(s, alg, K):
    if len(s) and 0 < s[0] < 1e-12:
        return "0 < norm(M) < 1e-12 (below the absolute zero threshold 1e-13)"
    if alg == "eig" and len(s) and s[0] > 0 and s[-1] <= 1e-7 * s[0]:
        return "algorithm='eig' and M numerically rank-deficient (negative Gram eigenvalues are replaced by 1e-8)"
    return "none of: tiny norm, eig with rank-deficient M"


# ----------------------------------------------------------------------------- run
def as_list(r, n):
    return list(r) if isinstance(r, (list, tuple)) else [r] * n


def run_ranks(ctx, case):
    x = np.array(case["x"], dtype=np.float64)
    N = x.ndim
    alg, what = case["alg"], case["what"]
    rtt_req = as_list(case["ranks_tt"], N - 1) if "ranks_tt" in case else None
    rtk_req = as_list(case["ranks_tucker"], N) if "ranks_tucker" in case else None
    op = {"tt": "Tensor(x,ranks_tt)", "tucker": "Tensor(x,ranks_tucker)", "both": "Tensor(x,ranks_tt,ranks_tucker)"}[what]
    ctx.case((op, x.shape, case["fill"], repr(case.get("ranks_tt")), repr(case.get("ranks_tucker")), alg), True,
             {"op": op, "shape": list(x.shape), "fill": case["fill"], "ranks_tt": case.get("ranks_tt"), "ranks_tucker": case.get("ranks_tucker"),
              "algorithm": alg})
    ctx.count("op:" + op); ctx.count("fill:" + case["fill"]); ctx.count("alg:" + alg); ctx.count("N:%d" % N)
    ctx.count("ranks:" + ("list" if isinstance(case.get("ranks_tt", case.get("ranks_tucker")), list) else "scalar"))
    pred = pred_ranks(x, alg, rtt_req, rtk_req)
    kw = {"algorithm": alg}
    if rtt_req is not None:
        kw["ranks_tt"] = case["ranks_tt"]
    if rtk_req is not None:
        kw["ranks_tucker"] = case["ranks_tucker"]
    res = safe(lambda: tn.Tensor(torch.tensor(x, dtype=torch.float64), **kw))
    if res[0] == "err":
        report(ctx, case, op, pred, "raised", "raised %s: %s" % (res[1], res[2])); ctx.count("impl_raise:" + res[1]); return
    r = res[1]
    d = safe(lambda: r.torch().detach().double().numpy())
    if d[0] == "err":
        report(ctx, case, op, pred, "raised", "result cannot be decompressed: %s: %s" % (d[1], d[2])); return
    y = d[1]
    if y.shape != x.shape or not np.all(np.isfinite(y)):
        report(ctx, case, op, pred, "shape/non-finite", "result shape %s (expected %s) or non-finite entries" % (y.shape, x.shape)); return
    rtt = [int(v) for v in r.ranks_tt]
    rtk = [int(v) for v in r.ranks_tucker]
    if rtt_req is not None and (any(rtt[k + 1] > rtt_req[k] for k in range(N - 1)) or rtt[0] != 1 or rtt[-1] != 1):
        report(ctx, case, op, pred, "TT rank > requested", "ranks_tt %s, requested %s" % (rtt, case["ranks_tt"]))
    if rtk_req is not None and any(rtk[k] > rtk_req[k] for k in range(N)):
        report(ctx, case, op, pred, "Tucker rank > requested", "ranks_tucker %s, requested %s" % (rtk, case["ranks_tucker"]))
    nx = frob(x)
    err = frob(x - y)
    a = 1e-12 * nx if alg == "svd" else 3e-7 * nx          # float noise of the comparison (in norm, not squared)
    tt_t = [tail(svals(M), k) for M, k in zip(tt_unfoldings(x), rtt_req)] if rtt_req is not None else []
    tk_t = [tail(svals(M), k) for M, k in zip(mode_unfoldings(x), rtk_req)] if rtk_req is not None else []
    if what == "both":
        upper = (math.sqrt(sum(tt_t)) + math.sqrt(sum(tk_t))) ** 2      # triangle inequality over the two stages
    else:
        upper = sum(tt_t) + sum(tk_t)
    lower = max(tt_t + tk_t + [0.0])
    if err > math.sqrt(upper) * (1 + 1e-9) + a:
        report(ctx, case, op, pred, "error above the sum of tails", "||x-y||^2 = %.6e > sum of the discarded tails %.6e (||x||^2 = %.3e)" % (err ** 2, upper, nx ** 2))
        ctx.count("oracle_mismatch")
    if err < math.sqrt(lower) * (1 - 1e-9) - a:
        report(ctx, case, op, pred, "error below the largest tail", "||x-y||^2 = %.6e < largest single tail %.6e: impossible for the reported ranks" % (err ** 2, lower))
    if upper <= 1e-26 * nx ** 2:
        ctx.count("exact_case")
    else:
        ctx.count("lossy_case")
    if getattr(ctx, "use_model", False) and not getattr(ctx, "search_only", False):
        pass  # MODEL HOOK: from_tn(r) holds the produced cores/factors


def run_tie(ctx, case):
    """exactly representable singular values and budgets: the rank is decided without any rounding, so it must be EXACTLY the smallest
    rank whose discarded tail is <= delta^2 (capped by rmax, at least 1)"""
    M = np.array(case["M"], dtype=np.float64)
    sig, delta, rmax, alg, lo = case["sigma"], case["delta"], case["rmax"], case["alg"], case["left_ortho"]
    op = "truncated_svd"
    ctx.case((op, "tie", tuple(sig), delta, rmax, lo, alg, case["budget"]), True,
             {"op": op, "fill": "exact tie", "sigma": sig, "delta": delta, "rmax": rmax, "left_ortho": lo, "algorithm": alg, "budget": case["budget"]})
    ctx.count("op:truncated_svd(exact tie)")
    tails = [sum(x * x for x in sig[r:]) for r in range(len(sig) + 1)]
    least = min(r for r in range(len(sig) + 1) if tails[r] <= delta * delta)
    exp = max(1, min(rmax if rmax is not None else 1 << 30, least))
    kw = {"left_ortho": lo, "algorithm": alg}
    if rmax is not None:
        kw["rmax"] = rmax
    nM = math.sqrt(tails[0])
    if case["budget"] == "eps" and delta > 0 and (delta / nM) * nM != float(delta):
        ctx.count("tie: eps form not exactly representable (skipped)"); return
    if case["budget"] == "delta" or delta == 0:
        kw["delta"] = float(delta)
    else:
        kw["eps"] = delta / nM
    res = safe(lambda: tn.truncated_svd(torch.tensor(M, dtype=torch.float64), **kw))
    if res[0] == "err":
        report(ctx, case, op, "exact tie", "raised", "raised %s: %s" % (res[1], res[2])); return
    L, R = [v.detach().double().numpy() for v in res[1]]
    if not (np.all(np.isfinite(L)) and np.all(np.isfinite(R))):
        report(ctx, case, op, "exact tie", "non-finite", "non-finite factor entries (sigma=%s, delta=%s, %s)" % (sig, delta, alg)); return
    r = L.shape[1]
    # the kernel must have returned the exact singular values for the decision to be rounding-free: check and otherwise discard
    sv = np.linalg.svd(M, compute_uv=False)
    if not np.array_equal(np.sort(sv)[::-1][:len(sig)], np.array(sorted(sig, reverse=True), dtype=np.float64)):
        ctx.count("tie: kernel singular values not exact (discarded)"); return
    if alg == "eig":
        # Gram path: eigenvalues of an exactly diagonal Gram matrix are exact as well; exact zeros stay zero
        pass
    if r != exp:
        report(ctx, case, op, "exact tie", "rank", "rank %d, but the smallest rank with tail <= delta^2 is %d (sigma=%s, delta=%s, rmax=%s, %s)"
               % (r, exp, sig, delta, rmax, alg))
        return
    err2 = float(((M - L @ R) ** 2).sum())
    if abs(err2 - tails[r]) > 1e-9 * max(tails[0], 1.0):
        report(ctx, case, op, "exact tie", "error", "||M - LR||^2 = %g, tail at rank %d = %g" % (err2, r, tails[r]))


def run_tsvd(ctx, case):
    M = np.array(case["M"], dtype=np.float64)
    if M.ndim != 2:
        M = M.reshape(len(case["M"]), -1)
    m, n = M.shape
    K = min(m, n)
    alg, lo, bk, val, rmax = case["alg"], case["left_ortho"], case["budget"], case["value"], case["rmax"]
    s = svals(M)
    nM = frob(M)
    lam1 = s[0] ** 2 if len(s) else 0.0
    op = "truncated_svd"
    ctx.case((op, (m, n), case["fill"], bk, rmax, lo, alg), True,
             {"op": op, "shape": [m, n], "fill": case["fill"], "budget": bk, "value": val, "rmax": rmax, "left_ortho": lo, "algorithm": alg})
    ctx.count("op:" + op); ctx.count("fill:" + case["fill"]); ctx.count("alg:" + alg); ctx.count("budget:" + bk); ctx.count("left_ortho:%s" % lo)
    ctx.count("rmax:" + ("none" if rmax is None else "int"))
    pred = pred_tsvd(s, alg, K)
    if pred.startswith("0 < norm") and alg == "eig" and s[-1] <= 1e-7 * s[0]:
        ctx.count("skipped:tiny norm and eig and rank-deficient (two defects overlap, attribution ambiguous)")
        return
    kw = {"left_ortho": lo, "algorithm": alg}
    if rmax is not None:
        kw["rmax"] = rmax
    if bk == "delta":
        kw["delta"] = val; delta = val
    elif bk == "eps":
        kw["eps"] = val; delta = val * nM
    else:
        delta = 0.0
    res = safe(lambda: tn.truncated_svd(torch.tensor(M, dtype=torch.float64), **kw))
    if res[0] == "err":
        report(ctx, case, op, pred, "raised", "raised %s: %s" % (res[1], res[2])); ctx.count("impl_raise:" + res[1]); return
    L, R = [v.detach().double().numpy() for v in res[1]]
    if L.ndim != 2 or R.ndim != 2 or L.shape[0] != m or R.shape[1] != n or L.shape[1] != R.shape[0]:
        report(ctx, case, op, pred, "shape", "factor shapes %s, %s for a %dx%d matrix" % (L.shape, R.shape, m, n)); return
    if not (np.all(np.isfinite(L)) and np.all(np.isfinite(R))):
        report(ctx, case, op, pred, "non-finite", "non-finite factor entries"); return
    r = L.shape[1]
    if pred.startswith("0 < norm") and not np.any(L @ R):
        report(ctx, case, op, pred, "non-zero matrix treated as zero", "sigma_1 = %.3e > 0 but left@right is identically zero (rank %d)" % (s[0], r))
        return
    # -- rank: min(rmax, max(1, least r with tail(r) <= delta^2)); band for the float comparison of tail and delta^2
    tol = (1e-13 if alg == "svd" else 1e-11) * lam1 + 1e-9 * delta ** 2
    r_lo = min_rank_for(s, delta ** 2 + tol)
    r_hi = min_rank_for(s, delta ** 2 - tol) if delta ** 2 - tol >= 0 else K
    cap = rmax if rmax is not None else 1 << 30
    e_lo, e_hi = min(cap, max(1, r_lo)), min(cap, max(1, r_hi))
    if nM == 0:
        e_lo = e_hi = 1
    if not (e_lo <= r <= e_hi):
        report(ctx, case, op, pred, "rank not minimal for the budget" if r > e_hi else "rank too small for the budget",
               "returned rank %d, expected %s (delta^2 = %.3e, tails %s, rmax %s)" % (r, e_lo if e_lo == e_hi else "%d..%d" % (e_lo, e_hi), delta ** 2,
                                                                                     ["%.2e" % tail(s, k) for k in range(K + 1)], rmax))
    # -- the product is the rank-r truncation
    P = L @ R
    err = frob(M - P)
    a = (1e-12 if alg == "svd" else 3e-7) * (s[0] if len(s) else 0.0)      # float noise of the comparison (in norm, not squared)
    tr = tail(s, r)
    if abs(err - math.sqrt(tr)) > 1e-9 * math.sqrt(tr) + a:
        report(ctx, case, op, pred, "product is not the optimal rank-r approximation",
               "||M - left@right||^2 = %.6e, tail of the singular values at rank %d = %.6e (sigma_1^2 = %.3e)" % (err ** 2, r, tr, lam1))
        ctx.count("oracle_mismatch")
    elif 0 < r < len(s) and s[0] > 0:
        gap = (s[r - 1] - s[r]) / s[0] if alg == "svd" else (s[r - 1] ** 2 - s[r] ** 2) / lam1
        if gap > 0 and 1e-13 / gap <= 1e-7:
            U, sv, Vt = np.linalg.svd(M, full_matrices=False)
            T = (U[:, :r] * sv[:r]) @ Vt[:r]
            ctx.count("product_compared_with_numpy_truncation")
            if np.max(np.abs(P - T)) > max(1e-9, 1e-12 / gap) * s[0]:
                report(ctx, case, op, pred, "product is not the optimal rank-r approximation",
                       "left@right differs from the NumPy rank-%d truncation by %.3e (sigma_1 %.3e, relative gap %.3e)" % (r, np.max(np.abs(P - T)), s[0], gap))
    # -- requested side orthonormal
    if nM > 0 and not pred.startswith("0 < norm"):
        Q = L if lo else R.T
        dev = gram_dev(Q)
        sr = s[r - 1] if r - 1 < len(s) else 0.0
        ratio = sr / s[0]
        if ratio >= 1e-8:
            tolq = max(1e-9, 1e-13 / (ratio if alg == "svd" else ratio ** 2))
            ctx.count("orthonormality_checked")
            if dev > tolq:
                report(ctx, case, op, pred, "requested side not orthonormal", "max |Q^T Q - I| = %.3e (left_ortho=%s, sigma_r/sigma_1 = %.2e)" % (dev, lo, ratio))
        else:
            ctx.count("orthonormality_noise_level_singular_value_kept")
            # eig: singular values below 1e-8*sigma_1 are not resolvable from the Gram matrix (documented "less accurate"): only counted.
            # svd: an orthonormal basis is available from the SVD itself whatever sigma_r is, so a grossly non-orthonormal side is reported.
            if dev > 1e-6 and alg == "svd":
                p2 = "left_ortho=False and a kept singular value below 1e-8*sigma_1 (rank-deficient M, budget below the float noise)" if not lo else pred
                report(ctx, case, op, p2, "requested side not orthonormal",
                       "max |Q^T Q - I| = %.3e (left_ortho=%s, sigma_r/sigma_1 = %.2e): the orthonormal side is obtained by dividing by sigma_r" % (dev, lo, ratio))
            elif dev > 1e-6:
                ctx.count("eig_noise_level_side_not_orthonormal(not reported)")
    if getattr(ctx, "use_model", False) and not getattr(ctx, "search_only", False):
        pass  # MODEL HOOK: L, R, r


def run_cp(ctx, case):
    x = np.array(case["x"], dtype=np.float64)
    N = x.ndim
    R = case["R"]
    op = "Tensor(x,ranks_cp)"
    ctx.case((op, x.shape, case["fill"], R), True, {"op": op, "shape": list(x.shape), "fill": case["fill"], "ranks_cp": R})
    ctx.count("op:" + op); ctx.count("fill:" + case["fill"]); ctx.count("R:%d" % R)
    pred = {"rank1": "rank-1 array", "rank1z": "rank-1 array", "generic": "generic array", "zero": "zero array"}[case["fill"]]

    def impl():
        torch.manual_seed(case["seed"])
        return tn.Tensor(torch.tensor(x, dtype=torch.float64), ranks_cp=R)

    res = safe(impl)
    if res[0] == "err":
        report(ctx, case, op, pred, "raised", "raised %s: %s" % (res[1], res[2])); ctx.count("impl_raise:" + res[1]); return
    r = res[1]
    d = safe(lambda: r.torch().detach().double().numpy())
    if d[0] == "err":
        report(ctx, case, op, pred, "raised", "result cannot be decompressed: %s: %s" % (d[1], d[2])); return
    y = d[1]
    if y.shape != x.shape or not np.all(np.isfinite(y)):
        report(ctx, case, op, pred, "shape/non-finite", "result shape %s (expected %s) or non-finite entries" % (y.shape, x.shape)); return
    if any(c.dim() != 2 or c.shape[1] != R for c in r.cores):
        report(ctx, case, op, pred, "format", "cores are not CP factors with %d columns: %s" % (R, [tuple(c.shape) for c in r.cores]))
    nx = frob(x)
    err = frob(x - y)
    if case["fill"].startswith("rank1"):
        if err > 1e-6 * nx:
            report(ctx, case, op, pred, "rank-1 array not reproduced", "relative error %.3e > 1e-6" % (err / nx if nx else float("inf")))
            ctx.count("oracle_mismatch")
    if err > nx * (1 + 1e-9) + 1e-300:
        report(ctx, case, op, pred, "error > norm of the input", "||x-y|| = %.6e > ||x|| = %.6e" % (err, nx))
    if getattr(ctx, "use_model", False) and not getattr(ctx, "search_only", False):
        pass  # MODEL HOOK


def run_case(ctx, case):
    {"ranks": run_ranks, "tsvd": run_tsvd, "cp": run_cp, "tie": run_tie}[case["kind"]](ctx, case)


# =============================================================================== correspondence with the Lean model (main session)
def _corr_cases(rng, tier):
    n = {"quick": 250, "thorough": 4000, "search": 0}[tier]
    out = []
    for _ in range(n):
        m, k = rng.randint(1, 8), rng.randint(1, 8)
        kind = rng.choice(["generic", "decay", "lowrank", "int"])
        out.append({"kind": "corr", "m": m, "n": k, "fill": kind, "seed": rng.randrange(1 << 30),
                    "budget": rng.choice(["delta", "eps", "none"]), "rmax": rng.choice([None, None, 1, 2, 3, 5]),
                    "left_ortho": rng.random() < 0.5, "level": rng.choice([1e-3, 1e-2, 0.1, 0.3, 0.6, 0.9])})
    return out


_orig_cases = cases
_orig_run_case = run_case


def cases(rng, tier):  # noqa: F811
    return _orig_cases(rng, tier) + _corr_cases(rng, tier)


def run_case(ctx, case):  # noqa: F811
    if case.get("kind") != "corr":
        return _orig_run_case(ctx, case)
    import random as _r
    import numpy as np, torch
    from core import q, safe
    rng = _r.Random(case["seed"])
    m, n = case["m"], case["n"]
    if case["fill"] == "int":
        M = np.array([[rng.randint(-3, 3) for _ in range(n)] for _ in range(m)], dtype=np.float64)
    elif case["fill"] == "lowrank":
        r = rng.randint(1, max(1, min(m, n) - 1))
        M = np.array([[rng.gauss(0, 1) for _ in range(r)] for _ in range(m)]) @ np.array([[rng.gauss(0, 1) for _ in range(n)] for _ in range(r)])
    else:
        M = np.array([[rng.gauss(0, 1) for _ in range(n)] for _ in range(m)])
        if case["fill"] == "decay":
            U, S, Vt = np.linalg.svd(M, full_matrices=False)
            M = (U * (S * np.array([0.3 ** i for i in range(len(S))]))) @ Vt
    ctx.case(("corr", "rank_select", m, n, case["fill"], case["budget"], case["rmax"]), True,
             {"op": "model correspondence: rank selection of truncated_svd", **{k: v for k, v in case.items() if k not in ("kind",)}})
    ctx.count("corr:rank_select")
    if not (getattr(ctx, "use_model", False) and not getattr(ctx, "search_only", False)):
        return
    Mt = torch.tensor(M)
    nrm = float(torch.norm(Mt))
    kw = {"left_ortho": case["left_ortho"], "rmax": case["rmax"]}
    delta = None
    if case["budget"] == "delta":
        delta = case["level"] * nrm; kw["delta"] = delta
    elif case["budget"] == "eps":
        kw["eps"] = case["level"]; delta = case["level"] * torch.norm(Mt).item()
    else:
        delta = 0
    rec = []
    full = []
    orig = torch.linalg.svd

    def wrapped(A, *a, **k):
        out = orig(A, *a, **k); rec.append(out[1].detach().clone()); full.append((A.detach().clone(), [x.detach().clone() for x in out])); return out
    torch.linalg.svd = wrapped
    try:
        r = safe(lambda: tn.truncated_svd(Mt, **kw))
    finally:
        torch.linalg.svd = orig
    if r[0] == "err":
        ctx.oracle("truncated_svd raised %s: %s" % (r[1], r[2]), case); return
    if not rec:
        ctx.corr("torch.linalg.svd was not called", case); return
    S = rec[0]
    if float(S[0]) < 1e-13:
        ctx.count("skipped:zero matrix special case"); return
    S2 = (S ** 2)
    d2 = delta ** 2
    # near-ties between a float cumsum and the budget are not decidable by an exact model: discard and count
    cs = torch.cumsum(torch.flip(S2, [0]), 0).numpy()
    if np.any(np.abs(cs - d2) <= 1e-12 * max(1.0, float(cs[-1]))) and d2 > 0:
        ctx.count("discarded:near-tie"); return
    rmax = case["rmax"] if case["rmax"] is not None else 2147483647
    toks = ctx.drv().call("rank_select %d %s %s %d" % (len(S2), " ".join(q(v) for v in S2.numpy()), q(d2), rmax))
    if toks[0] != "ok":
        ctx.corr("model rank_select failed: %s" % " ".join(toks[:4]), case); return
    mr = int(toks[2])
    ir = r[1][0].shape[1]
    # ---- the kernel contract the Lean theorems assume (C05.SVDok / SVDok2), validated on the recorded call:
    #      A = U diag(S) Vh, U^T U = I, Vh Vh^T = I, S descending and non-negative
    A, (Uk, Sk, Vhk) = full[0]
    kk = Sk.shape[0]
    Uk, Vhk = Uk[:, :kk], Vhk[:kk, :]
    sc = max(1.0, float(Sk[0]))
    okc = float((Uk * Sk @ Vhk - A).abs().max()) <= 1e-10 * sc and float((Uk.T @ Uk - torch.eye(kk, dtype=Uk.dtype)).abs().max()) <= 1e-10 \
        and float((Vhk @ Vhk.T - torch.eye(kk, dtype=Uk.dtype)).abs().max()) <= 1e-10 and bool((Sk[:-1] >= Sk[1:]).all()) and float(Sk.min()) >= 0
    if not okc:
        ctx.corr("kernel contract SVDok does not hold for the recorded torch.linalg.svd call", case); return
    ctx.count("kernel contract SVDok validated")
    # ---- the conclusion of C05.truncation_right_factor / truncation_error on the real output: left @ right is the rank-r truncation
    #      of the kernel's SVD (of the matrix the kernel was given: M or its transpose)
    left, right = r[1][0], r[1][1]
    trunc = (Uk[:, :ir] * Sk[:ir]) @ Vhk[:ir, :]
    prod = left @ right
    if tuple(A.shape) != tuple(prod.shape):
        trunc = trunc.T
    if float((prod - trunc).abs().max()) > 1e-9 * sc:
        ctx.corr("left @ right differs from the rank-%d truncation of the kernel's SVD by %.3g" % (ir, float((prod - trunc).abs().max())), case); return
    err2 = float(((torch.tensor(M) - prod) ** 2).sum()); tail = float((Sk[ir:] ** 2).sum())
    if abs(err2 - tail) > 1e-9 * sc * sc:
        ctx.corr("||M - left@right||^2 = %.6g differs from the discarded tail %.6g (C05.truncation_error)" % (err2, tail), case); return
    ctx.count("truncation identity checked")
    if mr != ir:
        ctx.corr("truncated_svd chose rank %d, the model's rankSelect gives %d (S=%s, delta^2=%g, rmax=%s)" % (ir, mr, S.tolist(), d2, case["rmax"]), case)
