"""C01 — lossless compression round-trip and format independence."""
import numpy as np, torch, random
import core
from core import PT, gen_tensor, from_tn, parse_tensor, cmp_struct, close, q, safe, tn
from props.c02 import with_dd

RULE = ("dense arrays with 1..5 modes of size 1..4 (all-zero, singleton, generic; int and full-mantissa float64 entries) through "
        "Tensor(x): cores compared with the Lean model of _full_rank_tt bit-exactly; hybrid tensors (per-mode TT|CP × factor none|narrow|"
        "square|wide, rank-deficient and oversized ranks) through tt(), decompress_tucker_factors(all|subset), clone, transpose "
        "(structure-level vs model), orthogonalize(mu) and round*/default eps (dense-level); both default dtypes. "
        "distinct = (operation, format signature, shape, ranks); non-trivial = >1 mode or rank>1 or a factor")
TRUSTED = ["orthogonalize/round clauses are decided here only at the dense level; their models and theorems are C13/C04",
           "float rounding of the contraction itself (1e-9 scaled tolerance; 1e-10 after orthogonalisation/rounding at eps=1e-14)"]
ASSUMPTIONS = ["inputs are WFstd tensors (documented formats, outer TT ranks 1)"]

REEXPR = ["tt", "decomp", "decompsome", "clone", "transpose", "orthogonalize", "round", "round_tt", "round_tucker"]


def cases(rng, tier):
    n1 = {"quick": 120, "thorough": 2500, "search": 800}[tier]
    n2 = {"quick": 260, "thorough": 5000, "search": 1600}[tier]
    out = []
    for _ in range(n1):
        N = rng.choice([1, 2, 2, 3, 3, 4, 5])
        hi = 4 if N <= 3 else 3
        shape = [1 if rng.random() < 0.2 else rng.randint(1, hi) for _ in range(N)]
        kind = rng.choice(["int", "int", "float", "zero", "rank1"])
        out.append({"kind": "dense", "shape": shape, "fill": kind, "seed": rng.randrange(1 << 30), "dd": rng.choice(["float32", "float64"])})
    for _ in range(n2):
        N = rng.choice([1, 2, 2, 3, 3, 4, 5])
        hi = 4 if N <= 3 else 3
        stream = "int" if rng.random() < 0.5 else "float"
        shape = [1 if rng.random() < 0.15 else rng.randint(1, hi) for _ in range(N)]
        t = gen_tensor(rng, shape, rmax=4, stream=stream)
        op = rng.choice(REEXPR)
        c = {"kind": "reexpr", "op": op, "t": t.to_json(), "stream": stream, "dd": rng.choice(["float32", "float64", "float64"])}
        if op == "decompsome":
            c["bits"] = [rng.randint(0, 1) for _ in range(N)]
        if op == "orthogonalize":
            c["mu"] = rng.randint(-N, N - 1)
        if op in ("orthogonalize", "round", "round_tt", "round_tucker") and rng.random() < 0.5:
            # a component far below single precision but far above the default tolerance 1e-14: t + s*t2 with s in [1e-11, 1e-7]
            # ("rounding at the default machine-precision tolerance never changes the array", whatever the default dtype)
            c["tiny"] = {"s": 10 ** rng.uniform(-10, -7.5), "t2": gen_tensor(rng, shape, rmax=2, stream="float").to_json()}
            c["dd"] = rng.choice(["float32", "float32", "float64"])
        out.append(c)
    return out


def mk_dense(case):
    rng = random.Random(case["seed"])
    shape = case["shape"]
    n = int(np.prod(shape))
    f = case["fill"]
    if f == "int":
        x = np.array([rng.randint(-3, 3) for _ in range(n)], dtype=np.float64)
    elif f == "float":
        x = np.array([rng.gauss(0, 1) for _ in range(n)], dtype=np.float64)
    elif f == "zero":
        x = np.zeros(n)
    else:
        vs = [np.array([rng.randint(-2, 2) for _ in range(s)], dtype=np.float64) for s in shape]
        x = vs[0]
        for v in vs[1:]:
            x = np.multiply.outer(x, v)
        x = x.reshape(-1)
    return x.reshape(shape)


def accessors_ok(ctx, case, what, r, dense_shape):
    pt = from_tn(r)
    if tuple(r.shape) != tuple(dense_shape):
        ctx.oracle("%s: reported shape %s != decompressed shape %s" % (what, tuple(r.shape), tuple(dense_shape)), case)
    if tuple(int(v) for v in r.ranks_tt) != pt.ranks():
        ctx.oracle("%s: reported ranks_tt %s != bond sizes %s" % (what, list(r.ranks_tt), pt.ranks()), case)
    if tuple(int(v) for v in r.ranks_tucker) != pt.tranks():
        ctx.oracle("%s: reported ranks_tucker %s != core spatial sizes %s" % (what, list(r.ranks_tucker), pt.tranks()), case)


def run_case(ctx, case):
    use_model = getattr(ctx, "use_model", False) and not getattr(ctx, "search_only", False)
    if case["kind"] == "dense":
        x = mk_dense(case)
        res = with_dd(case["dd"], lambda: safe(lambda: tn.Tensor(torch.tensor(x, dtype=torch.float64))))
        ctx.case(("dense", tuple(case["shape"]), case["fill"], case["dd"]), len(case["shape"]) > 1,
                 {"op": "Tensor(x)", "shape": case["shape"], "fill": case["fill"], "default_dtype": case["dd"]})
        ctx.count("op:Tensor(x)"); ctx.count("N:%d" % len(case["shape"])); ctx.count("fill:" + case["fill"])
        if res[0] == "err":
            ctx.oracle("Tensor(x) raised %s: %s" % (res[1], res[2]), case); return
        r = res[1]
        d = with_dd(case["dd"], lambda: safe(lambda: r.torch().detach().double().numpy()))
        if d[0] == "err":
            ctx.oracle("Tensor(x).torch() raised %s: %s" % (d[1], d[2]), case); return
        ok, err = close(d[1], x, rtol=1e-12)
        if not ok:
            ctx.oracle("Tensor(x).torch() differs from x (%s)" % err, case)
        accessors_ok(ctx, case, "Tensor(x)", r, x.shape)
        if use_model:
            toks = ctx.drv().call("fullrank %d %s %s" % (len(case["shape"]), " ".join(map(str, case["shape"])), " ".join(q(v) for v in x.reshape(-1))))
            if toks[0] != "ok":
                ctx.corr("model fullrank failed: " + " ".join(toks[:6]), case); return
            m = parse_tensor(toks, 1)[0]
            dd = cmp_struct(from_tn(r), m, True)
            if dd is not None:
                ctx.corr("Tensor(x): implementation cores differ from the model of _full_rank_tt: " + dd, case)
            md = PT([np.asarray(c, dtype=np.float64) for c in m.cores]).dense()
            ok2, err2 = close(md, x, rtol=1e-12)
            if not ok2:
                ctx.spec("model fullRankTT does not reproduce x (%s)" % err2, case)
        return
    # re-expression
    t = PT.from_json(case["t"])
    op = case["op"]
    x = t.dense()
    exact = case["stream"] == "int"
    ctx.case((op, t.sig(), case["dd"], case.get("mu"), tuple(case.get("bits", []))), t.nontrivial(),
             {"op": op, "t": t.describe(), "default_dtype": case["dd"], "mu": case.get("mu"), "bits": case.get("bits")})
    ctx.count("op:" + op); ctx.count("dd:" + case["dd"])
    for k in set(t.kinds()):
        ctx.count("fmt:" + k)
    exp_override = None

    tiny = case.get("tiny")
    if tiny is not None:
        ctx.count("tiny_component")

    def impl():
        nonlocal exp_override
        tt = t.to_tn()
        if tiny is not None:
            tt = tt + tiny["s"] * PT.from_json(tiny["t2"]).to_tn()
            exp_override = from_tn(tt).dense()
        before = from_tn(tt)
        if op == "tt":
            r = tt.tt()
        elif op == "decomp":
            r = tt.decompress_tucker_factors()
        elif op == "decompsome":
            r = tt.decompress_tucker_factors(dim=[i for i, b in enumerate(case["bits"]) if b])
        elif op == "clone":
            r = tt.clone()
        elif op == "transpose":
            r = tn.transpose(tt)
        elif op == "orthogonalize":
            r = tt.clone(); r.orthogonalize(case["mu"])
        elif op == "round":
            r = tt.clone(); r.round()
        elif op == "round_tt":
            r = tt.clone(); r.round_tt()
        elif op == "round_tucker":
            r = tt.clone(); r.round_tucker()
        return r, r.torch().detach().double().numpy(), from_tn(tt), before

    res = with_dd(case["dd"], lambda: safe(impl))
    if res[0] == "err":
        ctx.oracle("%s raised %s: %s" % (op, res[1], res[2]), case); ctx.count("impl_raise:" + res[1]); return
    r, got, after, before = res[1]
    if exp_override is not None:
        x = exp_override
    exp = x.transpose() if op == "transpose" else x
    # orthogonalisation and rounding at eps=1e-14 (algorithm 'svd') lose a few ulps per sweep, nothing more
    tol = 1e-9 if op in ("tt", "decomp", "decompsome", "clone", "transpose") else 1e-10
    ok, err = close(got, exp, rtol=tol)
    if not ok:
        ctx.oracle("%s changed the decompressed array (%s)" % (op, err), case); ctx.count("oracle_mismatch")
    accessors_ok(ctx, case, op, r, exp.shape)
    if cmp_struct(after, before, True) is not None:
        ctx.oracle("%s modified its operand" % op, case)
    if use_model and op in ("tt", "decomp", "decompsome", "clone", "transpose"):
        if op == "clone":
            m = t
        else:
            arg = ("decompsome %d %s " % (len(case["bits"]), " ".join(map(str, case["bits"])))) if op == "decompsome" else op + " "
            toks = ctx.drv().call(arg + t.ser())
            if toks[0] != "ok":
                ctx.corr("model %s failed: %s" % (op, " ".join(toks[:6])), case); return
            m = parse_tensor(toks, 1)[0]
        dd = cmp_struct(from_tn(r), m, exact)
        if dd is not None:
            ctx.corr("%s: implementation cores differ from model cores: %s" % (op, dd), case); ctx.count("corr_mismatch")
        md = PT([np.asarray(c, dtype=np.float64) for c in m.cores], [None if U is None else np.asarray(U, dtype=np.float64) for U in m.Us]).dense()
        ok2, err2 = close(md, exp, rtol=1e-9)
        if not ok2:
            ctx.spec("model %s changes the dense array (%s)" % (op, err2), case)
