"""C09 — Sobol indices equal their variance-decomposition definition (oracle search on the real code)."""
import itertools, random
import numpy as np, torch
import core
from core import PT, gen_tensor, from_tn, cmp_struct, close, safe, tn, amax
from props.c02 import with_dd
from props import _c_anova as A
from props import c15 as L
from props.c10 import gen_marginals, marg_kind, to_torch_marginals, as_np

RULE = ("hybrid tensors (per-mode TT|CP x factor none|narrow|square|wide, ranks <= 3; int and float streams) with 2..5 modes of size 2..5 "
        "(<= 1300 entries); marginals None or per mode None | positive vector | vector with some zero weights, normalised or scaled by an "
        "arbitrary positive constant; cases whose total variance is below 1e-6*max|t|^2 are skipped (counted). Brute-force oracle: "
        "inclusion-exclusion ANOVA of the dense array under the normalised product measure, D_S for all 2^N subsets. Per case: "
        "sobol(t, mask, marginals[, normalize=False]) for masks = random Boolean formula over tn.symbols (optionally rounded -> Tucker "
        "factors), x_n (total index), only(x_n) (variance component), any(N), weight_mask(N,k), weight(N), weight_one_hot(N) (vector result), "
        "a small-integer weighting tensor in a random hybrid format; corollaries on the returned values: 0/1 masks in [0,1], additivity over "
        "the disjoint pair (m, f & ~m), any = 1, total >= component, dimension_distribution sums to 1, mean_dimension = sum |S| D_S / Var >= 1; "
        "mean_dimension / dimension_distribution with mask and order arguments; every call gets fresh copies of the marginals, which are "
        "compared with the originals afterwards (bit-exact), as are the tensor's cores. Default dtype float64 (1e-8 absolute on indices, "
        "which are O(1) ratios); float32 default for 8% of the cases (float64 tensor and float64 masks while torch's default dtype is its "
        "factory setting float32; 1e-5). "
        "distinct = (format signature, shape, ranks, marginal kinds, mask formula, dd); non-trivial: always (>= 2 modes)")
TRUSTED = ["the NumPy inclusion-exclusion ANOVA (props/_c_anova.py) on PT.dense() is the oracle",
           "float64 round-off: with Var >= 1e-6*max|t|^2 the ratio of two inner products is accurate to ~1e-10; masked denominators below 1e-6 of "
           "the variance are skipped for mean_dimension/dimension_distribution with mask"]
ASSUMPTIONS = ["inputs are WFstd tensors; marginal vectors are non-negative float64 torch vectors with positive sum",
               "masks have shape 2^N; Boolean masks are built with the documented logic/automata constructors"]


def diff_tree(f, f2):
    return ["and", f2, ["not", f]]


def union_tree(f, f2):
    return ["or", f, diff_tree(f, f2)]


def cases(rng, tier):
    n = {"quick": 400, "thorough": 3000, "search": 850}[tier]
    out = []
    for _ in range(n):
        while True:
            N = rng.choice([2, 2, 3, 3, 3, 4, 4, 5])
            shape = [rng.randint(2, 5) for _ in range(N)]
            if int(np.prod(shape)) <= 1300:
                break
        stream = "int" if rng.random() < 0.5 else "float"
        t = gen_tensor(rng, shape, stream=stream)
        if rng.random() < 0.15:
            # Sobol indices do not depend on the scale of the model: small-magnitude tensors (variance far below 1) must give the same indices
            sc = 10.0 ** -rng.choice([3, 4, 6, 9])
            t = PT([np.asarray(t.cores[0], dtype=np.float64) * sc] + list(t.cores[1:]), t.Us)
            stream = "float"
        wm = gen_tensor(rng, [2] * N, rmax=2, stream="int") if rng.random() < 0.3 else None
        mround = rng.random() < 0.3
        while True:   # un-rounded masks: keep the formal TT rank of the largest mask (the union used for additivity) moderate
            fo, fo2 = L.rnd_tree(rng, N, rng.randint(1, 3)), L.rnd_tree(rng, N, rng.randint(1, 2))
            if L.pred_rank(union_tree(fo, fo2)) <= 250:
                break
        out.append({"t": t.to_json(), "stream": stream, "marginals": gen_marginals(rng, shape, p_none=0.25, p_zero=0.2),
                    "formula": fo, "formula2": fo2,
                    "mask_round": mround, "var": rng.randrange(N), "k": rng.randint(1, N), "order": rng.randint(1, N),
                    "wmask": None if wm is None else wm.to_json(), "dd": "float32" if rng.random() < 0.08 else "float64"})
    return out


def in_class(case, t):
    if case["dd"] == "float32":
        return "float64 tensor under default dtype float32"
    kinds = t.kinds()
    cores = "CP" if all(k.startswith("cp") for k in kinds) else ("TT" if all(k.startswith("tt") for k in kinds) else "TT+CP")
    fac = "with Tucker factors" if any(U is not None for U in t.Us) else "no factors"
    m = case["marginals"]
    mk = "None" if m is None else ("given, some zero weights" if any(v is not None and min(v) == 0.0 for v in m) else "given, positive")
    return "cores %s, %s; marginals %s" % (cores, fac, mk)


def run_case(ctx, case):
    t = PT.from_json(case["t"])
    N, shape, dd = t.N, t.shape, case["dd"]
    x = t.dense()
    w = A.norm_marginals(shape, case["marginals"])
    terms, D = A.term_variances(x, w)
    var, mean = A.total_variance(x, w)
    scale = amax(x) if amax(x) < 1e-2 else max(1.0, amax(x))      # small-magnitude models are judged relative to their own size
    ctx.count("N:%d" % N); ctx.count("dd:" + dd)
    if scale < 1e-2:
        ctx.count("small-magnitude model")
    if not (scale > 0 and var >= 1e-6 * scale ** 2):
        ctx.count("skipped: total variance below 1e-6 max|t|^2")
        return
    tol = 1e-8 if dd == "float64" else 1e-5
    pcls = in_class(case, t)
    unnorm = case["marginals"] is not None and any(v is not None and abs(sum(v) - 1.0) > 1e-12 for v in case["marginals"])
    ctx.case((t.sig(), marg_kind(case["marginals"]), repr(case["formula"]), case["mask_round"], dd), True,
             {"t": t.describe(), "marginals": marg_kind(case["marginals"]), "formula": case["formula"], "mask_round": case["mask_round"],
              "weighting_mask": case["wmask"] is not None, "default_dtype": dd})
    ctx.count("marginals:" + ("None" if case["marginals"] is None else ("unnormalised" if unnorm else "normalised")))
    ctx.count("stream:" + case["stream"])
    for k in set(t.kinds()):
        ctx.count("fmt:" + k)
    subs = [S for S in A.subsets(N) if S]
    Dk = [sum(D[S] for S in subs if len(S) == k) for k in range(N + 1)]       # Dk[0] = 0
    X = L.grid(N)
    tt = t.to_tn()
    before = from_tn(tt)
    state = {"modified_reported": False, "f32_reported": False}

    def base(op):
        return op.split("(")[0]

    def fail(op, what, predicate=None):
        """cls names the function (variants such as normalize=False / mask / order only appear in the message)"""
        ctx.count("fail:" + op)
        ctx.oracle("%s: %s" % (op, what), case, cls={"op": base(op), "predicate": predicate or pcls})

    def call(op, fn, mextra=""):
        """fn(marginals) on fresh copies of the marginals; reports raises, modified marginals, modified tensor"""
        marg = to_torch_marginals(case["marginals"])
        marg0 = to_torch_marginals(case["marginals"])
        r = with_dd(dd, lambda: safe(lambda: fn(marg)))
        if marg is not None and any(m is not None and not torch.equal(m, m0) for m, m0 in zip(marg, marg0)):
            ctx.count("marginals modified by " + op)
            # every entry point goes through sobol: one report per case, attributed to the first entry point seen modifying
            if not state["modified_reported"]:
                state["modified_reported"] = True
                ctx.oracle("%s modified the caller's marginal vectors (normalised them in place)" % op, case,
                           cls={"op": base(op), "predicate": "marginals given and not summing exactly to 1: the caller's arrays are normalised in place"})
        if cmp_struct(from_tn(tt), before, True) is not None:
            fail(op, "modified the cores/factors of its tensor operand", "tensor operand modified; " + pcls)
        if r[0] == "err":
            ctx.count("impl_raise:%s:%s" % (op, r[1]))
            if dd == "float32":
                if not state["f32_reported"]:     # one report per case: every later call fails for the same reason
                    state["f32_reported"] = True
                    ctx.oracle("%s raised %s: %s" % (op, r[1], r[2]), case, cls={"op": base(op), "predicate": pcls + " (raises %s)" % r[1]})
            else:
                ctx.oracle("%s raised %s: %s" % (op, r[1], r[2]), case, cls={"op": base(op), "predicate": pcls + mextra + " (raises %s)" % r[1]})
            return None
        return r[1]

    def num(v):
        return as_np(v)

    def agrees(g, e, sc=1.0):
        return g.shape == e.shape and bool(np.all(np.isfinite(g))) and \
            float(np.max(np.abs(g - e), initial=0.0)) <= tol * max(sc, float(np.max(np.abs(e), initial=0.0)))

    def check(op, got, exp, mextra="", pred=None, sc=1.0):
        """pred: optional thunk giving the class predicate (differential diagnosis, evaluated only on failure)"""
        if got is None:
            return False
        g = num(got)
        e = np.asarray(exp, dtype=np.float64)
        if agrees(g, e, sc):
            return True
        p = pred() if pred is not None else pcls + mextra
        if g.shape != e.shape:
            fail(op, "result has shape %s, expected %s" % (g.shape, e.shape), p)
        else:
            fail(op, "got %s, brute-force value %s" % (np.array2string(g, precision=10), np.array2string(e, precision=10)), p)
        return False

    def weighted(tab):
        """sum_S mask(S) D_S over non-empty S, mask given as an array of shape 2^N"""
        return sum(float(tab[A.indicator(N, S)]) * D[S] for S in subs)

    # ---- masks: (name, builder, table, is01, class suffix)
    def formula_mask(tree, rounded):
        m = L.build(tree, N, tn.symbols(N), None)
        if rounded:
            m = m.clone(); m.round()
        return m

    f1 = L.spec(case["formula"], N, X)
    f2 = L.spec(case["formula2"], N, X) & ~f1           # disjoint from f1
    n0, k = case["var"], case["k"]
    S_sizes = sum(xx.astype(int) for xx in X)
    masks = [("formula", lambda: formula_mask(case["formula"], case["mask_round"]), f1.astype(float), True),
             ("formula2 & ~formula", lambda: formula_mask(diff_tree(case["formula"], case["formula2"]), case["mask_round"]), f2.astype(float), True),
             ("formula | (formula2 & ~formula)", lambda: formula_mask(union_tree(case["formula"], case["formula2"]), case["mask_round"]), (f1 | f2).astype(float), True),
             ("x_n", lambda: tn.symbols(N)[n0], X[n0].astype(float), True),
             ("only(x_n)", lambda: tn.only(tn.symbols(N)[n0]), (X[n0] & (S_sizes == 1)).astype(float), True),
             ("any(N)", lambda: tn.any(N), (S_sizes >= 1).astype(float), True),
             ("weight_mask(N,k)", lambda: tn.weight_mask(N, k), (S_sizes == k).astype(float), True),
             ("weight(N)", lambda: tn.weight(N), S_sizes.astype(float), False)]
    if case["wmask"] is not None:
        wm = PT.from_json(case["wmask"])
        masks.append(("weighting tensor", lambda: wm.to_tn(), wm.dense(), False))
    vals = {}
    for name, mk, tab, is01 in masks:
        mres = with_dd("float64", lambda: safe(mk))     # masks are always float64 tensors: only the routine under test sees `dd`
        if mres[0] == "err" or not close(as_np(mres[1]), tab, rtol=tol)[0]:
            ctx.count("mask_unusable:" + name)     # Boolean formulas / automata are C15/C16's business
            continue
        mask = mres[1]
        if name == "weighting tensor":
            lc = mask.cores[-1]
            mextra = "; mask = weighting tensor in a hybrid format, last mask core " + (
                "TT" if lc.dim() == 3 else ("CP of rank 1" if lc.shape[-1] == 1 else "CP of rank > 1"))
        else:
            mextra = "; mask " + ("with Tucker factors (e.g. after round())" if any(U is not None for U in mask.Us) else "plain TT")
        ctx.count("mask:" + name)
        exp = weighted(tab) / var

        def diag(normalize=True, e=exp, sc=1.0):
            """names the class only: if the same call passes with a plain-TT copy of the mask, the mask's format is the predicate"""
            if name != "weighting tensor" and not any(U is not None for U in mask.Us):
                return pcls + mextra
            plain = with_dd("float64", lambda: tn.Tensor(torch.tensor(np.asarray(tab, dtype=np.float64))))
            r = with_dd(dd, lambda: safe(lambda: as_np(tn.sobol(tt, plain, marginals=to_torch_marginals(case["marginals"]), normalize=normalize))))
            return mextra[2:] if (r[0] == "ok" and agrees(r[1], np.asarray(e, dtype=np.float64), sc)) else pcls + mextra

        got = call("sobol", lambda marg: tn.sobol(tt, mask, marginals=marg), mextra)
        if check("sobol", got, exp, mextra, pred=diag):
            vals[name] = float(num(got))
            if is01 and not (-tol <= vals[name] <= 1 + tol):
                fail("sobol", "index of a 0/1 mask outside [0,1]: %r" % vals[name], pcls + mextra)
        if name in ("formula", "weight(N)", "weighting tensor"):
            got = call("sobol(normalize=False)", lambda marg: tn.sobol(tt, mask, marginals=marg, normalize=False), mextra)
            e2 = weighted(tab)
            check("sobol(normalize=False)", got, e2, mextra, pred=lambda: diag(False, e2, scale ** 2), sc=scale ** 2)
    # corollaries on the implementation's own values
    if all(n in vals for n in ("formula", "formula2 & ~formula", "formula | (formula2 & ~formula)")):
        if abs(vals["formula"] + vals["formula2 & ~formula"] - vals["formula | (formula2 & ~formula)"]) > 3 * tol:
            fail("sobol", "not additive over disjoint masks")
    if "any(N)" in vals and abs(vals["any(N)"] - 1.0) > tol:
        fail("sobol", "index of 'any variable' is %r, not 1" % vals["any(N)"])
    if "x_n" in vals and "only(x_n)" in vals and vals["x_n"] < vals["only(x_n)"] - tol:
        fail("sobol", "total index %r below the variance component %r" % (vals["x_n"], vals["only(x_n)"]))

    # ---- vector-valued mask: weight_one_hot
    oh = with_dd("float64", lambda: tn.weight_one_hot(N, N + 1))
    got = call("sobol(weight_one_hot)", lambda marg: tn.sobol(tt, oh, marginals=marg))
    check("sobol(weight_one_hot)", got, np.array(Dk) / var)

    # ---- mean dimension, dimension distribution
    md_exp = sum(len(S) * D[S] for S in subs) / var
    got = call("mean_dimension", lambda marg: tn.mean_dimension(tt, marginals=marg))
    if check("mean_dimension", got, md_exp) and float(num(got)) < 1 - tol:
        fail("mean_dimension", "mean dimension %r below 1" % float(num(got)))
    got = call("dimension_distribution", lambda marg: tn.dimension_distribution(tt, marginals=marg))
    if check("dimension_distribution", got, np.array(Dk[1:]) / var) and abs(float(num(got).sum()) - 1.0) > tol:
        fail("dimension_distribution", "does not sum to 1")
    order = case["order"]
    got = call("dimension_distribution(order)", lambda marg: tn.dimension_distribution(tt, order=order, marginals=marg))
    check("dimension_distribution(order)", got, np.array(Dk[1:order + 1]) / var)
    # with a mask
    den = weighted(f1.astype(float))
    if den >= 1e-6 * var:
        mres = with_dd("float64", lambda: safe(lambda: formula_mask(case["formula"], case["mask_round"])))
        if mres[0] == "ok" and close(as_np(mres[1]), f1.astype(float), rtol=tol)[0]:
            mask = mres[1]
            mextra = "; mask " + ("with Tucker factors (e.g. after round())" if any(U is not None for U in mask.Us) else "plain TT")
            got = call("mean_dimension(mask)", lambda marg: tn.mean_dimension(tt, mask=mask, marginals=marg), mextra)
            check("mean_dimension(mask)", got, sum(len(S) * D[S] for S in subs if f1[A.indicator(N, S)]) / den, mextra)
            dexp = np.array([sum(D[S] for S in subs if len(S) == kk and f1[A.indicator(N, S)]) for kk in range(1, N + 1)]) / den
            got = call("dimension_distribution(mask)", lambda marg: tn.dimension_distribution(tt, mask=mask, marginals=marg), mextra)
            check("dimension_distribution(mask)", got, dexp, mextra)
            got = call("dimension_distribution(mask, order)", lambda marg: tn.dimension_distribution(tt, mask=mask, order=order, marginals=marg), mextra)
            check("dimension_distribution(mask, order)", got, dexp[:order], mextra)
    else:
        ctx.count("masked denominators skipped")

    # hook: structural correspondence with the Lean model
    if getattr(ctx, "use_model", False) and not getattr(ctx, "search_only", False):
        pass  # MODEL HOOK (main session): model of sobol's extended tensor / masked tensor vs core.from_tn(...) of the implementation's
