"""C08 — cross-approximation interpolates, samples only the grid, recovers representable targets; operators and
min/max estimates routed through cross (tntorch/cross.py, ops.py, tensor.py).

Oracle search on the real code: every cross run is replayable (NumPy and torch RNGs seeded from the case), the sampled
function is wrapped to record its arguments, and results are compared with dense NumPy/PyTorch evaluations on the whole grid.
"""
import io
import math
import random
import logging
import contextlib
import numpy as np
import torch
import core
from core import PT, gen_tensor, close, safe, tn
from props.c02 import with_dd

RULE = ("grids with 2..5 modes of size 3..8 (<= 6000 points). targets: (tensors) polynomial functions of 1..3 random hybrid-format tensors "
        "(TT|CP cores, optional Tucker factors, Gaussian entries, ranks 1..3): identity, 2x+1, x^2, a*b, a+b, a-2b, a*b*c, a+b*c, a*b+c; "
        "(domain) functions of the coordinates on random domain vectors: sum, product, x0*x1+rest, (sum)^2, cos(sum), exp(sum/N); their exact "
        "TT ranks r_j are computed numerically from the dense target (SVD of unfoldings, gap 1e-9) and the run is given ranks_tt = r (tight list), "
        "max r + 0..2 (over-ranked int) or rank-adaptive (kickrank 1..3, rmax = max r + {0,2,100}) with eps in {1e-6 default, 1e-10}; function_arg "
        "vectors|matrix; (spiky) plain-TT arguments whose exact rank profile has one interior bond of rank 3..4 between bonds of rank 1, run with the "
        "cap equal to the largest exact rank (fixed int or adaptive rmax); "
        "(generic) non-representable functions at fixed small ranks — interpolation and grid clauses only; (ops) a/b, c/a, a**p, tn.<unary> for the 19 "
        "unary and 5 binary wrappers of ops.py on rank-1 positive tensors with entries in (0.3,0.95); (minmax) tn.minimum/argmin/maximum/argmax and "
        "cross(_minimize=True) on tensors and domains. NumPy and torch RNGs are seeded from case['seed'] before every cross call. "
        "distinct = (kind, function, shape, formats/ranks of the arguments, rank mode, eps, function_arg, seed); non-trivial = always (>= 2 modes). "
        "Model side: every cross run records the pivots returned by py_maxvol / py_rect_maxvol; the driver command cross_rsets rebuilds all "
        "right index sets from the last sweep's pivots (Model/Cross.lean rsetsOf) and they are compared exactly with info['rsets']; the "
        "hypotheses of C08.cross_interpolates (identity on pivot columns to 1e-9, first core = function values to 1e-12) are validated on the "
        "returned cores (histogram theorem_hypotheses:*)")
TRUSTED = ["recovery of a representable target is conditional on the quality of the maxvol pivots for the given seed (floating-point pivoting heuristics, "
           "outside any model): a recovery with relative max-norm error in (1e-6, 1e-3] is COUNTED (hist key recovery_soft_fail:*) and not reported; only "
           "clear failures (> 1e-3) are reported as violations of the 'for every seed' clause; their class names the slack profile of the run (cap "
           "minus exact rank per bond: none anywhere / some everywhere / a capped bond next to an over-estimated one), which is a function of the "
           "input only. Interpolation on the rsets[0] fibres (1e-8) and the grid-only clause are unconditional and always reported",
           "cross_forward (re-applies the interpolation formula on the returned index sets) is exercised on a third of the tensors= cases as an "
           "additional observable and reported under its own op",
           "operators through cross are compared at 1e-4 relative max-norm (the routines stop at validation error 1e-6 on 1000 random grid points; on "
           "grids this small the rank-adaptive sweep reaches full rank, where the interpolation is exact)",
           "the wrapped function records the arguments it receives; for domain targets membership of every coordinate in the domain vector is exact "
           "(meshgrid cores are the vectors padded with ones); for tensors= targets the sampled tuples must be within 1e-9 (scaled) of the tuple of "
           "entries of the argument tensors at one common grid position (k-d tree over the dense entries)",
           "info['min'] goes through tan(pi/2 - (pi/2 - atan(x - m))) + m, so 'attained value' is checked to 1e-6 relative, not bit-exactly",
           "torch/NumPy element-wise functions and SVD used by the oracle"]
ASSUMPTIONS = ["default dtype float64 (as in tests/test_cross.py); float64 argument tensors and domains",
               "the pure-Python maxvol of tntorch/maxvol.py is the one in use (maxvolpy is not installed)",
               "targets are generic (Gaussian cores / random domain points), so the exact TT ranks have a clear numerical gap"]

# ------------------------------------------------------------------------------------------------ functions
TFN = {  # name: (K, f on a list of K torch arrays)
    "identity": (1, lambda x: x), "affine": (1, lambda x: 2 * x + 1), "square": (1, lambda x: x * x),
    "mul": (2, lambda a, b: a * b), "add": (2, lambda a, b: a + b), "a-2b": (2, lambda a, b: a - 2 * b),
    "a*b*c": (3, lambda a, b, c: a * b * c), "a+b*c": (3, lambda a, b, c: a + b * c), "a*b+c": (3, lambda a, b, c: a * b + c),
}
DFN = {  # functions of all N coordinates, exactly TT-representable with small ranks
    "sum": lambda *x: sum(x), "prod": lambda *x: math.prod(x), "x0*x1+rest": lambda *x: x[0] * x[1] + sum(x[2:]),
    "sum^2": lambda *x: sum(x) ** 2, "cos(sum)": lambda *x: torch.cos(sum(x)), "exp(mean)": lambda *x: torch.exp(sum(x) / len(x)),
}
GFN = {  # generic, not low-rank: only the unconditional clauses are checked
    "1/(1+sumsq)": lambda *x: 1.0 / (1.0 + sum(v * v for v in x)), "sin(prod)": lambda *x: torch.sin(math.prod(x)),
    "sqrt(1+sumsq)": lambda *x: torch.sqrt(1.0 + sum(v * v for v in x)),
}
UNARY = ["abs", "acos", "asin", "cos", "cosh", "erf", "erfinv", "exp", "log", "log10", "log2", "reciprocal", "rsqrt", "sigmoid", "sin",
         "sinh", "sqrt", "tan", "tanh"]
BINARY = ["add", "atan2", "div", "mul", "pow"]
OPERATORS = ["t1/t2", "c/t", "t**p", "t/c"]


def gen_shape(rng, N, cap=6000):
    while True:
        hi = 8 if N <= 3 else (6 if N == 4 else 5)
        sh = [rng.randint(3, hi) for _ in range(N)]
        if int(np.prod(sh)) <= cap:
            return sh


def cases(rng, tier):
    mult = {"quick": 2, "thorough": 15, "search": 5}[tier]
    out = []

    def common():
        return {"seed": rng.randrange(1 << 30), "farg": rng.choice(["vectors", "vectors", "matrix"])}

    def rank_mode(c):
        c["mode"] = rng.choice(["tight", "over", "over", "adaptive", "adaptive"])
        c["extra"] = rng.randint(0, 2)
        c["kick"] = rng.choice([1, 2, 3, 3])
        c["rmax_extra"] = rng.choice([0, 2, 100])
        c["eps"] = rng.choice([None, None, 1e-10])
        c["val_size"] = rng.choice([None, None, 200, 50])
        c["record"] = rng.random() < 0.25

    for _ in range(70 * mult):                       # functions of tensors
        N = rng.choice([2, 3, 3, 4, 4, 5])
        shape = gen_shape(rng, N)
        fn = rng.choice(list(TFN))
        K = TFN[fn][0]
        rm = 3 if K == 1 else 2
        plain = rng.random() < 0.35                   # plain TT (no CP cores, no Tucker factors) or random hybrid formats
        ts = [gen_tensor(rng, shape, fmt=[("tt", None)] * N if plain else None, rmax=rm, stream="float").to_json() for _ in range(K)]
        c = dict(common(), kind="tensors", fn=fn, shape=shape, tensors=ts, forward=rng.random() < 0.3)
        rank_mode(c)
        c["record"] = rng.random() < 0.08
        out.append(c)
    for _ in range(60 * mult):                       # rank profile with a spike: interior bond needs rank r, its neighbours rank 1..2
        N = rng.choice([3, 4, 4, 4, 5])
        shape = gen_shape(rng, N)
        if N >= 4:
            shape = [max(4, v) for v in shape]
        K = rng.choice([1, 2, 2])
        j = rng.randrange(1, N - 2) if N > 3 else rng.randrange(N - 1)          # the bond carrying the spike (interior when N >= 4)
        ts = []
        for _k in range(K):
            prof = [1] * (N - 1)
            prof[j] = rng.choice([3, 4]) if K == 1 else 2
            rk = [1] + prof + [1]
            ts.append(PT([core.rnd_entries(rng, (rk[i], shape[i], rk[i + 1]), "float") for i in range(N)]).to_json())
        c = dict(common(), kind="tensors", fn="identity" if K == 1 else "mul", shape=shape, tensors=ts, forward=False, spiky=True)
        rank_mode(c)
        c.update(mode=rng.choice(["over", "adaptive"]), extra=0, kick=1, rmax_extra=0, record=False)
        out.append(c)
    for _ in range(50 * mult):                       # functions on a domain
        N = rng.choice([2, 3, 3, 4, 4, 5])
        shape = gen_shape(rng, N)
        dom = []
        for s in shape:
            if rng.random() < 0.5:
                a = rng.uniform(-2, 1); b = a + rng.uniform(0.5, 3)
                dom.append([a + (b - a) * i / (s - 1) for i in range(s)])
            else:
                dom.append(rng.sample([round(-2 + 0.05 * i, 2) for i in range(81)], s))
        c = dict(common(), kind="domain", fn=rng.choice(list(DFN)), shape=shape, domain=dom)
        rank_mode(c)
        out.append(c)
    for _ in range(16 * mult):                       # generic functions: interpolation + grid only
        N = rng.choice([2, 3, 4])
        shape = gen_shape(rng, N)
        dom = [[rng.uniform(-1.5, 1.5) for _ in range(s)] for s in shape]
        out.append(dict(common(), kind="generic", fn=rng.choice(list(GFN)), shape=shape, domain=dom, ranks=rng.randint(1, 4),
                        max_iter=rng.randint(1, 3), adaptive=rng.random() < 0.3, record=rng.random() < 0.3))
    ops = [("unary", u) for u in UNARY] + [("binary", b) for b in BINARY] + [("operator", o) for o in OPERATORS] * 5
    rng.shuffle(ops)
    for kind, name in (ops * 2 * mult)[: 60 * mult]:     # operators through cross
        N = rng.choice([2, 3, 3, 4])
        shape = [rng.randint(3, 6 if N < 4 else 4) for _ in range(N)]
        out.append({"seed": rng.randrange(1 << 30), "kind": "ops", "opkind": kind, "name": name, "shape": shape,
                    "scalar": rng.choice([2, 3, 0.5, 2.5, -1.5, 1, -1, -2, -0.5]), "fmt": rng.choice(["tt", "cp", "tucker"])})
    for _ in range(16 * mult):                       # min / max
        N = rng.choice([2, 3, 3, 4])
        shape = gen_shape(rng, N, cap=1500)
        src = rng.choice(["tensors", "tensors", "domain"])
        c = {"seed": rng.randrange(1 << 30), "kind": "minmax", "which": rng.choice(["min", "max"]), "shape": shape, "src": src,
             "rmax": rng.choice([3, 4, 6, None]), "max_iter": rng.choice([2, 3, 4]), "farg": rng.choice(["vectors", "vectors", "matrix"]),
             "int_entries": rng.random() < 0.3}
        if src == "tensors":
            c["fn"] = rng.choice(["identity", "identity", "mul", "a-2b", "square"])
            stream = "int" if c["int_entries"] else "float"
            c["tensors"] = [gen_tensor(rng, shape, rmax=3, stream=stream).to_json() for _ in range(TFN[c["fn"]][0])]
        else:
            c["fn"] = rng.choice(["sum", "x0*x1+rest", "1/(1+sumsq)", "sin(prod)"])
            c["domain"] = [[rng.uniform(-1.5, 1.5) for _ in range(s)] for s in shape]
        out.append(c)
    return out


# ------------------------------------------------------------------------------------------------ helpers
def seed_all(seed):
    np.random.seed(seed % (1 << 32))
    torch.manual_seed(seed)


@contextlib.contextmanager
def record_maxvol(calls):
    """record the pivots returned by the maxvol routines cross() imports at call time (tntorch.maxvol.py_maxvol / py_rect_maxvol)"""
    import tntorch.maxvol as mv
    o1, o2 = mv.py_maxvol, mv.py_rect_maxvol

    def w1(*a, **k):
        r = o1(*a, **k); calls.append(np.array(r[0]).copy()); return r

    def w2(*a, **k):
        r = o2(*a, **k); calls.append(np.array(r[0]).copy()); return r
    mv.py_maxvol, mv.py_rect_maxvol = w1, w2
    try:
        yield
    finally:
        mv.py_maxvol, mv.py_rect_maxvol = o1, o2


def quiet(fn):
    """run fn with stdout swallowed (cross prints a maxvolpy hint on every call) and logging warnings silenced"""
    prev = logging.root.manager.disable
    logging.disable(logging.CRITICAL)
    try:
        with contextlib.redirect_stdout(io.StringIO()):
            return fn()
    finally:
        logging.disable(prev)


def T(x):
    return torch.tensor(np.asarray(x, dtype=np.float64), dtype=torch.float64)


def num(x):
    return x.detach().cpu().double().numpy() if isinstance(x, torch.Tensor) else np.asarray(x, dtype=np.float64)


def tt_ranks(F, gap=1e-9):
    """numerical TT ranks of a dense array (ranks of the unfoldings)"""
    rs = []
    for j in range(1, F.ndim):
        s = np.linalg.svd(F.reshape(int(np.prod(F.shape[:j])), -1), compute_uv=False)
        rs.append(int(np.sum(s > gap * max(s[0], 1e-300))))
    return rs


class Recorder:
    """wraps the sampled function in the calling convention under test and records every argument tuple"""

    def __init__(self, f, K, farg):
        self.f, self.K, self.farg = f, K, farg
        self.calls = []
        self.bad = None

    def __call__(self, *args):
        if self.farg == "matrix":
            if len(args) != 1 or args[0].dim() != 2 or args[0].shape[1] != self.K:
                self.bad = "matrix convention: received %s" % ([tuple(a.shape) for a in args],)
                raise RuntimeError(self.bad)
            X = args[0]
            cols = [X[:, k] for k in range(self.K)]
        else:
            if len(args) != self.K or any(a.dim() != 1 for a in args) or len({a.shape[0] for a in args}) != 1:
                self.bad = "vectors convention: received %s" % ([tuple(a.shape) for a in args],)
                raise RuntimeError(self.bad)
            cols = list(args)
        self.calls.append(np.stack([num(c) for c in cols], axis=1))
        return self.f(*cols)

    def samples(self):
        return np.concatenate(self.calls, axis=0) if self.calls else np.zeros((0, self.K))


def grid_violation(samples, domain=None, entries=None):
    """None, or a description of a sampled point that is not a grid point"""
    if samples.shape[0] == 0:
        return None
    if domain is not None:
        for k, d in enumerate(domain):
            okk = np.isin(samples[:, k], np.asarray(d, dtype=np.float64))
            if not np.all(okk):
                i = int(np.argmin(okk))
                return "coordinate %d of sample %s is not an entry of the domain vector" % (k, samples[i].tolist())
        return None
    from scipy.spatial import cKDTree
    scale = max(1.0, float(np.max(np.abs(entries))))
    dist, _ = cKDTree(entries).query(samples)
    i = int(np.argmax(dist))
    if dist[i] > 1e-9 * scale * math.sqrt(entries.shape[1]):
        return "sampled argument tuple %s is at distance %.3g from every tuple of entries of the argument tensors" % (samples[i].tolist(), dist[i])
    return None


def build_target(case):
    """returns dict: kwargs for cross (tensors= or domain=), dense arrays of the arguments, K, f, F (dense target)"""
    if "tensors" in case:
        K, f = TFN[case["fn"]]
        pts = [PT.from_json(t) for t in case["tensors"]]
        dense = [p.dense() for p in pts]
        kw = {"tensors": [p.to_tn() for p in pts] if (K > 1 or case["seed"] % 2) else pts[0].to_tn()}
        desc = {"tensors": [p.describe() for p in pts]}
        src = "tensors"
    else:
        dom = [np.asarray(d, dtype=np.float64) for d in case["domain"]]
        K = len(dom)
        f = DFN.get(case["fn"]) or GFN[case["fn"]]
        dense = list(np.meshgrid(*dom, indexing="ij"))
        kw = {"domain": [T(d) for d in dom]}
        desc = {"domain_sizes": [len(d) for d in dom]}
        src = "domain"
    F = num(f(*[T(d) for d in dense]))
    return {"kw": kw, "dense": dense, "K": K, "f": f, "F": F, "desc": desc, "src": src,
            "domain": None if src == "tensors" else [np.asarray(d, dtype=np.float64) for d in case["domain"]]}


def relerr(got, want):
    if got.shape != want.shape or not np.all(np.isfinite(got)):
        return float("inf")
    return float(np.max(np.abs(got - want))) / max(float(np.max(np.abs(want))), 1e-300)


# ------------------------------------------------------------------------------------------------ run
def run_case(ctx, case):
    with_dd("float64", lambda: _run(ctx, case))


def _run(ctx, case):
    kind = case["kind"]
    ctx.count("kind:" + kind)
    if kind in ("tensors", "domain", "generic"):
        return run_cross(ctx, case)
    if kind == "ops":
        return run_ops(ctx, case)
    return run_minmax(ctx, case)


def run_cross(ctx, case):
    kind = case["kind"]
    tg = build_target(case)
    F, K, N = tg["F"], tg["K"], len(case["shape"])
    rec = Recorder(tg["f"], K, case["farg"])
    kw = dict(tg["kw"], function=rec, function_arg=case["farg"], verbose=False, return_info=True, suppress_warnings=True)
    if kind == "generic":
        mode = "adaptive" if case["adaptive"] else "fixed"
        if case["adaptive"]:
            kw.update(rmax=case["ranks"] + 1, kickrank=1)
        else:
            kw.update(ranks_tt=case["ranks"])
        kw.update(max_iter=case["max_iter"])
        r_true = None
    else:
        r_true = tt_ranks(F)
        mode = case["mode"]
        if mode == "tight":
            kw["ranks_tt"] = list(r_true)
        elif mode == "over":
            kw["ranks_tt"] = max(r_true) + case["extra"]
        else:
            kw.update(kickrank=case["kick"], rmax=max(r_true) + case["rmax_extra"])
        if case["eps"] is not None:
            kw["eps"] = case["eps"]
        if case["val_size"] is not None:
            kw["val_size"] = case["val_size"]
    if case.get("record"):
        kw["record_samples"] = True
    pred = "%s, %s ranks" % (tg["src"], "adaptive" if mode == "adaptive" else "fixed")
    if r_true is not None:
        full = [min(int(np.prod(case["shape"][:j + 1])), int(np.prod(case["shape"][j + 1:]))) for j in range(N - 1)]
        want = kw["ranks_tt"] if isinstance(kw.get("ranks_tt"), list) else [kw.get("ranks_tt", kw.get("rmax"))] * (N - 1)
        slack = [min(w, fl) - r for w, fl, r in zip(want, full, r_true)]
        if all(sl == 0 for sl in slack):
            prof = "every bond capped at its exact rank"
        elif all(sl >= 1 for sl in slack):
            prof = "every bond has slack"
        elif any(slack[j] == 0 and any(0 <= k < N - 1 and slack[k] >= 1 for k in (j - 1, j + 1)) for j in range(N - 1)):
            prof = "a bond capped at its exact rank next to an over-estimated bond"
        else:
            prof = "mixed slack"
        pred += ", " + prof
        ctx.count("slack:" + prof)
    ctx.case((kind, case["fn"], tuple(case["shape"]), repr(tg["desc"]), mode, case.get("eps"), case["farg"], case["seed"]), True,
             {"kind": kind, "fn": case["fn"], "shape": case["shape"], "mode": mode, "true_ranks": r_true, "function_arg": case["farg"],
              **tg["desc"]})
    ctx.count("mode:" + mode); ctx.count("N:%d" % N); ctx.count("farg:" + case["farg"]); ctx.count("fn:" + case["fn"])
    ctx.count("cross_runs")
    seed_all(case["seed"])
    mv_calls = []
    with record_maxvol(mv_calls):
        res = quiet(lambda: safe(lambda: tn.cross(**kw)))

    def report(clause, what, extra=None):
        cls = {"op": "cross", "clause": clause, "predicate": pred}
        if extra:
            cls.update(extra)
        ctx.count("violation:" + clause)
        ctx.oracle("cross(%s of %s, %s, function_arg=%s, shape %s): %s" % (case["fn"], tg["src"], mode, case["farg"], case["shape"], what),
                   case, cls=cls)

    if res[0] == "err":
        if rec.bad:
            report("calling convention", rec.bad)
            return
        p = pred
        if case.get("record") and tg["src"] == "tensors" and K != N:
            p = "record_samples=True, tensors= with number of tensors != number of modes"
        ctx.count("impl_raise:" + res[1])
        ctx.oracle("cross(%s of %s, %s) raised %s: %s" % (case["fn"], tg["src"], mode, res[1], res[2]), case,
                   cls={"op": "cross", "clause": "raises", "predicate": p, "raises": res[1]})
        return
    t, info = res[1]
    d = safe(lambda: num(t.torch()))
    if d[0] == "err" or d[1].shape != F.shape:
        report("result shape", "result cannot be decompressed to the grid shape (%s)" % (d[1:] if d[0] == "err" else d[1].shape,))
        return
    D = d[1]
    # ---- (ii) grid only
    entries = None if tg["src"] == "domain" else np.stack([x.reshape(-1) for x in tg["dense"]], axis=1)
    gv = grid_violation(rec.samples(), domain=tg["domain"], entries=entries)
    ctx.count("function_evaluations", int(rec.samples().shape[0]))
    if gv is not None:
        report("function evaluated off the grid", gv)
    if case.get("record") and "sample_positions" in info:
        gv = grid_violation(num(info["sample_positions"]), domain=tg["domain"], entries=entries)
        if gv is not None:
            report("recorded sample_positions off the grid", gv)
    # ---- structure of the returned index sets
    try:
        Rs = [int(v) for v in info["Rs"]]
        rs0 = np.asarray(info["rsets"][0])
        okstruct = (len(Rs) == N + 1 and rs0.ndim == 2 and rs0.shape == (Rs[1], N) and [int(v) for v in t.ranks_tt] == Rs
                    and all(0 <= rs0[:, m].min() and rs0[:, m].max() < case["shape"][m + 1] for m in range(N - 1)))
    except Exception as e:  # noqa
        okstruct = False
    if not okstruct:
        report("index sets malformed", "info['rsets'][0] / info['Rs'] inconsistent with the result (Rs=%s)" % (info.get("Rs"),))
        return
    if "ranks_tt" in kw:
        want = kw["ranks_tt"] if isinstance(kw["ranks_tt"], list) else [kw["ranks_tt"]] * (N - 1)
        if any(a > b for a, b in zip(Rs[1:-1], want)):
            report("ranks exceed the request", "result ranks %s > requested %s" % (Rs, want))
    elif any(a > kw["rmax"] for a in Rs[1:-1]):
        report("ranks exceed the request", "result ranks %s > rmax %d" % (Rs, kw["rmax"]))
    # ---- (i) interpolation on the first-mode fibres through rsets[0]
    got = np.stack([D[(slice(None),) + tuple(int(v) for v in row[:-1])] for row in rs0])
    want = np.stack([F[(slice(None),) + tuple(int(v) for v in row[:-1])] for row in rs0])
    ok, err = close(got, want, rtol=1e-8)
    if not ok:
        report("interpolation on rsets[0] fibres", "result differs from the function on the fibres through rsets[0] (%s); Rs=%s" % (err, Rs))
    # ---- (iii) recovery
    if kind != "generic":
        e = relerr(D, F)
        ctx.count("recovery_checked")
        if e <= 1e-6:
            ctx.count("recovery_ok:" + mode)
        elif e <= 1e-3:
            ctx.count("recovery_soft_fail:" + mode)
        else:
            # the class of a recovery failure names whether the RETURNED ranks over-estimate an exact rank (then the intersection matrices
            # of that bond are singular and the solve is a minimum-norm choice: the recorded, seed-dependent known finding) or not
            over = any(a > b for a, b in zip(Rs[1:-1], r_true))
            # … or the ADAPTIVE run stopped BELOW an exact rank because the error on its random validation sample was already below eps (on a
            # small grid a skeleton of rank r-1 is exact on all but a few entries, which the sample can miss): the stopping rule, also recorded
            ve = [float(v) for v in info.get("val_epss", [])]
            under = mode == "adaptive" and not over and any(a < b for a, b in zip(Rs[1:-1], r_true)) and len(ve) > 0 and ve[-1] < 1e-9
            report("recovery of a representable target", "relative max-norm error %.3g on the whole grid; exact TT ranks %s, result ranks %s, "
                   "val_eps %s" % (e, r_true, Rs, ve[-3:]),
                   extra={"predicate": "%s, %s ranks, returned ranks over-estimate an exact rank" % (
                       tg["src"], "adaptive" if mode == "adaptive" else "fixed")} if over else
                   {"predicate": "%s, adaptive ranks, stopped below an exact rank with validation error below 1e-9" % tg["src"]} if under else None)
        if case.get("forward") and tg["src"] == "tensors":
            ts = tg["kw"]["tensors"]
            r2 = quiet(lambda: safe(lambda: num(tn.cross_forward(info, function=tg["f"], tensors=ts).torch())))
            ctx.count("cross_forward_runs")
            fmts = {k for p in case["tensors"] for k in PT.from_json(p).kinds()}
            pf = "tensors with %s" % ("CP cores" if any(k.startswith("cp") for k in fmts) else "TT cores") + (
                " and Tucker factors" if any(k.endswith("+U") for k in fmts) else "")
            if r2[0] == "err":
                # cross_forward is not named by the property: observed and counted, never reported as a violation
                ctx.count("cross_forward_raise:" + r2[1] + ":" + pf)
            elif mode == "tight" and e <= 1e-6:
                e2 = relerr(r2[1], F)
                if e2 <= 1e-6:
                    ctx.count("cross_forward_ok")
                elif e2 <= 1e-3:
                    ctx.count("cross_forward_soft_fail")
                else:
                    ctx.count("cross_forward_hard_fail")
    # ---- model side (Model/Cross.lean, C08.cross_interpolates): the right index sets are the nesting `rsetsOf` of the pivots maxvol
    #      returned in the last right-to-left sweep; hypotheses of the theorem (identity on the pivot columns, first core = function
    #      values) are validated numerically; hypotheses met + conclusion violated would be a model-vs-spec disagreement
    if getattr(ctx, "use_model", False) and not getattr(ctx, "search_only", False) and N >= 2 and len(mv_calls) >= N - 1:
        last = mv_calls[-(N - 1):]                      # j = N-1, …, 1
        locs = {j: last[N - 1 - j] for j in range(1, N)}
        toks = ["cross_rsets", str(N - 1)]
        for j in range(1, N):
            toks += [str(Rs[j]), str(Rs[j + 1])] + [str(int(v)) for v in locs[j][:Rs[j]]]
        ans = ctx.drv().call(" ".join(toks))
        model_sets, pos, okparse = [], 1, ans[0] == "ok"
        try:
            while okparse and pos < len(ans):
                assert ans[pos] == "L"
                cnt = int(ans[pos + 1]); pos += 2
                rows = []
                for _ in range(cnt):
                    ln = int(ans[pos]); rows.append([int(v) for v in ans[pos + 1:pos + 1 + ln]]); pos += 1 + ln
                model_sets.append(rows)
        except Exception:  # noqa
            okparse = False
        impl_sets = [[[int(v) for v in row[:-1]] for row in np.asarray(info["rsets"][j - 1])] for j in range(1, N)]
        ctx.count("model:cross_rsets")
        if not okparse or model_sets != impl_sets:
            ctx.corr("cross: info['rsets'] is not the nesting of the last sweep's maxvol pivots (model rsetsOf): impl %s, model %s"
                     % (impl_sets, model_sets if okparse else ans[:6]), case)
        else:
            # left index sets from info['left_locals'] (Model/Cross.lean lsetsAll), exact
            try:
                ll = [np.asarray(v, dtype=np.int64) for v in info["left_locals"]]
                toks = ["cross_lsets", str(N - 1)]
                for j in range(N - 1):
                    toks += [str(Rs[j + 1]), str(case["shape"][j])] + [str(int(v)) for v in ll[j][:Rs[j + 1]]]
                ans = ctx.drv().call(" ".join(toks))
                msets, pos = [], 1
                while pos < len(ans):
                    cnt = int(ans[pos + 1]); pos += 2
                    rows = []
                    for _ in range(cnt):
                        ln = int(ans[pos]); rows.append([int(v) for v in ans[pos + 1:pos + 1 + ln]]); pos += 1 + ln
                    msets.append(rows)
                isets = [[[int(v) for v in row[1:]] for row in np.asarray(info["lsets"][j])] for j in range(1, N)]
                ctx.count("model:cross_lsets")
                if ans[0] != "ok" or msets != isets:
                    ctx.corr("cross: info['lsets'] is not the nesting of the last sweep's left pivots (model lsetsAll): impl %s, model %s"
                             % (isets, msets), case)
                elif len(rec.calls) >= N + 1 and int(np.prod(case["shape"])) <= 1500 and max(Rs) <= 4:
                    # arguments handed to the function in the last N evaluate_function calls (j = N-1 … 1, then 0) against the model's
                    # interfaces / evalPoint (C08.evaluate_at_grid) for one argument tensor
                    kk = case["seed"] % K
                    if tg["src"] == "tensors":
                        targ = PT.from_json(case["tensors"][kk])
                    else:
                        targ = core.from_tn(tn.meshgrid([T(d) for d in tg["domain"]])[kk])
                    for j in range(N):
                        call = rec.calls[-1] if j == 0 else rec.calls[len(rec.calls) - 1 - j]
                        if call.shape[0] != Rs[j] * case["shape"][j] * Rs[j + 1]:
                            ctx.count("model:cross_eval skipped (call sizes)"); break
                        toks = ["cross_eval", targ.ser(), str(j), str(Rs[j]), str(Rs[j + 1])]
                        for l in range(j):
                            toks += [str(Rs[l + 1])] + [str(int(v)) for v in ll[l][:Rs[l + 1]]]
                        for l in range(j + 1, N):
                            toks += [str(Rs[l]), str(Rs[l + 1])] + [str(int(v)) for v in locs[l][:Rs[l]]]
                        ans = ctx.drv().call(" ".join(toks))
                        ctx.count("model:cross_eval")
                        if ans[0] != "ok":
                            ctx.corr("cross_eval: model answered %s" % (ans[:4],), case); break
                        mv = np.array([float(core.unq(x.split("~")[0])) for x in ans[2:]])
                        okv, errv = close(mv, call[:, kk], rtol=1e-9)
                        if not okv:
                            ctx.corr("cross: the arguments of the function in evaluate_function(%d) for argument tensor %d differ from the "
                                     "model's interfaces·core (evalPoint): %s" % (j, kk, errv), case); break
            except Exception as e:  # noqa
                ctx.corr("cross model hook raised %s: %s" % (type(e).__name__, str(e)[:200]), case)
            cs = [num(c) for c in t.cores]
            piv = 0.0
            for j in range(1, N):
                loc = np.asarray(locs[j][:Rs[j]], dtype=np.int64)
                sub = cs[j][:, loc // Rs[j + 1], loc % Rs[j + 1]]             # [a, k]
                piv = max(piv, float(np.max(np.abs(sub - np.eye(Rs[j])))))
            first = max(float(np.max(np.abs(cs[0][0, :, k] - F[(slice(None),) + tuple(impl_sets[0][k])]))) for k in range(Rs[1])) / max(
                float(np.max(np.abs(F))), 1e-300)
            hyp = piv <= 1e-9 and first <= 1e-12
            ctx.count("theorem_hypotheses:" + ("met" if hyp else "pivot identity off by %.0e" % piv if piv > 1e-9 else "first core differs"))
            if hyp and not ok:
                ctx.spec("cross: hypotheses of C08.cross_interpolates hold numerically (pivot identity %.2g, first core %.2g) but the result "
                         "differs from the function on the rsets[0] fibres (%s)" % (piv, first, err), case)


# ------------------------------------------------------------------------------------------------ operators
def pos_rank1(rng, shape, fmt):
    """rank-1 tensor with entries in (0.3, 0.95), in TT, CP or TT+Tucker-factor format; returns (tn tensor, dense ndarray)"""
    N = len(shape)
    lo, hi = 0.3 ** (1.0 / N), 0.95 ** (1.0 / N)
    vs = [np.array([rng.uniform(lo, hi) for _ in range(s)]) for s in shape]
    dense = vs[0]
    for v in vs[1:]:
        dense = np.multiply.outer(dense, v)
    if fmt == "cp":
        t = tn.Tensor([T(v[:, None]) for v in vs])
    elif fmt == "tucker":
        t = tn.Tensor([T(np.ones((1, 1, 1))) for _ in vs], Us=[T(v[:, None]) for v in vs])
    else:
        t = tn.Tensor([T(v[None, :, None]) for v in vs])
    return t, dense


def run_ops(ctx, case):
    rng = random.Random(case["seed"])
    shape, name, opkind = case["shape"], case["name"], case["opkind"]
    a, xa = pos_rank1(rng, shape, case["fmt"])
    b, xb = pos_rank1(rng, shape, rng.choice(["tt", "cp"]))
    c = case["scalar"]
    A, B = T(xa), T(xb)
    if opkind == "unary":
        label = "tn.%s(t)" % name
        impl = lambda: getattr(tn, name)(a)
        want = getattr(torch, name)(A)
    elif opkind == "binary":
        label = "tn.%s(t1, t2)" % name
        impl = lambda: getattr(tn, name)(a, b)
        want = getattr(torch, name)(A, B)
    else:
        label = name
        if name == "t1/t2":
            impl = lambda: a / b; want = A / B
        elif name == "c/t":
            impl = lambda: c / a; want = c / A
            label = "scalar/t"
        elif name == "t/c":
            impl = lambda: a / c; want = A / c
            label = "t/scalar"
        else:
            p = c                      # negative and fractional exponents too (operands are positive)
            impl = lambda: a ** p; want = A ** p
            label = "t**p"
    want = num(want)
    ctx.case(("ops", label, tuple(shape), case["fmt"], c if opkind == "operator" else None, case["seed"]), True,
             {"kind": "ops", "op": label, "shape": shape, "format": case["fmt"], "scalar": c if opkind == "operator" else None})
    ctx.count("op:" + label); ctx.count("cross_runs")
    pred = "rank-1 positive operand(s), entries in (0.3, 0.95)"
    seed_all(case["seed"])
    res = quiet(lambda: safe(impl))
    if res[0] == "err":
        ctx.count("impl_raise:" + res[1])
        ctx.oracle("%s raised %s: %s" % (label, res[1], res[2]), case, cls={"op": label, "predicate": pred, "raises": res[1]})
        return
    r = res[1]
    d = safe(lambda: num(r.torch())) if isinstance(r, tn.Tensor) else ("err", "TypeError", "result is %s" % type(r).__name__)
    if d[0] == "err":
        ctx.oracle("%s: result unusable (%s: %s)" % (label, d[1], d[2]), case, cls={"op": label, "predicate": pred, "clause": "result unusable"})
        return
    e = relerr(d[1], want)
    if e <= 1e-6:
        ctx.count("ops_ok")
    elif e <= 1e-4:
        ctx.count("ops_between_1e-6_and_1e-5" if e <= 1e-5 else "ops_between_1e-5_and_1e-4")
    else:
        ctx.oracle("%s differs from the dense element-wise result: relative max-norm error %.3g (shape %s, result ranks %s)"
                   % (label, e, shape, [int(v) for v in r.ranks_tt]), case, cls={"op": label, "predicate": pred, "clause": "differs from dense"})


# ------------------------------------------------------------------------------------------------ min / max
def run_minmax(ctx, case):
    which = case["which"]
    tg = build_target(case)
    F, K = tg["F"], tg["K"]
    true = float(F.min() if which == "min" else F.max())
    kwargs = dict(tg["kw"], function_arg=case["farg"], max_iter=case["max_iter"])
    if case["rmax"] is not None:
        kwargs["rmax"] = case["rmax"]
    val_fn, arg_fn = (tn.minimum, tn.argmin) if which == "min" else (tn.maximum, tn.argmax)
    ctx.case(("minmax", which, case["fn"], tuple(case["shape"]), repr(tg["desc"]), case["rmax"], case["max_iter"], case["farg"], case["seed"]),
             True, {"kind": "minmax", "which": which, "fn": case["fn"], "shape": case["shape"], "src": tg["src"], **tg["desc"]})
    ctx.count("minmax:" + which); ctx.count("cross_runs", 3)
    pred = "%s, function %s" % (tg["src"], "identity" if case["fn"] == "identity" else "non-identity")
    entries = None if tg["src"] == "domain" else np.stack([x.reshape(-1) for x in tg["dense"]], axis=1)
    scale = max(1.0, float(np.max(np.abs(F))))

    def report(op, clause, what, raises=None):
        cls = {"op": op, "clause": clause, "predicate": pred}
        if raises:
            cls["raises"] = raises
        ctx.count("violation:" + clause)
        ctx.oracle("%s (%s of %s, shape %s): %s" % (op, case["fn"], tg["src"], case["shape"], what), case, cls=cls)

    def wrapped():
        return Recorder(tg["f"], K, case["farg"])

    # -- the public pair: same seed => same run, so the value must be attained at the reported position
    rec1 = wrapped()
    seed_all(case["seed"])
    v = quiet(lambda: safe(lambda: val_fn(function=rec1, **kwargs)))
    rec2 = wrapped()
    seed_all(case["seed"])
    p = quiet(lambda: safe(lambda: arg_fn(function=rec2, **kwargs)))
    nm = "tn.%simum" % which
    na = "tn.arg%s" % which
    for name, r in ((nm, v), (na, p)):
        if r[0] == "err":
            ctx.count("impl_raise:" + r[1])
            report(name, "raises", "raised %s: %s" % (r[1], r[2]), raises=r[1])
    if v[0] == "ok" and p[0] == "ok":
        try:
            val = float(num(v[1]))
            pos = tuple(int(i) for i in p[1])
            okpos = len(pos) == F.ndim and all(0 <= i < s for i, s in zip(pos, F.shape))
        except Exception:  # noqa
            okpos = False
        if not okpos:
            report(na, "position malformed", "reported position %r is not a grid index" % (p[1],))
        else:
            at = float(F[pos])
            if abs(at - val) > 1e-6 * scale:
                report(nm, "value not attained at the reported position", "%s = %.12g but f at %s%s = %.12g" % (nm, val, na, pos, at))
            if (which == "min" and val < true - 1e-6 * scale) or (which == "max" and val > true + 1e-6 * scale):
                report(nm, "estimate beyond the true extremum", "%s = %.12g, true %s = %.12g" % (nm, val, which, true))
            ctx.count("minmax_exact" if abs(val - true) <= 1e-6 * scale else "minmax_not_optimal")
        for rec in (rec1, rec2):
            gv = grid_violation(rec.samples(), domain=tg["domain"], entries=entries)
            if gv is not None:
                report(nm, "function evaluated off the grid", gv)
                break
    # -- the underlying call: info['min'] is f at info['argmin']
    rec3 = wrapped()
    sign = 1.0 if which == "min" else -1.0
    g = rec3 if which == "min" else (lambda *x: -rec3(*x))
    seed_all(case["seed"] + 1)
    r = quiet(lambda: safe(lambda: tn.cross(function=g, verbose=False, return_info=True, _minimize=True, **dict(kwargs, rmax=kwargs.get("rmax", 10)))))
    if r[0] == "err":
        ctx.count("impl_raise:" + r[1])
        report("cross(_minimize=True)", "raises", "raised %s: %s" % (r[1], r[2]), raises=r[1])
        return
    info = r[1][1]
    try:
        m = sign * float(num(info["min"]))
        pos = tuple(int(i) for i in info["argmin"])
        at = float(F[pos])
    except Exception as e:  # noqa
        report("cross(_minimize=True)", "position malformed", "info['argmin'] = %r unusable (%s)" % (info.get("argmin"), e))
        return
    if abs(at - m) > 1e-6 * scale:
        report("cross(_minimize=True)", "value not attained at the reported position", "info['min'] = %.12g but f at info['argmin']%s = %.12g"
               % (m, pos, at))
    if (which == "min" and m < true - 1e-6 * scale) or (which == "max" and m > true + 1e-6 * scale):
        report("cross(_minimize=True)", "estimate beyond the true extremum", "estimate %.12g, true %s %.12g" % (m, which, true))
