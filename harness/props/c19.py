"""C19 — TT/CP matrices act like the matrices they compress (tntorch/matrix.py).

Oracle search on the real code.  The oracle is an independent NumPy contraction of the stored cores (mixed-radix
interleaving written out with einsum/reshape) and numpy.linalg on dense Kronecker products.
"""
import random
import numpy as np
import torch
import core
from core import close, safe, tn
from props.c02 import with_dd

RULE = ("row and column sizes factorised into d=1..4 factors from 1..4 (size-1 factors included, rows*cols <= ~2500); matrices: Gaussian, small-int, "
        "rank-1, zero; batch None/1/2/3. kinds: (dense) TTMatrix(M, full ranks): torch()==M, tt_multiply, trace; (trunc) TTMatrix(M, ranks 1..full) and "
        "(cores) TTMatrix(list of random 4-D/5-D cores, any ranks): torch(), tt_multiply (2-D and 3-D argument), trace against the NumPy contraction of "
        "the stored cores; (cp) CPMatrix(M, rank): torch()/cp_multiply against the NumPy contraction of the stored factors, also after replacing the "
        "factors by random ones, and torch()==M for two factors with rank >= min unfolding size; (kron) Kronecker products of d well-conditioned square "
        "blocks (singular values in [0.7,1.5], random determinant signs; SPD for cholesky) given as rank-1 cores or as the dense product with ranks "
        "[1..1] (or, for 40% of the non-batch dense builds, under a generous rank cap 2..4 which the compression does not use): determinant, slog_determinant, inv, cholesky against numpy.linalg on np.kron; (reject) the same routines on TT-rank>1 inputs and on "
        "rank-1 inputs with non-square blocks must raise; both default dtypes. distinct = (kind, op, input_dims, output_dims, ranks, batch, fill, dd); "
        "non-trivial = d >= 2 or batch")
TRUSTED = ["NumPy einsum/linalg (oracle); float rounding: 1e-9 scaled max-norm for contractions, 1e-8 relative for determinants/inverses/Cholesky of "
           "blocks with condition number <= 2.2 per block, 1e-6 for the ALS-computed CP factors of a two-factor full-rank CPMatrix (exact after one "
           "ALS sweep in exact arithmetic)",
           "CP-ALS draws torch.randn when rank exceeds a mode size: torch is seeded from the case seed"]
ASSUMPTIONS = ["float64 matrices and cores", "tt_multiply/cp_multiply are claimed for non-batch matrices and a batch of vectors (argument with >= 2 ways); "
               "batch TTMatrix × vectors is not part of the documented interface and is only counted",
               "trace is claimed when input_dims == output_dims (block-wise contraction); for other factorisations an error is accepted and counted, a "
               "returned value is compared with the dense trace"]

KRON_OPS = ["determinant", "slog_determinant", "inv", "cholesky"]


# ------------------------------------------------------------------------------------------------ generators
def factor_dims(rng, d, cap):
    while True:
        dims = [rng.choice([1, 2, 2, 3, 3, 4]) for _ in range(d)]
        if int(np.prod(dims)) <= cap:
            return dims


def cases(rng, tier):
    n = {"quick": 700, "thorough": 12000, "search": 3500}[tier]
    out = []
    for _ in range(n):
        u = rng.random()
        d = rng.choice([1, 2, 2, 3, 3, 4])
        dd = "float32" if rng.random() < 0.25 else "float64"
        c = {"seed": rng.randrange(1 << 30), "dd": dd}
        if u < 0.45:
            kind = rng.choice(["dense", "dense", "trunc", "cores"])
            ind = factor_dims(rng, d, 48)
            outd = list(ind) if rng.random() < 0.4 else (rng.sample(ind, len(ind)) if rng.random() < 0.25 else factor_dims(rng, d, 48))
            c.update(kind=kind, ind=ind, outd=outd, fill=rng.choice(["gauss", "gauss", "gauss", "int", "rank1", "zero"]),
                     batch=None if rng.random() < (0.55 if kind == "cores" else 0.85) else rng.randint(1, 3),
                     vshape=rng.choice([[1], [3], [2, 2], [1, 3]]))
            if kind == "cores":
                c["ranks"] = [rng.randint(1, 4) for _ in range(d - 1)]
            elif kind == "trunc":
                c["ranks"] = [rng.randint(1, 6) for _ in range(d - 1)]
        elif u < 0.6:
            d = rng.choice([1, 2, 2, 2, 3])
            ind, outd = factor_dims(rng, d, 24), factor_dims(rng, d, 24)
            if rng.random() < 0.3:
                outd = list(ind)
            full = None
            if d == 2:
                full = min(ind[0] * outd[0], ind[1] * outd[1])
            rank = rng.randint(1, 6)
            if full is not None and rng.random() < 0.6:
                rank = full + rng.choice([0, 0, 1, 3])
            c.update(kind="cp", ind=ind, outd=outd, rank=rank, fill=rng.choice(["gauss", "gauss", "int", "rank1"]),
                     vshape=rng.choice([[1], [3], [2, 2]]), random_factors=rng.random() < 0.3)
        elif u < 0.85:
            ns = factor_dims(rng, d, 36)
            op = rng.choice(KRON_OPS)
            batch = None if rng.random() < 0.65 else rng.randint(1, 3)
            c.update(kind="kron", ns=ns, op=op, batch=batch,
                     build="cores" if (op == "cholesky" or rng.random() < (0.85 if batch else 0.5)) else "dense")
            if c["build"] == "dense" and not batch and len(ns) >= 2 and rng.random() < 0.4:
                # the dense Kronecker matrix compressed with a GENEROUS rank cap: compression still finds ranks 1
                c["cap"] = [rng.randint(2, 4) for _ in range(len(ns) - 1)]
        else:
            d = rng.choice([1, 2, 2, 3, 3, 4])
            why = rng.choice(["rank", "nonsquare"]) if d >= 2 else "nonsquare"
            if why == "rank":
                ns = factor_dims(rng, d, 36)
                while max(ns) == 1:
                    ns = factor_dims(rng, d, 36)
                ind = outd = ns
            else:
                while True:
                    ind = factor_dims(rng, d, 36)
                    # 40%: a permutation of the row factors (square overall, blocks not square)
                    outd = rng.sample(ind, len(ind)) if rng.random() < 0.4 else factor_dims(rng, d, 36)
                    if ind != outd:
                        break
            c.update(kind="reject", why=why, ind=list(ind), outd=list(outd), op=rng.choice(KRON_OPS),
                     batch=None if rng.random() < 0.7 else rng.randint(1, 3))
        out.append(c)
    return out


def gen_matrix(rng, rows, cols, fill):
    if fill == "zero":
        return np.zeros((rows, cols))
    if fill == "int":
        return np.array([[float(rng.randint(-3, 3)) for _ in range(cols)] for _ in range(rows)]).reshape(rows, cols)
    if fill == "rank1":
        a = np.array([rng.gauss(0, 1) for _ in range(rows)]); b = np.array([rng.gauss(0, 1) for _ in range(cols)])
        return np.outer(a, b)
    return np.array([[rng.gauss(0, 1) for _ in range(cols)] for _ in range(rows)]).reshape(rows, cols)


def gauss(rng, shape):
    return np.array([rng.gauss(0, 1) for _ in range(int(np.prod(shape)))]).reshape(shape)


def gen_block(rng, n, spd):
    G = gauss(rng, (n, n))
    U, _, Vt = np.linalg.svd(G)
    s = np.array([rng.uniform(0.7, 1.5) for _ in range(n)])
    return (U * s) @ (U.T if spd else Vt)


# ------------------------------------------------------------------------------------------------ independent oracles
def dense_tt(cores):
    """cores: list of ndarrays (r, i, o, r'); returns the (prod i) x (prod o) matrix, row/col multi-indices in C order"""
    acc = cores[0]
    assert acc.shape[0] == 1 and cores[-1].shape[-1] == 1
    acc = acc[0]
    for c in cores[1:]:
        I, O, _ = acc.shape
        _, i, o, s = c.shape
        acc = np.einsum("IOr,rios->IiOos", acc, c).reshape(I * i, O * o, s)
    return acc[:, :, 0]


def dense_cp(cores):
    """cores: list of ndarrays (i, o, R)"""
    acc = cores[0]
    for c in cores[1:]:
        I, O, R = acc.shape
        i, o, _ = c.shape
        acc = np.einsum("IOr,ior->IiOor", acc, c).reshape(I * i, O * o, R)
    return acc.sum(axis=-1)


def npcores(ttm, b=None):
    cs = [c.detach().cpu().double().numpy() for c in ttm.cores]
    return cs if b is None else [c[b] for c in cs]


def kron_all(blocks):
    K = np.ones((1, 1))
    for b in blocks:
        K = np.kron(K, b)
    return K


def rel_ok(a, b, rtol):
    a = np.asarray(a, dtype=np.float64); b = np.asarray(b, dtype=np.float64)
    if a.shape != b.shape:
        return False, "shape %s vs %s" % (a.shape, b.shape)
    if not (np.all(np.isfinite(a)) and np.all(np.isfinite(b))):
        return False, "non-finite"
    den = np.maximum(np.maximum(np.abs(a), np.abs(b)), 1e-300)
    err = float(np.max(np.abs(a - b) / den)) if a.size else 0.0
    return err <= rtol, err


def T(x):
    return torch.tensor(np.asarray(x, dtype=np.float64), dtype=torch.float64)


def num(x):
    return x.detach().cpu().double().numpy() if isinstance(x, torch.Tensor) else np.asarray(x, dtype=np.float64)


# ------------------------------------------------------------------------------------------------ run
def run_case(ctx, case):
    torch.manual_seed(case["seed"] % (1 << 31))
    with_dd(case["dd"], lambda: _run(ctx, case))


def _run(ctx, case):
    rng = random.Random(case["seed"])
    kind = case["kind"]
    ctx.count("kind:" + kind); ctx.count("dd:" + case["dd"])

    def report(op, predicate, what, raises=None):
        cls = {"op": op, "predicate": predicate}
        if raises is not None:
            cls["raises"] = raises
        ctx.count("violation:%s" % op)
        ctx.oracle(what, case, cls=cls)

    if kind in ("dense", "trunc", "cores"):
        return run_tt(ctx, case, rng, report)
    if kind == "cp":
        return run_cp(ctx, case, rng, report)
    if kind == "kron":
        return run_kron(ctx, case, rng, report)
    return run_reject(ctx, case, rng, report)



# ------------------------------------------------------------------------------------------------ model side (Model/TTMatMul.lean)
def _model_on(ctx):
    return getattr(ctx, "use_model", False) and not getattr(ctx, "search_only", False)


def _ser_cores(cs):
    from core import q
    return "%d %s" % (len(cs), " ".join("%s %s" % (" ".join(str(int(v)) for v in c.shape), " ".join(q(v) for v in c.reshape(-1))) for c in cs))


def _qs(toks):
    from core import unq
    return np.array([float(unq(x.split("~")[0])) for x in toks[2:]])


def model_tt(ctx, case, ttm, impl, v):
    """impl: dict of the implementation's answers (torch, trace, mul) for a NON-batch TTMatrix; compared with the compiled Lean model on the
    implementation's own cores (theorems C19.trace_eq, tt_multiply_eq, tt_multiply_dense are about exactly these functions)"""
    cs = npcores(ttm)
    rows = int(np.prod([c.shape[1] for c in cs])); cols = int(np.prod([c.shape[2] for c in cs]))
    if rows * cols > 300 or max(c.shape[0] for c in cs) > 4:
        ctx.count("model:tt skipped (size)"); return
    ser = _ser_cores(cs)
    if impl.get("torch") is not None:
        a = ctx.drv().call("tt_dense " + ser); ctx.count("model:tt_dense")
        if a[0] != "ok" or not close(_qs(a).reshape(rows, cols), impl["torch"], rtol=1e-9)[0]:
            ctx.corr("TTMatrix.torch(): implementation differs from the model on the same cores (%s)" % (a[:3],), case)
    if impl.get("trace") is not None:
        a = ctx.drv().call("tt_trace " + ser); ctx.count("model:tt_trace")
        if a[0] != "ok" or not close(_qs(["ok"] + a[1:]), np.array([impl["trace"]]).reshape(-1), rtol=1e-9)[0]:
            ctx.corr("TTMatrix.trace(): implementation %s, model %s" % (impl["trace"], a[:4]), case)
    if impl.get("mul") is not None:
        from core import q
        x = v.reshape(-1, rows)
        a = ctx.drv().call("tt_matvec %s %d %s" % (ser, x.shape[0], " ".join(q(t) for t in x.reshape(-1)))); ctx.count("model:tt_matvec")
        if a[0] != "ok" or not close(_qs(a), impl["mul"].reshape(-1), rtol=1e-9)[0]:
            ctx.corr("tt_multiply: implementation differs from the model on the same cores and vectors (%s)" % (a[:3],), case)


def model_cp(ctx, case, cs, impl, v):
    rows = int(np.prod([c.shape[0] for c in cs])); cols = int(np.prod([c.shape[1] for c in cs]))
    if rows * cols > 300:
        ctx.count("model:cp skipped (size)"); return
    ser = _ser_cores(cs)
    if impl.get("torch") is not None:
        a = ctx.drv().call("cp_dense " + ser); ctx.count("model:cp_dense")
        if a[0] != "ok" or not close(_qs(a).reshape(rows, cols), impl["torch"], rtol=1e-9)[0]:
            ctx.corr("CPMatrix.torch(): implementation differs from the model on the same factors (%s)" % (a[:3],), case)
    if impl.get("mul") is not None:
        from core import q
        x = v.reshape(-1, rows)
        a = ctx.drv().call("cp_matvec %s %d %s" % (ser, x.shape[0], " ".join(q(t) for t in x.reshape(-1)))); ctx.count("model:cp_matvec")
        if a[0] != "ok" or not close(_qs(a), impl["mul"].reshape(-1), rtol=1e-9)[0]:
            ctx.corr("cp_multiply: implementation differs from the model on the same factors and vectors (%s)" % (a[:3],), case)


def check_tt_observables(ctx, case, rng, report, ttm, Ds, desc, square_blocks):
    """ttm: a TTMatrix; Ds: list of dense oracle matrices (one per batch element, or a single one for non-batch)"""
    batch = case.get("batch")
    pred_b = "batch" if batch else "non-batch"
    rows, cols = Ds[0].shape
    exp = np.stack(Ds) if batch else Ds[0]
    impl = {}
    r = safe(lambda: num(ttm.torch()))
    if r[0] == "ok":
        impl["torch"] = r[1]
    if r[0] == "err":
        report("TTMatrix.torch", "%s, %s" % (pred_b, desc), "TTMatrix.torch() raised %s: %s" % (r[1], r[2]), raises=r[1])
    else:
        ok, err = close(r[1], exp, rtol=1e-9)
        if not ok:
            report("TTMatrix.torch", "%s, %s" % (pred_b, desc), "TTMatrix.torch() differs from the contraction of its cores (%s); in=%s out=%s"
                   % (err, case["ind"], case["outd"]))
    # trace
    r = safe(lambda: num(ttm.trace()))
    if square_blocks and r[0] == "ok":
        impl["trace"] = r[1]
    if square_blocks:
        want = np.array([np.trace(D) for D in Ds]) if batch else np.trace(Ds[0])
        if r[0] == "err":
            report("trace", "%s, input_dims == output_dims" % pred_b, "trace() raised %s: %s" % (r[1], r[2]), raises=r[1])
        else:
            ok, err = close(r[1], want, rtol=1e-9)
            if not ok:
                report("trace", "%s, input_dims == output_dims" % pred_b, "trace() = %s, dense trace = %s (%s)" % (r[1], want, err))
    else:
        if r[0] == "err":
            ctx.count("trace:unequal_factorisation_rejected")
        elif rows == cols:
            want = np.array([np.trace(D) for D in Ds]) if batch else np.trace(Ds[0])
            ok, err = close(r[1], want, rtol=1e-9)
            if not ok:
                report("trace", "%s, input_dims != output_dims, square overall" % pred_b,
                       "trace() returned %s for a matrix whose dense trace is %s" % (r[1], want))
        else:
            ctx.count("trace:value_for_nonsquare")
    # multiply
    vs = case["vshape"]
    v = gauss(rng, vs + [rows])
    if batch:
        ctx.count("tt_multiply:batch_matrix_not_claimed")
        return
    r = safe(lambda: num(tn.tt_multiply(ttm, T(v))))
    if r[0] == "ok":
        impl["mul"] = r[1]
    if _model_on(ctx):
        try:
            model_tt(ctx, case, ttm, impl, v)
        except Exception as e:  # noqa
            ctx.corr("TT-matrix model hook raised %s: %s" % (type(e).__name__, str(e)[:200]), case)
    want = v.reshape(-1, rows) @ Ds[0]
    pv = "%d-way argument" % (len(vs) + 1)
    if r[0] == "err":
        report("tt_multiply", "%s, %s" % (pv, desc), "tt_multiply raised %s: %s" % (r[1], r[2]), raises=r[1])
    else:
        ok, err = close(r[1], want, rtol=1e-9)
        if not ok:
            report("tt_multiply", "%s, %s" % (pv, desc), "tt_multiply(ttm, v) differs from v @ dense (%s); in=%s out=%s v=%s"
                   % (err, case["ind"], case["outd"], vs))


def run_tt(ctx, case, rng, report):
    kind, ind, outd, batch = case["kind"], case["ind"], case["outd"], case.get("batch")
    d = len(ind)
    rows, cols = int(np.prod(ind)), int(np.prod(outd))
    B = batch or 1
    ctx.case((kind, tuple(ind), tuple(outd), tuple(case.get("ranks", [])), batch, case["fill"], case["dd"], tuple(case["vshape"])),
             d >= 2 or bool(batch), {k: case[k] for k in case if k != "seed"})
    ctx.count("d:%d" % d); ctx.count("batch" if batch else "non-batch")
    square_blocks = ind == outd
    if kind == "cores":
        ranks = [1] + case["ranks"] + [1]
        cs = [gauss(rng, ([B] if batch else []) + [ranks[k], ind[k], outd[k], ranks[k + 1]]) for k in range(d)]
        r = safe(lambda: tn.TTMatrix([T(c) for c in cs], ranks=list(case["ranks"]), input_dims=list(ind), output_dims=list(outd)))
        if r[0] == "err":
            report("TTMatrix(cores)", "batch" if batch else "non-batch", "TTMatrix(list of cores) raised %s: %s" % (r[1], r[2]), raises=r[1])
            return
        ttm = r[1]
        Ds = [dense_tt([c[b] for c in cs]) for b in range(B)] if batch else [dense_tt(cs)]
        check_tt_observables(ctx, case, rng, report, ttm, Ds, "built from cores", square_blocks)
        return
    Ms = [gen_matrix(rng, rows, cols, case["fill"]) for _ in range(B)]
    M = np.stack(Ms) if batch else Ms[0]
    ranks = [10 ** 4] * (d - 1) if kind == "dense" else list(case["ranks"])
    r = safe(lambda: tn.TTMatrix(T(M), ranks=ranks, input_dims=list(ind), output_dims=list(outd)))
    if r[0] == "err":
        report("TTMatrix(M)", "batch (3-D M)" if batch else ("2-D M, zero matrix" if case["fill"] == "zero" else "2-D M"),
               "TTMatrix(M, ranks=%s, input_dims=%s, output_dims=%s) raised %s: %s" % (ranks if kind != "dense" else "full", ind, outd, r[1], r[2]),
               raises=r[1])
        return
    ttm = r[1]
    cs = safe(lambda: npcores(ttm))
    if cs[0] == "err" or any(c.ndim != (5 if batch else 4) for c in cs[1]):
        report("TTMatrix(M)", "batch (3-D M)" if batch else "2-D M", "stored cores are not %d-way arrays" % (5 if batch else 4))
        return
    cs = cs[1]
    for k, c in enumerate(cs):
        if tuple(c.shape[-3:-1]) != (ind[k], outd[k]):
            report("TTMatrix(M)", "batch (3-D M)" if batch else "2-D M", "core %d has block shape %s, expected (%d, %d)" % (k, c.shape[-3:-1], ind[k], outd[k]))
            return
    if kind == "trunc":
        got_r = [c.shape[-1] for c in cs[:-1]]
        if any(g > w for g, w in zip(got_r, ranks)):
            report("TTMatrix(M)", "ranks given", "ranks %s exceed the requested maxima %s" % (got_r, ranks))
    Ds = [dense_tt([c[b] for c in cs]) for b in range(B)] if batch else [dense_tt(cs)]
    if kind == "dense":
        for b in range(B):
            ok, err = close(Ds[b], Ms[b], rtol=1e-9)
            if not ok:
                report("TTMatrix(M)", ("batch (3-D M)" if batch else "2-D M") + ", full ranks",
                       "the stored cores do not contract to M (%s); in=%s out=%s" % (err, ind, outd))
                break
        Ds_obs = Ms          # with full ranks the observable statements are about M itself
    else:
        Ds_obs = Ds
    check_tt_observables(ctx, case, rng, report, ttm, Ds_obs, "built from a dense matrix", square_blocks)
    if getattr(ctx, "use_model", False) and not getattr(ctx, "search_only", False):
        pass  # MODEL HOOK: M, ind, outd and the produced cores `cs` are available here (interleaving index map vs Lean model)


def run_cp(ctx, case, rng, report):
    ind, outd, rank = case["ind"], case["outd"], case["rank"]
    d = len(ind)
    rows, cols = int(np.prod(ind)), int(np.prod(outd))
    ctx.case(("cp", tuple(ind), tuple(outd), rank, case["fill"], case["dd"], case["random_factors"], tuple(case["vshape"])), d >= 2,
             {k: case[k] for k in case if k != "seed"})
    ctx.count("d:%d" % d)
    M = gen_matrix(rng, rows, cols, case["fill"])
    r = safe(lambda: tn.CPMatrix(T(M), rank=rank, input_dims=list(ind), output_dims=list(outd)))
    if r[0] == "err":
        report("CPMatrix(M)", "d=%s" % ("1" if d == 1 else ">=2"), "CPMatrix(M, rank=%d, input_dims=%s, output_dims=%s) raised %s: %s"
               % (rank, ind, outd, r[1], r[2]), raises=r[1])
        return
    cpm = r[1]
    full = d == 2 and rank >= min(ind[0] * outd[0], ind[1] * outd[1])
    if case["random_factors"]:
        cpm.cores = [T(gauss(rng, tuple(c.shape))) for c in cpm.cores]
        full = False
    cs = [num(c) for c in cpm.cores]
    if any(c.shape != (ind[k], outd[k], rank) for k, c in enumerate(cs)):
        report("CPMatrix(M)", "any", "factor shapes %s, expected (i_k, o_k, %d)" % ([c.shape for c in cs], rank))
        return
    D = dense_cp(cs)
    impl = {}
    r = safe(lambda: num(cpm.torch()))
    if r[0] == "ok":
        impl["torch"] = r[1]
    if r[0] == "err":
        report("CPMatrix.torch", "any", "CPMatrix.torch() raised %s: %s" % (r[1], r[2]), raises=r[1])
    else:
        ok, err = close(r[1], D, rtol=1e-9)
        if not ok:
            report("CPMatrix.torch", "any", "CPMatrix.torch() differs from the contraction of its factors (%s); in=%s out=%s" % (err, ind, outd))
        if full:
            ctx.count("cp:full_rank_two_factors")
            ok, err = close(r[1], M, rtol=1e-6)
            if not ok:
                report("CPMatrix(M)", "two factors, rank >= min unfolding size", "CPMatrix(M).torch() differs from M (%s); in=%s out=%s rank=%d"
                       % (err, ind, outd, rank))
    vs = case["vshape"]
    v = gauss(rng, vs + [rows])
    r = safe(lambda: num(tn.cp_multiply(cpm, T(v))))
    if r[0] == "ok":
        impl["mul"] = r[1]
    if _model_on(ctx):
        try:
            model_cp(ctx, case, cs, impl, v)
        except Exception as e:  # noqa
            ctx.corr("CP-matrix model hook raised %s: %s" % (type(e).__name__, str(e)[:200]), case)
    want = v.reshape(-1, rows) @ D
    pv = "%d-way argument" % (len(vs) + 1)
    if r[0] == "err":
        report("cp_multiply", pv, "cp_multiply raised %s: %s" % (r[1], r[2]), raises=r[1])
    else:
        ok, err = close(r[1], want, rtol=1e-9)
        if not ok:
            report("cp_multiply", pv, "cp_multiply(cpm, v) differs from v @ dense (%s); in=%s out=%s v=%s" % (err, ind, outd, vs))


def build_kron(case, blocks_per_b, ns, batch, build):
    """returns safe(...) of a TTMatrix for the Kronecker product of the blocks"""
    d = len(ns)
    if build == "cores":
        if batch:
            cs = [T(np.stack([blocks_per_b[b][k] for b in range(batch)])[:, None, :, :, None]) for k in range(d)]
        else:
            cs = [T(blocks_per_b[0][k][None, :, :, None]) for k in range(d)]
        return safe(lambda: tn.TTMatrix(cs, ranks=[1] * (d - 1), input_dims=list(ns), output_dims=list(ns)))
    Ks = [kron_all(bl) for bl in blocks_per_b]
    M = np.stack(Ks) if batch else Ks[0]
    return safe(lambda: tn.TTMatrix(T(M), ranks=case.get("cap") or [1] * (d - 1), input_dims=list(ns), output_dims=list(ns)))


def result_dense(res, B, batch):
    """dense matrices (one per batch element) of a TTMatrix result, by the independent contraction"""
    cs = npcores(res)
    if batch:
        return [dense_tt([c[b] for c in cs]) for b in range(B)]
    return [dense_tt(cs)]


def run_kron(ctx, case, rng, report):
    ns, op, batch, build = case["ns"], case["op"], case.get("batch"), case["build"]
    d = len(ns)
    B = batch or 1
    ctx.case(("kron", op, tuple(ns), batch, build, case["dd"]), d >= 2 or bool(batch), {k: case[k] for k in case if k != "seed"})
    ctx.count("kron:" + op); ctx.count("d:%d" % d); ctx.count("batch" if batch else "non-batch")
    blocks = [[gen_block(rng, n, op == "cholesky") for n in ns] for _ in range(B)]
    Ks = [kron_all(bl) for bl in blocks]
    r = build_kron(case, blocks, ns, batch, build)
    if r[0] == "err":
        report("TTMatrix(M)" if build == "dense" else "TTMatrix(cores)", ("batch (3-D M)" if batch else "2-D M") if build == "dense" else
               ("batch" if batch else "non-batch"), "building the Kronecker TTMatrix (%s) raised %s: %s" % (build, r[1], r[2]), raises=r[1])
        return
    ttm = r[1]
    if case.get("cap"):
        if any(c_.shape[0] != 1 or c_.shape[-1] != 1 for c_ in ttm.cores):
            ctx.count("kron: compression under a generous cap kept a rank > 1 (round-off; not a Kronecker TT-matrix)"); return
        ctx.count("kron: dense matrix compressed under a generous rank cap")
    pred = "Kronecker product of square blocks, " + ("single block (d=1)" if d == 1 else "d>=2 blocks")
    r = safe(lambda: getattr(ttm, op)())
    if r[0] == "err":
        ctx.count("kron_raise:%s:%s" % (op, r[1]))
        report(op, pred, "%s() on a valid Kronecker product (blocks %s, batch %s, built from %s) raised %s: %s" % (op, ns, batch, build, r[1], r[2]),
               raises=r[1])
        return
    val = r[1]
    try:
        if op == "determinant":
            want = np.array([np.linalg.det(K) for K in Ks]) if batch else np.linalg.det(Ks[0])
            ok, err = rel_ok(num(val), want, 1e-8)
            if not ok:
                report(op, pred, "determinant() = %s, numpy det of the dense product = %s (%s)" % (num(val), want, err))
            if _model_on(ctx) and not batch:
                # the loop of determinant() (Model kronDet, theorem C19.det_n_blocks) on the block determinants LAPACK returns
                from core import q
                a = ctx.drv().call("kron_det %d %s" % (d, " ".join("%d %s" % (n, q(float(np.linalg.det(b)))) for n, b in zip(ns, blocks[0]))))
                ctx.count("model:kron_det")
                if a[0] != "ok" or not rel_ok(_qs(["ok"] + a[1:])[0], float(num(val)), 1e-8)[0]:
                    ctx.corr("determinant(): implementation %s, model loop on the block determinants %s" % (num(val), a[:4]), case)
        elif op == "slog_determinant":
            sg, ld = val
            ws = [np.linalg.slogdet(K) for K in Ks]
            wsg = np.array([w[0] for w in ws]) if batch else ws[0][0]
            wld = np.array([w[1] for w in ws]) if batch else ws[0][1]
            ok1, e1 = close(num(sg), wsg, rtol=1e-12)
            ok2, e2 = close(num(ld), wld, rtol=1e-8)
            if not (ok1 and ok2):
                report(op, pred, "slog_determinant() = (%s, %s), numpy slogdet = (%s, %s)" % (num(sg), num(ld), wsg, wld))
        else:
            if not isinstance(val, tn.TTMatrix):
                report(op, pred, "%s() returned %s, not a TTMatrix" % (op, type(val).__name__))
                return
            got = result_dense(val, B, batch)
            for b in range(B):
                want = np.linalg.inv(Ks[b]) if op == "inv" else np.linalg.cholesky(Ks[b])
                ok, err = close(got[b], want, rtol=1e-8)
                if not ok:
                    report(op, pred, "%s() differs from numpy on the dense Kronecker product (%s); blocks %s" % (op, err, ns))
                    break
            o = safe(lambda: num(val.torch()))
            exp = np.stack(got) if batch else got[0]
            if o[0] == "err" or not close(o[1], exp, rtol=1e-9)[0]:
                report(op, pred + ", result.torch()", "the TTMatrix returned by %s() cannot be decompressed consistently: %s" % (op, o[1:] if o[0] == "err" else "differs from its cores"))
    except Exception as e:  # noqa  (malformed result object)
        report(op, pred, "%s() returned an unusable result (%s: %s)" % (op, type(e).__name__, str(e)[:200]))


def run_reject(ctx, case, rng, report):
    ind, outd, op, batch, why = case["ind"], case["outd"], case["op"], case.get("batch"), case["why"]
    d = len(ind)
    B = batch or 1
    ctx.case(("reject", why, op, tuple(ind), tuple(outd), batch, case["dd"]), d >= 2 or bool(batch), {k: case[k] for k in case if k != "seed"})
    ctx.count("reject:" + why); ctx.count("kron:" + op)
    if why == "rank":
        ranks = [rng.randint(1, 3) for _ in range(d - 1)]
        if max(ranks) == 1:
            ranks[rng.randrange(d - 1)] = 2
    else:
        ranks = [1] * (d - 1)
    rk = [1] + ranks + [1]
    cs = []
    for k in range(d):
        if ind[k] == outd[k] and why == "nonsquare":
            blk = [gen_block(rng, ind[k], op == "cholesky")[None, :, :, None] for _ in range(B)]
            cs.append(np.stack(blk) if batch else blk[0])
        else:
            cs.append(gauss(rng, ([B] if batch else []) + [rk[k], ind[k], outd[k], rk[k + 1]]))
    r = safe(lambda: tn.TTMatrix([T(c) for c in cs], ranks=list(ranks), input_dims=list(ind), output_dims=list(outd)))
    if r[0] == "err":
        report("TTMatrix(cores)", "batch" if batch else "non-batch", "TTMatrix(list of cores) raised %s: %s" % (r[1], r[2]), raises=r[1])
        return
    ttm = r[1]
    r = safe(lambda: getattr(ttm, op)())
    if r[0] == "err":
        ctx.count("reject_ok:%s:%s" % (why, r[1]))
        return
    pred = "TT-rank > 1 (not a Kronecker product), square blocks" if why == "rank" else "TT-ranks 1, non-square blocks"
    report(op, pred, "%s() accepted an input it must reject (%s): input_dims=%s output_dims=%s ranks=%s" % (op, pred, ind, outd, ranks))


# =============================================================================== correspondence with the Lean model (main session)
def _corr_cases(rng, tier):
    n = {"quick": 150, "thorough": 2000, "search": 0}[tier]
    out = []
    for _ in range(n):
        d = rng.randint(1, 4)
        ind = [rng.randint(1, 3) for _ in range(d)]
        outd = list(ind) if rng.random() < 0.6 else [rng.randint(1, 3) for _ in range(d)]
        ranks = [1] * (d - 1) if rng.random() < 0.6 else [rng.randint(1, 3) for _ in range(d - 1)]
        out.append({"kind": "corr", "ind": ind, "outd": outd, "ranks": ranks, "seed": rng.randrange(1 << 30)})
    return out


_orig_cases = cases
_orig_run_case = run_case


def cases(rng, tier):  # noqa: F811
    return _orig_cases(rng, tier) + _corr_cases(rng, tier)


def run_case(ctx, case):  # noqa: F811
    if case.get("kind") != "corr":
        return _orig_run_case(ctx, case)
    import torch
    ind, outd, ranks = case["ind"], case["outd"], case["ranks"]
    d = len(ind)
    ctx.case(("corr", tuple(ind), tuple(outd), tuple(ranks)), True,
             {"op": "model correspondence: _check_kron_properties and the index interleaving", "input_dims": ind, "output_dims": outd, "ranks": ranks})
    ctx.count("corr:kron_ok")
    if not (getattr(ctx, "use_model", False) and not getattr(ctx, "search_only", False)):
        return
    g = torch.Generator().manual_seed(case["seed"])
    rr = [1] + ranks + [1]
    cores = [torch.randn(rr[k], ind[k], outd[k], rr[k + 1], generator=g, dtype=torch.float64) for k in range(d)]
    A = tn.TTMatrix(cores, ranks, ind, outd)
    try:
        A._check_kron_properties(); impl_ok = True
    except ValueError:
        impl_ok = False
    toks = ctx.drv().call("kron_ok %d %s %d %s %d %s" % (len(ranks), " ".join(map(str, ranks)), d, " ".join(map(str, ind)), d, " ".join(map(str, outd))))
    if (toks[2] == "1") != impl_ok:
        ctx.corr("_check_kron_properties %s the input, the model's kronOK says %s" % ("accepts" if impl_ok else "rejects", toks[2]), case)
    # index interleaving: torch() of the TT-matrix built from the dense matrix must read back entry (i, j) from the mode indices
    import random as _r
    rng = _r.Random(case["seed"])
    i_ = [rng.randrange(s) for s in ind]; j_ = [rng.randrange(s) for s in outd]
    toks = ctx.drv().call("pair_split %d %s %d %s %d %s" % (d, " ".join(map(str, i_)), d, " ".join(map(str, j_)), d, " ".join(map(str, outd))))
    parts = " ".join(toks[1:]).split(" | ")
    p = [int(v) for v in parts[0].split()[1:]]
    # the implementation's decompression: entry [flat(i), flat(j)] of torch() equals the chain entry at the paired indices
    flat = tn.Tensor([c.reshape(c.shape[0], -1, c.shape[-1]) for c in cores]).torch()
    row = 0
    for s, v in zip(ind, i_):
        row = row * s + v
    col = 0
    for s, v in zip(outd, j_):
        col = col * s + v
    got = float(A.torch()[row, col]); exp = float(flat[tuple(p)])
    if abs(got - exp) > 1e-9 * max(1.0, abs(exp)):
        ctx.corr("TTMatrix.torch()[%d,%d] = %r but the chain entry at the model's paired indices %s is %r" % (row, col, got, p, exp), case)
