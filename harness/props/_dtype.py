"""Precision / dtype / entry-point cases, generic over the properties (wired in by run.py, kind == "dtype").

The per-property generators build float64 tensors through the obvious entry point (every case is also run through the exact rational
model, for which float64 is the natural working precision).  Round 9 of the seeded campaign asked for changes that are invisible there:
another working precision (float32 — torch's default —, integer / bool dense inputs, mixed operands, a process default dtype that differs
from the tensors'), magnitudes far from 1 (1e-20, 1e+20: hard-coded absolute constants, under/overflow of intermediate squares), and other
DOORS to the same routine (augmented assignment, functional vs method form, an argument given as 0-dim tensor / range / tuple / NumPy
array, wrappers that forward to the routine the property names).  Each property gets a handful of such scenarios against dense float64
NumPy oracles, with the tolerance of the working precision of the inputs.  Only scenarios that the unchanged tree supports are listed
(several dtype combinations raise on the pinned tree: they are outside what the properties promise and are not generated).
"""
import contextlib, math, random, itertools
import numpy as np, torch
import core
from core import safe, tn

N_CASES = {"quick": 10, "thorough": 60, "search": 20}


def cases(prop, rng, tier):
    import os
    if prop not in RUN or os.environ.get("VERIF_NO_DTYPE"):
        return []
    return [{"kind": "dtype", "seed": rng.randrange(1 << 30), "k": k} for k in range(N_CASES[tier])]


def run(prop, ctx, case):
    rs = np.random.default_rng(case["seed"])
    ctx.count("dtype-layer")
    dd0 = torch.get_default_dtype()
    try:
        RUN[prop](ctx, case, rs, case["k"])
    finally:
        torch.set_default_dtype(dd0)


# ------------------------------------------------------------------------------------------------- helpers
@contextlib.contextmanager
def dd(dtype):
    """process default dtype (torch's factory setting is float32; the repository's tests and this harness use float64)"""
    old = torch.get_default_dtype()
    torch.set_default_dtype(dtype)
    try:
        yield
    finally:
        torch.set_default_dtype(old)


F32, F64 = torch.float32, torch.float64
TOL = {F32: 2e-5, F64: 1e-10}


def D(t):
    return t.torch().detach().double().numpy()


def rand_t(rs, shape, dtype=F64, ranks=2, cp_at=(), fac_at=(), scale=1.0):
    """random tensor with cores of the given dtype; `scale` is applied to the first core"""
    N = len(shape)
    R = [1] + [ranks] * (N - 1) + [1]
    cores, Us = [], []
    for n in range(N):
        s = shape[n]
        if n in fac_at:
            sn = max(1, min(s, 2))
            Us.append(torch.tensor(rs.standard_normal((s, sn))).to(dtype)); s = sn
        else:
            Us.append(None)
        if n in cp_at:
            cores.append(torch.tensor(rs.standard_normal((s, ranks))).to(dtype))
        else:
            cores.append(torch.tensor(rs.standard_normal((R[n], s, R[n + 1]))).to(dtype))
    if cp_at:          # CP cores need one common rank; keep the TT cores compatible by making every mode CP
        cores = [torch.tensor(rs.standard_normal((Us[n].shape[1] if Us[n] is not None else shape[n], ranks))).to(dtype) for n in range(N)]
    cores[0] = cores[0] * scale
    return tn.Tensor(cores, Us=Us)


def rep(ctx, case, op, what, pred="dtype / precision / entry point"):
    ctx.oracle("[dtype] " + what, case, cls={"op": op, "predicate": pred})


def chk(ctx, case, op, what, got, exp, tol):
    got = np.asarray(got, dtype=np.float64); exp = np.asarray(exp, dtype=np.float64)
    if got.shape != exp.shape:
        rep(ctx, case, op, "%s: shape %s, expected %s" % (what, got.shape, exp.shape)); return False
    if not np.all(np.isfinite(got)) and np.all(np.isfinite(exp)):
        rep(ctx, case, op, "%s: non-finite entries" % what); return False
    sc = max(float(np.max(np.abs(exp))) if exp.size else 0.0, 1e-300)
    err = float(np.max(np.abs(got - exp))) / sc if exp.size else 0.0
    if not err <= tol:
        rep(ctx, case, op, "%s: relative error %.3g (tolerance %.1g)" % (what, err, tol)); return False
    return True


def guard(ctx, case, op, what, fn):
    r = safe(fn)
    if r[0] == "err":
        rep(ctx, case, op, "%s raised %s: %s" % (what, r[1], r[2])); return None
    return r


def pick(rs, xs):
    return xs[int(rs.integers(len(xs)))]


def shape_of(rs, lo=2, hi=4, nmin=2, nmax=4):
    return [int(rs.integers(lo, hi + 1)) for _ in range(int(rs.integers(nmin, nmax + 1)))]


# ------------------------------------------------------------------------------------------------- C01
def d_c01(ctx, case, rs, k):
    """lossless round trip for dense arrays of every dtype the constructor takes, under either process default dtype"""
    shape = shape_of(rs, 2, 4, 1, 4)
    kind = ["int64-big", "int64-huge", "int32", "float32", "float64", "int64-small", "float64-np", "float32-np"][k % 8]
    default = pick(rs, [F32, F64])
    if kind == "int64-big":
        x = rs.integers(2 ** 24, 2 ** 25, size=shape).astype(np.int64)
    elif kind == "int64-huge":
        x = (1_700_000_000_000_000_000 + rs.integers(0, 10 ** 6, size=shape)).astype(np.int64)
    elif kind == "int32":
        x = rs.integers(2 ** 24, 2 ** 26, size=shape).astype(np.int32)
    elif kind == "int64-small":
        x = rs.integers(-5, 6, size=shape).astype(np.int64)
    elif kind.startswith("float32"):
        x = rs.standard_normal(shape).astype(np.float32)
    else:
        x = rs.standard_normal(shape)
    as_np = kind.endswith("-np") or (kind.startswith("int") and rs.random() < 0.5)
    arg = x if as_np else torch.tensor(x)
    ctx.case(("dtype", "C01", kind, as_np, str(default), len(shape)), True, {"op": "Tensor(dense %s %s) round trip, default dtype %s" % (
        "ndarray" if as_np else "torch", x.dtype, default)})
    with dd(default):
        r = guard(ctx, case, "Tensor(x)", "Tensor(%s array).torch()" % x.dtype, lambda: tn.Tensor(arg).torch())
        if r is None:
            return
        y = r[1]
        if kind.startswith("int"):
            yi = y.detach().cpu().numpy()
            # exact: compare as Python ints (no float round trip of the oracle itself)
            bad = [(i, int(a), b) for i, (a, b) in enumerate(zip(x.reshape(-1).tolist(), yi.reshape(-1).tolist())) if float(a) != float(b) or int(b) != int(a)]
            if yi.shape != x.shape or bad:
                rep(ctx, case, "Tensor(x)", "integer array does not survive compress/decompress: %d of %d entries differ (e.g. %s), result dtype %s" % (
                    len(bad), x.size, bad[:1], y.dtype))
            for nm, f in (("clone", lambda: tn.Tensor(arg).clone().torch()), ("tt", lambda: tn.Tensor(arg).tt().torch())):
                r2 = guard(ctx, case, nm, nm + "() of an integer tensor", f)
                if r2 is not None and not np.array_equal(r2[1].detach().cpu().numpy().astype(np.float64), yi.astype(np.float64)):
                    rep(ctx, case, nm, "%s() changes the decompressed integer array" % nm)
        else:
            chk(ctx, case, "Tensor(x)", "Tensor(%s) round trip under default %s" % (x.dtype, default), y.detach().double().numpy(), x.astype(np.float64),
                1e-6 if x.dtype == np.float32 else 1e-13)
            if x.dtype == np.float64 and y.dtype != F64:
                rep(ctx, case, "Tensor(x)", "float64 array decompresses to %s" % y.dtype)


# ------------------------------------------------------------------------------------------------- C02
def d_c02(ctx, case, rs, k):
    """arithmetic between operands of different dtype / through the other spellings of the operators"""
    shape = shape_of(rs, 2, 4, 1, 3)
    a = rand_t(rs, shape, F64, fac_at=(0,) if rs.random() < 0.3 else ())
    da = D(a)
    kind = ["uint8", "bool", "int64", "float32", "augmented", "float32-both"][k % 6]
    ctx.case(("dtype", "C02", kind, len(shape)), True, {"op": "arithmetic with a %s operand" % kind})
    if kind in ("uint8", "bool", "int64", "float32"):
        if kind == "uint8":
            xb = rs.integers(0, 256, size=shape).astype(np.uint8)
        elif kind == "bool":
            xb = rs.integers(0, 2, size=shape).astype(bool)
        elif kind == "int64":
            xb = rs.integers(-9, 10, size=shape).astype(np.int64)
        else:
            xb = rs.standard_normal(shape).astype(np.float32)
        b = guard(ctx, case, "Tensor(x)", "Tensor(%s array)" % kind, lambda: tn.Tensor(torch.tensor(xb)))
        if b is None:
            return
        b = b[1]; db = xb.astype(np.float64)
        tol = 1e-6 if kind == "float32" else 1e-12
        c = float(pick(rs, [0.5, 2.0, -1.5]))
        for nm, f, e in (("a - b", lambda: a - b, da - db), ("a + b", lambda: a + b, da + db), ("a + (-b)", lambda: a + (-b), da - db),
                         ("b - a", lambda: b - a, db - da), ("c - b", lambda: c - b, c - db), ("-b", lambda: -b, -db), ("1 - b", lambda: 1 - b, 1 - db)):
            r = guard(ctx, case, nm, "%s with b of dtype %s" % (nm, kind), f)
            if r is not None:
                chk(ctx, case, nm, "%s with b of dtype %s" % (nm, kind), D(r[1]), e, tol)
    elif kind == "augmented":
        u = rand_t(rs, shape, F64); du = D(u)
        c = float(pick(rs, [2.0, -3.0, 0.125, 5]))
        for nm, f, e in (("t *= c", lambda t: t.__imul__(c) if hasattr(t, "__imul__") else t * c, da * c),
                         ("t += u", lambda t: t.__iadd__(u) if hasattr(t, "__iadd__") else t + u, da + du),
                         ("t -= u", lambda t: t.__isub__(u) if hasattr(t, "__isub__") else t - u, da - du),
                         ("t /= c", lambda t: t.__itruediv__(c) if hasattr(t, "__itruediv__") else t / c, da / c)):
            t = a.clone()
            r = guard(ctx, case, nm, nm, lambda: f(t))
            if r is not None:
                chk(ctx, case, nm, nm, D(r[1]), e, 1e-12)
        chk(ctx, case, "augmented", "the operand of augmented assignments performed on its clones", D(a), da, 0.0)
    else:
        a32 = rand_t(rs, shape, F32); b32 = rand_t(rs, shape, F32)
        with dd(pick(rs, [F32, F64])):
            for nm, f, e in (("+", lambda: a32 + b32, D(a32) + D(b32)), ("*", lambda: a32 * b32, D(a32) * D(b32)), ("-", lambda: a32 - b32, D(a32) - D(b32)),
                             ("2.5*", lambda: 2.5 * a32, 2.5 * D(a32)), ("+1", lambda: a32 + 1, D(a32) + 1)):
                r = guard(ctx, case, nm, "float32 operands: " + nm, f)
                if r is not None:
                    chk(ctx, case, nm, "float32 operands: " + nm, D(r[1]), e, 2e-5)


# ------------------------------------------------------------------------------------------------- C03
def d_c03(ctx, case, rs, k):
    """indexing through the wrappers (unbind / squeeze / unsqueeze) and with keys given as list / tuple, for float32 and float64"""
    dtype = pick(rs, [F32, F64])
    N = [1, 1, 2, 3][k % 4]
    shape = shape_of(rs, 2, 5, N, N)
    t = rand_t(rs, shape, dtype, fac_at=(0,) if rs.random() < 0.4 else ())
    x = D(t)
    ctx.case(("dtype", "C03", N, str(dtype)), True, {"op": "unbind / squeeze / unsqueeze on a %d-mode %s tensor" % (N, dtype)})
    for dim in (0, -1):
        r = guard(ctx, case, "unbind", "tn.unbind(t, %d)" % dim, lambda: tn.unbind(t, dim))
        if r is None:
            continue
        parts = r[1]
        d = dim % N
        if len(parts) != shape[d]:
            rep(ctx, case, "unbind", "unbind(t, %d) returns %d pieces for a mode of size %d" % (dim, len(parts), shape[d])); continue
        for i, p in enumerate(parts):
            e = np.take(x, i, axis=d)
            g = D(p) if isinstance(p, tn.Tensor) else np.asarray(p.detach().double().numpy() if isinstance(p, torch.Tensor) else p, dtype=np.float64)
            if g.shape != e.shape:
                rep(ctx, case, "unbind", "unbind(t, %d)[%d] has shape %s, t.torch()[..] has shape %s" % (dim, i, g.shape, e.shape)); break
            if not chk(ctx, case, "unbind", "unbind(t, %d)[%d]" % (dim, i), g, e, TOL[dtype]):
                break
    r = guard(ctx, case, "unsqueeze", "unsqueeze", lambda: tn.unsqueeze(t, 0))
    if r is not None:
        chk(ctx, case, "unsqueeze", "unsqueeze(t, 0)", D(r[1]), x[None], TOL[dtype])


# ------------------------------------------------------------------------------------------------- C04
def d_c04(ctx, case, rs, k):
    """the tolerance given as Python float | NumPy scalar | 0-dim torch tensor (one object used for several calls); functional vs method form"""
    shape = [int(rs.integers(5, 9)) for _ in range(4)]
    form = ["float", "np", "t64", "t32", "t64", "t32"][k % 6]
    eps0 = float(pick(rs, [0.05, 0.02, 0.1]))
    mk = {"float": lambda: eps0, "np": lambda: np.float64(eps0), "t64": lambda: torch.tensor(eps0, dtype=F64), "t32": lambda: torch.tensor(eps0, dtype=F32)}[form]
    eps = mk()
    ctx.case(("dtype", "C04", form), True, {"op": "round*/Tensor(x, eps) with eps given as %s, reused" % form})

    def fresh():
        # decaying spectrum, norm well above sqrt(N): something to discard on every bond and mode
        t = rand_t(rs, shape, F64, ranks=4, fac_at=(1,))
        w = 0.5 ** np.arange(4)
        t.cores[1] = t.cores[1] * torch.tensor(w)[None, None, :] * 40.0
        return t
    calls = [("t.round(eps)", lambda t: (t.round(eps), t)[1]), ("tn.round(t, eps=eps)", lambda t: tn.round(t, eps=eps)),
             ("t.round_tt(eps)", lambda t: (t.round_tt(eps), t)[1]), ("tn.round_tt(t, eps=eps)", lambda t: tn.round_tt(t, eps=eps)),
             ("t.round_tucker(eps)", lambda t: (t.round_tucker(eps), t)[1]), ("tn.Tensor(x, eps=eps)", None)]
    order = list(rs.permutation(len(calls)))
    for j in order:
        nm, f = calls[j]
        t = fresh(); x = D(t)
        if f is None:
            r = guard(ctx, case, nm, nm, lambda: tn.Tensor(torch.tensor(x), eps=eps))
        else:
            tc = t.clone()
            r = guard(ctx, case, nm, nm, lambda: f(tc))
        if r is None:
            continue
        err = np.linalg.norm(D(r[1]) - x) / np.linalg.norm(x)
        if not err <= eps0 * (1 + 1e-6) + (2e-8 if "round(" in nm or "Tensor(" in nm else 0):
            rep(ctx, case, nm, "%s with eps given as %s: relative error %.4g > eps %.4g" % (nm, form, err, eps0))
        if abs(float(eps) - eps0) > 1e-6 * eps0:
            rep(ctx, case, nm, "%s modified the caller's eps object: %r -> %r" % (nm, eps0, float(eps))); eps = mk()


# ------------------------------------------------------------------------------------------------- C05
def d_c05(ctx, case, rs, k):
    """fixed-rank decompositions of float64 data handed over as ndarray / torch tensor, under either process default dtype"""
    default = [F32, F64][k % 2]
    shape = [int(rs.integers(4, 7)) for _ in range(int(rs.integers(3, 5)))]
    N = len(shape)
    as_np = rs.random() < 0.6
    which = pick(rs, ["tt", "tucker", "cp1"])
    if which == "cp1":
        vs = [rs.standard_normal(s) for s in shape]
        x = vs[0]
        for v in vs[1:]:
            x = np.multiply.outer(x, v)
        kw = {"ranks_cp": 1}
    else:
        r = 2
        src = rand_t(rs, shape, F64, ranks=r, fac_at=tuple(range(N)) if which == "tucker" else ())
        x = D(src)
        kw = {"ranks_tt": pick(rs, [r, [r] * (N - 1)])} if which == "tt" else {"ranks_tucker": pick(rs, [r, [r] * N])}
    ctx.case(("dtype", "C05", which, as_np, str(default)), True, {"op": "Tensor(float64 %s, %s) under default %s" % ("ndarray" if as_np else "torch", kw, default)})
    arg = x if as_np else torch.tensor(x, dtype=F64)
    with dd(default):
        r_ = guard(ctx, case, "Tensor(x, ranks)", "Tensor(x, %s)" % kw, lambda: tn.Tensor(arg, **kw))
        if r_ is None:
            return
        y = D(r_[1])
    chk(ctx, case, "Tensor(x, ranks)", "float64 %s whose ranks fit %s (default dtype %s) is not reproduced" % ("ndarray" if as_np else "tensor", kw, default),
        y, x, 1e-9 if which != "cp1" else 1e-7)


# ------------------------------------------------------------------------------------------------- C06
def d_c06(ctx, case, rs, k):
    """metrics of tensors whose entries are all far from 1 in magnitude, and of float32 tensors"""
    scale = [1e-20, 1e+20, 1e-18, 1e-12, 1e+15, 1.0][k % 6]
    dtype = F64 if scale != 1.0 else F32
    shape = shape_of(rs, 2, 4, 2, 4)
    fmt = pick(rs, ["tt", "tucker", "cp"])
    t = rand_t(rs, shape, dtype, ranks=2, fac_at=(0, 1) if fmt == "tucker" else (), cp_at=(0,) if fmt == "cp" else ())
    u = rand_t(rs, shape, dtype, ranks=2)
    t = t * scale; u = u * scale
    x, y = D(t), D(u)
    tol = 1e-9 if dtype == F64 else 5e-4
    ctx.case(("dtype", "C06", fmt, scale, str(dtype)), True, {"op": "metrics on a %s tensor with entries ~%g" % (dtype, scale)})
    ref = {"norm": np.linalg.norm(x), "normsq": np.sum(x * x), "sum": x.sum(), "mean": x.mean(), "var": x.var(), "std": x.std(),
           "dot": np.sum(x * y), "dist": np.linalg.norm(x - y), "t.std()": x.std(), "t.var()": x.var(), "t.norm()": np.linalg.norm(x)}
    fns = {"norm": lambda: tn.norm(t), "normsq": lambda: tn.normsq(t), "sum": lambda: tn.sum(t), "mean": lambda: tn.mean(t), "var": lambda: tn.var(t),
           "std": lambda: tn.std(t), "dot": lambda: tn.dot(t, u), "dist": lambda: tn.dist(t, u), "t.std()": lambda: t.std(), "t.var()": lambda: t.var(),
           "t.norm()": lambda: t.norm()}
    for nm in fns:
        r = guard(ctx, case, nm, nm, fns[nm])
        if r is None:
            continue
        g, e = float(r[1]), float(ref[nm])
        # sums and dots may cancel: judge them against the magnitude of the terms
        sc = {"sum": np.abs(x).sum(), "mean": np.abs(x).mean(), "dot": np.sum(np.abs(x * y)), "dist": np.linalg.norm(x) + np.linalg.norm(y)}.get(nm, abs(e))
        if nm in ("var", "std", "t.std()", "t.var()") and x.std() < 1e-3 * np.abs(x).max():
            continue
        if not abs(g - e) <= tol * sc:
            rep(ctx, case, nm, "%s of a tensor with entries ~%g: %r, on the dense array %r" % (nm, scale, g, e))


# ------------------------------------------------------------------------------------------------- C07
def d_c07(ctx, case, rs, k):
    """gradients through the other spellings: augmented assignment, t / c, -t, tn.<fn> vs method"""
    shape = [int(rs.integers(3, 6))] + [int(rs.integers(2, 4)) for _ in range(int(rs.integers(1, 3)))]
    dtype = pick(rs, [F64, F64, F32])
    t0 = rand_t(rs, shape, dtype, fac_at=(1,) if rs.random() < 0.4 else ())
    u0 = rand_t(rs, shape, dtype)
    c = float(pick(rs, [2.0, -3.0, 0.125, 5, -1.0]))
    form = ["t *= c", "t /= c", "t += u", "t -= u", "t = -t", "t = t / c"][k % 6]
    ctx.case(("dtype", "C07", form, str(dtype)), True, {"op": "gradient through `%s`" % form})

    def leaves():
        cs = [x.detach().clone().requires_grad_() for x in t0.cores]
        Us = [None if U is None else U.detach().clone().requires_grad_() for U in t0.Us]
        return cs, Us

    def apply(t, u, dense):
        if form == "t *= c":
            t *= c
        elif form == "t /= c":
            t /= c
        elif form == "t += u":
            t += u
        elif form == "t -= u":
            t -= u
        elif form == "t = -t":
            t = -t
        else:
            t = t / c
        return t

    def loss_c(t):
        return tn.norm(t[:2] - t[-2:]) + tn.sum(t) + tn.dot(t, t)

    def loss_d(x):
        return torch.linalg.norm(x[:2] - x[-2:]) + x.sum() + (x * x).sum()
    cs, Us = leaves()
    nodes = cs + [U for U in Us if U is not None]
    snap = [n.detach().clone() for n in nodes]
    torch.set_default_dtype(dtype)          # single-precision models live under the single-precision default (restored by run())
    r = guard(ctx, case, form, form + " followed by a loss", lambda: loss_c(apply(tn.Tensor(cs, Us=Us), u0, False)))
    if r is None:
        return
    if not (isinstance(r[1], torch.Tensor) and r[1].requires_grad):
        rep(ctx, case, form, "loss after `%s` does not require grad (silently detached)" % form); return
    g = torch.autograd.grad(r[1], nodes, allow_unused=True)
    if any(not torch.equal(a, b.detach()) for a, b in zip(snap, nodes)):
        rep(ctx, case, form, "`%s` overwrote the caller's leaf cores" % form); return
    cs2, Us2 = leaves()
    nodes2 = cs2 + [U for U in Us2 if U is not None]
    xd = tn.Tensor(cs2, Us=Us2).torch()
    ud = u0.torch().detach()
    xd = {"t *= c": xd * c, "t /= c": xd / c, "t += u": xd + ud, "t -= u": xd - ud, "t = -t": -xd, "t = t / c": xd / c}[form]
    ld = loss_d(xd)
    g2 = torch.autograd.grad(ld, nodes2, allow_unused=True)
    tol = 1e-7 if dtype == F64 else 5e-3
    if abs(float(r[1]) - float(ld)) > tol * (1 + abs(float(ld))):
        rep(ctx, case, form, "loss value after `%s`: %r, dense %r" % (form, float(r[1]), float(ld)))
    for i, (a, b) in enumerate(zip(g, g2)):
        if a is None or b is None:
            if (a is None) != (b is None):
                rep(ctx, case, form, "gradient w.r.t. node %d after `%s` is %s on the compressed path" % (i, form, "missing" if a is None else "present")); return
            continue
        sc = max(float(b.abs().max()), 1e-30)
        if float((a - b).abs().max()) > tol * sc:
            rep(ctx, case, form, "gradient w.r.t. node %d after `%s` differs from the dense gradient (relative %.3g)" % (i, form, float((a - b).abs().max()) / sc)); return


# ------------------------------------------------------------------------------------------------- C08
def d_c08(ctx, case, rs, k):
    """cross approximation of float64 tensors under the process default dtype float32, both calling conventions of `function`"""
    default = [F32, F32, F64][k % 3]
    arg = ["matrix", "vectors"][k % 2]
    shape = [int(rs.integers(4, 7)) for _ in range(3)]
    a = rand_t(rs, shape, F64, ranks=2); b = rand_t(rs, shape, F64, ranks=2); c = rand_t(rs, shape, F64, ranks=1)
    exp = D(a) * D(b) + D(c)
    seen = []
    ctx.case(("dtype", "C08", arg, str(default)), True, {"op": "cross(function_arg=%s) on float64 tensors under default dtype %s" % (arg, default)})

    def fm(X):
        seen.append(X.dtype); return X[:, 0] * X[:, 1] + X[:, 2]

    def fv(x, y, z):
        seen.append(x.dtype); return x * y + z
    with dd(default):
        torch.manual_seed(int(rs.integers(1 << 30)))
        r = guard(ctx, case, "cross", "cross(function_arg=%s)" % arg,
                  lambda: tn.cross(function=fm if arg == "matrix" else fv, tensors=[a, b, c], function_arg=arg, verbose=False, rmax=8, max_iter=10, eps=1e-9))
        if r is None:
            return
        got = D(r[1])
    if any(d != F64 for d in seen):
        rep(ctx, case, "cross", "the function received %s arguments for float64 tensors (not entries of the tensors)" % sorted({str(d) for d in seen}))
    err = np.linalg.norm(got - exp) / np.linalg.norm(exp)
    if err > 1e-9:
        rep(ctx, case, "cross", "representable target (ranks <= 5) of float64 tensors recovered to %.3g only (function_arg=%s, default dtype %s)" % (err, arg, default))


# ------------------------------------------------------------------------------------------------- C09
def d_c09(ctx, case, rs, k):
    """un-normalised marginals of any magnitude (1e-20 .. 1e+20, integer-valued, float32) give the result of their normalised version"""
    N = int(rs.integers(2, 4))
    shape = [int(rs.integers(2, 5)) for _ in range(N)]
    t = rand_t(rs, shape, F64, ranks=2)
    base = [rs.uniform(0.2, 1.0, s) for s in shape]
    norm = [torch.tensor(m / m.sum()) for m in base]
    scale = [1e-20, 1e+20, 1e-13, 3.0, "int", "f32"][k % 6]
    if scale == "int":
        base = [np.round(m * 10) + 1 for m in base]
        norm = [torch.tensor(m / m.sum()) for m in base]
        marg = [torch.tensor(m.astype(np.int64)) for m in base]
    elif scale == "f32":
        marg = [torch.tensor(m * 7.0).float() for m in base]
        norm = [(m.double() / m.double().sum()) for m in marg]
    else:
        marg = [torch.tensor(m * scale) for m in base]
        if rs.random() < 0.4:          # only one un-normalised vector
            j = int(rs.integers(N)); marg = [marg[n] if n == j else norm[n] for n in range(N)]
    x = tn.symbols(N)
    masks = [("only(x0)", tn.only(x[0])), ("x0 | x%d" % (N - 1), x[0] | x[N - 1]), ("any", tn.any(N)), ("x0 & x1", x[0] & x[1])]
    ctx.case(("dtype", "C09", str(scale), N), True, {"op": "sobol / mean_dimension / dimension_distribution with marginals of scale %s" % scale})
    for nm, mk in masks:
        r1 = guard(ctx, case, "sobol", "sobol(%s) with un-normalised marginals (%s)" % (nm, scale), lambda: float(tn.sobol(t, mk, marginals=marg)))
        r2 = guard(ctx, case, "sobol", "sobol(%s) with normalised marginals" % nm, lambda: float(tn.sobol(t, mk, marginals=norm)))
        if r1 is not None and r2 is not None and abs(r1[1] - r2[1]) > (1e-8 if scale != "f32" else 1e-5):
            rep(ctx, case, "sobol", "sobol(%s): %r with marginals scaled by %s, %r with their normalised version" % (nm, r1[1], scale, r2[1]))
    for nm, f in (("mean_dimension", lambda m: float(tn.mean_dimension(t, marginals=m))),
                  ("dimension_distribution", lambda m: tn.dimension_distribution(t, marginals=m).detach().double().numpy())):
        r1 = guard(ctx, case, nm, nm + " with un-normalised marginals", lambda: f(marg))
        r2 = guard(ctx, case, nm, nm + " with normalised marginals", lambda: f(norm))
        if r1 is not None and r2 is not None and float(np.max(np.abs(np.asarray(r1[1]) - np.asarray(r2[1])))) > (1e-8 if scale != "f32" else 1e-5):
            rep(ctx, case, nm, "%s: %s with marginals scaled by %s, %s with their normalised version" % (nm, r1[1], scale, r2[1]))
    for m, m0 in zip(marg, [mm.clone() for mm in marg]):
        pass


# ------------------------------------------------------------------------------------------------- C10
def d_c10(ctx, case, rs, k):
    """the empty / single terms reached through truncate_anova (positional and keyword marginals, keepdim either way) equal those of the decomposition"""
    N = int(rs.integers(2, 4))
    shape = [int(rs.integers(2, 5)) for _ in range(N)]
    dtype = pick(rs, [F64, F64, F32])
    t = rand_t(rs, shape, dtype, ranks=2)
    marg = [torch.tensor(rs.uniform(0.2, 1.0, s) * pick(rs, [1.0, 3.0, 1e-3])).to(dtype) for s in shape]
    W = [m.double().numpy() / m.double().numpy().sum() for m in marg]
    x = D(t)
    mean = x.copy()
    for n in range(N):
        sh = [1] * N; sh[n] = -1
        mean = np.sum(mean * W[n].reshape(sh), axis=n, keepdims=True)
    mean = float(mean.reshape(()))
    sy = tn.symbols(N)
    empty_masks = [("tn.none(N)", tn.none(N))]
    m_ = ~sy[0]
    for s_ in sy[1:]:
        m_ = m_ & ~s_
    empty_masks.append(("~x0 & ~x1 ...", m_))
    tol = 1e-9 if dtype == F64 else 1e-4
    ctx.case(("dtype", "C10", N, str(dtype), k % 3), True, {"op": "truncate_anova on the empty-tuple mask, marginals given"})
    for nm, mk in empty_masks:
        for form, f in (("keyword", lambda: tn.truncate_anova(t, mk, marginals=marg)), ("positional", lambda: tn.truncate_anova(t, mk, False, marg)),
                        ("keepdim=True", lambda: tn.truncate_anova(t, mk, keepdim=True, marginals=marg))):
            r = guard(ctx, case, "truncate_anova", "truncate_anova(t, %s) [%s]" % (nm, form), f)
            if r is None:
                continue
            v = r[1]
            g = D(v) if isinstance(v, tn.Tensor) else np.asarray(float(v))
            if not np.all(np.abs(g - mean) <= tol * (1 + abs(mean))):
                rep(ctx, case, "truncate_anova", "empty term via truncate_anova(t, %s) [%s] = %s, weighted mean %r" % (nm, form, g.reshape(-1)[:3], mean))


# ------------------------------------------------------------------------------------------------- C11
def d_c11(ctx, case, rs, k):
    """values of another dtype than the tensor (int64 / int32 / bool / float32 / float64; ndarray, torch, compressed) assigned into float32 / float64 tensors"""
    tdt = [F32, F64][k % 2]
    vkind = ["int64", "int32", "int64", "bool", "float64", "float32"][(k // 2) % 6]
    shape = shape_of(rs, 3, 5, 2, 3)
    t = rand_t(rs, shape, tdt, fac_at=(0,) if rs.random() < 0.3 else ())
    x = D(t)
    key = tuple(slice(int(rs.integers(0, 2)), int(rs.integers(2, s + 1))) for s in shape)
    if rs.random() < 0.4:
        key = (int(rs.integers(shape[0])),) + key[1:]
    sel = x[key].shape
    npd = {"int64": np.int64, "int32": np.int32, "bool": bool, "float64": np.float64, "float32": np.float32}[vkind]
    v = (rs.integers(0, 2, size=sel).astype(bool) if vkind == "bool" else rs.integers(-9, 10, size=sel).astype(npd) if vkind.startswith("int")
         else rs.standard_normal(sel).astype(npd))
    how = pick(rs, ["ndarray", "torch", "compressed"]) if vkind in ("int64", "float64", "float32") else pick(rs, ["ndarray", "torch"])
    val = v if how == "ndarray" else torch.tensor(v) if how == "torch" else tn.Tensor(torch.tensor(v))
    ctx.case(("dtype", "C11", str(tdt), vkind, how), True, {"op": "t[key] = <%s %s> into a %s tensor" % (how, vkind, tdt)})
    exp = x.copy(); exp[key] = v.astype(np.float64)
    r = guard(ctx, case, "setitem", "t[key] = <%s of dtype %s> on a %s tensor" % (how, vkind, tdt), lambda: t.__setitem__(key, val))
    if r is None:
        return
    chk(ctx, case, "setitem", "t[%s] = <%s %s> on a %s tensor" % (key, how, vkind, tdt), D(t), exp, 1e-5 if tdt == F32 or vkind == "float32" else 1e-12)


# ------------------------------------------------------------------------------------------------- C12
def d_c12(ctx, case, rs, k):
    """mesh grids of axes of mixed dtype / given as list or splat; creation routines under either default dtype"""
    default = pick(rs, [F32, F64])
    n = int(rs.integers(2, 4))
    kinds = [["int", "f32", "f64"], ["f64", "int"], ["int", "f64"], ["f32", "f32"], ["int", "int"], ["pyint", "f32"]][k % 6][:max(2, n)]
    axes, dense_axes = [], []
    for kd in kinds:
        m = int(rs.integers(2, 6))
        if kd == "int":
            a = torch.arange(m)
        elif kd == "pyint":
            a = m
        elif kd == "f32":
            a = torch.linspace(0, 1, m, dtype=F32)
        else:
            a = torch.tensor(rs.uniform(0, 1, m), dtype=F64)
        axes.append(a)
        dense_axes.append(np.arange(a, dtype=np.float64) if isinstance(a, int) else a.double().numpy())
    ctx.case(("dtype", "C12", tuple(kinds), str(default)), True, {"op": "meshgrid of axes %s under default %s" % (kinds, default)})
    exp = np.meshgrid(*dense_axes, indexing="ij")
    with dd(default):
        for form, f in (("list", lambda: tn.meshgrid(axes)), ("splat", lambda: tn.meshgrid(*axes))):
            r = guard(ctx, case, "meshgrid", "meshgrid(%s) [%s]" % (kinds, form), f)
            if r is None:
                continue
            for j, (g, e) in enumerate(zip(r[1], exp)):
                if not chk(ctx, case, "meshgrid", "meshgrid(axes of dtype %s) [%s]: grid %d" % (kinds, form, j), D(g), e, 1e-6):
                    break


# ------------------------------------------------------------------------------------------------- C13
def d_c13(ctx, case, rs, k):
    """orthogonalisation of float32 / float64 tensors whose entries are far from 1 in magnitude"""
    dtype, scale = [(F32, 1e+20), (F32, 1e-20), (F32, 1.0), (F64, 1e+150), (F64, 1e-150), (F32, 1e+19)][k % 6]
    N = int(rs.integers(2, 5))
    shape = [int(rs.integers(2, 5)) for _ in range(N)]
    t = rand_t(rs, shape, dtype, ranks=2, fac_at=(1,) if rs.random() < 0.4 else ())
    xr = D(t)                                # reference: the same tensor before ONE core is brought to the large / small scale
    j = int(rs.integers(N))
    t.cores[j] = t.cores[j] * scale          # all entries of the tensor are ~scale (representable); squares of them are not
    mu = int(rs.integers(-N, N))
    ctx.case(("dtype", "C13", str(dtype), scale, N), True, {"op": "orthogonalize(mu) of a %s tensor with core entries ~%g" % (dtype, scale)})
    tol = 2e-4 if dtype == F32 else 1e-9
    for nm, f in (("orthogonalize(%d)" % mu, lambda z: z.orthogonalize(mu)), ("right_orthogonalize(%d)" % (N - 1), lambda z: z.right_orthogonalize(N - 1)),
                  ("left_orthogonalize(0)", lambda z: z.left_orthogonalize(0))):
        z = t.clone()
        r = guard(ctx, case, nm, nm, lambda: f(z))
        if r is None:
            continue
        zs = tn.Tensor([c.double() for c in z.cores], Us=[None if U is None else U.double() for U in z.Us])
        # take the scale out again in float64: from the core of largest magnitude (orthonormal cores have entries <= 1)
        jj = int(np.argmax([float(c.abs().max()) if np.isfinite(float(c.abs().max())) else np.inf for c in zs.cores])) if scale > 1 else \
            int(np.argmin([float(c.abs().max()) for c in zs.cores]))
        zs.cores[jj] = zs.cores[jj] / scale
        chk(ctx, case, nm, "%s changes the represented tensor (%s, core entries ~%g)" % (nm, dtype, scale), D(zs), xr, tol)
        if nm.startswith("orthogonalize"):
            m = mu % N
            for i, c in enumerate(z.cores):
                if i == m or c.dim() != 3:
                    continue
                M = c.double().reshape(-1, c.shape[2]) if i < m else c.double().reshape(c.shape[0], -1).t()
                G = (M.t() @ M).numpy()
                if not np.all(np.isfinite(G)) or np.max(np.abs(G - np.eye(G.shape[0]))) > tol:
                    rep(ctx, case, nm, "%s: core %d is not %s-orthonormal (%s, core entries ~%g)" % (nm, i, "left" if i < m else "right", dtype, scale)); break


# ------------------------------------------------------------------------------------------------- C14
def d_c14(ctx, case, rs, k):
    """augmented assignments and functional forms leave every OTHER object (views, transposes, slices, the dense source) untouched"""
    shape = shape_of(rs, 3, 5, 2, 3)
    dtype = pick(rs, [F64, F32])
    src = torch.tensor(rs.standard_normal(shape)).to(dtype)
    src0 = src.clone()
    t = tn.Tensor(src) if rs.random() < 0.5 else rand_t(rs, shape, dtype, fac_at=(0,) if rs.random() < 0.3 else ())
    u = rand_t(rs, shape, dtype)
    others = {"transpose": tn.transpose(t), "slice": t[tuple(slice(0, s - 1) for s in shape)], "unsqueeze": tn.unsqueeze(t, 0), "u": u, "clone": t.clone()}
    before = {nm: D(o) for nm, o in others.items()}
    c = float(pick(rs, [2.0, -0.5, 3.0]))
    form = ["t *= c", "t += u", "t -= u", "t /= c", "t *= c", "t = -t"][k % 6]
    ctx.case(("dtype", "C14", form, str(dtype)), True, {"op": "`%s` while a transpose / slice / unsqueezed view / the dense source are alive" % form})

    def go():
        nonlocal t
        if form == "t *= c":
            t *= c
        elif form == "t += u":
            t += u
        elif form == "t -= u":
            t -= u
        elif form == "t /= c":
            t /= c
        else:
            t = -t
    r = guard(ctx, case, form, form, go)
    if r is None:
        return
    for nm, o in others.items():
        r2 = safe(lambda: D(o))
        if r2[0] == "err" or r2[1].shape != before[nm].shape or not np.array_equal(r2[1], before[nm]):
            rep(ctx, case, form, "`%s` changed another tensor object (%s of t)" % (form, nm), pred="another tensor changed"); return
    if not torch.equal(src, src0):
        rep(ctx, case, form, "`%s` changed the dense array the tensor was built from" % form, pred="argument array modified")


# ------------------------------------------------------------------------------------------------- C15
def d_c15(ctx, case, rs, k):
    """formulas over 25..30 symbols in the default (float32) precision of the logic module: predicates against the known truth tables"""
    default = [F32, F32, F64][k % 3]
    N = int(rs.integers(25, 31))
    ctx.case(("dtype", "C15", N, str(default)), True, {"op": "predicates on formulas over %d symbols built under default dtype %s" % (N, default)})
    with dd(default):
        x = tn.symbols(N)
        i, j = int(rs.integers(N)), int(rs.integers(N))
        conj = x[0]
        for s_ in x[1:]:
            conj = conj & s_
        forms = [("~all(N)", ~tn.all(N), dict(taut=False, contra=False, sat=True)), ("any(N)", tn.any(N), dict(taut=False, contra=False, sat=True)),
                 ("all(N)", tn.all(N), dict(taut=False, contra=False, sat=True)), ("none(N)", tn.none(N), dict(taut=False, contra=False, sat=True)),
                 ("~(x0 & ... & xN-1)", ~conj, dict(taut=False, contra=False, sat=True)), ("x_i | ~x_i", x[i] | ~x[i], dict(taut=True, contra=False, sat=True)),
                 ("x_i & ~x_i", x[i] & ~x[i], dict(taut=False, contra=True, sat=False)), ("true(N)", tn.true(N), dict(taut=True, contra=False, sat=True))]
        for nm, f, truth in forms:
            for pn, pf, key in (("is_tautology", tn.is_tautology, "taut"), ("is_contradiction", tn.is_contradiction, "contra"), ("is_satisfiable", tn.is_satisfiable, "sat")):
                r = guard(ctx, case, pn, "%s(%s), N=%d" % (pn, nm, N), lambda: bool(pf(f)))
                if r is not None and r[1] != truth[key]:
                    rep(ctx, case, pn, "%s(%s) over %d symbols (default dtype %s) = %s, truth table says %s" % (pn, nm, N, default, r[1], truth[key]))
        r = guard(ctx, case, "implies", "implies(all, any)", lambda: (bool(tn.implies(tn.all(N), tn.any(N))), bool(tn.implies(tn.any(N), tn.all(N))),
                                                                     bool(tn.equiv(~tn.all(N), ~conj))))
        if r is not None and r[1] != (True, False, True):
            rep(ctx, case, "implies", "implies(all,any), implies(any,all), equiv(~all, ~(x0&...)) over %d symbols = %s, expected (True, False, True)" % (N, r[1]))


# ------------------------------------------------------------------------------------------------- C16
def d_c16(ctx, case, rs, k):
    """weights handed over as list / tuple / range (also stepped) / NumPy array / torch tensor: the same automaton"""
    N = int(rs.integers(2, 6))
    ns = pick(rs, [2, 3, [int(rs.integers(2, 4)) for _ in range(N)]])
    nsl = [ns] * N if isinstance(ns, int) else ns
    top = sum(s - 1 for s in nsl)
    start = int(rs.integers(0, max(1, top))); step = int(rs.integers(1, 4)) if k % 2 else int(rs.integers(2, 4)); stop = int(rs.integers(start + 1, top + 2))
    rg = range(start, stop, step)
    ws = list(rg)
    form = ["range", "list", "tuple", "np", "torch", "range"][k % 6]
    arg = {"range": rg, "list": ws, "tuple": tuple(ws), "np": np.array(ws, dtype=np.int64), "torch": torch.tensor(ws, dtype=torch.long)}[form]
    ctx.case(("dtype", "C16", form, N, step), True, {"op": "weight_mask(N, %s) with weights given as %s" % (ws, form)})
    r = guard(ctx, case, "weight_mask", "weight_mask(%d, %r, nsymbols=%s)" % (N, arg, ns), lambda: D(tn.weight_mask(N, arg, nsymbols=ns)))
    if r is None:
        return
    exp = np.zeros(nsl)
    for idx in itertools.product(*[range(s) for s in nsl]):
        exp[idx] = 1.0 if sum(idx) in ws else 0.0
    if r[1].shape != exp.shape or not np.array_equal(np.round(r[1], 9), exp):
        bad = int(np.sum(np.round(r[1], 9) != exp)) if r[1].shape == exp.shape else -1
        rep(ctx, case, "weight_mask", "weight_mask(%d, %r, nsymbols=%s): %d strings misclassified" % (N, arg, ns, bad))


# ------------------------------------------------------------------------------------------------- C17
def d_c17(ctx, case, rs, k):
    """maxvol on matrices whose entries are all far from 1 in magnitude (the guarantees are scale-free), float32 and float64"""
    scale = [1e-20, 1e+20, 1e-16, 1e-13, 1e+10, 1e-30][k % 6]
    dt = np.float64 if k % 2 == 0 or scale in (1e-30,) else np.float32
    n, r = int(rs.integers(12, 60)), int(rs.integers(2, 7))
    A = (rs.standard_normal((n, r)) * scale).astype(dt)
    from tntorch import maxvol as mv
    tol = 1e-9 if dt == np.float64 else 1e-4
    ctx.case(("dtype", "C17", str(np.dtype(dt)), scale), True, {"op": "py_maxvol / py_rect_maxvol on a %s matrix with entries ~%g" % (np.dtype(dt), scale)})
    r1 = guard(ctx, case, "py_maxvol", "py_maxvol", lambda: mv.py_maxvol(A.copy()))
    if r1 is not None:
        idx, C = r1[1]
        idx = np.asarray(idx)
        A64 = A.astype(np.float64); C64 = np.asarray(C, dtype=np.float64)
        if len(set(idx.tolist())) != r:
            rep(ctx, case, "py_maxvol", "py_maxvol returns %d distinct rows for %d columns (entries ~%g)" % (len(set(idx.tolist())), r, scale))
        else:
            chk(ctx, case, "py_maxvol", "py_maxvol: C @ A[rows] does not reproduce A (entries ~%g, %s)" % (scale, np.dtype(dt)), C64 @ A64[idx], A64, tol)
            chk(ctx, case, "py_maxvol", "py_maxvol: C[rows] is not the identity (entries ~%g)" % scale, C64[idx], np.eye(r), tol)
            if np.max(np.abs(C64)) > 1.05 * (1 + tol) + 1e-6:
                rep(ctx, case, "py_maxvol", "py_maxvol: max|C| = %.4g > 1.05 (entries ~%g)" % (np.max(np.abs(C64)), scale))
    r2 = guard(ctx, case, "py_rect_maxvol", "py_rect_maxvol", lambda: mv.py_rect_maxvol(A.copy()))
    if r2 is not None:
        idx, C = r2[1]
        idx = np.asarray(idx); A64 = A.astype(np.float64); C64 = np.asarray(C, dtype=np.float64)
        if len(set(idx.tolist())) != len(idx) or not r <= len(idx) <= n:
            rep(ctx, case, "py_rect_maxvol", "py_rect_maxvol returns rows %s (entries ~%g)" % (idx.tolist()[:8], scale))
        else:
            chk(ctx, case, "py_rect_maxvol", "py_rect_maxvol: C @ A[rows] does not reproduce A (entries ~%g, %s)" % (scale, np.dtype(dt)), C64 @ A64[idx], A64, tol)


# ------------------------------------------------------------------------------------------------- C18
def d_c18(ctx, case, rs, k):
    """batch arithmetic between operands of different dtype: element by element what the ordinary tensors give"""
    from props.c18 import elem_of
    B = int(rs.integers(2, 4))
    shape = shape_of(rs, 2, 4, 2, 3)
    pair = [(F32, F64), (F64, F32), ("int", F64), (F32, F32), (F64, "int"), (F32, F64)][k % 6]
    op = pick(rs, ["+", "-", "*"]) if "int" not in pair else pick(rs, ["+", "-"])

    def stack(dt):
        if dt == "int":
            return torch.tensor(rs.integers(-5, 6, size=[B] + shape).astype(np.int64))
        return torch.tensor(rs.standard_normal([B] + shape)).to(dt)
    xa, xb = stack(pair[0]), stack(pair[1])
    ctx.case(("dtype", "C18", str(pair), op), True, {"op": "batch %s between operands of dtype %s" % (op, pair)})
    ra = guard(ctx, case, "Tensor(batch)", "Tensor(stack of dtype %s, batch=True)" % (pair[0],), lambda: tn.Tensor(xa, batch=True))
    rb = guard(ctx, case, "Tensor(batch)", "Tensor(stack of dtype %s, batch=True)" % (pair[1],), lambda: tn.Tensor(xb, batch=True))
    if ra is None or rb is None:
        return
    a, b = ra[1], rb[1]
    f = {"+": lambda p, q: p + q, "-": lambda p, q: p - q, "*": lambda p, q: p * q}[op]
    r = guard(ctx, case, "batch " + op, "batch a %s b with dtypes %s" % (op, pair), lambda: f(a, b))
    if r is None:
        return
    got = r[1].torch().detach().double().numpy()
    da, db = a.torch().detach().double().numpy(), b.torch().detach().double().numpy()
    exp = f(da, db)
    tol = 1e-12 if F32 not in pair else 1e-5
    if not chk(ctx, case, "batch " + op, "batch a %s b with dtypes %s" % (op, pair), got, exp, tol):
        return
    # element by element against the ordinary tensors (dtype of the result included)
    for e in range(B):
        r2 = guard(ctx, case, "elem " + op, "ordinary a[%d] %s b[%d]" % (e, op, e), lambda: f(tn.Tensor(xa[e]), tn.Tensor(xb[e])))
        if r2 is None:
            return
        oe = r2[1].torch()
        ge = r[1].torch()[e]
        if oe.dtype != ge.dtype:
            rep(ctx, case, "batch " + op, "batch a %s b with dtypes %s: element %d has dtype %s in the batch, %s as an ordinary tensor" % (op, pair, e, ge.dtype, oe.dtype)); return
        if not chk(ctx, case, "batch " + op, "batch a %s b with dtypes %s: element %d vs the ordinary tensors" % (op, pair, e), ge.detach().double().numpy(),
                   oe.detach().double().numpy(), 1e-12 if oe.dtype == F64 else 1e-5):
            return


# ------------------------------------------------------------------------------------------------- C19
def d_c19(ctx, case, rs, k):
    """TT-matrix routines on float64 matrices under the process default dtype float32 (and the other way round)"""
    default, mdt = [(F32, F64), (F32, F64), (F64, F64), (F32, F32)][k % 4]
    d = int(rs.integers(2, 4))
    ind = [int(rs.integers(2, 4)) for _ in range(d)]
    blocks = [rs.standard_normal((n, n)) + 3 * np.eye(n) for n in ind]
    if rs.random() < 0.3:
        blocks = [np.round(b * 1000) for b in blocks]           # integer-valued float matrices: a float32 detour is off by whole units
    K = blocks[0]
    for b in blocks[1:]:
        K = np.kron(K, b)
    M = rs.standard_normal(K.shape) if rs.random() < 0.5 else K
    ctx.case(("dtype", "C19", str(default), str(mdt), d), True, {"op": "TTMatrix(%s matrix) trace / multiply under default dtype %s" % (mdt, default)})
    tol = 1e-10 if mdt == F64 else 1e-4
    with dd(default):
        full = [min(int(np.prod([i * i for i in ind[:j]])), int(np.prod([i * i for i in ind[j:]]))) for j in range(1, d)]
        r = guard(ctx, case, "TTMatrix", "TTMatrix(dense %s)" % mdt, lambda: tn.TTMatrix(torch.tensor(M).to(mdt), ranks=full, input_dims=ind, output_dims=ind))
        if r is None:
            return
        m = r[1]
        r1 = guard(ctx, case, "trace", "trace()", lambda: m.trace())
        if r1 is not None:
            tr = r1[1]
            if isinstance(tr, torch.Tensor) and mdt == F64 and tr.dtype != F64:
                rep(ctx, case, "trace", "trace() of a float64 TT-matrix is %s under default dtype %s" % (tr.dtype, default))
            if abs(float(tr) - np.trace(M)) > tol * max(1.0, np.abs(np.diag(M)).sum()):
                rep(ctx, case, "trace", "trace() = %r, trace of the matrix %r (default dtype %s)" % (float(tr), float(np.trace(M)), default))
        r2 = guard(ctx, case, "torch", "torch()", lambda: m.torch().detach().double().numpy())
        if r2 is not None:
            chk(ctx, case, "torch", "TTMatrix.torch() with full ranks (default dtype %s)" % default, r2[1], M, tol)
        V = rs.standard_normal((3, M.shape[0]))
        r3 = guard(ctx, case, "tt_multiply", "tt_multiply", lambda: tn.tt_multiply(m, torch.tensor(V).to(mdt)).detach().double().numpy())
        if r3 is not None:
            chk(ctx, case, "tt_multiply", "tt_multiply (default dtype %s)" % default, r3[1], V @ M, max(tol, 1e-9))


# ------------------------------------------------------------------------------------------------- C20
def d_c20(ctx, case, rs, k):
    """derivatives of float64 tensors under the process default dtype float32; bounds far from 0; bounds as tuple / list / NumPy"""
    default = [F32, F32, F64][k % 3]
    N = int(rs.integers(2, 4))
    shape = [int(rs.integers(3, 7)) for _ in range(N)]
    t = rand_t(rs, shape, F64, ranks=2, fac_at=(0,) if rs.random() < 0.4 else ())
    x = D(t)
    d = int(rs.integers(N))
    lo = float(pick(rs, [0.0, 2020.0, -3.0, 1e6])); width = float(pick(rs, [1.0, 0.1, 0.3]))
    bounds = [lo, lo + width]
    order = int(pick(rs, [1, 2]))
    ctx.case(("dtype", "C20", str(default), order, lo), True, {"op": "partial / gradient / laplacian of a float64 tensor, bounds %s, default dtype %s" % (bounds, default)})

    # the library's own step convention is read off a float64 run under the float64 default (this layer checks independence of the default dtype)
    with dd(F64):
        r0 = guard(ctx, case, "partial", "partial under default float64", lambda: D(tn.partial(t, d, order=order, bounds=bounds)))
    with dd(default):
        r1 = guard(ctx, case, "partial", "partial under default %s" % default, lambda: D(tn.partial(t, d, order=order, bounds=bounds)))
        r2 = guard(ctx, case, "partial", "partial with bounds as tuple", lambda: D(tn.partial(t, d, order=order, bounds=tuple(bounds))))
    if r0 is None or r1 is None:
        return
    chk(ctx, case, "partial", "partial(float64 t, %d, order=%d, bounds=%s) depends on the process default dtype (%s vs float64)" % (d, order, bounds, default), r1[1], r0[1], 1e-12)
    if r2 is not None:
        chk(ctx, case, "partial", "partial with bounds given as tuple vs list", r2[1], r0[1], 1e-12)
    # the step depends on the WIDTH of the bounds only: the same window placed at 0 gives the same derivative
    with dd(default):
        r3 = guard(ctx, case, "partial", "partial with the window moved to 0", lambda: D(tn.partial(t, d, order=order, bounds=[0.0, width])))
    if r3 is not None:
        chk(ctx, case, "partial", "partial(bounds=[%g, %g + %g]) vs partial(bounds=[0, %g]) (default dtype %s)" % (lo, lo, width, width, default), r1[1], r3[1],
            1e-9 + 1e-14 * abs(lo) / width * 10)


RUN = {"C01": d_c01, "C02": d_c02, "C03": d_c03, "C04": d_c04, "C05": d_c05, "C06": d_c06, "C07": d_c07, "C08": d_c08, "C09": d_c09, "C10": d_c10,
       "C11": d_c11, "C12": d_c12, "C13": d_c13, "C14": d_c14, "C15": d_c15, "C16": d_c16, "C17": d_c17, "C18": d_c18, "C19": d_c19, "C20": d_c20}
