"""C14 — value semantics: operations never disturb operands or other tensors."""
import hashlib
import numpy as np, torch, random
import core
from core import PT, gen_tensor, from_tn, close, safe, tn
from props.c03 import gen_slice, py_key

RULE = ("histories of 15 (thorough 40) API operations over a pool of up to 5 (8) tensors in any format mix (2..3 modes): creation, "
        "derivation (slicing, transpose, clone, + - * scalar ops, flip/cat/cumsum, copying round functions, decompress/tt()), in-place "
        "methods (round_tt, round_tucker, round, orthogonalize, assignment, set_factors, as_leaf), pure functions (dot, norm, sum, "
        "mean, var, sobol/dgsm/mean/anova_decomposition/truncate_anova with caller-owned marginal arrays, the list often carrying None placeholders that must still be None (the same objects) afterwards). Around every call: for every live tensor and argument array "
        "the byte content of every reachable storage is hashed and the dense value, format and ranks are recorded; after the call "
        "every object other than the receiver of an in-place method must be bit-identical, and the set of written storages must "
        "satisfy the model's Safe predicate (written ⊆ fresh ∪ reachable only from the receiver). distinct = operation sequence + formats")
TRUSTED = ["CPython/PyTorch object semantics as observed through untyped_storage().data_ptr() and byte hashes",
           "histories are built from the derivations the property names; handing one tensor's `cores` list object to another constructor is not generated"]
ASSUMPTIONS = []

PURE = ["dot", "norm", "sum", "mean", "var", "sobol", "mean_marg", "dgsm", "relerr", "mask_small", "mask_small",
        "mean_partial", "mean_partial", "sum_partial", "std", "normsq", "dist"]
DERIVE = ["slice", "transpose", "clone", "add", "sub", "mul", "smul", "sadd", "flip", "cat", "cumsum", "round_tt_copy", "round_copy",
          "decompress", "tt", "neg", "hadamard_sum", "partial", "ttm", "pad", "repeat", "unsqueeze", "anova", "undo_anova", "truncate_anova",
          "unbind", "accepted", "relevant"]
INPLACE = ["round_tt", "round_tucker", "round", "orthogonalize", "setitem", "set_factors", "as_leaf"]


def cases(rng, tier):
    n = {"quick": 150, "thorough": 800, "search": 300}[tier]
    L = {"quick": 15, "thorough": 40, "search": 15}[tier]
    out = []
    for _ in range(n):
        N = rng.choice([2, 2, 3])
        shape = [rng.randint(2, 4) for _ in range(N)]
        pool = [gen_tensor(rng, shape, rmax=3, stream="float").to_json() for _ in range(rng.randint(2, 3))]
        ops = []
        for _ in range(L):
            r = rng.random()
            kind = rng.choice(PURE) if r < 0.25 else (rng.choice(DERIVE) if r < 0.65 else rng.choice(INPLACE))
            ops.append({"op": kind, "a": rng.randrange(64), "b": rng.randrange(64), "seed": rng.randrange(1 << 30)})
        out.append({"shape": shape, "pool": pool, "ops": ops})
    return out


def storages(t):
    out = {}
    for x in list(t.cores) + [U for U in t.Us if U is not None]:
        st = x.untyped_storage()
        out[st.data_ptr()] = st
    return out


def hash_storage(st):
    return hashlib.sha1(bytes(st)).hexdigest() if st.nbytes() > 0 else "empty"


def snapshot(t):
    return {"dense": t.torch().detach().double().numpy().copy(), "kinds": from_tn(t).kinds(), "ranks": from_tn(t).ranks(),
            "tranks": from_tn(t).tranks(),
            # the slice annotations travel with the tensor (clone() shares them) and steer tn.mask: they are part of its value
            "idxs": [np.array(i).copy() for i in getattr(t, "idxs", [])]}


def same(s1, s2):
    return s1["kinds"] == s2["kinds"] and s1["ranks"] == s2["ranks"] and s1["tranks"] == s2["tranks"] and \
        s1["dense"].shape == s2["dense"].shape and np.array_equal(s1["dense"], s2["dense"]) and \
        len(s1["idxs"]) == len(s2["idxs"]) and all(np.array_equal(a, b) for a, b in zip(s1["idxs"], s2["idxs"]))


def run_case(ctx, case):
    shape = case["shape"]
    N = len(shape)
    pool = [PT.from_json(j).to_tn() for j in case["pool"]]
    maxpool = 6
    seq = []
    for step, o in enumerate(case["ops"]):
        rng = random.Random(o["seed"])
        op = o["op"]
        # a receiver that an in-place method left undecompressable (e.g. set_factors on a wider-than-tall factor) leaves the pool:
        # what happens to the receiver itself is not C14's business
        alive = []
        for t in pool:
            if safe(lambda: t.torch())[0] == "ok":
                alive.append(t)
            else:
                ctx.count("receiver left invalid by an in-place method (dropped from the pool)")
        pool = alive
        # operands must have the common shape for binary ops
        full = [i for i, t in enumerate(pool) if list(t.shape) == shape]
        if not full:
            break
        ia = full[o["a"] % len(full)]; ib = full[o["b"] % len(full)]
        a, b = pool[ia], pool[ib]
        margs = [torch.tensor([rng.uniform(0.5, 2) for _ in range(s)], dtype=torch.float64) for s in shape]
        margs0 = [m.clone() for m in margs]
        # the list handed over: often with None placeholders ("uniform along this mode"), which must still be None afterwards
        margl = [None if rng.random() < 0.35 else m for m in margs] if rng.random() < 0.6 else list(margs)
        margl0 = list(margl)
        before = [snapshot(t) for t in pool]
        st_before = {}
        owner = {}
        for i, t in enumerate(pool):
            for ptr, st in storages(t).items():
                st_before[ptr] = (st, hash_storage(st)); owner.setdefault(ptr, set()).add(i)
        receiver = None
        new = None
        extra = []          # (tensor created inside the step, its snapshot before the call under test, label)
        argarrs = []        # (caller-owned array / list argument, copy taken before the call, label)

        def as_arg(vals, label):
            """a list of ints handed over as list | tuple | np.int64 array | torch.long tensor (the caller keeps the object)"""
            k_ = rng.choice(["list", "list", "tuple", "np", "np", "torch", "torch"])
            obj = list(vals) if k_ == "list" else tuple(vals) if k_ == "tuple" else np.array(vals, dtype=np.int64) if k_ == "np" \
                else torch.tensor(vals, dtype=torch.long)
            cp = obj.copy() if k_ == "np" else obj.clone() if k_ == "torch" else type(obj)(obj)
            argarrs.append((obj, cp, "%s (%s)" % (label, k_)))
            return obj

        def call():
            nonlocal receiver, new
            if op == "dot":
                tn.dot(a, b)
            elif op == "norm":
                tn.norm(a)
            elif op == "sum":
                tn.sum(a, dim=[0])
            elif op == "mean":
                tn.mean(a)
            elif op == "var":
                tn.var(a)
            elif op in ("mean_partial", "sum_partial"):
                # any non-empty subset of modes (often WITHOUT mode 0), either keepdim, negative positions
                dims = sorted(rng.sample(range(N), rng.randint(1, N)))
                if rng.random() < 0.5 and 0 in dims and len(dims) > 1:
                    dims.remove(0)
                dims = [d - N if rng.random() < 0.3 else d for d in dims]
                r_ = (tn.mean if op == "mean_partial" else tn.sum)(a, dim=as_arg(dims, "the dim argument") if rng.random() < 0.8 or len(dims) > 1 else dims[0],
                                                                    keepdim=rng.random() < 0.5)
                new = r_ if isinstance(r_, tn.Tensor) else None
            elif op == "std":
                tn.std(a)
            elif op == "normsq":
                tn.normsq(a)
            elif op == "dist":
                tn.dist(a, b)
            elif op == "relerr":
                tn.relative_error(a, b)
            elif op == "sobol":
                tn.sobol(a, tn.only(tn.symbols(N)[0]), marginals=margl)
            elif op == "mean_marg":
                tn.mean(a, marginals=margs)
            elif op == "dgsm":
                tn.dgsm(a, bounds=None, marginals=margs) if False else tn.sobol(a, tn.symbols(N)[-1], marginals=margl)
            elif op == "mask_small":
                # a mask shorter than the tensor along every mode (legal: trailing slices are matched to the mask's last one)
                mk = tn.Tensor(torch.tensor(np.array([rng.randint(0, 1) for _ in range(2 ** N)], dtype=np.float64).reshape([2] * N)))
                new = tn.mask(a, mk)
            elif op == "hadamard_sum":
                tn.hadamard_sum([a, b])
            elif op == "partial":
                new = tn.partial(a, rng.randrange(N), order=rng.choice([1, 2]))
            elif op == "ttm":
                ms_ = sorted(rng.sample(range(N), rng.randint(1, min(N, 2))))
                Us_ = [torch.tensor(np.array([[rng.uniform(-1, 1) for _ in range(a.shape[m_])] for _ in range(2)])) for m_ in ms_]
                for U_ in Us_:
                    argarrs.append((U_, U_.clone(), "a matrix passed to ttm"))
                dd_ = [m_ - N if rng.random() < 0.4 else m_ for m_ in ms_]
                new = tn.ttm(a, Us_ if len(Us_) > 1 or rng.random() < 0.5 else Us_[0], dim=as_arg(dd_, "the dim argument") if len(dd_) > 1 or rng.random() < 0.7 else dd_[0])
            elif op == "pad":
                new = tn.pad(a, [rng.randint(a.shape[k], a.shape[k] + 1) for k in range(N)], dim=list(range(N)), fill_value=rng.choice([0, 1.5]))
            elif op == "repeat":
                new = a.repeat(*[rng.randint(1, 2) for _ in range(N)])
            elif op == "unsqueeze":
                new = tn.unsqueeze(a, rng.randint(0, N))
            elif op == "anova":
                tn.anova_decomposition(a, marginals=margl if rng.random() < 0.5 else None)
            elif op == "undo_anova":
                aa = tn.anova_decomposition(a)
                extra.append((aa, snapshot(aa), "the ANOVA tensor passed to undo_anova_decomposition"))
                tn.undo_anova_decomposition(aa)
            elif op == "truncate_anova":
                tn.truncate_anova(a, tn.only(tn.symbols(N)[0]), keepdim=rng.random() < 0.5, marginals=margl if rng.random() < 0.5 else None)
            elif op == "unbind":
                tn.unbind(a, rng.randrange(N))
            elif op == "accepted":
                tn.accepted_inputs(tn.weight_mask(N, 1)); tn.sum(a * 0 + 1)
            elif op == "relevant":
                f_ = tn.symbols(N)[0] | tn.symbols(N)[-1]
                extra.append((f_, snapshot(f_), "the formula passed to relevant_symbols / tn.round"))
                tn.relevant_symbols(f_); tn.round(f_)
            elif op == "slice":
                key = tuple(py_key([gen_slice(rng, s) for s in shape]))
                r = a[key]
                new = r if isinstance(r, tn.Tensor) else None
            elif op == "transpose":
                new = tn.transpose(a)
            elif op == "clone":
                new = a.clone()
            elif op == "add":
                new = a + b
            elif op == "sub":
                new = a - b
            elif op == "mul":
                new = a * b
            elif op == "neg":
                new = -a
            elif op == "smul":
                new = a * rng.choice([2.0, -0.5, 3.0])
            elif op == "sadd":
                new = a + rng.choice([1.0, -2.5])
            elif op == "flip":
                new = tn.flip(a, rng.randrange(N))
            elif op == "cat":
                new = tn.cat([a, b], dim=rng.randrange(N))
            elif op == "cumsum":
                new = tn.cumsum(a, rng.randrange(N))
            elif op == "round_tt_copy":
                new = tn.round_tt(a, eps=rng.choice([1e-12, 0.1]))
            elif op == "round_copy":
                new = tn.round(a, eps=rng.choice([1e-12, 0.1]))
            elif op == "decompress":
                new = a.decompress_tucker_factors()
            elif op == "tt":
                new = a.tt()
            elif op == "round_tt":
                receiver = ia; a.round_tt(eps=rng.choice([1e-12, 0.2]))
            elif op == "round_tucker":
                receiver = ia; a.round_tucker(eps=rng.choice([1e-12, 0.2]))
            elif op == "round":
                receiver = ia; a.round(eps=rng.choice([1e-12, 0.2]))
            elif op == "orthogonalize":
                receiver = ia; a.orthogonalize(rng.randrange(N))
            elif op == "setitem":
                receiver = ia
                key = tuple(py_key([gen_slice(rng, s) if rng.random() < 0.7 else ["i", rng.randrange(s)] for s in shape]))
                a[key] = rng.uniform(-1, 1)
            elif op == "set_factors":
                receiver = ia; a.set_factors("dct", dim=[rng.randrange(N)])
            elif op == "as_leaf":
                receiver = ia; a.as_leaf()
        r = safe(call)
        seq.append(op)
        ctx.count("op:" + op)
        if r[0] == "err":
            ctx.count("raised:" + op + ":" + r[1])      # whether the operation may raise is other properties' business
        # ---- every object other than the receiver must be untouched
        for i, t in enumerate(pool):
            if i == receiver:
                continue
            s2 = safe(lambda: snapshot(t))
            if s2[0] == "err" or not same(before[i], s2[1]):
                ctx.oracle("step %d (%s on tensor %d%s): tensor %d changed (value, format or ranks)" %
                           (step, op, ia, "" if op not in ("add", "sub", "mul", "cat", "dot", "relerr") else " and %d" % ib, i), case,
                           cls={"op": op, "predicate": "another tensor changed"})
                return
        for tx, sx, label in extra:
            s3 = safe(lambda: snapshot(tx))
            if s3[0] == "err" or not same(sx, s3[1]):
                ctx.oracle("step %d (%s): %s changed (value, format or ranks)" % (step, op, label), case,
                           cls={"op": op, "predicate": "another tensor changed"})
                return
        for obj, cp, label in argarrs:
            okarg = bool(np.array_equal(obj, cp)) if isinstance(obj, np.ndarray) else bool(torch.equal(obj, cp)) if isinstance(obj, torch.Tensor) \
                else obj == cp
            if not okarg:
                ctx.oracle("step %d (%s): %s was modified: %s -> %s" % (step, op, label, cp if not hasattr(cp, "tolist") else cp.tolist(),
                                                                       obj if not hasattr(obj, "tolist") else obj.tolist()), case,
                           cls={"op": op, "predicate": "argument array modified"})
                return
        if len(margl) != len(margl0) or any(x is not y for x, y in zip(margl, margl0)):
            ctx.oracle("step %d (%s): the caller's marginals list was modified: %s -> %s" % (
                step, op, ["None" if x is None else "vector" for x in margl0], ["None" if x is None else "vector" for x in margl]), case,
                cls={"op": op, "predicate": "argument array modified"})
            return
        for m, m0 in zip(margs, margs0):
            if not torch.equal(m, m0):
                ctx.oracle("step %d (%s): a caller-owned marginal array was modified" % (step, op), case,
                           cls={"op": op, "predicate": "argument array modified"})
                return
        # ---- effect summary vs the model's Safe predicate: written storages are reachable only from the receiver
        written = [ptr for ptr, (st, h) in st_before.items() if hash_storage(st) != h]
        for ptr in written:
            others = owner[ptr] - ({receiver} if receiver is not None else set())
            if others:
                ctx.corr("step %d (%s): a storage reachable from tensor(s) %s (not the receiver) was written in place — the effect "
                         "summary violates Safe" % (step, op, sorted(others)), case)
                return
        ctx.count("effects_checked")
        if new is not None and len(pool) < maxpool:
            pool.append(new)
    ctx.case((tuple(seq), tuple(PT.from_json(j).sig() for j in case["pool"])), True, {"ops": seq, "pool": [PT.from_json(j).describe() for j in case["pool"]]})
