"""C02 — compressed arithmetic equals element-wise arithmetic on the dense arrays."""
import numpy as np, torch, random
import core
from core import PT, gen_tensor, gen_format, from_tn, parse_tensor, cmp_struct, close, q, safe, tn

RULE = ("cases drawn from one PRNG(seed): operator × shapes with size-1 broadcast patterns × per-mode format "
        "(TT|CP)×(no factor|narrow|square|wide) on each side × ranks × scalar kind × default dtype × stream "
        "(int: bit-exact core comparison; float: 1e-9 scaled); expression programs of depth ≤ 3 (5). "
        "distinct = (op, format signature of each operand, shapes, ranks, scalar kind); non-trivial = some operand has >1 mode, "
        "a rank >1 or a Tucker factor")
TRUSTED = ["float64 rounding is outside the theorems (exact ring arithmetic); accuracy is checked by the 1e-9 scaled comparison",
           "rho = |c|^(1/N) is a model argument with contract rho^N = |c| (validated numerically per case)"]
ASSUMPTIONS = ["inputs are WFstd tensors (documented formats, outer TT ranks 1)"]

BINOPS = ["add", "sub", "mul"]
SCALAR_KINDS = ["int", "float", "neg", "zero", "frac", "np64", "np0d", "torch0d", "negfrac"]


def mk_scalar(rng, kind, stream, N):
    if stream == "int":
        base = {"int": 1, "float": 1.0, "neg": -1, "zero": 0, "frac": 1.0, "np64": np.float64(-1.0), "np0d": np.array(1.0),
                "torch0d": torch.tensor(-1.0, dtype=torch.float64), "negfrac": -1.0}[kind]
        return base
    v = {"int": rng.randint(2, 5), "float": rng.uniform(0.5, 3), "neg": -rng.randint(1, 4), "zero": 0, "frac": 0.1,
         "np64": np.float64(rng.uniform(-2, 2)), "np0d": np.array(rng.uniform(0.2, 2)),
         "torch0d": torch.tensor(rng.uniform(-2, 2), dtype=torch.float64), "negfrac": -0.3}[kind]
    return v


def sval(c):
    return float(c.item()) if hasattr(c, "item") else float(c)


def bc_shapes(rng, N, hi):
    sa, sb = [], []
    for _ in range(N):
        s = rng.randint(1, hi)
        r = rng.random()
        if r < 0.15:
            sa.append(1); sb.append(s)
        elif r < 0.3:
            sa.append(s); sb.append(1)
        else:
            sa.append(s); sb.append(s)
    return sa, sb


def cases(rng, tier):
    n = {"quick": 800, "thorough": 6000, "search": 2500}[tier]
    nexpr = {"quick": 150, "thorough": 1200, "search": 400}[tier]
    hi = 4 if tier == "quick" else 5
    out = []
    for i in range(n):
        N = rng.choice([1, 2, 2, 3, 3, 4])
        stream = "int" if rng.random() < 0.6 else "float"
        dd = "float32" if rng.random() < 0.35 else "float64"
        r = rng.random()
        if r < 0.6:
            op = rng.choice(BINOPS)
            sa, sb = bc_shapes(rng, N, hi)
            a = gen_tensor(rng, sa, stream=stream); b = gen_tensor(rng, sb, stream=stream)
            if rng.random() < 0.2:
                # related operands: b is another tensor in (almost) the same Tucker basis as a — equal factors, factors after one
                # tiny update / a float32 round trip (relative 1e-7), or slightly different ones (1e-3); fresh cores
                import numpy as _np
                fk = rng.choice(["narrow", "square", None])
                fmt = [(rng.choice(["tt", "cp"]), rng.choice([fk, fk, None])) for _ in range(N)]
                sh = [max(2, x) for x in sa]
                stream = "float"
                a = gen_tensor(rng, sh, fmt=fmt, stream="float")
                pert = rng.choice([0.0, 1e-7, 1e-7, 1e-3])
                b = PT([_np.array([rng.gauss(0, 1) for _ in range(c.size)]).reshape(c.shape) for c in a.cores],
                       [None if U is None else U * (1 + pert * _np.array([rng.gauss(0, 1) for _ in range(U.size)]).reshape(U.shape)) for U in a.Us])
            out.append({"kind": "binop", "op": op, "a": a.to_json(), "b": b.to_json(), "stream": stream, "dd": dd})
        else:
            op = rng.choice(["sadd", "radd", "smul", "rsmul", "ssub", "rssub", "neg", "div"])
            a = gen_tensor(rng, [rng.randint(1, hi) for _ in range(N)], stream=stream)
            out.append({"kind": "scalar", "op": op, "a": a.to_json(), "sk": rng.choice(SCALAR_KINDS), "sseed": rng.randrange(1 << 30),
                        "stream": stream, "dd": dd})
    depth = 3 if tier != "thorough" else 5
    for i in range(nexpr):
        N = rng.choice([1, 2, 3, 3, 4])
        stream = "int" if rng.random() < 0.6 else "float"
        shape = [rng.randint(1, 3) for _ in range(N)]
        leaves = []
        for _ in range(rng.randint(2, 3)):
            sh = [1 if rng.random() < 0.15 else s for s in shape]
            leaves.append(gen_tensor(rng, sh, rmax=2, stream=stream).to_json())
        out.append({"kind": "expr", "leaves": leaves, "tree": gen_tree(rng, len(leaves), rng.randint(1, depth), stream), "stream": stream,
                    "dd": "float32" if rng.random() < 0.3 else "float64"})
    return out


def gen_tree(rng, nleaves, depth, stream):
    if depth == 0 or rng.random() < 0.2:
        return ["leaf", rng.randrange(nleaves)]
    r = rng.random()
    if r < 0.6:
        return [rng.choice(["add", "sub", "mul"]), gen_tree(rng, nleaves, depth - 1, stream), gen_tree(rng, nleaves, depth - 1, stream)]
    if r < 0.75:
        return ["neg", gen_tree(rng, nleaves, depth - 1, stream)]
    c = rng.choice([-1, 1, 0]) if stream == "int" else round(rng.uniform(-2, 2), 3)
    return [rng.choice(["sadd", "radd", "smul", "rsmul", "ssub", "rssub"]), c, gen_tree(rng, nleaves, depth - 1, stream)]


# --------------------------------------------------------------------------- evaluation: impl, spec, model
def impl_scalar(op, t, c):
    return {"sadd": lambda: t + c, "radd": lambda: c + t, "smul": lambda: t * c, "rsmul": lambda: c * t,
            "ssub": lambda: t - c, "rssub": lambda: c - t, "neg": lambda: -t, "div": lambda: t / c}[op]()


def spec_scalar(op, x, c):
    return {"sadd": lambda: x + c, "radd": lambda: c + x, "smul": lambda: x * c, "rsmul": lambda: c * x,
            "ssub": lambda: x - c, "rssub": lambda: c - x, "neg": lambda: -x, "div": lambda: x / c}[op]()


def rho_of(c, N):
    """what tensor.py:691 computes: |c| ** (1/N), and the sign"""
    c = float(c)
    return float(np.abs(c) ** (1.0 / N)), float(np.sign(c))


class Model:
    """the Lean model, one driver call per operator (exact rationals throughout)"""

    def __init__(self, drv):
        self.d = drv

    def _t(self, toks):
        if toks[0] != "ok":
            raise RuntimeError("model error: " + " ".join(toks[:8]))
        return parse_tensor(toks, 1)[0]

    def add(self, a, b):
        return self._t(self.d.call("add " + a.ser() + " " + b.ser()))

    def mul(self, a, b):
        return self._t(self.d.call("mul " + a.ser() + " " + b.ser()))

    def smul(self, c, a):
        rho, sg = rho_of(c, a.N)
        return self._t(self.d.call("smul %s %s %s" % (q(rho), q(sg), a.ser())))

    def sadd(self, c, a):
        return self._t(self.d.call("sadd %s %s" % (q(float(c)), a.ser())))

    def sub(self, a, b):
        return self.add(a, self.smul(-1, b))

    def scalar(self, op, a, c):
        if op in ("sadd", "radd"):
            return self.sadd(c, a)
        if op in ("smul", "rsmul"):
            return self.smul(c, a)
        if op == "ssub":                       # self + -1*other  with other a scalar: self + (-c)
            return self.sadd(-1 * c, a)
        if op == "rssub":                      # -1*self + other
            return self.sadd(c, self.smul(-1, a))
        if op == "neg":
            return self.smul(-1, a)
        if op == "div":
            return self.smul(1.0 / c, a)
        raise KeyError(op)

    def dense(self, a):
        toks = self.d.call("dense " + a.ser())
        assert toks[0] == "ok"
        n = int(toks[1])
        return np.array([float(core.unq(x)) for x in toks[2:2 + n]], dtype=np.float64).reshape(a.shape)


def with_dd(dd, fn):
    old = torch.get_default_dtype()
    torch.set_default_dtype(torch.float32 if dd == "float32" else torch.float64)
    try:
        return fn()
    finally:
        torch.set_default_dtype(old)


def check_result(ctx, case, what, res, expected, model_fn, exact):
    """res: safe(...) outcome of the implementation; expected: dense ndarray; model_fn: () -> PT"""
    cls = None
    if res[0] == "err":
        ctx.oracle("%s raised %s: %s" % (what, res[1], res[2]), case, cls=case.get("cls"))
        ctx.count("impl_raise:" + res[1])
        return
    r = res[1]
    if not isinstance(r, tn.Tensor):
        ctx.oracle("%s returned %s, not a tensor" % (what, type(r).__name__), case, cls=case.get("cls"))
        return
    dres = with_dd(case["dd"], lambda: safe(lambda: r.torch().detach().double().numpy()))
    if dres[0] == "err":
        ctx.oracle("%s: result cannot be decompressed: %s: %s" % (what, dres[1], dres[2]), case, cls=case.get("cls"))
        ctx.count("impl_raise_torch:" + dres[1])
        return
    got = dres[1]
    ok, err = close(got, expected, rtol=1e-9)
    if not ok:
        ctx.oracle("%s: decompressed result differs from element-wise result (%s)" % (what, err), case, cls=case.get("cls"))
        ctx.count("oracle_mismatch")
    if tuple(r.shape) != tuple(expected.shape):
        ctx.oracle("%s: reported shape %s != %s" % (what, tuple(r.shape), expected.shape), case, cls=case.get("cls"))
    if getattr(ctx, "use_model", False) and not getattr(ctx, "search_only", False):
        try:
            m = model_fn()
        except Exception as e:
            ctx.corr("%s: model failed: %s" % (what, e), case)
            return
        d = cmp_struct(from_tn(r), m, exact)
        if d is not None:
            ctx.corr("%s: implementation cores differ from model cores: %s" % (what, d), case)
            ctx.count("corr_mismatch")
        # model vs spec (observable level)
        md = PT([np.asarray(c, dtype=np.float64) for c in m.cores], [None if U is None else np.asarray(U, dtype=np.float64) for U in m.Us]).dense()
        ok2, err2 = close(md, expected, rtol=1e-9)
        if not ok2:
            ctx.spec("%s: model result differs from the dense specification (%s)" % (what, err2), case)


def bshape(sa, sb):
    return tuple(max(x, y) for x, y in zip(sa, sb))


def run_case(ctx, case):
    kind = case["kind"]
    exact = case["stream"] == "int"
    M = Model(ctx.drv()) if getattr(ctx, "use_model", False) and not getattr(ctx, "search_only", False) else None
    if kind == "binop":
        a = PT.from_json(case["a"]); b = PT.from_json(case["b"])
        op = case["op"]
        xa, xb = a.dense(), b.dense()
        exp = {"add": xa + xb, "sub": xa - xb, "mul": xa * xb}[op]
        ta, tb = a.to_tn(), b.to_tn()
        res = with_dd(case["dd"], lambda: safe(lambda: {"add": lambda: ta + tb, "sub": lambda: ta - tb, "mul": lambda: ta * tb}[op]()))
        ctx.case((op, a.sig(), b.sig(), case["dd"]), a.nontrivial() or b.nontrivial(),
                 {"op": op, "a": a.describe(), "b": b.describe(), "default_dtype": case["dd"], "stream": case["stream"]})
        ctx.count("op:" + op); ctx.count("dd:" + case["dd"]); ctx.count("stream:" + case["stream"])
        for k in set(a.kinds()) | set(b.kinds()):
            ctx.count("fmt:" + k)
        if a.shape != b.shape:
            ctx.count("broadcast")
        check_result(ctx, case, "a %s b" % op, res, exp, (lambda: getattr(M, op)(a, b)), exact)
    elif kind == "scalar":
        a = PT.from_json(case["a"])
        op = case["op"]
        c = mk_scalar(random.Random(case["sseed"]), case["sk"], case["stream"], a.N)
        cv = sval(c)
        if op == "div" and cv == 0:
            cv = 1.0; c = 1.0
        x = a.dense()
        exp = spec_scalar(op, x, cv)
        ta = a.to_tn()
        res = with_dd(case["dd"], lambda: safe(lambda: impl_scalar(op, ta, c)))
        ctx.case((op, a.sig(), case["sk"], case["dd"]), a.nontrivial(),
                 {"op": op, "a": a.describe(), "scalar": repr(c), "default_dtype": case["dd"], "stream": case["stream"]})
        ctx.count("op:" + op); ctx.count("scalar:" + case["sk"]); ctx.count("dd:" + case["dd"])
        # the multiplicative scalar path rounds rho=|c|^(1/N) : exact only when rho is exact
        ex = exact and (op in ("sadd", "radd", "ssub", "rssub", "neg") or abs(cv) in (0.0, 1.0))
        check_result(ctx, case, "%s with scalar %r" % (op, c), res, exp, (lambda: M.scalar(op, a, cv)), ex)
    elif kind == "expr":
        leaves = [PT.from_json(l) for l in case["leaves"]]
        tl = [l.to_tn() for l in leaves]
        xl = [l.dense() for l in leaves]

        def ev(tree, L, sc):
            t = tree[0]
            if t == "leaf":
                return L[tree[1]]
            if t in ("add", "sub", "mul"):
                x, y = ev(tree[1], L, sc), ev(tree[2], L, sc)
                return sc["bin"](t, x, y)
            if t == "neg":
                return sc["neg"](ev(tree[1], L, sc))
            return sc["scalar"](t, ev(tree[2], L, sc), tree[1])

        impl_sc = {"bin": lambda t, x, y: x + y if t == "add" else (x - y if t == "sub" else x * y), "neg": lambda x: -x,
                   "scalar": lambda t, x, c: impl_scalar(t, x, c)}
        spec_sc = {"bin": impl_sc["bin"], "neg": lambda x: -x, "scalar": lambda t, x, c: spec_scalar(t, x, c)}
        exp = ev(case["tree"], xl, spec_sc)
        if not isinstance(exp, np.ndarray) or np.max(np.abs(exp), initial=0) > 1e12:
            return
        res = with_dd(case["dd"], lambda: safe(lambda: ev(case["tree"], tl, impl_sc)))
        ctx.case(("expr", repr(case["tree"]), tuple(l.sig() for l in leaves)), True,
                 {"op": "expr", "tree": case["tree"], "leaves": [l.describe() for l in leaves]})
        ctx.count("op:expr")
        if M is not None:
            model_sc = {"bin": lambda t, x, y: getattr(M, t)(x, y), "neg": lambda x: M.smul(-1, x), "scalar": lambda t, x, c: M.scalar(t, x, c)}
            mf = lambda: ev(case["tree"], leaves, model_sc)
        else:
            mf = None
        has_smul = "smul" in repr(case["tree"]) or "rsmul" in repr(case["tree"])
        check_result(ctx, case, "expression %s" % (case["tree"],), res, exp, mf, exact and not has_smul)
