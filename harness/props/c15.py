"""C15 — Boolean formulas over tensor symbols have exactly their truth-table semantics (oracle search on the real code)."""
import itertools, random
import numpy as np, torch
import core
from core import close, safe, tn
from props.c02 import with_dd

RULE = ("exhaustive part (every tier): every Boolean function of 1, 2 and 3 variables (4+16+256 truth tables), each written once as a DNF "
        "and once as a CNF over tn.symbols(N) (constants via tn.true/tn.false), paired with a second function for implies/equiv; "
        "helper part: all/any/none/one/presence/absence/true/false with every kind of `which` argument (None, int, list, empty list) for N<=4; "
        "random part: formula trees over 2..4 (mostly 4) variables with ~ & | ^, the helpers as leaves, depth <= 5, with intermediate "
        "rounding on every binary node (mode round | round_tt | round_tucker) or none (without TT rounding the predicted TT ranks of f, g and of the products f&~g the predicates form are capped at 600), under default dtype "
        "float64 (float32 only for round-free, xor-free formulas whose arithmetic is exact on small integers); a quarter as many additional "
        "un-rounded depth-3 formulas with 70% ^ connectives. "
        "Per formula: decompressed table vs NumPy truth table (1e-9; 1e-5 under float32), tn.sum vs number of satisfying assignments, "
        "is_tautology/is_contradiction/is_satisfiable, implies/equiv against a second formula, relevant_symbols/irrelevant_symbols vs the "
        "variables the table depends on, only(t) vs table AND (all irrelevant variables false). "
        "distinct = (formula tree, dd); non-trivial = at least one connective")
TRUSTED = ["NumPy boolean evaluation of the formula tree is the oracle (independent of tntorch)",
           "float64 round-off: values after t.round() (eps 1e-14) are within 1e-9 of {0,1}; the predicates' thresholds 1e-6/1e-10 are far from both",
           "one(N, which) is ambiguous in the docstring: both readings are accepted ('exactly one true overall and it is in which' / "
           "'exactly one of which is true, others free'); one(N, which) is therefore only used as a stand-alone formula, never inside trees"]
ASSUMPTIONS = ["formulas are built only with the documented constructors and operators; `which` lists contain distinct in-range indices",
               "only(t): result[x] = t[x] and (x_n = 0 for every variable n the table of t does not depend on) — read from logic.py:150-165"]

BIN = ["and", "or", "xor"]


# ----------------------------------------------------------------------------- generation
def lit(n, pos):
    return ["sym", n] if pos else ["not", ["sym", n]]


def fold(op, items, N, empty):
    if not items:
        return [empty]
    acc = items[0]
    for it in items[1:]:
        acc = [op, acc, it]
    return acc


def dnf(table, N):
    rows = [a for a in itertools.product((0, 1), repeat=N) if table[a]]
    return fold("or", [fold("and", [lit(n, a[n]) for n in range(N)], N, "true") for a in rows], N, "false")


def cnf(table, N):
    rows = [a for a in itertools.product((0, 1), repeat=N) if not table[a]]
    return fold("and", [fold("or", [lit(n, not a[n]) for n in range(N)], N, "false") for a in rows], N, "true")


def table_of(code, N):
    bits = [(code >> k) & 1 for k in range(2 ** N)]
    return np.array(bits, dtype=bool).reshape((2,) * N)


def rnd_which(rng, N, allow_int=False, allow_empty=True):
    r = rng.random()
    if r < 0.2:
        return None
    if allow_int and r < 0.35:
        return rng.randrange(N)
    k = rng.randint(0 if allow_empty else 1, N)
    return sorted(rng.sample(range(N), k))


def rnd_leaf(rng, N):
    r = rng.random()
    if r < 0.6:
        return ["sym", rng.randrange(N)]
    if r < 0.66:
        return [rng.choice(["true", "false"])]
    h = rng.choice(["all", "any", "none", "one", "presence", "absence"])
    if h == "one":
        return ["one", None]
    if h in ("presence", "absence"):
        w = rnd_which(rng, N, allow_int=True)
        return [h, [] if w is None else w]
    return [h, rnd_which(rng, N)]


def rnd_tree(rng, N, depth, allow_xor=True, p_xor=None):
    """p_xor: probability of ^ among the binary connectives (default: uniform over & | ^)"""
    if depth == 0 or rng.random() < 0.15:
        return rnd_leaf(rng, N)
    r = rng.random()
    if r < 0.2:
        return ["not", rnd_tree(rng, N, depth - 1, allow_xor, p_xor)]
    if p_xor is not None and allow_xor:
        op = "xor" if rng.random() < p_xor else rng.choice(["and", "or"])
    else:
        op = rng.choice(BIN if allow_xor else ["and", "or"])
    return [op, rnd_tree(rng, N, depth - 1, allow_xor, p_xor), rnd_tree(rng, N, depth - 1, allow_xor, p_xor)]


def pred_rank(tree):
    """upper bound of the TT rank of the unrounded formula"""
    t = tree[0]
    if t in ("sym", "true", "false", "all", "none", "presence", "absence"):
        return 1
    if t in ("any", "one"):
        return 2
    if t == "not":
        return pred_rank(tree[1]) + 1
    a, b = pred_rank(tree[1]), pred_rank(tree[2])
    return a * b if t == "and" else a + b + a * b


RANK_CAP = 600


def fits(tree, other):
    """the unrounded formulas (and the products f & ~g, g & ~f, f & ~f the predicates form) stay below RANK_CAP"""
    a, b = pred_rank(tree), pred_rank(other)
    return max(a * (b + 1), b * (a + 1), a * (a + 1)) <= RANK_CAP


def n_connectives(tree):
    t = tree[0]
    if t == "not":
        return 1 + n_connectives(tree[1])
    if t in BIN:
        return 1 + n_connectives(tree[1]) + n_connectives(tree[2])
    return 0


def cases(rng, tier):
    out = []
    # exhaustive: all Boolean functions of 1..3 variables, DNF and CNF
    for N in (1, 2, 3):
        for code in range(2 ** (2 ** N)):
            tab = table_of(code, N)
            other = rng.randrange(2 ** (2 ** N))
            for form in ("dnf", "cnf"):
                tree = dnf(tab, N) if form == "dnf" else cnf(tab, N)
                otab = table_of(other, N)
                otree = cnf(otab, N) if form == "dnf" else dnf(otab, N)
                small = fits(tree, otree)
                out.append({"kind": "exhaustive", "N": N, "code": code, "form": form, "tree": tree, "other": otree, "othercode": other,
                            "rounding": None if small else "round", "dd": "float32" if (small and rng.random() < 0.2) else "float64"})
    # helpers
    nh = {"quick": 120, "thorough": 1500, "search": 500}[tier]
    for _ in range(nh):
        N = rng.randint(1, 4)
        h = rng.choice(["all", "any", "none", "one", "presence", "absence", "true", "false"])
        if h in ("true", "false"):
            tree = [h]
        elif h in ("presence", "absence"):
            w = rnd_which(rng, N, allow_int=True)
            w = rng.randrange(N) if w is None else w
            if rng.random() < 0.3:
                # positions counted from the end (presence/absence address the symbols by Python indexing, so these are legal)
                w = (w - N) if isinstance(w, int) else [v - N if rng.random() < 0.6 else v for v in w]
            tree = [h, w]
        elif h == "one":
            tree = [h, rnd_which(rng, N, allow_empty=False)]
        else:
            tree = [h, rnd_which(rng, N)]
        dd = "float32" if rng.random() < 0.2 else "float64"
        out.append({"kind": "helper", "N": N, "tree": tree, "other": rnd_tree(rng, N, 2, allow_xor=(dd == "float64")), "rounding": None, "dd": dd})
    # random deep formulas
    nr = {"quick": 160, "thorough": 3000, "search": 900}[tier]
    for i in range(nr):
        N = rng.choice([2, 3, 4, 4, 4, 4])
        rounding = rng.choice([None, None, "round", "round", "round", "round_tt", "round_tucker"])
        dd = "float32" if (rounding is None and rng.random() < 0.25) else "float64"
        depth = rng.randint(2, 5)
        for _ in range(200):
            tree = rnd_tree(rng, N, depth, allow_xor=(dd == "float64"))
            other = rnd_tree(rng, N, rng.randint(1, 3), allow_xor=(dd == "float64"))
            if rounding in ("round", "round_tt") or fits(tree, other):
                break
        else:
            tree, other = ["sym", 0], ["true"]
        out.append({"kind": "random", "N": N, "tree": tree, "other": other, "rounding": rounding, "dd": dd})
    # stratum: un-rounded formulas rich in ^ (the only connective whose cores are not integers: 2*a*b is scaled by 2**(1/N) per core)
    for i in range(nr // 4):
        N = rng.choice([3, 4, 4])
        for _ in range(200):
            tree = rnd_tree(rng, N, 3, p_xor=0.7)
            other = rnd_tree(rng, N, rng.randint(1, 2), p_xor=0.7)
            if fits(tree, other):
                break
        else:
            tree, other = ["sym", 0], ["true"]
        out.append({"kind": "random", "N": N, "tree": tree, "other": other, "rounding": None, "dd": "float64"})
    return out


# ----------------------------------------------------------------------------- oracle (NumPy truth tables)
def grid(N):
    return np.meshgrid(*[np.array([False, True])] * N, indexing="ij") if N else []


def which_list(w, N):
    if w is None:
        return list(range(N))
    if isinstance(w, int):
        return [w % N]
    return [v % N for v in w]


def spec(tree, N, X):
    """truth table of the tree as a bool array of shape (2,)*N.  one(N, which) uses the implemented reading (see spec_one)."""
    t = tree[0]
    T = np.ones((2,) * N, dtype=bool)
    if t == "sym":
        return X[tree[1]].copy()
    if t == "true":
        return T
    if t == "false":
        return ~T
    if t == "not":
        return ~spec(tree[1], N, X)
    if t == "and":
        return spec(tree[1], N, X) & spec(tree[2], N, X)
    if t == "or":
        return spec(tree[1], N, X) | spec(tree[2], N, X)
    if t == "xor":
        return spec(tree[1], N, X) ^ spec(tree[2], N, X)
    if t == "round":
        return spec(tree[1], N, X)
    w = which_list(tree[1], N)
    if t in ("all", "presence"):
        r = T.copy()
        for n in w:
            r &= X[n]
        return r
    if t in ("none", "absence"):
        r = T.copy()
        for n in w:
            r &= ~X[n]
        return r
    if t == "any":
        r = ~T
        for n in w:
            r |= X[n]
        return r
    if t == "one":
        return spec_one(tree[1], N, X)[0]
    raise KeyError(t)


def spec_one(w, N, X):
    """both readings of one(N, which)"""
    total = sum(x.astype(int) for x in X)
    if w is None:
        r = total == 1
        return r, r
    inw = sum((X[n].astype(int) for n in w), np.zeros((2,) * N, dtype=int))
    return (total == 1) & (inw == 1), inw == 1


def depends_on(tab, N):
    """variables on which the table depends"""
    return [n for n in range(N) if not np.array_equal(np.take(tab, 0, axis=n), np.take(tab, 1, axis=n))]


# ----------------------------------------------------------------------------- implementation side
def build(tree, N, syms, rounding):
    t = tree[0]
    if t == "sym":
        return syms[tree[1]]
    if t == "true":
        return tn.true(N)
    if t == "false":
        return tn.false(N)
    if t == "not":
        return ~build(tree[1], N, syms, rounding)
    if t in BIN:
        a, b = build(tree[1], N, syms, rounding), build(tree[2], N, syms, rounding)
        r = (a & b) if t == "and" else ((a | b) if t == "or" else (a ^ b))
        if rounding is not None:
            getattr(r, rounding)()
        return r
    w = tree[1]
    if t in ("presence", "absence"):
        if isinstance(w, list) and len(w) and sum(w) % 3 == 0:
            w = np.array(w) if sum(w) % 2 else tuple(w)       # the same positions as a NumPy array / a tuple
        return getattr(tn, t)(N, w)
    return getattr(tn, t)(N) if w is None else getattr(tn, t)(N, w)


def has_op(tree, op):
    return tree[0] == op or any(isinstance(x, list) and x and isinstance(x[0], str) and has_op(x, op) for x in tree[1:] if isinstance(x, list))


def operand_class(t, case):
    """stable input-class predicate: format of the formula tensor (+ default dtype when it is not float64)"""
    c = "formula tensor has Tucker factors (e.g. after t.round())" if any(U is not None for U in t.Us) else "formula tensor is plain TT"
    if case["dd"] == "float32":
        c += ", default dtype float32"
    return c


def numeric_class(case):
    """predicate for the norm/sum-threshold predicates: what kind of float noise the formula carries"""
    x = has_op(case["tree"], "xor") or has_op(case["other"], "xor")
    if case["rounding"] in ("round", "round_tt"):
        return "formula built with intermediate TT rounding"
    return "formula built without TT rounding (formal ranks multiply)" + (", uses ^ (cores scaled by 2**(1/N))" if x else ", integer cores")


def run_case(ctx, case):
    N, tree, dd = case["N"], case["tree"], case["dd"]
    tol = 1e-9 if dd == "float64" else 1e-5
    X = grid(N)
    ctx.case((repr(tree), dd, case["rounding"], case["kind"]), n_connectives(tree) > 0,
             {"kind": case["kind"], "N": N, "tree": tree if len(repr(tree)) < 300 else repr(tree)[:300] + "...", "rounding": case["rounding"],
              "default_dtype": dd})
    ctx.count("kind:" + case["kind"]); ctx.count("N:%d" % N); ctx.count("dd:" + dd); ctx.count("rounding:%s" % case["rounding"])
    ctx.count("head:" + tree[0])

    if case["kind"] == "helper" and tree[0] == "one":
        tabs = spec_one(tree[1], N, X)
    else:
        tabs = (spec(tree, N, X),)
    otab = spec(case["other"], N, X)

    def mk():
        syms = tn.symbols(N)
        return build(tree, N, syms, case["rounding"]), build(case["other"], N, syms, case["rounding"])

    res = with_dd(dd, lambda: safe(mk))
    if res[0] == "err":
        ctx.count("impl_raise:" + res[1])
        ctx.oracle("building the formula raised %s: %s" % (res[1], res[2]), case,
                   cls={"op": "formula construction (%s)" % tree[0], "predicate": "raises %s; rounding=%s, dd=%s" % (res[1], case["rounding"], dd)})
        return
    f, g = res[1]
    ocls = operand_class(f, case)
    ncls = ocls + "; " + numeric_class(case)
    ctx.count("operand:" + ("tucker" if any(U is not None for U in f.Us) else "tt"))

    def call(name, fn):
        r = with_dd(dd, lambda: safe(fn))
        if r[0] == "err":
            ctx.count("impl_raise:%s:%s" % (name, r[1]))
            ctx.oracle("%s raised %s: %s" % (name, r[1], r[2]), case, cls={"op": name, "predicate": "raises %s on %s" % (r[1], ocls)})
            return None
        return r[1]

    # (a) truth table
    d = call("torch()", lambda: f.torch().detach().double().numpy())
    if d is None:
        return
    tab = None
    for cand in tabs:
        if close(d, cand.astype(np.float64), rtol=tol)[0]:
            tab = cand
            break
    if tab is None:
        ok, err = close(d, tabs[0].astype(np.float64), rtol=tol)
        ctx.count("table_mismatch")
        ctx.oracle("formula %s decompresses to something else than its truth table (%s)" % (tree[0], err), case,
                   cls={"op": "truth table of " + (tree[0] if case["kind"] == "helper" else "formula"), "predicate": ocls})
        return
    if len(tabs) == 2:
        ctx.count("one_reading:" + ("implemented" if tab is tabs[0] else "other") if not np.array_equal(tabs[0], tabs[1]) else "one_reading:same")
    if tuple(f.shape) != (2,) * N:
        ctx.oracle("formula shape %s is not 2^N" % (tuple(f.shape),), case, cls={"op": "shape", "predicate": ocls})
    cnt = int(tab.sum())

    # (a') rounding a COPY (the out-of-place helpers, "with or without intermediate rounding") gives the same truth table and leaves
    #      the formula itself what it was: it is used again by every predicate below
    if case["dd"] == "float64":
        for rname in (("round", "round_tucker") if case["rounding"] in (None, "round_tt") else ("round",)):
            fr = call("tn.%s(copy)" % rname, lambda: getattr(tn, rname)(f))
            if fr is None:
                continue
            dr = call("torch() of the rounded copy", lambda: fr.torch().detach().double().numpy())
            if dr is not None and not close(dr, tab.astype(np.float64), rtol=1e-7)[0]:
                ctx.oracle("tn.%s(f) decompresses to something else than f's truth table" % rname, case,
                           cls={"op": "rounded copy", "predicate": ocls})
            d2 = call("torch() after tn.%s(f)" % rname, lambda: f.torch().detach().double().numpy())
            if d2 is not None and not (d2.shape == d.shape and np.array_equal(d2, d)):
                ctx.oracle("the formula itself changed when a copy of it was rounded with tn.%s" % rname, case,
                           cls={"op": "rounded copy", "predicate": "original modified"})
                return
        ctx.count("rounded copies checked")

    # (b) sum = number of satisfying assignments
    s = call("sum", lambda: float(tn.sum(f)))
    if s is not None and not close(s, float(cnt), rtol=tol)[0]:
        ctx.oracle("tn.sum = %r, number of satisfying assignments = %d" % (s, cnt), case, cls={"op": "sum", "predicate": ocls})

    # (c) unary predicates
    for name, fn, exp in (("is_tautology", tn.is_tautology, cnt == tab.size), ("is_contradiction", tn.is_contradiction, cnt == 0),
                          ("is_satisfiable", tn.is_satisfiable, cnt > 0)):
        r = call(name, lambda: fn(f))
        if r is None:
            continue
        if not isinstance(r, (bool, np.bool_)):
            ctx.oracle("%s returned %s, not a bool" % (name, type(r).__name__), case, cls={"op": name, "predicate": "non-bool result on " + ocls})
        if bool(r) != bool(exp):
            ctx.count("pred_mismatch:" + name)
            ctx.oracle("%s = %s, truth table says %s" % (name, bool(r), exp), case, cls={"op": name, "predicate": ncls})

    # (d) binary predicates against a second formula (only if its own table is right: checked here, reported under its own case kind)
    dg = with_dd(dd, lambda: safe(lambda: g.torch().detach().double().numpy()))
    if dg[0] == "ok" and close(dg[1], otab.astype(np.float64), rtol=tol)[0]:
        gcls = ncls
        for name, fn, exp in (("implies", lambda: tn.implies(f, g), bool(np.all(~tab | otab))),
                              ("implies(reversed)", lambda: tn.implies(g, f), bool(np.all(~otab | tab))),
                              ("equiv", lambda: tn.equiv(f, g), bool(np.array_equal(tab, otab))),
                              ("equiv(self)", lambda: tn.equiv(f, f), True)):
            r = call(name, fn)
            if r is None:
                continue
            if bool(r) != exp:
                ctx.count("pred_mismatch:" + name)
                ctx.oracle("%s = %s, truth tables say %s" % (name, bool(r), exp), case, cls={"op": "implies/equiv", "predicate": gcls})
    else:
        ctx.count("second_formula_unusable")

    # (e) relevant / irrelevant symbols
    rel_exp = depends_on(tab, N)
    irr_exp = [n for n in range(N) if n not in rel_exp]
    rel = call("relevant_symbols", lambda: [int(n) for n in tn.relevant_symbols(f)])
    rel_bad = rel is not None and sorted(rel) != rel_exp
    if rel_bad:
        ctx.count("relevant_mismatch")
        # with Tucker factors the routine reads the wrong axis (format class); on plain TT a wrong answer is a threshold/noise class
        ctx.oracle("relevant_symbols = %s, the table depends on %s" % (rel, rel_exp), case,
                   cls={"op": "relevant_symbols", "predicate": ocls if any(U is not None for U in f.Us) else ncls})
    irr = call("irrelevant_symbols", lambda: [int(n) for n in tn.irrelevant_symbols(f)])
    if irr is not None and sorted(irr) != irr_exp and rel_bad:
        ctx.count("irrelevant_mismatch(consequence of relevant_symbols)")   # irrelevant_symbols = complement of relevant_symbols: same defect
    elif irr is not None and sorted(irr) != irr_exp:
        ctx.oracle("irrelevant_symbols = %s, the table does not depend on %s" % (irr, irr_exp), case,
                   cls={"op": "irrelevant_symbols", "predicate": ocls})

    # (f) only(): table AND every irrelevant variable false
    otab2 = tab.copy()
    for n in irr_exp:
        otab2 &= ~X[n]
    o = call("only", lambda: tn.only(f).torch().detach().double().numpy())
    if o is not None:
        ok, err = close(o, otab2.astype(np.float64), rtol=tol)
        if not ok and rel_bad:
            ctx.count("only_mismatch(consequence of relevant_symbols)")         # only() masks with absence(irrelevant_symbols): same defect
        elif not ok:
            ctx.count("only_mismatch")
            ctx.oracle("only(t) differs from 'table and all irrelevant variables false' (%s)" % (err,), case, cls={"op": "only", "predicate": ocls})

    # hook: structural correspondence with the Lean model (cores of f / g are available here)
    if getattr(ctx, "use_model", False) and not getattr(ctx, "search_only", False):
        pass  # MODEL HOOK (main session): compare core.from_tn(f) with the model's cores for `tree` on the integer stream


# =============================================================================== correspondence with the Lean model (main session)
def _gen_form(rng, N, depth):
    if depth == 0 or rng.random() < 0.25:
        return ["sym", rng.randrange(N)]
    r = rng.random()
    if r < 0.2:
        return ["not", _gen_form(rng, N, depth - 1)]
    return [rng.choice(["and", "or", "xor"]), _gen_form(rng, N, depth - 1), _gen_form(rng, N, depth - 1)]


def _corr_cases(rng, tier):
    n = {"quick": 120, "thorough": 1500, "search": 0}[tier]
    return [{"kind": "corr", "N": (N := rng.randint(1, 4)), "form": _gen_form(rng, N, rng.randint(1, 3))} for _ in range(n)]


_orig_cases = cases
_orig_run_case = run_case


def cases(rng, tier):  # noqa: F811
    return _orig_cases(rng, tier) + _corr_cases(rng, tier)


def run_case(ctx, case):  # noqa: F811
    if case.get("kind") != "corr":
        return _orig_run_case(ctx, case)
    import itertools
    from core import cmp_struct, from_tn, PT
    from props.c02 import Model
    N, form = case["N"], case["form"]
    ctx.case(("corr", N, repr(form)), True, {"op": "model correspondence: formula tree through the C02 model", "N": N, "formula": form})
    ctx.count("corr:formula")
    syms = tn.symbols(N)

    def ev(f, S, ops):
        if f[0] == "sym":
            return S[f[1]]
        if f[0] == "not":
            return ops["not"](ev(f[1], S, ops))
        return ops[f[0]](ev(f[1], S, ops), ev(f[2], S, ops))

    impl_ops = {"not": lambda a: ~a, "and": lambda a, b: a & b, "or": lambda a, b: a | b, "xor": lambda a, b: a ^ b}
    r = safe(lambda: ev(form, syms, impl_ops))
    if r[0] == "err":
        ctx.oracle("formula %s raised %s: %s" % (form, r[1], r[2]), case); return
    # truth table oracle
    tab = np.zeros([2] * N)
    bool_ops = {"not": lambda a: not a, "and": lambda a, b: a and b, "or": lambda a, b: a or b, "xor": lambda a, b: a != b}
    for asg in itertools.product([0, 1], repeat=N):
        tab[asg] = 1.0 if ev(form, [bool(v) for v in asg], bool_ops) else 0.0
    got = r[1].torch().detach().double().numpy()
    if not close(got, tab, 1e-9)[0]:
        ctx.oracle("formula %s does not decompress to its truth table" % (form,), case)
    if not (getattr(ctx, "use_model", False) and not getattr(ctx, "search_only", False)):
        return
    M = Model(ctx.drv())
    leaves = [from_tn(s) for s in syms]
    model_ops = {"not": lambda a: M.scalar("rssub", a, 1.0), "and": lambda a, b: M.mul(a, b),
                 "or": lambda a, b: M.sub(M.add(a, b), M.mul(a, b)), "xor": lambda a, b: M.sub(M.add(a, b), M.mul(M.smul(2.0, a), b))}
    try:
        m = ev(form, leaves, model_ops)
    except Exception as e:
        ctx.corr("model failed on formula %s: %s" % (form, e), case); return
    exact = "xor" not in repr(form)
    d = cmp_struct(from_tn(r[1]), m, exact)
    if d is not None:
        ctx.corr("formula %s: implementation cores differ from model cores: %s" % (form, d), case)
    md = PT([np.asarray(c, dtype=np.float64) for c in m.cores], [None if U is None else np.asarray(U, dtype=np.float64) for U in m.Us]).dense()
    if not close(md, tab, 1e-9)[0]:
        ctx.spec("model formula %s differs from the truth table" % (form,), case)
