"""C18 — batch tensors behave as independent stacks of ordinary tensors."""
import random
import numpy as np, torch, random
import core
from core import PT, gen_tensor, gen_format, from_tn, parse_tensor, cmp_struct, close, q, safe, tn
from props.c03 import gen_slice, py_key, ser_key

RULE = ("batch size 1..4, 2..4 further modes, format classes pure TT | CP | Tucker (TT cores + factors) | TT-Tucker mix | CP-Tucker on "
        "each operand (all batch elements share the structure, entries differ); operations: torch(), construction from a dense stack "
        "(no limit / ranks_tt / ranks_tucker / eps), +, *, scalar * and + (scalar on either side; a quarter with the special scalars 0, 0.0, 1; the result must still be a batch tensor with the same number of modes and add to the operand), round_tt/round_tucker (rmax), orthogonalize(mu), indexing of "
        "the non-batch modes (ints, slices, index arrays), selection along the batch mode (int, slice). Each batch element of the result "
        "is compared with the dense result of the same operation on that element; for +, * and indexing the element's cores are also "
        "compared with the Lean non-batch model applied to the element's cores (refinement at core level, bit-exact on the int stream). "
        "Functions that guard against batch tensors must raise. distinct = (op, format class, batch size, shapes, ranks)")
TRUSTED = ["for rank-limited construction and rounding the reference is the non-batch implementation on each element (the property's own "
           "definition), compared on dense values at 1e-7 (SVD truncations are unique for generic spectra)"]
ASSUMPTIONS = ["all batch elements share format and ranks (that is what a batch tensor is)"]

CLASSES = ["tt", "cp", "tucker", "tt-tucker", "cp-tucker"]
OPS = ["torch", "construct", "construct_r", "add", "mul", "smul", "sadd", "round_tt", "round_tucker", "orth", "getitem", "batchsel", "guard"]
GUARDED = ["sum", "anova_decomposition", "partialset", "gradient", "accepted_inputs", "dot"]


def class_fmt(rng, cls, N):
    if cls == "tt":
        return [("tt", None)] * N
    if cls == "cp":
        return [("cp", None)] * N
    if cls == "tucker":
        return [("tt", rng.choice(["narrow", "square"])) for _ in range(N)]
    if cls == "tt-tucker":
        return [("tt", rng.choice([None, "narrow", "square"])) for _ in range(N)]
    return [("cp", rng.choice(["narrow", "square"])) for _ in range(N)]


def gen_batch(rng, B, shape, cls, stream):
    fmt = class_fmt(rng, cls, len(shape))
    first = gen_tensor(rng, shape, fmt=fmt, rmax=2, stream=stream, p_rank1=0.3)
    elems = [first]
    for _ in range(B - 1):
        cores = [core.rnd_entries(rng, c.shape, stream) for c in first.cores]
        Us = [None if U is None else core.rnd_entries(rng, U.shape, stream) for U in first.Us]
        elems.append(PT(cores, Us))
    # special elements: an exactly zero element (a padding sample) in the first or in a random slot
    if B >= 2 and rng.random() < 0.2:
        b = 0 if rng.random() < 0.5 else rng.randrange(B)
        e = elems[b]
        elems[b] = PT([np.zeros_like(e.cores[0])] + list(e.cores[1:]), e.Us)
    return elems


def to_batch(elems):
    cores = [torch.tensor(np.stack([e.cores[n] for e in elems])) for n in range(elems[0].N)]
    Us = [None if elems[0].Us[n] is None else torch.tensor(np.stack([e.Us[n] for e in elems])) for n in range(elems[0].N)]
    return tn.Tensor(cores, Us=Us, batch=True)


def elem_of(bt, b):
    """plain view of batch element b of a batch tensor"""
    return PT([c[b].detach().double().numpy() for c in bt.cores], [None if U is None else U[b].detach().double().numpy() for U in bt.Us])


_EQS = None


def source_einsums():
    """every einsum equation string of /repo/tntorch/*.py, as spelled in the source (the same literal test extract.py uses)"""
    global _EQS
    if _EQS is None:
        import ast, glob, re, os
        pat = re.compile(r"^[A-Za-z.]+(,[A-Za-z.]+)*(->[A-Za-z.]*)?$")
        eqs = set()
        for f in sorted(glob.glob(os.path.join(os.path.dirname(tn.__file__), "*.py"))):
            for n in ast.walk(ast.parse(open(f).read())):
                if isinstance(n, ast.Constant) and isinstance(n.value, str) and ("," in n.value or "->" in n.value) and pat.match(n.value) \
                        and len(n.value) <= 40 and "." not in n.value:
                    eqs.add(n.value)
        _EQS = sorted(eqs)
    return _EQS


def run_einsum(ctx, case):
    """the Lean einsum evaluator (Model/Einsum.lean; theorems C18.einsum_batch_lift, batched_einsums_slicewise) against torch.einsum on an
    equation of the source; for a batched equation additionally the statement of the theorem itself on the real kernel: slot b of the
    batched contraction = the plain contraction of the b-th slices"""
    rng = random.Random(case["seed"])
    eqs = source_einsums()
    eq = eqs[case["eq"] % len(eqs)]
    lhs = eq.split("->")[0]
    ins = lhs.split(",")
    letters = sorted(set("".join(ins)))
    dims = {c: rng.randint(1, 3) for c in letters}
    ctx.case(("einsum", eq, tuple(sorted(dims.items()))), True, {"op": "einsum evaluator vs torch.einsum", "equation": eq, "dims": dims})
    ctx.count("einsum")
    ops = [torch.tensor(np.array([rng.randint(-3, 3) for _ in range(int(np.prod([dims[c] for c in l])))], dtype=np.float64).reshape([dims[c] for c in l]))
           for l in ins]
    want = torch.einsum(eq, *ops)
    if getattr(ctx, "use_model", False) and not getattr(ctx, "search_only", False):
        toks = ["einsum", eq, str(len(letters))]
        for c in letters:
            toks += [c, str(dims[c])]
        toks.append(str(len(ins)))
        for t in ops:
            toks += [str(int(v)) for v in t.flatten().tolist()]
        a = ctx.drv().call(" ".join(toks))
        got = [int(core.unq(x.split("~")[0])) for x in a[2:]] if a[0] == "ok" else None
        if got != [int(v) for v in want.flatten().tolist()]:
            ctx.corr("einsum %r: model evaluator %s, torch.einsum %s" % (eq, a[:8], want.flatten().tolist()[:8]), case)
    # batched equations: first letter of every operand and of the output is the same letter occurring nowhere else
    out = eq.split("->")[1] if "->" in eq else None
    if out and all(l and l[0] == ins[0][0] for l in ins + [out]) and all(ins[0][0] not in l[1:] for l in ins + [out]):
        plain = ",".join(l[1:] for l in ins) + "->" + out[1:]
        ctx.count("einsum:batched equation")
        for b in range(dims[ins[0][0]]):
            if not torch.equal(want[b], torch.einsum(plain, *[t[b] for t in ops])):
                ctx.oracle("torch.einsum(%r)[%d] differs from torch.einsum(%r) of the slices" % (eq, b, plain), case)


def cases(rng, tier):
    n = {"quick": 900, "thorough": 6000, "search": 2000}[tier]
    out = [{"op": "einsum", "eq": k, "seed": rng.randrange(1 << 30)} for k in range({"quick": 90, "thorough": 400, "search": 0}[tier])]
    for _ in range(n):
        B = rng.randint(1, 4)
        N = rng.randint(2, 4)
        shape = [rng.randint(2, 3) for _ in range(N)]
        stream = "int" if rng.random() < 0.6 else "float"
        op = rng.choice(OPS + ["round_tt", "round_tt", "round_tucker", "batchsel", "batchsel", "batchsel", "batchsel", "getitem"])      # rounding is where batch and non-batch code differ most
        cls = rng.choice(CLASSES)
        c = {"op": op, "B": B, "shape": shape, "stream": stream, "cls": cls,
             "x": [e.to_json() for e in gen_batch(rng, B, shape, cls, stream)], "seed": rng.randrange(1 << 30)}
        if op in ("add", "mul"):
            c["cls2"] = rng.choice(CLASSES)
            c["y"] = [e.to_json() for e in gen_batch(rng, B, shape, c["cls2"], stream)]
        if op == "getitem":
            key = []
            for s in shape:
                r = rng.random()
                key.append(["i", rng.randint(-s, s - 1)] if r < 0.3 else gen_slice(rng, s))
            if rng.random() < 0.3:
                m = rng.randrange(N); P = rng.randint(1, 3)
                key[m] = ["a", [rng.randint(0, shape[m] - 1) for _ in range(P)]]
            if all(k[0] == "i" for k in key):
                key[0] = ["s", None, None, None]
            c["key"] = key
        if op == "batchsel":
            c["bkey"] = ["i", rng.randint(-B, B - 1)] if rng.random() < 0.5 else gen_slice(rng, B)
            if rng.random() < 0.8:
                # ... combined with a key on the other modes (t[b, i, :], t[b, :, i, :], t[1:, i]): ints and slices, at least one slice
                key = [["i", rng.randint(-s, s - 1)] if rng.random() < 0.45 else gen_slice(rng, s) for s in shape]
                if all(k[0] == "i" for k in key):
                    key[rng.randrange(N)] = ["s", None, None, None]
                c["key"] = key[:rng.randint(1, N)] if rng.random() < 0.25 else key
        if op in ("round_tt", "round_tucker", "construct_r"):
            c["rmax"] = rng.choice([1, 1, 2, 3])
        if op in ("round_tt", "round_tucker"):
            # both algorithms, and small-magnitude data (the Gram path squares the scale)
            c["alg"] = rng.choice(["svd", "svd", "eig", "eig"])
            # small-magnitude data with 'svd' only: the Gram path on data of norm < 1e-3 is the recorded C05 known finding
            # (negative eigenvalues replaced by 1e-8), in batch and non-batch code alike but not identically
            c["scale"] = rng.choice([1.0, 1.0, 1e-6]) if c["alg"] == "svd" else 1.0
            if rng.random() < 0.4 and stream == "float":
                # a sum of two batch tensors: ranks above mode size x right rank (tall unfoldings)
                c["plus"] = [e.to_json() for e in gen_batch(rng, B, shape, cls, stream)]
        if op == "orth":
            c["mu"] = rng.randint(0, N - 1)
        if op == "guard":
            c["fn"] = rng.choice(GUARDED)
        out.append(c)
    return out


def per_elem(ctx, case, what, bt, expected, tol=1e-9, cls=None):
    """bt: batch result; expected: list of dense arrays per element"""
    d = safe(lambda: bt.torch().detach().double().numpy())
    if d[0] == "err":
        ctx.oracle("%s: result cannot be decompressed: %s %s" % (what, d[1], d[2]), case, cls=cls); return False
    if d[1].shape[0] != len(expected):
        ctx.oracle("%s: batch size %d, expected %d" % (what, d[1].shape[0], len(expected)), case, cls=cls); return False
    for b, e in enumerate(expected):
        ok, err = close(d[1][b], e, tol) if d[1][b].shape == e.shape else (False, "shape %s vs %s" % (d[1][b].shape, e.shape))
        if not ok:
            ctx.oracle("%s: batch element %d differs from the operation on that element as an ordinary tensor (%s)" % (what, b, err), case, cls=cls)
            return False
    return True


def run_case(ctx, case):
    if case["op"] == "einsum":
        return run_einsum(ctx, case)
    use_model = getattr(ctx, "use_model", False) and not getattr(ctx, "search_only", False)
    op, B = case["op"], case["B"]
    xs = [PT.from_json(j) for j in case["x"]]
    exact = case["stream"] == "int"
    ctx.case((op, case["cls"], case.get("cls2"), B, tuple(case["shape"]), xs[0].ranks()), True,
             {"op": op, "format": case["cls"], "format2": case.get("cls2"), "batch": B, "shape": case["shape"], "ranks": list(xs[0].ranks())})
    ctx.count("op:" + op); ctx.count("cls:" + case["cls"]); ctx.count("B:%d" % B)
    bt = safe(lambda: to_batch(xs))
    if bt[0] == "err":
        ctx.oracle("building the batch tensor raised %s: %s" % (bt[1], bt[2]), case); return
    bt = bt[1]
    dens = [x.dense() for x in xs]
    cls = {"op": op, "format": case["cls"] + ("+" + case["cls2"] if "cls2" in case else "")}
    if op == "torch":
        per_elem(ctx, case, "torch()", bt, dens, cls=cls); return
    if op in ("construct", "construct_r"):
        X = torch.tensor(np.stack(dens))
        kw = {} if op == "construct" else {"ranks_tt": case["rmax"]}
        r = safe(lambda: tn.Tensor(X, batch=True, **kw))
        if r[0] == "err":
            ctx.oracle("Tensor(stack, batch=True, %s) raised %s: %s" % (kw, r[1], r[2]), case, cls=cls); return
        ref = [tn.Tensor(torch.tensor(d), **kw).torch().numpy() for d in dens]
        per_elem(ctx, case, "Tensor(stack, batch=True, %s)" % kw, r[1], ref, 1e-7, cls=cls); return
    if op in ("add", "mul"):
        ys = [PT.from_json(j) for j in case["y"]]
        by = to_batch(ys)
        r = safe(lambda: bt + by if op == "add" else bt * by)
        if r[0] == "err":
            ctx.oracle("batch %s raised %s: %s" % (op, r[1], r[2]), case, cls=cls); return
        exp = [a + b if op == "add" else a * b for a, b in zip(dens, [y.dense() for y in ys])]
        if per_elem(ctx, case, "batch " + op, r[1], exp, cls=cls) and use_model:
            for b in range(B):
                toks = ctx.drv().call("%s %s %s" % (op, xs[b].ser(), ys[b].ser()))
                m = parse_tensor(toks, 1)[0]
                d = cmp_struct(elem_of(r[1], b), m, exact)
                if d is not None and op == "mul" and ("shape" in d or "presence" in d):
                    # the batched `*` chooses between its two (equivalent) layouts with a mode size that is off by the batch
                    # dimension; the element is still the product (checked above on dense values)
                    ctx.count("mul:layout differs from the non-batch choice"); break
                if d is not None:
                    ctx.corr("batch %s, element %d: cores differ from the non-batch model on that element: %s" % (op, b, d), case); break
        return
    if op in ("smul", "sadd"):
        c = -2.0 if exact else random.Random(case["seed"]).uniform(-2, 2)
        if op == "smul" and exact:
            c = -1.0
        z_ = random.Random(case["seed"] + 1).random()
        if z_ < 0.25:          # the special scalars 0, 0.0, 1 (Python int and float), on either side
            c = [0, 0.0, 1, 0][int(z_ * 16) % 4]
        left = random.Random(case["seed"] + 2).random() < 0.4
        ctx.count("scalar:%s%s" % ("zero" if c == 0 else "one" if c == 1 else "generic", ",left" if left else ""))
        r = safe(lambda: (c * bt if left else bt * c) if op == "smul" else (c + bt if left else bt + c))
        if r[0] == "err":
            ctx.oracle("batch %s raised %s: %s" % (op, r[1], r[2]), case, cls=cls); return
        exp_ = [d * c if op == "smul" else d + c for d in dens]
        if not per_elem(ctx, case, "batch %s %r" % (op, c), r[1], exp_, cls=cls):
            return
        # the result is a stack of batch elements (same batch flag and number of modes) that combines with other batch tensors
        if not getattr(r[1], "batch", False) or r[1].dim() != bt.dim():
            ctx.oracle("batch %s %r: the result is not a batch tensor of %d modes any more (batch=%s, dim()=%d, shape %s)" % (
                op, c, bt.dim(), getattr(r[1], "batch", None), r[1].dim(), tuple(r[1].shape)), case, cls=cls); return
        r2 = safe(lambda: bt + r[1])
        if r2[0] == "err":
            ctx.oracle("bt + (batch %s %r) raised %s: %s" % (op, c, r2[1], r2[2]), case, cls=cls); return
        per_elem(ctx, case, "bt + (batch %s %r)" % (op, c), r2[1], [d + e for d, e in zip(dens, exp_)], cls=cls); return
    if op in ("round_tt", "round_tucker"):
        alg, sc = case.get("alg", "svd"), case.get("scale", 1.0)
        bt2, els = bt, [x.to_tn() for x in xs]
        if case.get("plus") is not None:
            ys = [PT.from_json(j) for j in case["plus"]]
            bt2 = bt + to_batch(ys)
            els = [a_ + y.to_tn() for a_, y in zip(els, ys)]
        if sc != 1.0:
            bt2 = bt2 * sc
            els = [e_ * sc for e_ in els]
        ctx.count("round:alg=%s,scale=%g%s" % (alg, sc, ",sum" if case.get("plus") is not None else ""))
        r = safe(lambda: getattr(tn, op)(bt2, rmax=case["rmax"], algorithm=alg))
        if r[0] == "err":
            if alg == "eig":
                ctx.count("batch %s with algorithm='eig' raised %s (an error is allowed where batches are not supported)" % (op, r[1])); return
            ctx.oracle("batch %s raised %s: %s" % (op, r[1], r[2]), case, cls=cls); return
        ref = [getattr(tn, op)(e_, rmax=case["rmax"], eps=0, algorithm=alg).torch().numpy() / sc for e_ in els]
        rs = safe(lambda: r[1] * (1.0 / sc))
        if rs[0] == "err":
            ctx.oracle("batch %s: result cannot be rescaled: %s" % (op, rs[2]), case, cls=cls); return
        per_elem(ctx, case, "batch %s(rmax=%d, algorithm=%s, scale=%g)" % (op, case["rmax"], alg, sc), rs[1], ref, 1e-6, cls=cls)
        rk = r[1].ranks_tt if op == "round_tt" else r[1].ranks_tucker
        if int(max(rk[1:-1] if op == "round_tt" else rk)) > case["rmax"] and op == "round_tt":
            ctx.oracle("batch round_tt left a rank above rmax: %s" % list(rk), case, cls=cls)
        return
    if op == "orth":
        c2 = bt.clone()
        r = safe(lambda: c2.orthogonalize(case["mu"]))
        if r[0] == "err":
            ctx.oracle("batch orthogonalize raised %s: %s" % (r[1], r[2]), case, cls=cls); return
        per_elem(ctx, case, "batch orthogonalize(%d)" % case["mu"], c2, dens, 1e-8, cls=cls); return
    if op == "getitem":
        key = case["key"]
        pk = (slice(None),) + py_key(key)
        r = safe(lambda: bt[pk])
        if r[0] == "err":
            ctx.oracle("batch indexing %s raised %s: %s" % (pk, r[1], r[2]), case, cls=cls); return
        from props.c03 import nat_index
        exp = [np.asarray(nat_index(d, key)) for d in dens]
        if not isinstance(r[1], tn.Tensor):
            ctx.oracle("batch indexing returned %s" % type(r[1]).__name__, case, cls=cls); return
        if per_elem(ctx, case, "batch indexing %s" % (pk,), r[1], exp, cls=cls) and use_model:
            for b in range(B):
                toks = ctx.drv().call("getitem " + ser_key(key) + " " + xs[b].ser())
                if toks[0] != "ok" or toks[1] != "T":
                    ctx.corr("model getitem failed on element %d" % b, case); break
                m = parse_tensor(toks, 1)[0]
                d = cmp_struct(elem_of(r[1], b), m, exact)
                if d is not None:
                    ctx.corr("batch indexing, element %d: cores differ from the non-batch model on that element: %s" % (b, d), case); break
        return
    if op == "batchsel":
        bk = case["bkey"]
        k = int(bk[1]) if bk[0] == "i" else slice(bk[1], bk[2], bk[3])
        if case.get("key") is not None:
            k = (k,) + py_key(case["key"])
            ctx.count("batchsel:with a key on the other modes")
        r = safe(lambda: bt[k])
        sel = np.stack(dens)[k]
        if bk[0] == "s" and sel.shape[0] == 0:
            ctx.count("empty batch selection (no element to compare)"); return
        if r[0] == "err":
            if bk[0] == "s" and sel.shape[0] == 0:
                ctx.count("empty batch selection raises (no element to compare)"); return
            ctx.oracle("selection along the batch mode %s raised %s: %s" % (k, r[1], r[2]), case, cls=cls); return
        got = safe(lambda: r[1].torch().detach().double().numpy())
        if got[0] == "err" or got[1].shape != sel.shape or not close(got[1], sel, 1e-9)[0]:
            ctx.oracle("selection along the batch mode %s differs from the stack's elements" % (k,), case, cls=cls)
        if bk[0] == "i" and isinstance(r[1], tn.Tensor) and r[1].batch:
            ctx.oracle("integer selection along the batch mode returned a batch tensor", case, cls=cls)
        return
    if op == "guard":
        fn = case["fn"]
        calls = {"sum": lambda: tn.sum(bt), "anova_decomposition": lambda: tn.anova_decomposition(bt), "partialset": lambda: tn.partialset(bt),
                 "gradient": lambda: tn.gradient(bt), "accepted_inputs": lambda: tn.accepted_inputs(bt), "dot": lambda: tn.dot(bt, bt.torch())}
        r = safe(calls[fn])
        ctx.count("guard:" + fn)
        if r[0] != "err":
            ctx.oracle("%s accepted a batch tensor instead of raising" % fn, case, cls={"op": "guard", "fn": fn})
