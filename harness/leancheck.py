"""Build the Lean project, audit it, and report the property theorems with their axioms (DESIGN §2.8/2.9)."""
import os, re, subprocess, hashlib, json, glob, time

VERIF = os.path.dirname(os.path.dirname(os.path.abspath(__file__)))
LEAN = os.path.join(VERIF, "lean")
ALLOWED_AXIOMS = {"propext", "Classical.choice", "Quot.sound"}
FORBIDDEN = re.compile(r"\b(sorry|admit|native_decide|bv_decide|implemented_by|unsafe)\b|^\s*axiom\s|maxHeartbeats\s+0")


def strip_comments(src):
    src = re.sub(r"/-.*?-/", lambda m: "\n" * m.group(0).count("\n"), src, flags=re.S)
    return "\n".join(l.split("--")[0] for l in src.split("\n"))


def lean_files():
    return sorted(glob.glob(os.path.join(LEAN, "TnVerif", "**", "*.lean"), recursive=True)) + \
        [os.path.join(LEAN, "TnVerif.lean"), os.path.join(LEAN, "Driver.lean")]


def source_hash():
    h = hashlib.sha1()
    for f in lean_files():
        h.update(f.encode()); h.update(open(f, "rb").read())
    return h.hexdigest()


def build(timeout=1500):
    t0 = time.time()
    try:
        p = subprocess.run(["lake", "build"], cwd=LEAN, capture_output=True, text=True, timeout=timeout)
        ok = p.returncode == 0
        out = (p.stdout + p.stderr)[-4000:]
    except subprocess.TimeoutExpired:
        ok, out = False, "lake build timed out"
    return ok, out, time.time() - t0


def build_targets(targets, timeout=1500):
    try:
        p = subprocess.run(["lake", "build"] + targets, cwd=LEAN, capture_output=True, text=True, timeout=timeout)
        return p.returncode == 0, (p.stdout + p.stderr)[-4000:]
    except subprocess.TimeoutExpired:
        return False, "lake build timed out"


def grep_forbidden():
    hits = []
    for f in lean_files():
        for i, l in enumerate(strip_comments(open(f).read()).split("\n")):
            if FORBIDDEN.search(l):
                hits.append("%s:%d: %s" % (os.path.relpath(f, VERIF), i + 1, l.strip()[:120]))
    return hits


def theorems_of(prop):
    f = os.path.join(LEAN, "TnVerif", "Props", prop + ".lean")
    if not os.path.exists(f):
        return [], []
    src = strip_comments(open(f).read())
    ns = re.findall(r"^namespace\s+(\S+)", src, flags=re.M)
    prefix = (ns[0] + ".") if ns else ""
    names = re.findall(r"^theorem\s+(\S+)", src, flags=re.M)
    raw = open(f).read()
    open_statements = re.findall(r"NOT YET PROVED[^\n]*\n((?:--[^\n]*\n)+)", raw)
    return [prefix + n for n in names], [s.strip()[:400] for s in open_statements]


def axioms(prop, names):
    """#print axioms for each theorem; cached by source hash"""
    cache_f = os.path.join(LEAN, ".lake", "audit-%s.json" % prop)
    h = source_hash()
    if os.path.exists(cache_f):
        c = json.load(open(cache_f))
        if c.get("hash") == h and set(c["axioms"].keys()) == set(names):
            return c["axioms"], c["raw"]
    tmp = os.path.join(LEAN, ".lake", "Audit_%s.lean" % prop)
    with open(tmp, "w") as fh:
        fh.write("import TnVerif.Props.%s\n" % prop)
        for n in names:
            fh.write("#print axioms %s\n" % n)
    try:
        p = subprocess.run(["lake", "env", "lean", tmp], cwd=LEAN, capture_output=True, text=True, timeout=900)
        raw = p.stdout + p.stderr
    except subprocess.TimeoutExpired:
        raw = "timeout"
    res = {}
    for n in names:
        m = re.search(r"'%s' depends on axioms: \[([^\]]*)\]" % re.escape(n), raw, flags=re.S)
        if m:
            res[n] = [a.strip() for a in m.group(1).replace("\n", " ").split(",") if a.strip()]
        elif re.search(r"'%s' does not depend on any axioms" % re.escape(n), raw):
            res[n] = []
        else:
            res[n] = None
    json.dump({"hash": h, "axioms": res, "raw": raw[-3000:]}, open(cache_f, "w"))
    return res, raw[-3000:]


def leanchecker(prop, timeout=1500):
    try:
        p = subprocess.run(["lake", "env", "leanchecker", "TnVerif.Props.%s" % prop], cwd=LEAN, capture_output=True,
                           text=True, timeout=timeout)
        return p.returncode == 0, (p.stdout + p.stderr)[-1500:]
    except subprocess.TimeoutExpired:
        return None, "leanchecker timed out"
    except FileNotFoundError:
        return None, "leanchecker not found"


def run(prop, tier):
    """returns dict(ok, driver_ok, obligations, discharged, theorems, failures, open_statements, ...)"""
    res = {"failures": [], "theorems": {}, "open_statements": []}
    ok, out, dt = build()
    res["build_s"] = round(dt, 1)
    res["driver_ok"] = os.path.exists(os.path.join(LEAN, ".lake", "build", "bin", "driver"))
    if not ok:
        # try to at least build the driver and this property's module
        d_ok, _ = build_targets(["driver"])
        res["driver_ok"] = d_ok
        p_ok, p_out = build_targets(["TnVerif.Props." + prop])
        if not p_ok:
            res["failures"].append({"kind": "lean-build", "what": "lake build TnVerif.Props.%s failed" % prop, "log": p_out[-1500:]})
        else:
            res["notes"] = "full lake build failed in another module; this property's module builds"
        if not d_ok:
            res["failures"].append({"kind": "driver-build", "what": "lake build driver failed", "log": out[-1500:]})
    hits = grep_forbidden()
    for h in hits:
        res["failures"].append({"kind": "audit-forbidden", "what": h})
    names, open_st = theorems_of(prop)
    res["open_statements"] = open_st
    if not names:
        res["failures"].append({"kind": "no-theorems", "what": "Props/%s.lean has no theorem" % prop})
    if names and not any(f["kind"] == "lean-build" for f in res["failures"]):
        ax, raw = axioms(prop, names)
        for n in names:
            a = ax.get(n)
            res["theorems"][n] = a
            if a is None:
                res["failures"].append({"kind": "audit-axioms", "what": "could not obtain axioms of %s" % n, "log": raw[-800:]})
            elif not set(a) <= ALLOWED_AXIOMS:
                res["failures"].append({"kind": "audit-axioms", "what": "%s depends on %s" % (n, a)})
    else:
        for n in names:
            res["theorems"][n] = None
    if tier == "thorough" and not res["failures"]:
        lc, lo = leanchecker(prop)
        res["leanchecker"] = {"ok": lc, "log": lo[-400:]}
        if lc is False:
            res["failures"].append({"kind": "leanchecker", "what": "leanchecker rejected TnVerif.Props.%s" % prop, "log": lo})
    res["obligations"] = len(names)
    res["discharged"] = sum(1 for n in names if res["theorems"].get(n) is not None and set(res["theorems"][n]) <= ALLOWED_AXIOMS) \
        if not any(f["kind"] == "lean-build" for f in res["failures"]) else 0
    res["ok"] = not res["failures"]
    return res
