"""Regenerate MANIFEST.json from the table below (keeps the manifest valid at all times)."""
import json, os
VERIF = os.path.dirname(os.path.dirname(os.path.abspath(__file__)))
PROOF = "proof"
CHECKS = {
 "C08": dict(
    text="Lean 4 theorems (any number of modes, sizes and ranks, any commutative semiring / field): cross_interpolates — after the "
         "right-to-left sweep (each core the identity on its pivot columns, right index sets nested as rsetsOf of the maxvol pivots, first "
         "core = function values) the result equals the sampled function on EVERY first-mode fibre through the returned right index sets "
         "(tail_on_rsets: the product of cores j..N-1 at rsets[j-1][k] is the k-th unit vector, by induction over the chain); "
         "pivot_identity_of_solve / solve_identity_on_pivots — that identity is what the exact solve C·Q[local] = Q with invertible Q[local] "
         "delivers; the running min/argmin bookkeeping returns a value attained at the recorded position and below every evaluated value; the "
         "contraction patterns of cross.py are re-extracted from the source on every run. Correspondence: in every cross run the maxvol pivots "
         "are recorded, the compiled model computes the nested index sets from them (command cross_rsets) and they are compared EXACTLY with "
         "info['rsets'] at every level; the theorem's hypotheses are validated numerically on the returned cores (histogram "
         "theorem_hypotheses:*). The clauses themselves — fibre interpolation, evaluation only at grid points / entries of the argument "
         "tensors, recovery of representable targets over seeds, operators through cross, min/max attained — are additionally decided by "
         "running cross on small grids with seeded RNGs against dense oracles.",
    note="PARTIAL: the sweep's numerical kernels (QR, maxvol, lstsq) enter the model as recorded answers with contracts; 'recovery for every "
         "seed' depends on floating-point maxvol pivots and is not a theorem — two known findings (over-estimated bond next to an exact-rank "
         "bond) record seeds where it fails. Trusted: Lean kernel + standard axioms; torch.linalg.qr/lstsq, maxvol (C17); harness glue; "
         "sampling of seeds.",
    tech="Lean 4 proof of the interpolation theorem and bookkeeping lemmas + checked correspondence of the index-set bookkeeping + source-derived obligations + seeded dense-oracle search",
    ref="§3 C08"),
 "C14": dict(
    text="Lean 4 theorems about a heap machine (storages, objects reaching storages, effect summaries): a Safe operation (it writes in "
         "place only storages that no live object other than its receiver reaches; returned objects are fresh) leaves the value of every "
         "other live object unchanged, and by induction so does every finite history of Safe operations; an unsafe effect does change "
         "another object (witness = the repaired sobol defect). The effect summary of every API call in generated histories is measured "
         "on the implementation (untyped_storage pointers + byte hashes of all storages reachable from all live tensors and argument "
         "arrays) and checked against Safe; independently every live tensor's dense value, format and ranks and every argument array "
         "are compared bit-for-bit before/after each call.",
    note="Trusted: Lean kernel + standard axioms; CPython/PyTorch object semantics as observed (data_ptr, byte hashes; `_version` is not "
         "used because `.data *=` does not bump it); harness glue; sampling of histories. Receivers left invalid by an in-place method "
         "are dropped from the pool (not C14's concern). tn.Tensor(t.cores) list sharing is outside the property's derivations.",
    tech="Lean 4 proof (frame rule + induction over histories) + measured effect summaries checked against the model's Safe predicate",
    ref="§3 C14"),
 "C18": dict(
    text='Lean 4: (1) an einsum semantics (Model/Einsum: parse, eval by sums over the contracted letters) with the theorem '
         'einsum_batch_lift — for EVERY spec, fresh batch letter, sizes and operands, slot b of the batched contraction equals '
         'the plain contraction of the b-th slices (no mixing between batch elements) — plus invariance under renaming of '
         'letters; (2) the source tie: extract.py re-derives on every run, from the `if …batch…: A else: B` pattern of /repo, '
         'the (batched, plain) einsum pairs of the library (37 pairs in 11 functions); batched_einsums_are_lifts (decide over '
         'the regenerated table) shows each batched string is the lift of its plain partner, hence batched_einsums_slicewise for '
         'all of them; pairs_complete / unpaired_from_source pin the table itself; (3) the refinement specification (a batch '
         'tensor is the list of its elements; elem_add/elem_mul/elem_getitem; C02/C03 theorems transfer) and the list of '
         'functions that reject batch tensors, also re-extracted; (4) FOURTH EXTENSION, the scalar clause (Model/BatchScalar: smulB, saddB, negB, '
         'ssubB, rsubB following the batch paths of __mul__/__add__/__neg__/__sub__/__rsub__): elem_smul / elem_sadd / elem_neg (element b of the '
         'result IS the ordinary operation on element b), *_length (no element dropped or added), *_dense, *_wf; battery c18_batch_scalar. Correspondence: the einsum evaluator against torch.einsum on '
         'every equation string of the source; every batch element of +, * and indexing results core-for-core against the '
         'non-batch Lean model; torch(), construction, scalar ops, rounding, orthogonalisation, batch-mode selection element by '
         'element against the ordinary operation; guarded functions must raise.',
    note='The batched branches also contain reshapes, _core_kron(…, batch), concatenations and batched QR/SVD: those are tied to '
         'the specification only by the element-wise correspondence (sampling). Trusted: Lean kernel + standard axioms; '
         'extract.py (the translator of the einsum table); harness glue; the non-batch implementation as reference for '
         'rank-limited construction and rounding.',
    tech="Lean 4 proof (einsum semantics, batch-lift theorem) + translator-derived obligations over the source's einsum strings "
         '+ element-wise differential correspondence against the non-batch model',
    ref="§3 C18"),
 "C19": dict(
    text='Lean 4 theorems over a model that follows matrix.py step by step on flat row-major arrays (every reshape(…,-1,…) as '
         "size / known dims, every einsum by decoding and re-encoding flat positions): trace_eq — the einsum('i,iaaj->j') sweep "
         'is the trace of the decompressed matrix; tt_multiply_eq / tt_multiply_dense — tt_multiply(ttm, x) = x @ ttm.torch() '
         'for a batch of vectors, any number of cores and ranks; cp_multiply_eq / _dense likewise for CP matrices; the index '
         'interleaving of the constructor is undone by torch() (split_pair, unflat_flat_roundtrip); the Kronecker routines '
         'accept exactly all-ranks-1, square-block matrices; for N blocks of any sizes (Mathlib ⊗ₖ, induction) the determinant '
         'loop Π det(A_k)^(rows/n_k) is the determinant of the Kronecker product (det_n_blocks, determinant_eq with kron_entry: '
         'an all-ranks-1 TT matrix decompresses to the Kronecker product of its blocks), block-wise inverse = inverse, '
         'block-wise Cholesky-type factors give L·Lᵀ = A. Correspondence: torch(), trace, tt_multiply, cp_multiply and the '
         "determinant loop of the compiled model on the implementation's own cores against the implementation (1e-9); decision "
         'logic and index maps exactly; slogdet/inv/cholesky values (batch and non-batch) by NumPy/torch.linalg oracles.',
    note='Trusted: Lean kernel + standard axioms; torch.linalg.det/inv/cholesky per block (kernels); harness glue; sampling. Not '
         'proved: the construction round trip TTMatrix(M).torch() = M (needs TT-SVD; CP needs ALS) — oracle only; '
         'lower-triangularity/uniqueness of the Kronecker Cholesky factor; slog_determinant; the batch (5-way core) trace.',
    tech="Lean 4 proof (flat-index arithmetic of the reshapes, sweep invariants; Mathlib's Kronecker determinant/inverse lemmas "
         'by induction over the block list) + differential correspondence + linalg oracles',
    ref="§3 C19"),
 "C17": dict(
    text="Lean 4 theorems (any field, any matrix sizes): one swap of the maxvol loop preserves C·A[idx] = A whenever the pivot is non-zero, "
         "keeps C[idx] = I (swap_identity) and keeps the chosen rows distinct (swap_distinct: the entering row has a non-zero coefficient where "
         "every other chosen row has 0); all three invariants hold along the whole fuel-bounded loop (loop_invariants; the guard "
         "tol<|C[i,j]| with tol≥0 gives the non-zero pivot), and when the loop stops before its cap the entry the arg-max returned is ≤ tol "
         "(loop_stops_below_tol). The model's swap loop "
         "(exact rationals) is run from the LAPACK start recorded from the implementation and must end on the same rows (near-ties of "
         "the arg-max / tolerance are detected and discarded). All postconditions of both routines (distinct rows, non-singular "
         "submatrix, C[idx]=I, |C|≤tol unless capped, rectangular bounds r≤K≤maxK, row norms ≤ tol) by a NumPy oracle over Gaussian, "
         "orthonormal, duplicated-row and tiny-row matrices."
         'EXTENSION (rectangular routine): Model/RectMaxvol.lean follows py_rect_maxvol (all parameter clamps, chosen / '
         'row_norm_sqr bookkeeping, first-maximum argmax among unchosen rows, the rank-one update C ← [C − l·v⊗c, l·v], the '
         'final C[index] = I) from the start state py_maxvol returns; proved over any ordered field and all sizes: '
         'rect_reconstructs (C·A[index[:K]] = A along the whole loop — the Sherman–Morrison step), rect_distinct and the K '
         'bounds r ≤ K ≤ maxK (rect_loop_K_ge / _le / _exit), rect_row_norms (the maintained row_norm_sqr IS the squared row '
         'norm, so on exit below maxK every unchosen candidate row has norm ≤ tol), rect_identity_rows, not_tall_returns_all (N '
         '≤ r: all rows and the identity, both routines), rect_maxvol_spec. The compiled model (exact rationals) is compared '
         'with py_rect_maxvol by a battery (c17_rect.py; exact ties of squared norms or at the tolerance are recognised by an '
         'exact replay and discarded).',
    note='Trusted: Lean kernel + standard axioms; LAPACK getrf/trtrs (start recorded, contract C·A[idx]=A assumed); harness '
         'glue; sampling; float near-ties discarded and counted. Distinctness of the rectangular routine needs minK ≤ '
         'top_k_index after the clamps (automatic for the default top_k_index=-1); rect_exhausted_repeats proves the library '
         'returns repeated rows otherwise (py_rect_maxvol(A, 1.0, minK=3, top_k_index=2) on a 4×2 matrix) — an '
         'explicit-parameter corner outside what cross() uses, recorded in DESIGN §6.10.',
    tech="Lean 4 proof (rank-1 update identity; loop invariant by induction on fuel) + kernel-recording correspondence + NumPy oracle",
    ref="§3 C17"),
 "C04": dict(
    text="Lean 4 theorems (ordered field): (1) the full error bound of round_tt's truncation sweep for TT cores and algorithm='svd': "
         "the squared Frobenius error equals the sum of the discarded tails of all steps (successive truncation errors are orthogonal: "
         "roundTT_error_eq, by induction over the sweep with a per-step Pythagoras lemma) and is ≤ eps²·‖T‖² when rmax does not bind "
         "(roundTT_within_eps), with ‖T‖ = ‖last core‖ (norm_on_last_core), given the SVD kernel's contract for every answer; end to end "
         "(roundTT_end_to_end): the left-orthonormal state the sweep starts from is DERIVED from the QR contracts of the orthogonalisation "
         "sweep (Lemmas/OrthSweep: tensor unchanged, every core but the last left-orthonormal); with column-orthonormal Tucker factors the "
         "bound holds for the full tensor (roundTT_with_factors, via the Tucker-operator isometry wprod_gram); "
         "(2) the rank chosen by truncated_svd is the least rank whose discarded tail is within δ², ≥ 1, ≤ rmax, ≤ number of singular "
         "values; the budget split of round() composes to eps; thresholds re-extracted from the source. Tie: the executable model (Model/OrthSweep.leftSweep then Model/RoundTT.sweepRev) is run in the driver on the ORIGINAL cores with "
         "the QR and SVD answers recorded from torch.linalg.qr/svd in-process and compared core-for-core with Tensor.round_tt; the theorem's hypotheses (left-orthonormal "
         "state, kernel contract) and its conclusion (error² = Σ tails) are validated on every such run; every rank chosen inside "
         "round_tt/round_tucker/round is compared with rankSelect. The bound for the other formats, round_tucker, round, "
         "algorithm='eig' and conditioning up to 1e6 is decided by a dense oracle search."
         "EXTENSION (round_tucker, round): Model/RoundTucker.lean follows the loop of round_tucker (QR of the core's mode "
         'unfolding, R into the factor, truncated SVD of the factor, remainder into the core, right_orthogonalize) with the four '
         'kernel answers of every iteration as inputs with contracts; roundTucker_error_eq — the squared error of the sweep is '
         'EXACTLY the sum of the N discarded tails (Pythagoras, also when rmax caps a rank); roundTucker_within_eps (≤ eps²‖T‖² '
         "with the code's eps/sqrt(N) split when no cap binds); roundTucker_rank (new Tucker ranks ≤ old and ≤ rmax); "
         'roundTucker_end_to_end (gauge derived from the QR contracts of orthogonalize(-1) for TT inputs); round_within_eps for '
         'the combined round() (square-root-free triangle inequality). The loop is replayed by the compiled model with the '
         'recorded kernel answers and compared core-for-core with Tensor.round_tucker (battery c04_round_tucker.py); the defect '
         'it exposed (dim= subsets truncated every mode) was repaired in /repo.',
    note="PARTIAL: the error theorems cover algorithm='svd' without the absolute-zero special case; algorithm='eig', batch "
         'tensors and dim= subsets of round_tucker are not modelled (oracle only); for inputs that already carry Tucker factors '
         'the gauge after orthogonalize(-1) is a hypothesis of the round_tucker theorems (validated numerically on every '
         'replay). Known findings: tiny norms below the 1e-13 threshold; eig with a rank cap on a rank-deficient unfolding. '
         'Trusted: Lean kernel + standard axioms; SVD/QR/eigh kernels (answers recorded; contracts validated numerically on '
         'every recorded call); harness glue; NumPy dense oracle; sampling.',
    tech="Lean 4 proof of the round_tt error bound (Pythagoras over the sweep) and of the rank decision logic + kernel-recording "
         "core-level correspondence + dense error-bound oracle",
    ref="§3 C04"),
 "C05": dict(
    text="Lean 4 theorems given the SVD kernel contract (M=U·diag S·Vh, UᵀU=I, VhVhᵀ=I): the right factor truncated_svd computes is "
         "diag(S_r)·Vh_r, so left·right is the rank-r truncation (truncation_right_factor); its squared Frobenius error is EXACTLY the "
         "discarded tail Σ_{l≥r} S_l² (truncation_error, via frob_orth) and therefore ≤ δ² at the selected rank "
         "(truncated_svd_within_budget); the rank is the smallest meeting the budget and never exceeds the request; zero tail ⇒ exact "
         "reproduction at budget 0. Tie: rankSelect is compared with the implementation on recorded singular values; the kernel "
         "contract, left@right = U_r S_r Vh_r and ‖M−left@right‖² = tail are validated on every recorded call; exact ties (integer "
         "spectra, budget = a tail) decide ≤ vs <. Error vs sum/max of tails for Tensor(x, ranks_tt/ranks_tucker), orthonormality, "
         "optimality of the product, CP-ALS by a NumPy SVD oracle."
         'EXTENSION (whole constructor paths): tn.Tensor(x, ranks_tt=r) is _full_rank_tt followed by round_tt(rmax=r), '
         'ranks_tucker through round_tucker, eps through round; composing C01.roundtrip with the C04 sweep theorems gives '
         'fixed_rank_tt_error_eq / fixed_rank_tucker_error_eq (every rank ≤ the request and ‖x − result‖² = the sum over the '
         "sweep's steps of the discarded tails, exactly, also when the cap binds), fixed_rank_exact, and — with Mathlib's matrix "
         'rank (rank_mul_le, rank_diagonal) — fixed_rank_exact_of_unfolding_ranks: if every unfolding of x has rank ≤ the '
         "requested rank at that bond, every discarded tail vanishes and x is reproduced (within round_tt's own 1e-14 tolerance: "
         'fixed_rank_within_eps_of_unfolding_ranks); construct_eps_within for Tensor(x, eps=e). The three paths are replayed by '
         'chaining the existing driver commands with the recorded kernel answers and compared with the library (battery '
         'c05_fixed_rank.py).',
    note="PARTIAL: the two-sided TT/Tucker bound in terms of the ORIGINAL unfoldings (needs Eckart–Young and σ-monotonicity, absent "
         "from Mathlib) and CP-ALS monotonicity are open statements. Trusted: Lean kernel + standard axioms; torch.linalg.svd/eigh/lstsq "
         "(recorded, contract validated numerically); harness glue; sampling. Known findings: eig path on rank-deficient/small-norm "
         "input, tiny-norm threshold.",
    tech="Lean 4 proof modulo the SVD kernel contract + kernel-recording correspondence + NumPy SVD oracle",
    ref="§3 C05"),
 "C13": dict(
    text="Lean 4 theorems (any ring, any ranks/sizes): L4 bond change — a matrix on a bond may be multiplied into either neighbour — "
         "so with the kernel contract Q·R = A the factor step, left_orthogonalize and right_orthogonalize leave every tail of the chain, "
         "hence the tensor, unchanged; the new core's unfolding IS the kernel's Q (orthonormal by the contract QᵀQ = I); lifting to any "
         "position mu; at sweep level (any number of modes): orthogonalize(N-1) leaves the dense array unchanged (orthogonalize_dense), "
         "leaves every core but the last left-orthonormal with chained ranks (orthogonalize_gauge), keeps shape and boundary ranks, and "
         "the norm is then carried by the last core (norm_carried_by_last). FOURTH EXTENSION: the GENERAL orthogonalize(mu) on tensors with "
         "Tucker factors on any subset of modes (Model/OrthFull: _cp_to_tt, factor_orthogonalize + left QR for i < mu, the same from the end for "
         "i > mu): orthogonalize_mu_dense (tensor unchanged), orthogonalize_mu_gauge (left / right orthonormal unfoldings on either side of mu), "
         "orthogonalize_mu_factors (the Tucker factor of EVERY other mode has orthonormal columns), orthogonalize_mu_shape; battery c13_orth_full "
         "replays every recorded QR answer through the compiled model and compares cores and factors entry by entry. The model is fed with the QR answers recorded in-process from torch.linalg.qr and reproduces the implementation's "
         "cores; the contracts are validated numerically on every recorded call; gauge, invariance, norm identity and histories of "
         "orthogonalisations are checked by Gram-matrix / dense oracles.",
    note="Trusted: Lean kernel + standard axioms; torch.linalg.qr (contract Q·R=A, QᵀQ=I assumed, validated per run); harness glue; "
         "sampling. Not yet proved: the norm clause for general mu (orthogonalize_mu_norm, kept as a NOT YET PROVED block; proved for mu = N-1 "
         "as norm_carried_by_last) — checked by the oracle; histories of orthogonalisations about different cores are compositions of the proved "
         "routine checked by the oracle.",
    tech="Lean 4 proof modulo the QR kernel contract (L4) + kernel-recording correspondence + Gram/dense oracles",
    ref="§3 C13"),
 "C07": dict(
    text="Lean 4: Dual R (value, tangent) is a commutative ring, so C02.expr_dense (any expression tree), C03.getitem_tensor and "
         "C06.dot_eq hold verbatim over dual numbers — the compressed and the dense computation agree in the tangent for every "
         "assignment of tangents to the core/factor entries, i.e. in every gradient; `.data *=` is modelled as dataScale and proved NOT "
         "to be multiplication by a constant (the repaired defect). Tie to /repo: the same programs run through the model over dual "
         "rationals and through autograd; directional derivatives of the result cores agree; plus autograd(compressed) vs "
         "autograd(dense) for every parameter and every scalar head (sum/mean/dot/norm/var/dist/README loss), and no silent detachment."
         'EXTENSION: means and variances transfer to dual numbers although Dual K is not a field: the C06 statistics theorems '
         'are re-proved from three laws of division by natural numbers that hold for every field AND for Dual K with the '
         "driver's quotient-rule instance (mean_tangent, mean_subset_tangent, var_tangent with the explicit tangent (1/N)·Σ "
         '2(v_i − mean v)(d_i − mean d), weighted versions); norm / dist / std as a smooth head applied to proved radicands '
         "(norm_tangent, dist_tangent, std_tangent, for any head f with derivative f'); the README loss norm(t[:3,...] − "
         't[-3:,...]) as one theorem (readme_loss_tangent, any number of modes, sizes ≥ 3). The tangents the compiled model '
         "propagates through mean / meankeep / var are compared with torch.autograd's directional derivatives through tn.mean / "
         'tn.var (battery c07_tangent.py).',
    note="Trusted: Lean kernel + standard axioms; PyTorch's autograd engine (modelled as dual arithmetic, validated per run); harness "
         "glue; sampling. sqrt heads are covered by smooth_head (equal duals in, equal duals out); mean/var are covered through sum/dot.",
    tech="Lean 4 proof (instantiation of the ring-generic theorems at the dual numbers) + differential correspondence against autograd",
    ref="§3 C07"),
 "C09": dict(
    text="Lean 4 theorems: numerator and denominator of sobol() are the mask-weighted and the total sum of a(j)·am(j) over the extended "
         "index box (C06.dot_eq + C02.mul_dense), additivity over masks, the all-ones mask gives index 1, the ANOVA operator only sees "
         "w/Σw (scale invariance of marginals); the entries of the extended tensor are the ANOVA terms (C10.anova_dense); Parseval for "
         "the ANOVA transform (anova_parseval, by induction over the modes from the one-mode identity Aᵀ·diag(1,w)·A = diag(w)): the "
         "extW-weighted squares of the extended array sum to E[f²] (second_moment) and its all-zero entry is E[f] (anova_mean), so the "
         "denominator (empty term removed) IS the variance and the numerator a sum of variance components. "
         "anova_decomposition/undo, dot and mul are tied to /repo core-for-core (C10, C06, C02 correspondences); the Sobol values, "
         "[0,1] range, total ≥ component, dimension distribution, mean dimension and the caller's marginals being untouched are checked "
         "against a brute-force inclusion–exclusion ANOVA in NumPy."
         'EXTENSION: the WHOLE routines are now modelled line by line (Model/Sobol.lean: anova_decomposition with None '
         'marginals, the empty-term subtraction through getitem, the three branches of the marginal weighting, tn.mask as a '
         'clamped gather, closed and open-bond (one-hot) branches of the final dot/division; mean_dimension, '
         'dimension_distribution on the weight automata of C16) and proved: sobol_eq / sobol_eq_subsets (the result IS Σ_u '
         'mask(u)·varcomp(u) / Σ_u varcomp(u)), total_variance, varcomp_eq_term_variance; over an ordered field varcomp ≥ 0, '
         'sobol_mem_unit (0/1 and [0,1]-valued masks give indices in [0,1]), sobol_mono (pointwise larger mask, larger index: '
         'total ≥ closed ≥ variance component), dimension_distribution_sum (sums to 1), mean_dimension_eq_sum (= Σ_k k·dist(k)), '
         'FOURTH EXTENSION: the mask branch of dimension_distribution (Model/DimDistMask): dimension_distribution_mask_eq (entry k = Σ_{|u|=k} M(u)·D_u / '
         'Σ_u M(u)·D_u, both under the same marginals), …_mask_eq_zero_one, …_mask_sum (sums to 1 when the denominator is non-zero); battery c09_dimdist_mask; '
         'mean_dimension_ge_one. The three routines are compared with /repo and with a dense oracle by a correspondence battery '
         '(c09_sobol.py); N-th roots / reciprocals are kernel answers with algebraic contracts.',
    note='Trusted: Lean kernel + standard axioms; harness glue; NumPy brute-force oracle; sampling. Not modelled: the mask= '
         'variants of mean_dimension / dimension_distribution, the batch guard. Zero total variance gives 0/0 = nan in the code '
         'and 0 in the field model (excluded by hypothesis, skipped by the battery).',
    tech="Lean 4 proof (composition of C06/C02/C10 theorems) + differential correspondence of the building blocks + brute-force oracle",
    ref="§3 C09"),
 "C10": dict(
    text="Lean 4 theorems: anova_decomposition applies to every mode the operator A=[wᵀ; I−1wᵀ] (anova_dense, any modes/ranks/formats); "
         "row 0 integrates against the marginal, row i+1 evaluates and subtracts the integral (anovaL_row); B·A=I (undo is the inverse, "
         "no condition on weights), lifted to tensors: undo_anova_decomposition(anova_decomposition(t)) = t (undo_anova_dense); rows 1..I have zero weighted mean when Σw=1 (centred terms); normalised weights sum to 1 and are "
         "scale-invariant. anova_decomposition and undo are tied to /repo core-for-core; all term-level claims (each term equals the "
         "brute-force term, depends only on its variables, orthogonality, variance additivity, truncate_anova) by a NumPy oracle."
         "EXTENSION: truncate_anova is modelled as a whole (anova → tn.mask with the extended tensor's idxs → undo → the "
         'keepdim=False squeeze through accepted_inputs) and proved: truncate_anova_dense (the result at x is Σ_S '
         "mask[S]·f_S(x)), with f_S given both as the extended array's entry and as the independent inclusion–exclusion formula "
         'Σ_{T⊆S} (−1)^{|S|−|T|} E[f | x_T] (anova_term_bruteforce); anova_term_depends_only, anova_term_centered, '
         'anova_empty_term, anova_terms_sum, anova_terms_orthogonal (distinct terms are orthogonal under the product measure), '
         'truncate_all, truncate_keeps_selected, and the keepdim=False theorems (the dropped modes are exactly those no selected '
         'subset contains and the result is constant along them). Compared with /repo by a correspondence battery '
         '(c10_truncate.py).',
    note='Trusted: Lean kernel + standard axioms; harness glue; NumPy brute-force oracle; sampling. Hypotheses of the truncate '
         'theorems: the mask has as many modes as the tensor; in the keepdim=False path its entries are natural numbers (the '
         'model of accepted_inputs); marginals have non-zero sums.',
    tech="Lean 4 proof (L1 with the ANOVA operator; matrix identities over a field) + differential correspondence + brute-force oracle",
    ref="§3 C10"),
 "C15": dict(
    text="Lean 4 theorem truth_table: every formula tree over ~ & | ^ (any depth, any number of variables) decompresses to exactly its "
         "0/1 truth table — the operator overloads are arithmetic expressions (C02.expr_dense) that coincide with the connectives on "
         "0/1 values; the symbol tensors are proved to be the coordinate projections; thresholds of the predicates are extracted from "
         "logic.py on every run and a count is ≤ thr<1 iff it is 0. Formula trees are tied to /repo core-for-core through the C02 model; "
         "all 276 Boolean functions of ≤3 variables, helpers, predicates, relevant/irrelevant symbols, only() by exhaustive truth tables."
         'EXTENSION: the helpers true/false/all/none/any/one/presence/absence are modelled exactly as logic.py builds them and '
         'proved for every N and every `which` (negative positions of presence/absence wrap, out-of-range raises; all/none/any '
         "ignore entries outside range(N); one(N, which) has the CODED meaning 'exactly one of all N variables is true and it is "
         "listed'); sum_counts_models (the sum of a formula tensor is its number of satisfying assignments, also through "
         'tn.sum); the predicates is_tautology / is_contradiction / is_satisfiable / implies / equiv modelled with the threshold '
         'as a parameter and proved equivalent to the truth-table statements under the exact numeric conditions thr·thr < 1 '
         '(norm tests) and 0 < thr ≤ 1 (sum test); relevant_symbols / irrelevant_symbols / only: relevant_iff (a variable is '
         'reported iff two assignments differing only in it get different values), only_dense. All of them are compared with '
         '/repo by a correspondence battery (c15_logic.py; the recorded round-off defect of relevant_symbols on formulas with ^ '
         'is recognised — model = truth table ≠ library — and counted, not reported).',
    note='Trusted: Lean kernel + standard axioms; harness glue; sampling for ≥4 variables. sqrt(2^(1/N)) of `^` enters as kernel '
         'answer rho with rho^N = 2. The theorems are exact-arithmetic: float noise of un-rounded formulas against the absolute '
         'thresholds 1e-10 / 1e-6 is outside them (known findings for relevant_symbols with ^; is_tautology misclassifies from '
         'about N = 12 variables in float64, observed by the sub-agent and outside the sizes the check generates); intermediate '
         'round() is C04.',
    tech="Lean 4 proof (structural induction over formula trees via C02.expr_dense) + differential correspondence + exhaustive truth tables",
    ref="§3 C15"),
 "C16": dict(
    text='Lean 4 theorems by induction on the chain of cores, for every N, every per-position alphabet and every weight list: '
         'weight_mask is 1 exactly on strings whose symbols sum to a requested weight (0 elsewhere), weight returns the sum, the '
         'open trailing bond of weight_one_hot is the one-hot vector of the sum (overflow dropped). accepted_inputs is modelled '
         'twice — at list level and at array level (the exact sequence of writes Xs[bound+c[i] : bound+c[i+1], mu] = i with the '
         "code's cumulative counts) — and proved: for every tensor of any format whose entries are natural numbers, the output "
         'IS the lexicographic enumeration of the index box with each index repeated as often as its value '
         '(accepted_inputs_spec_any, accepted_inputs_arr_spec; corollaries: membership, multiplicity, sortedness, row count = '
         'round(tn.sum)); the array-level model refines the list-level one whenever no call overflows its reserved rows. All '
         'automata and both accepted_inputs models are tied to /repo exactly (cores, rows).',
    note='Trusted: Lean kernel + standard axioms; harness glue; sampling. The rounding inside accepted_inputs is a parameter '
         'toNat with toNat(n) = n; float noise (tensors after orthogonalisation/rounding) and negative or non-integer entries '
         'are outside the theorem (the agent-found behaviours on such inputs are recorded in DESIGN §6.9).',
    tech="Lean 4 proof (induction over the automaton's cores; prefix-count lemma left·fiber = Σ over completions) + exact "
         'differential correspondence + enumeration oracle',
    ref="§3 C16"),
 "C20": dict(
    text='Lean 4 theorems: tn.partial along mode d is the stencil matrix applied to mode d only (L1, any number of '
         'modes/ranks/formats); the stencil as the code computes it step by step (pad, extrapolate, difference; index-list rolls '
         "for periodic) equals the model's matrix for every n ≥ 1 (stencilStepsNP_eq, stencilStepsPer_eq, size-1 mode included "
         'after a model repair); rows: interior (x[i+1]−x[i−1])/step, linearly extrapolated ends, periodic wrap; any order = the '
         'dense operator iterated (partialN_dense; order 2 is the wide stencil); linear (add, scalar multiples), annihilates '
         'constants, maps affine fibres to constants (partial1_affine_const); a list of modes = composition of commuting '
         "single-mode operators (partialList_dense, partialList_perm_dense); Python's sum (0 + p0 + …), gradient, divergence, "
         'curl, laplacian = the corresponding combinations, asserts modelled as Option (laplacian_dense, divergence_dense, '
         'curl_dense); partialset = stacked forward differences × weight mask × optional user mask (partialset_dense, '
         'maskWith_dense, raising sizes: stackDiffs_raise). All of these models are tied to /repo core-for-core and by error '
         "class; the step convention (step of mode d from mode d's own bounds and size) additionally by a dense NumPy stencil "
         'oracle.',
    note='Trusted: Lean kernel + standard axioms; harness glue; NumPy stencil as oracle; sampling. c = 1/step enters the model '
         'as a scalar (exact rational in the correspondence: the computation of c from bounds is harness-side and checked by the '
         'oracle). active_subspace and dgsm are not modelled.',
    tech='Lean 4 proof (L1 with a single-mode matrix; stencil row lemmas; commuting operators; weight-mask automaton of C16) + '
         'differential correspondence + dense oracle search',
    ref="§3 C20"),
 "C06": dict(
    text='Lean 4 theorems: the interface sweep of tn.dot returns Σ t·u (any modes/ranks/formats), normsq, symmetry, the dist '
         'identity ‖t‖²+‖u‖²−2⟨t,u⟩ = Σ(t−u)² (so the clamped radicand is the squared distance also for negative inner '
         "products), metric laws of dist over ordered rings and over ℝ with the code's sqrt∘clamp (symmetric, ≥ 0, zero iff the "
         "arrays agree on the box); sums over modes as ones-matrices applied per mode (L1), 'summing removes exactly the summed "
         "modes' with the squeeze traced through the C03 getitem model (sum_removes_modes, getitem_squeeze); mean "
         '(normalised-vector path and marginals path, all modes / subset / keepdim), var (both paths) equal the dense '
         'definitions over any field, with the ZeroDivisionError of an empty mode modelled (mean_dense, mean_marginals_dense, '
         'var_dense, var_marginals_dense, mean_raises). Models of dot, sum, mean, weighted mean, var tied to /repo by exact '
         'comparison (cores, scalars, error class); partial dot, std, moments, rmse/r² by a dense oracle search.',
    note='Trusted: Lean kernel + standard axioms; harness glue; NumPy oracle; sampling. Outside the theorems: square roots and '
         'clamps of std/norm (sqrt of proved quantities), float cancellation in the dist radicand, raw/normalised moments '
         '(rounding algorithm, oracle at 1e-4), triangle inequality (checked numerically only); marginal vectors summing to 0 '
         '(nan in the code, x/0 = 0 in Lean) are excluded by hypothesis.',
    tech='Lean 4 proof (interface-matrix invariant, five-fold sum reordering, L1, squeeze through the indexing model) + '
         'differential correspondence + dense oracle search',
    ref="§3 C06"),
 "C12": dict(
    text='Lean 4 theorems: every routine acting on the spatial index of modes is linModes with one matrix per mode (general '
         'theorem linModes_dense = tensor-times-matrix along any modes); gathers (flip, tiling, slicing) re-index the array; '
         'cumsum, zero padding (explicit: inside the box the entry, outside 0) and padding with a constant (padC_dense: pad + '
         "fill·(ones − padded ones), as the code builds it) ; tn.cat for ANY number of operands as the code's loop (embed every "
         'operand in zeros of the total size at its offset, accumulate with +): catN_dense — the entry at idx is the entry of '
         'the operand whose block contains idx[dim] at the shifted index — with the guards of cat modelled as Except and proved '
         'equivalent to the hypotheses (cat_ok / cat_ok_inv / cat_shape_error / cat_dim_error); eye(n,m) is the identity; '
         'full/ones/zeros constant; transposition reverses the index. Models of flip/cumsum/pad/ttm/cat/pad-with-constant tied '
         'to /repo core-for-core (and error class for cat); repeat, meshgrid, mask, reduce and the creation routines by a dense '
         'oracle search.',
    note='Trusted: Lean kernel + standard axioms; harness glue; NumPy/PyTorch as oracle; sampling. '
         'reduce/mask/meshgrid/arange/linspace/logspace/gaussian/rand have no Lean model of their own here (tn.mask is modelled '
         "in C20's partialset: maskWith_dense).",
    tech='Lean 4 proof (L1 at code level: applyMaps, selection lemma; induction over the operand list of cat) + differential '
         'correspondence + dense oracle search',
    ref="§3 C12"),
 "C11": dict(
    text="Lean 4 theorems about the model of _setitem (this − restriction + embedded value): selected entries take the value, all others "
         "are unchanged, for scalar and tensor values, every number of modes/sizes/ranks/formats and every selection start+i·step; "
         "histories of assignments by induction; and for the WHOLE routine Tensor.setitem (key processing, shape check, absorption of Tucker "
         "factors, the empty-selection shortcut): setitem_scalar, setitem_tensor (compressed value, any formats), setitem_dense (dense value "
         "through _full_rank_tt, C01.roundtrip) — the routine succeeds and selected entries take the value while all others keep theirs. Model (incl. key normalisation, value conversion, singleton modes at integer positions, "
         "empty selections, shape errors) tied to /repo by bit-exact comparison of all cores after every step of generated histories."
         "EXTENSION: setitem_tensor_ints — compressed values under ANY accepted key, integers included (the value's singleton "
         'modes are re-inserted as the code does, proved equal to tn.unsqueeze); setitem_sels_length (the former hypothesis is '
         "now a theorem); setitem_tensor_error_iff / setitem_dense_error_iff — the assignment raises iff the value's shape "
         'differs from the selected shape (no broadcasting), and then returns no new tensor.',
    note='Trusted: Lean kernel + standard axioms; harness/driver glue; NumPy assignment as oracle; sampling correspondence. The '
         'composed model is compared with the code on every run, including a malformed-key stream that must raise and leave t '
         'unchanged, and by the battery c03_sqops.py for values under keys with integers.',
    tech="Lean 4 proof (restriction/embedding lemmas + C02 add/sub theorems; induction over the history) + differential correspondence",
    ref="§3 C11"),
 "C03": dict(
    text="Lean 4 theorem (goKey_spec, by induction on the key) about an output-faithful model of _process_key/__getitem__: for every "
         "key in the grammar (ints incl. negative, positive-step slices clipped as Python does, None, Ellipsis, one contiguous run of "
         "index arrays) the result read at an output index equals the original tensor read at the source index (natural indexing), "
         "scalar exit included; second run / out-of-range / bad step are rejected. Model tied to /repo by bit-exact comparison of the "
         "emitted cores and factors and of the accepted/rejected key sets."
         'EXTENSION: getitem_spec — for EVERY key of the grammar, whenever t[key] returns, the result has the NumPy output '
         'shape, is a scalar iff that shape is empty, is otherwise well formed, and reads the source-index values (no side '
         'hypotheses left); getitem_ok_iff characterises acceptance (at most one run of equal-length index arrays); squeeze / '
         "unsqueeze / unbind are modelled with the code's own key construction (dim=None, int, list, negative, duplicates, the "
         'assert) and proved: squeeze_dense, squeeze_none_dense, unsqueeze_dense, unbind_dense and their error theorems. The '
         'three routines and assignment of compressed values under keys with integers are compared with /repo by a '
         'correspondence battery (harness/batteries/c03_sqops.py).',
    note='Trusted: Lean kernel + standard axioms; harness/driver glue; NumPy as oracle for natural indexing (two-step '
         'evaluation); sampling correspondence. The unbind corner −2N ≤ dim < −N is modelled and compared but has no theorem; '
         'dim is modelled as a list (a tuple dim makes squeeze raise in the code).',
    tech="Lean 4 proof (state-machine invariant: pending integer factor × processed suffix = chain read through the key) + differential correspondence",
    ref="§3 C03"),
 "C01": dict(
    text="Lean 4 theorems: _full_rank_tt's chain decompresses to the array it was built from (any number of modes, any sizes incl. 1; "
         "mixed-radix loop invariant), decompress_tucker_factors (all / any subset), tt() (whole-tensor CP→TT), clone and transpose (chain "
         "reversal lemma) never change the represented array; shape/ranks accessors are functions of the same dims the semantics uses. "
         "Model tied to /repo by bit-exact comparison of the produced cores; orthogonalize/round at default eps checked at dense level.",
    note="Trusted: Lean kernel + standard axioms; harness/driver glue; sampling correspondence. Outside: IEEE rounding; the "
         "orthogonalisation and rounding clauses are carried by C13/C04 theorems, here only observed (dense comparison).",
    tech="Lean 4 proof (loop invariant over flat indices; boundary-replacement and reversal lemmas) + differential correspondence at core level",
    ref="§3 C01"),
 "C02": dict(
    text="Lean 4 theorems over a branch-faithful model of __add__/__mul__/scalar ops/_broadcast/repeat: the result decompresses to the "
         "element-wise result for every number of modes, size, rank, format mix and commutative ring; any expression tree by induction. "
         "The model is tied to /repo by a bit-exact (integer stream) / 1e-9 (float stream) comparison of every produced core and factor.",
    note="Trusted: Lean kernel + {propext, Classical.choice, Quot.sound}; harness/driver glue; correspondence is sampling. "
         "Outside the theorems: IEEE rounding (checked by tolerance only); rho=|c|^(1/N) enters as a kernel answer with contract sgn*rho^N=c, "
         "discharged over the reals (rootok_real). expr_dense is stated for one common shape; broadcasting is proved per operator (add_broadcast, mul_broadcast).",
    tech="Lean 4 proof (induction over the mode chain: block-diagonal / Kronecker lemmas) + differential correspondence model↔code at core level",
    ref="§3 C02"),
}
ALL = ["C%02d" % i for i in range(1, 21)]
man = {
 "version": 1,
 "setup_cmd": "/venv/bin/python harness/extract.py; cd lean && lake build",
 "hooks": {"guard": "TNTORCH_VERIF", "enable": "no source hooks are needed: all observation is by in-process wrapping from the harness (TNTORCH_VERIF=1 is exported by ./check but read by nothing in /repo)",
           "baseline_off_cmd": "cd /repo && /venv/bin/python -m pytest -ra -q -p no:cacheprovider --timeout=900 --continue-on-collection-errors",
           "source_commits": [], "add_only": True},
 "engines": [{"name": "lean-model", "path": "lean/", "serves_properties": sorted(CHECKS), "kind_free_text": "Lean 4 model + theorems (lake project TnVerif) and compiled line-protocol driver"},
             {"name": "harness", "path": "harness/", "serves_properties": sorted(CHECKS), "kind_free_text": "Python correspondence/search harness running the real tntorch in-process"}],
 "checks": [], "not_applicable": [],
 "notes": "See DESIGN.md. ./check <id> quick|thorough; ./check <id> --replay <file>. known_findings.json lists fixed/known defects.",
}
for p in ALL:
    if p in CHECKS:
        c = CHECKS[p]
        man["checks"].append({"property_id": p, "quick_cmd": "./check %s quick" % p, "thorough_cmd": "./check %s thorough" % p,
                              "evidence_file": "evidence/%s.json" % p, "replay_cmd_template": "./check %s --replay {path}" % p,
                              "engine": "lean-model", "level_claimed": {"category": PROOF, "text": c["text"], "design_ref": c["ref"]},
                              "level_note": c["note"], "technique": c["tech"]})
    else:
        man["not_applicable"].append({"property_id": p, "reason": "check not built yet in this session (planned: Lean model + theorems + correspondence, DESIGN.md §3)"})
json.dump(man, open(os.path.join(VERIF, "MANIFEST.json"), "w"), indent=1)
print("checks:", [c["property_id"] for c in man["checks"]])
