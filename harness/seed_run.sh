#!/bin/bash
# dev tool (not a registered check): run registered checks against a confirmed seeded change.
#   seed_run.sh C13 [tier] [check ids...]   -> applies /verif/seeded/C13/patch.diff to /repo, runs the checks, ALWAYS undoes the change
set -u
id=$1; tier=${2:-quick}; shift; shift || true
checks=${@:-$id}
patch=/verif/seeded/$id/patch.diff
# a change seeded on an earlier tree whose lines a later repo fix rewrote carries a rebased copy
[ -f /verif/seeded/$id/patch_rebased.diff ] && patch=/verif/seeded/$id/patch_rebased.diff
[ -f $patch ] || { echo "no $patch"; exit 2; }
# SEED_REPO=<scratch worktree of /repo> evaluates the change there (VERIF_REPO points the harness at it) instead of in /repo itself
R=${SEED_REPO:-/repo}
[ "$R" != "/repo" ] && export VERIF_REPO=$R
[ -z "$(git -C $R status --porcelain)" ] || { echo "$R not clean"; exit 2; }
git -C $R apply $patch || exit 2
trap "git -C $R checkout -- . " EXIT
cd /verif
for c in $checks; do
  ./check $c $tier > /tmp/seedrun-$id-$c.out 2>&1; rc=$?
  echo "seed=$id check=$c tier=$tier rc=$rc :: $(grep -c '^VIOLATION' /tmp/seedrun-$id-$c.out) VIOLATION lines :: $(grep '^VIOLATION' /tmp/seedrun-$id-$c.out | head -2 | tr '\n' ' ') :: $(tail -1 /tmp/seedrun-$id-$c.out)"
done
