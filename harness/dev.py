"""developer tool: run a property's cases in-process and print grouped failures"""
import sys, os, random, importlib, collections, json
sys.path.insert(0, os.path.dirname(os.path.abspath(__file__)))
import core
prop, tier = sys.argv[1], sys.argv[2]
seed = int(os.environ.get("VERIF_SEED", "0"))
mod = importlib.import_module("props." + prop.lower())
rng = random.Random((seed, prop, tier).__repr__())
ctx = core.Ctx(prop, tier, seed); ctx.use_model = os.path.exists(core.DRIVER) and "--nomodel" not in sys.argv; ctx.search_only = False
ctx.oracle_fail = []; 
class L(list):
    def __len__(self): return 0
ctx.oracle_fail = L(); ctx.corr_fail = L(); ctx.spec_fail = L()
for case in mod.cases(rng, tier):
    try: mod.run_case(ctx, case)
    except Exception as e:
        import traceback; print("HARNESS EXC", traceback.format_exc()[-800:]); 
import re
def norm(s): return re.sub(r"[-+]?\d+\.?\d*(e[-+]?\d+)?", "#", s)[:160]
for name in ("oracle_fail", "corr_fail", "spec_fail"):
    g = collections.Counter(norm(f["what"]) for f in list.__iter__(getattr(ctx, name)))
    print("==", name, sum(g.values()))
    for k, v in g.most_common(40): print("  %4d  %s" % (v, k))
print(ctx.evaluations, "cases", ctx.known_hits and {k: v[1] for k, v in ctx.known_hits.items()})
if "--dump" in sys.argv:
    json.dump([f for f in list.__iter__(ctx.oracle_fail)] + [f for f in list.__iter__(ctx.corr_fail)], open("/tmp/dev_fail.json", "w"), default=str)
