import sys, random, subprocess, time
sys.path.insert(0, "/verif/harness")
import core
from core import *
DRV = "/root/scratch/lean_G/.lake/build/bin/driver"
p = subprocess.Popen([DRV], stdin=subprocess.PIPE, stdout=subprocess.PIPE, text=True, bufsize=1)
def ask(line):
    p.stdin.write(line + "\n"); p.stdin.flush()
    return p.stdout.readline().strip()
rng = random.Random(1)
for N, I, r in [(2,5,4),(3,5,4),(4,5,4),(3,6,10),(4,4,6)]:
    fmt = [("tt", None)]*N
    t = gen_tensor(rng, [I]*N, fmt=fmt, rmax=r, stream="float", p_rank1=0.0)
    # force ranks r
    t0 = time.time(); ans = ask("dot %s %s" % (t.ser(), t.ser())); print(N, I, t.ranks(), time.time()-t0, ans[:40])
