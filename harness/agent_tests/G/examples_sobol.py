import sys, subprocess
sys.path.insert(0, "/verif/harness")
import core
from core import *
DRV = "/root/scratch/lean_G/.lake/build/bin/driver"
p = subprocess.Popen([DRV], stdin=subprocess.PIPE, stdout=subprocess.PIPE, text=True, bufsize=1)
def ask(line):
    p.stdin.write(line + "\n"); p.stdin.flush(); return p.stdout.readline().strip()
# f(x,y) = x*(y+1) + y on the 2x2 grid (the tensor exS of Props/C09.lean), marginals [1,2] and None
c1 = torch.tensor([[[0., 1.], [1., 1.]]]); c2 = torch.tensor([[[1.], [2.]], [[0.], [1.]]])
t = tn.Tensor([c1.double(), c2.double()])
print("dense", t.torch())
margs = [torch.tensor([1., 2.], dtype=torch.float64), None]
x = tn.symbols(2)
mask = tn.Tensor([c.double() for c in x[0].cores])
pt = from_tn(t)
a0 = tn.anova_decomposition(t, margs)[(0, 0)]
print("mean a[(0,0)] =", float(a0))
# rho = |3/2|^(1/2) is irrational: give the float the code computes
rho = q(float(torch.abs(a0) ** (1 / 2)))
print("python sobol:", float(tn.sobol(t, mask, marginals=margs)), float(tn.sobol(t, mask, marginals=margs, normalize=False)))
for norm in (1, 0):
    line = "sobol %d %s 1 1 1 2 2 1 2 - %s %s" % (norm, rho, pt.ser(), from_tn(mask).ser())
    print(line); ans = ask(line); print(" ->", ans[:120], "≈", float(unq(ans.split()[2])))
print("python mean_dimension:", float(tn.mean_dimension(t, marginals=margs)))
line = "mean_dimension %s 1 2 2 1 2 - %s" % (rho, pt.ser()); print(line); ans = ask(line); print(" ->", ans[:120], "≈", float(unq(ans.split()[2])))
print("python dimension_distribution:", tn.dimension_distribution(t, marginals=margs))
D = float(tn.sobol(t, dbl := tn.Tensor([c.double() for c in tn.true(2).cores]), marginals=margs, normalize=False))
print("D =", D)
line = "dimension_distribution 2 %s 1 %s 1 2 2 1 2 - %s" % (rho, q(1.0 / D), pt.ser()); print(line); ans = ask(line); print(" ->", ans[:200]); print("   ≈", [float(unq(z)) for z in ans.split()[3:]])
oh = tn.weight_one_hot(2, 3); oh = tn.Tensor([c.double() for c in oh.cores])
print("python sobol one-hot (normalize=False):", tn.sobol(t, oh, marginals=margs, normalize=False).torch())
line = "sobol 0 %s 1 1 1 2 2 1 2 - %s %s" % (rho, pt.ser(), from_tn(oh).ser()); print(line); ans = ask(line); print(" ->", ans[:260])
