"""driver `padc` vs tn.pad(..., fill_value=c): structure-level comparison (tolerance: Python takes |c|**(1/N) in floats)."""
import sys, random, subprocess
sys.path.insert(0, "/verif/harness")
from core import *
DRV = "/root/scratch/lean_A/.lake/build/bin/driver"
p = subprocess.Popen([DRV], stdin=subprocess.PIPE, stdout=subprocess.PIPE, text=True, bufsize=1)
def ask(line):
    p.stdin.write(line + "\n"); p.stdin.flush()
    return p.stdout.readline().strip()
def close(a, b):
    if a.N != b.N: return False
    for c1, c2, u1, u2 in zip(a.cores, b.cores, a.Us, b.Us):
        if c1.shape != c2.shape or not np.allclose(np.asarray(c1, dtype=np.float64), np.asarray(c2, dtype=np.float64), atol=1e-12): return False
        if (u1 is None) != (u2 is None): return False
        if u1 is not None and (u1.shape != u2.shape or not np.allclose(np.asarray(u1, dtype=np.float64), np.asarray(u2, dtype=np.float64), atol=1e-12)): return False
    return True
rng = random.Random(int(sys.argv[1]) if len(sys.argv) > 1 else 1)
n = 0; shown = False
for it in range(200):
    N = rng.randint(1, 4)
    sh = gen_shape(rng, N)
    t = gen_tensor(rng, sh)
    dims = sorted(rng.sample(range(N), rng.randint(1, N)))
    new = [sh[d] + rng.randint(0, 3) for d in dims]
    rho = rng.choice([Fraction(1), Fraction(2), Fraction(3), Fraction(1, 2)]); sg = rng.choice([1, -1])
    c = sg * rho ** N
    sizes = [-1] * N
    for d, s in zip(dims, new): sizes[d] = s
    line = "padc %d %s %s %d %s" % (N, " ".join(map(str, sizes)), q(rho), sg, t.ser())
    ans = ask(line)
    assert ans.startswith("ok "), (line, ans)
    got, _ = parse_tensor(ans.split()[1:])
    r = tn.pad(t.to_tn(), new, dim=dims, fill_value=float(c))
    assert close(got, from_tn(r)), (line, ans)
    ref = np.pad(t.dense(), [(0, (sizes[k] - sh[k]) if sizes[k] >= 0 else 0) for k in range(N)], constant_values=float(c))
    assert np.allclose(got.dense(), ref), line
    n += 1
    if not shown and N == 2 and len(line) < 120:
        print("EXAMPLE", line, "->", ans, "| python: tn.pad(t, %s, dim=%s, fill_value=%s)" % (new, dims, c)); shown = True
print("agree:", n)
