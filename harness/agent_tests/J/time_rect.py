import sys, subprocess, time
sys.path.insert(0, "/verif/harness")
import numpy as np, core
from tntorch.maxvol import py_maxvol, py_rect_maxvol
DRIVER = "/root/scratch/lean_J/.lake/build/bin/driver"
rng = np.random.default_rng(5)
for (N, r, maxK) in [(12, 4, None), (20, 4, 8), (20, 4, None), (25, 5, 10)]:
    A = rng.standard_normal((N, r))
    tmp, C0 = py_maxvol(A.copy(), 1.05, 10, N)
    toks = ["rect_maxvol", str(N), str(r), "0", "none" if maxK is None else str(maxK), "none", "none", "1", "-1",
            str(len(tmp))] + [str(int(t)) for t in tmp] + [core.q(float(x)) for x in np.array(C0).reshape(-1)]
    t0 = time.time()
    out = subprocess.run([DRIVER], input=" ".join(toks) + "\n", capture_output=True, text=True).stdout
    print(N, r, maxK, "time %.3f" % (time.time() - t0), "answer length", len(out), out[:50])
