import sys
sys.path.insert(0, "/verif/harness")
import numpy as np, core, subprocess
from fractions import Fraction as F
from tntorch.maxvol import py_maxvol, py_rect_maxvol
DRIVER = "/root/scratch/lean_J/.lake/build/bin/driver"
def ask(line):
    return subprocess.run([DRIVER], input=line + "\n", capture_output=True, text=True).stdout.strip()
# 1. duplicates when minK > top_k_index
A = np.array([[1., 0.], [0., 1.], [.5, .5], [.25, -.5]])
idx, C = py_rect_maxvol(A.copy(), 1.0, minK=3, top_k_index=2)
print("duplicate rows:", idx, "\nC=\n", C, "\nC@A[idx]-A max", np.abs(C @ A[idx] - A).max())
tmp, C0 = py_maxvol(A.copy(), 1.05, 10, 2)
line = "rect_maxvol 4 2 1 none none 3 1 2 " + "2 " + " ".join(str(int(t)) for t in tmp) + " " + " ".join(core.q(float(x)) for x in np.array(C0).reshape(-1))
print(line); print(ask(line))
# 2. worked example
A = np.array([[2., 0.], [0., 2.], [1., 1.], [1., -1.], [0., 1.]])
tmp, C0 = py_maxvol(A.copy(), 1.05, 10, 5)
print("start", tmp, C0)
for ident in (True, False):
    idx, C = py_rect_maxvol(A.copy(), 0.5, maxK=4, identity_submatrix=ident)
    print("py_rect_maxvol(A, 0.5, maxK=4, identity_submatrix=%s)" % ident, idx, "\n", C)
    line = "rect_maxvol 5 2 1/2 4 none none %d -1 " % int(ident) + "2 " + " ".join(str(int(t)) for t in tmp) + " " + " ".join(core.q(float(x)) for x in np.array(C0).reshape(-1))
    print(line); print(ask(line))
# 3. the tie of the mismatch case, in exact arithmetic
A = np.array([[4., 0.], [0., 4.], [0., 1.], [0., 2.], [0., 2.], [-2., 1.], [2., 0.], [1., 1.], [2., -1.], [0., 0.]])
C = [[F(x) / 4 for x in row] for row in A.tolist()]
rns = [sum(x * x for x in row) for row in C]
print("rns before", [str(x) for x in rns])
i = 5; c = C[i]; v = [sum(a * b for a, b in zip(row, c)) for row in C]; lam = 1 / (1 + v[i])
rns2 = [rn - lam * x * x for rn, x in zip(rns, v)]
print("after adding row 5: exact rns of rows 3, 4, 8:", rns2[3], rns2[4], rns2[8])
Cf = A / 4; cf = Cf[5]; vf = Cf @ cf; lf = 1.0 / (1 + vf[5]); rf = (Cf ** 2).sum(1) - lf * vf * vf
print("float rns of rows 3, 4, 8: %.17g %.17g %.17g" % (rf[3], rf[4], rf[8]))
