import sys, random, subprocess
sys.path.insert(0, '/verif/harness')
from core import *
DR = '/root/scratch/lean_C/.lake/build/bin/driver'
def ask(line):
    r = subprocess.run([DR], input=line + "\n", capture_output=True, text=True, timeout=120)
    return r.stdout.strip()
rng = random.Random(11)
bad = 0; first = True
for it in range(40):
    N = rng.randint(1, 3)
    shape = [rng.randint(2, 5) for _ in range(N)]
    t = gen_tensor(rng, shape)
    T = t.to_tn()
    mo = rng.randint(1, 3)
    order = sorted(set([mo] + [rng.randint(0, mo) for _ in range(rng.randint(0, 2))]))
    bounds = [[0, rng.randint(1, 4)] for _ in range(N)]
    cs = [1 / (Fraction(b[1] - b[0]) / (s - 1)) for s, b in zip(shape, bounds)]
    um = None
    if rng.random() < 0.5:
        x = tn.symbols(N)
        um = x[rng.randrange(N)] if rng.random() < 0.5 else tn.only(x[rng.randrange(N)] | x[rng.randrange(N)])
    line = "partialset %d %s %d %s %s%s" % (len(order), " ".join(map(str, order)), N, " ".join(q(c) for c in cs),
        ("1 " + from_tn(um).ser() + " ") if um is not None else "0 ", t.ser())
    ans = ask(line)
    try:
        r = tn.partialset(T, order, um, bounds)
        exp = r.torch().numpy(); err = None
    except ValueError as e:
        err = e
    if err is not None:
        if ans != "err raise": bad += 1; print("RAISE MISMATCH", ans[:50], err)
        continue
    assert ans.startswith("ok "), (ans, shape, order)
    pt, _ = parse_tensor(ans.split()[1:], 0)
    got = pt.dense()
    if got.shape != exp.shape or abs(got - exp).max() > 1e-9: bad += 1; print("MISMATCH", line)
    if list(pt.ranks()) != list(r.ranks_tt): bad += 1; print("RANKS", pt.ranks(), r.ranks_tt)
    if first and N == 2 and um is None:
        print(line); print(ans); print("python: tn.partialset(t, %s, None, %s)" % (order, bounds)); first = False
print("bad =", bad)
