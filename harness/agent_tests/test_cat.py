"""driver `cat` / `cat2` vs tn.cat: structure-level (cores, factors) comparison on integer-valued random tensors."""
import sys, random, subprocess
sys.path.insert(0, "/verif/harness")
import core
from core import *
DRV = "/root/scratch/lean_A/.lake/build/bin/driver"
p = subprocess.Popen([DRV], stdin=subprocess.PIPE, stdout=subprocess.PIPE, text=True, bufsize=1)
def ask(line):
    p.stdin.write(line + "\n"); p.stdin.flush()
    return p.stdout.readline().strip()
def same(a, b):
    if a.N != b.N: return False
    for c1, c2, u1, u2 in zip(a.cores, b.cores, a.Us, b.Us):
        if c1.shape != c2.shape or not np.all(np.asarray(c1, dtype=np.float64) == np.asarray(c2, dtype=np.float64)): return False
        if (u1 is None) != (u2 is None): return False
        if u1 is not None and (u1.shape != u2.shape or not np.all(np.asarray(u1, dtype=np.float64) == np.asarray(u2, dtype=np.float64))): return False
    return True
rng = random.Random(int(sys.argv[1]) if len(sys.argv) > 1 else 1)
nok = nerr = 0
shown = False
for it in range(300):
    N = rng.randint(1, 4); k = rng.randint(1, 4)
    base = gen_shape(rng, N)
    d = rng.randrange(N)
    ts = []
    for j in range(k):
        sh = list(base); sh[d] = rng.randint(1, 4)
        mode = rng.random()
        if mode < 0.08 and N > 1:   # shape mismatch off dim
            e = rng.choice([x for x in range(N) if x != d]); sh[e] += 1
        elif mode < 0.14:           # wrong number of modes
            sh = sh + [2] if rng.random() < 0.5 else (sh[:-1] if N > 1 else sh + [1])
        ts.append(gen_tensor(rng, sh))
    dim = d - N if rng.random() < 0.4 else d
    if rng.random() < 0.05: dim = rng.choice([N, -N - 1, N + 2])
    line = "cat %d %d %s" % (k, dim, " ".join(t.ser() for t in ts))
    ans = ask(line)
    try:
        r = tn.cat([t.to_tn() for t in ts], dim=dim)
        py = ("ok", from_tn(r))
    except Exception as e:
        py = ("err", type(e).__name__)
    if py[0] == "ok":
        assert ans.startswith("ok "), (line, ans, py)
        got, _ = parse_tensor(ans.split()[1:])
        assert same(got, py[1]), (line, ans)
        ref = np.concatenate([t.dense() for t in ts], axis=dim) if k > 1 else ts[0].dense()
        assert np.allclose(got.dense(), ref), line
        nok += 1
        if not shown and k == 2 and N == 2 and len(line) < 200:
            print("EXAMPLE", line, "->", ans); shown = True
        if k == 2:
            a2 = ask("cat2 %d %s %s" % (d, ts[0].ser(), ts[1].ser()))
            g2, _ = parse_tensor(a2.split()[1:])
            assert same(g2, py[1]), ("cat2", line, a2)
    else:
        assert ans.startswith("err "), (line, ans, py)
        kind = ans.split()[1]
        exp = {"IndexError": ("dimRange", "modes", "empty"), "ValueError": ("shape", "modes"), "UnboundLocalError": ("empty",)}[py[1]]
        assert kind in exp, (line, ans, py)
        nerr += 1
print("agree: ok", nok, "err", nerr)
print(ask("cat 0 0"))
