import sys, random, subprocess
sys.path.insert(0, '/verif/harness')
import core
from core import *
DR = '/root/scratch/lean_C/.lake/build/bin/driver'
def ask(line):
    r = subprocess.run([DR], input=line + "\n", capture_output=True, text=True, timeout=120)
    return r.stdout.strip()
def cval(n, b):  # 1/step
    step = Fraction(b[1] - b[0]) / (n + 1) * 2
    return 1 / step
def dense_of(ans_toks, pos=0):
    pt, pos = parse_tensor(ans_toks, pos)
    return pt.dense(), pos
rng = random.Random(5)
bad = 0
first = True
for it in range(40):
    N = rng.randint(1, 3)
    shape = [rng.randint(2, 4) for _ in range(N)]
    t = gen_tensor(rng, shape)
    T = t.to_tn()
    # partial_list
    k = rng.randint(1, N)
    dims = rng.sample(range(N), k)
    order = rng.randint(1, 2)
    bounds = [[0, rng.randint(1, 5)] for _ in dims]
    per = [rng.random() < 0.4 for _ in dims]
    line = "partial_list %d %d " % (order, k) + " ".join("%d %s %d" % (d, q(cval(shape[d], b)), int(p)) for d, b, p in zip(dims, bounds, per)) + " " + t.ser()
    ans = ask(line)
    assert ans.startswith("ok "), ans
    got, _ = dense_of(ans.split()[1:])
    exp = tn.partial(T, dims, order=order, bounds=bounds, periodic=per).torch().numpy()
    if abs(got - exp).max() > 1e-9: bad += 1; print("partial_list MISMATCH", line)
    if first: print(line); print(ans); print("python: tn.partial(t, %s, order=%d, bounds=%s, periodic=%s)" % (dims, order, bounds, per)); 
    # laplacian
    bl = [[0, rng.randint(1, 5)] for _ in range(N)]
    line = "laplacian %d " % N + " ".join(q(cval(shape[d], bl[d])) for d in range(N)) + " " + t.ser()
    ans = ask(line); assert ans.startswith("ok "), ans
    got, _ = dense_of(ans.split()[1:])
    exp = tn.laplacian(T, bounds=bl).torch().numpy()
    if abs(got - exp).max() > 1e-9: bad += 1; print("laplacian MISMATCH", line)
    if first: print(line); print(ans); print("python: tn.laplacian(t, bounds=%s)" % bl)
    # structure check laplacian: ranks agree
    pt, _ = parse_tensor(ans.split()[1:], 0)
    pyr = tn.laplacian(T, bounds=bl)
    if list(pt.ranks()) != list(pyr.ranks_tt): bad += 1; print("laplacian RANKS", pt.ranks(), pyr.ranks_tt)
    # gradient
    line = "gradient %d " % N + " ".join("%d %s" % (d, q(cval(shape[d], bl[d]))) for d in range(N)) + " " + t.ser()
    ans = ask(line); toks = ans.split(); assert toks[:2] == ["ok", "L"], ans
    pos = 3
    G = tn.gradient(T, dim=list(range(N)), bounds=bl)
    for g in G:
        got, pos = dense_of(toks, pos)
        if abs(got - g.torch().numpy()).max() > 1e-9: bad += 1; print("gradient MISMATCH", line)
    if first: print(line); print(ans); print("python: tn.gradient(t, dim=%s, bounds=%s)" % (list(range(N)), bl))
    # divergence
    ts = [gen_tensor(rng, shape) for _ in range(N)]
    line = "divergence %d " % N + " ".join(q(cval(shape[d], bl[d])) for d in range(N)) + " %d " % N + " ".join(x.ser() for x in ts)
    ans = ask(line); assert ans.startswith("ok "), ans
    got, _ = dense_of(ans.split()[1:])
    exp = tn.divergence([x.to_tn() for x in ts], bounds=bl).torch().numpy()
    if abs(got - exp).max() > 1e-9: bad += 1; print("divergence MISMATCH", line)
    if first: print(line); print(ans); print("python: tn.divergence(ts, bounds=%s)" % bl)
    if N == 3:
        line = "curl 3 " + " ".join(q(cval(shape[d], bl[d])) for d in range(N)) + " 3 " + " ".join(x.ser() for x in ts)
        ans = ask(line); toks = ans.split(); assert toks[:2] == ["ok", "L"], ans
        pos = 3
        for g in tn.curl([x.to_tn() for x in ts], bounds=bl):
            got, pos = dense_of(toks, pos)
            if abs(got - g.torch().numpy()).max() > 1e-9: bad += 1; print("curl MISMATCH", line)
    first = False
# assertion failures
t = gen_tensor(rng, [3, 3]); print(ask("laplacian 1 1 " + t.ser())); print(ask("divergence 2 1 1 1 " + t.ser()))
# stencil steps on size 1, 2, 3 against python
import torch
for n in [1, 2, 3, 5]:
    for per in [0, 1]:
        x = [rng.randint(-3, 5) for _ in range(n)]
        ans = ask("stencil_steps %d 1/2 %d " % (per, n) + " ".join(map(str, x)))
        tt = tn.Tensor([torch.tensor(x, dtype=torch.float64)[None, :, None]])
        exp = tn.partial(tt, 0, bounds=[0, n + 1], periodic=bool(per)).torch().numpy()  # step = 2
        got = [float(unq(v)) for v in ans.split()[2:]]
        ok = abs(np.array(got) - exp).max() < 1e-12
        # the model's stencil matrix through the `partial` command
        ans2 = ask("partial 0 1 1/2 %d " % per + from_tn(tt).ser())
        got2, _ = dense_of(ans2.split()[1:])
        ok2 = abs(got2 - exp).max() < 1e-12
        print("n=%d per=%d x=%s python=%s steps=%s (%s) stencilL=%s (%s)" % (n, per, x, exp.tolist(), got, ok, got2.tolist(), ok2))
print("bad =", bad)
