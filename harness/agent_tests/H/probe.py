import sys; sys.path.insert(0, "/verif/harness"); import core, torch
tn = core.tn
torch.manual_seed(0)
t = tn.rand([3,4,2], ranks_tt=2).double() if hasattr(tn.rand([2,2]),'double') else tn.rand([3,4,2], ranks_tt=2)
x,y,z = tn.symbols(3)
for mk in [tn.only(x), tn.only(x|y), x, x&y, tn.only(~x & ~y & ~z) if True else None]:
    try:
        r = tn.truncate_anova(t, mk, keepdim=False)
        print(type(r), getattr(r,'shape',None))
        r = tn.truncate_anova(t, mk, keepdim=True)
        print(type(r), getattr(r,'shape',None))
    except Exception as e:
        print("EXC", type(e), e)
print(tn.only(x).cores[0].shape, [c.shape for c in tn.only(x|y).cores], tn.only(x).Us)
