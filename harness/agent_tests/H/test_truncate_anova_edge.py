# masks of other shapes (sizes 1..3 per mode), other formats (CP / Tucker factors), values other than 0/1
import sys, random, subprocess, time, itertools
sys.path.insert(0, '/verif/harness')
from core import *
DR = '/root/scratch/lean_H/.lake/build/bin/driver'
p = subprocess.Popen([DR], stdin=subprocess.PIPE, stdout=subprocess.PIPE, text=True, bufsize=1)
def ask(line):
    p.stdin.write(line + "\n"); p.stdin.flush()
    return p.stdout.readline().strip()
rng = random.Random(3)
bad = 0; n = 0; nerr = 0
for it in range(150):
    N = rng.randint(1, 3)
    shape = [rng.randint(1, 4) for _ in range(N)]
    t = gen_tensor(rng, shape, stream="int" if rng.random() < 0.5 else "gauss"); T = t.to_tn()
    mshape = [rng.randint(1, 3) for _ in range(N)]
    m = gen_tensor(rng, mshape, stream="int")
    # make entries non-negative integers: absolute values of cores keep the dense array >= 0
    m = PT([np.abs(c) for c in m.cores], [None if U is None else np.abs(U) for U in m.Us])
    if m.dense().sum() > 60: continue
    M = m.to_tn()
    mlist = [np.array([float(rng.randint(1, 4)) for _ in range(s)]) for s in shape]
    mtxt = " ".join("%d %s" % (len(w), " ".join(q(v) for v in w)) for w in mlist)
    for keep in (1, 0):
        line = "truncate_anova %d %d %s %s %s" % (keep, N, mtxt, m.ser(), t.ser())
        ans = ask(line); toks = ans.split()
        try:
            r = tn.truncate_anova(T, M, keepdim=bool(keep), marginals=[torch.tensor(w) for w in mlist]); err = None
        except Exception as e:
            err = e
        n += 1
        if err is not None:
            nerr += 1
            if toks[0] != "err": bad += 1; print("PY RAISES", type(err).__name__, err, "| driver:", ans[:60], mshape, m.kinds())
            continue
        if isinstance(r, tn.Tensor):
            exp = r.torch().numpy()
            if toks[:2] != ["ok", "T"]: bad += 1; print("KIND", ans[:60], mshape, shape, keep); continue
            pt, _ = parse_tensor(toks[1:], 0); got = pt.dense()
            ok = got.shape == exp.shape and np.allclose(got, exp, rtol=1e-8, atol=1e-9 * (1 + np.abs(exp).max()))
        else:
            ok = toks[:2] == ["ok", "S"] and abs(float(unq(toks[2].split("~")[0])) - float(r)) <= 1e-8 * (1 + abs(float(r)))
        if not ok: bad += 1; print("MISMATCH", mshape, shape, keep, m.kinds(), ans[:80])
print("checked", n, "bad", bad, "python raised", nerr)
