import sys; sys.path.insert(0, "/verif/harness"); import core, torch
tn = core.tn
t = tn.Tensor(torch.tensor([1.0, 2.0, 4.0]))
print("mask ones([1]) keepdim=True :", tn.truncate_anova(t, tn.ones([1]), keepdim=True).torch())
print("mask ones([1]) keepdim=False:", tn.truncate_anova(t, tn.ones([1]), keepdim=False))
x = tn.symbols(1)[0]
m = x * 0.4
print("mask 0.4*x keepdim=True :", tn.truncate_anova(t, m, keepdim=True).torch())
print("mask 0.4*x keepdim=False:", tn.truncate_anova(t, m, keepdim=False))
