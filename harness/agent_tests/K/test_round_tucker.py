"""driver `round_tucker_sweep` vs Tensor.round_tucker: the loop is replayed on the state after orthogonalize(-1) with the recorded answers
of torch.linalg.qr / torch.linalg.svd; cores and factors are compared entry by entry; the kernel contracts (tkOK), the gauge hypothesis
(chainLO on the modes with factors) and the conclusion of C04.roundTucker_error_eq / roundTucker_within_eps are checked on the real run."""
import sys, random, subprocess, math, time
sys.path.insert(0, "/verif/harness")
import core
from core import *
import numpy as np, torch
DRV = "/root/scratch/lean_K/.lake/build/bin/driver"
p = subprocess.Popen([DRV], stdin=subprocess.PIPE, stdout=subprocess.PIPE, text=True, bufsize=1)
def ask(line):
    p.stdin.write(line + "\n"); p.stdin.flush()
    return p.stdout.readline().strip()
def mat(M):
    M = M.detach().double().numpy() if hasattr(M, "detach") else np.asarray(M)
    return "M %d %d %s" % (M.shape[0], M.shape[1], " ".join(q(v) for v in M.reshape(-1))) if M.size else "M %d %d" % (M.shape[0], M.shape[1])
EMPTY = "M 0 0"
seed = int(sys.argv[1]) if len(sys.argv) > 1 else 1
NIT = int(sys.argv[2]) if len(sys.argv) > 2 else 300
rng = random.Random(seed)
stats = {}
def count(k): stats[k] = stats.get(k, 0) + 1
mism = 0; shown = False; tmax = 0.0
for it in range(NIT):
    N = rng.choice([1, 2, 2, 3, 3, 3, 4])
    hi = 5 if N <= 3 else 4
    shape = [rng.randint(2, hi) for _ in range(N)]
    pure = rng.random() < 0.3
    if len(sys.argv) > 3 and sys.argv[3] == "overrank":
        shape = [rng.randint(2, 3) for _ in range(N)]
        t = gen_tensor(rng, shape, rmax=9, stream="float", p_rank1=0.05)
    else:
        t = gen_tensor(rng, shape, fmt=[("tt", None)] * N, rmax=4, stream="float") if pure else gen_tensor(rng, shape, rmax=4, stream="float")
    eps = rng.choice([0.0, 1e-12, 10 ** rng.uniform(-3, -0.2), 10 ** rng.uniform(-2, -0.1)])
    rmax = rng.choice([None, None, None, 1, 2, 3])
    tt = t.to_tn()
    x_in = t.dense()
    try:
        tt.orthogonalize(-1)
    except Exception as e:
        count("skipped:orthogonalize raised %s" % type(e).__name__); continue
    state = from_tn(tt)
    x0 = tt.torch().detach().clone().numpy()
    calls = []
    oqr, osvd, oorth = torch.linalg.qr, torch.linalg.svd, tn.Tensor.orthogonalize
    def qr_w(A, *a, **k):
        out = oqr(A, *a, **k); calls.append(("qr", A.detach().clone(), out[0].detach().clone(), out[1].detach().clone())); return out
    def svd_w(A, *a, **k):
        out = osvd(A, *a, **k); calls.append(("svd", A.detach().clone(), out[0].detach().clone(), out[1].detach().clone(), out[2].detach().clone())); return out
    torch.linalg.qr, torch.linalg.svd = qr_w, svd_w
    tn.Tensor.orthogonalize = lambda self, mu: (None, None)
    try:
        kw = {} if rmax is None else {"rmax": rmax}
        err = None
        try:
            tt.round_tucker(eps, **kw)
        except Exception as e:
            err = e
    finally:
        torch.linalg.qr, torch.linalg.svd, tn.Tensor.orthogonalize = oqr, osvd, oorth
    if err is not None:
        count("skipped:round_tucker raised %s" % type(err).__name__); continue
    kinds = [c[0] for c in calls]
    exp = []
    for mu in range(N - 1, -1, -1):
        exp += ["qr", "svd"] + (["qr", "qr"] if mu > 0 else [])
    if kinds != exp:
        print("UNEXPECTED kernel call sequence", kinds, "expected", exp, t.describe()); mism += 1; continue
    # ---- hypotheses: gauge (modes left of the last, with factor applied, left-orthonormal)
    ok_gauge = True
    for c, U in list(zip(state.cores, state.Us))[:-1]:
        g = c if U is None else np.einsum("ajb,ij->aib", c, U)
        L = g.reshape(-1, g.shape[-1])
        if np.abs(L.T @ L - np.eye(L.shape[1])).max() > 1e-9:
            ok_gauge = False
    if not ok_gauge:
        count("skipped:state after orthogonalize(-1) not left-orthonormal (rank-deficient bond / wide unfolding)"); continue
    # ---- build the request, validate every contract
    parts = []; pos = 0; tails = 0.0; bad = None; neartie = False; zero = False
    cur_norm2 = float((x0 ** 2).sum())
    for mu in range(N - 1, -1, -1):
        _, A1, Q1, R1 = calls[pos]; _, A2, U2, S2, Vh2 = calls[pos + 1]
        k1 = Q1.shape[1]
        if float((Q1 @ R1 - A1).abs().max()) > 1e-10 * max(1.0, float(A1.abs().max())) or float((Q1.T @ Q1 - torch.eye(k1, dtype=Q1.dtype)).abs().max()) > 1e-10:
            bad = "TkQRok"
        n2 = S2.shape[0]
        if not (n2 <= k1 <= A1.shape[1]):
            bad = "tkShapes"
        if float(S2[0]) < 1e-13:
            zero = True; break
        if float(((U2 * S2) @ Vh2 - A2).abs().max()) > 1e-10 * max(1.0, float(S2[0])) or float((U2.T @ U2 - torch.eye(n2, dtype=U2.dtype)).abs().max()) > 1e-10 \
                or float((Vh2 @ Vh2.T - torch.eye(n2, dtype=U2.dtype)).abs().max()) > 1e-10:
            bad = "TkSVDok"
        d2 = eps ** 2 * float((A2 ** 2).sum()) / N
        cs = torch.cumsum(torch.flip(S2 ** 2, [0]), 0).numpy()
        if (d2 > 0 and np.any(np.abs(cs - d2) <= 1e-9 * max(1e-300, float(cs[-1])))) or (d2 == 0 and np.any((cs > 0) & (cs <= 1e-20 * float(cs[-1])))):
            neartie = True
        # budget = eps^2/N * norm of the current tensor (roundTucker_budget_is_norm)
        if abs(float((A2 ** 2).sum()) - cur_norm2) > 1e-8 * max(cur_norm2, 1e-300):
            bad = "budget norm %g vs tensor norm %g" % (float((A2 ** 2).sum()), cur_norm2)
        part = "%d %s %s %s %d %s %s" % (2147483647 if rmax is None else rmax, mat(Q1), mat(R1), mat(U2), n2, " ".join(q(v) for v in S2.numpy()), mat(Vh2))
        if mu > 0:
            _, A3, Q3, R3 = calls[pos + 2]; _, A4, Q4, R4 = calls[pos + 3]
            for (A, Qm, Rm, nm) in ((A3, Q3, R3, "TkFQok"), (A4, Q4, R4, "TkRQok")):
                kq = Qm.shape[1]
                if float((Qm @ Rm - A).abs().max()) > 1e-10 * max(1.0, float(A.abs().max())) or float((Qm.T @ Qm - torch.eye(kq, dtype=Qm.dtype)).abs().max()) > 1e-10:
                    bad = nm
            if Q3.shape[1] != A3.shape[1]:
                bad = "TkFQok.square"
            part += " %s %s %s %s" % (mat(Q3), mat(R3), mat(Q4), mat(R4))
            pos += 4
        else:
            part += " %s %s %s %s" % (EMPTY, EMPTY, EMPTY, EMPTY)
            pos += 2
        parts.append(part)
        r_new = tt.cores[mu].shape[1]
        tails += float((S2[r_new:] ** 2).sum())
        cur_norm2 -= float((S2[r_new:] ** 2).sum())
    if zero:
        count("skipped:zero special case"); continue
    if bad is not None:
        print("CONTRACT/HYPOTHESIS FAILS:", bad, t.describe(), eps, rmax); mism += 1; continue
    line = "round_tucker_sweep %s %d %s %s" % (q(eps), N, " ".join(parts), state.ser())
    t0 = time.time(); ans = ask(line); tmax = max(tmax, time.time() - t0)
    toks = ans.split()
    if toks[0] != "ok":
        print("DRIVER", ans[:200], t.describe()); mism += 1; continue
    mt = parse_tensor(toks, 1)[0]
    d = cmp_struct(from_tn(tt), mt, False)
    if d is not None:
        if neartie and "shape" in d:
            count("discarded:near-tie"); continue
        print("MISMATCH", d, t.describe(), "eps", eps, "rmax", rmax); mism += 1; continue
    count("agree")
    # ---- conclusions on the real output
    xo = tt.torch().detach().numpy()
    err2 = float(((x0 - xo) ** 2).sum()); nrm2 = float((x0 ** 2).sum())
    if abs(err2 - tails) > 1e-9 * max(nrm2, 1e-300) + 1e-24:
        print("ERROR IDENTITY FAILS: err2 %.6g tails %.6g" % (err2, tails), t.describe()); mism += 1; continue
    if rmax is None and err2 > (eps ** 2) * nrm2 * (1 + 1e-6) + 1e-20 * nrm2:
        print("BOUND FAILS: err2 %.6g eps2*nrm2 %.6g" % (err2, eps ** 2 * nrm2), t.describe()); mism += 1; continue
    count("error identity and bound hold")
    for mu in range(N):
        rn, ro = tt.cores[mu].shape[1], state.cores[mu].shape[1]
        if rn > ro or (rmax is not None and rn > rmax):
            print("RANK CLAIM FAILS", mu, rn, ro, rmax); mism += 1
    if not shown and N == 2 and len(line) < 1500:
        print("EXAMPLE", line, "->", ans); shown = True
print("seed", seed, "cases", NIT, "mismatches", mism, "max driver time %.3fs" % tmax)
for k in sorted(stats): print("  ", k, stats[k])
