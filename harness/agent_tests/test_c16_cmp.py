import subprocess, random, sys, time
import torch, numpy as np
import tntorch as tn
torch.set_default_dtype(torch.float64)

def ser(t):
    out = [f"T {t.dim()}"]
    for c, U in zip(t.cores, t.Us):
        if c.dim() == 3:
            out.append("tt %d %d %d " % tuple(c.shape) + " ".join(str(int(round(x))) for x in c.flatten().tolist()))
        else:
            out.append("cp %d %d " % tuple(c.shape) + " ".join(str(int(round(x))) for x in c.flatten().tolist()))
        if U is None: out.append("N")
        else: out.append("U %d %d " % tuple(U.shape) + " ".join(str(int(round(x))) for x in U.flatten().tolist()))
    return " ".join(out)

def rand_tt(N, nmax, rmax, vmax):
    shape = [random.randint(1, nmax) for _ in range(N)]
    ranks = [1] + [random.randint(1, rmax) for _ in range(N-1)] + [1]
    cores = [torch.tensor(np.random.randint(0, vmax+1, size=(ranks[i], shape[i], ranks[i+1])) * (np.random.rand(ranks[i], shape[i], ranks[i+1]) < 0.6), dtype=torch.float64) for i in range(N)]
    return tn.Tensor(cores)

def rand_cp(N, nmax, rmax, vmax):
    shape = [random.randint(1, nmax) for _ in range(N)]
    r = random.randint(1, rmax)
    cores = [torch.tensor(np.random.randint(0, vmax+1, size=(shape[i], r)) * (np.random.rand(shape[i], r) < 0.7), dtype=torch.float64) for i in range(N)]
    return tn.Tensor(cores)

def rand_dense(N, nmax, vmax):
    shape = [random.randint(1, nmax) for _ in range(N)]
    X = torch.tensor(np.random.randint(0, vmax+1, size=shape) * (np.random.rand(*shape) < 0.4), dtype=torch.float64)
    return tn.Tensor(X)

p = subprocess.Popen([".lake/build/bin/driver"], stdin=subprocess.PIPE, stdout=subprocess.PIPE, text=True)
def ask(line):
    p.stdin.write(line + "\n"); p.stdin.flush()
    return p.stdout.readline().strip()

random.seed(1); np.random.seed(1)
bad = 0; n = 0; tmax = 0
for it in range(int(sys.argv[1]) if len(sys.argv) > 1 else 200):
    k = it % 3
    N = random.randint(1, 5)
    t = rand_tt(N, 3, 3, 2) if k == 0 else rand_cp(N, 3, 3, 2) if k == 1 else rand_dense(N, 3, 3)
    tot = round(tn.sum(t).item())
    if tot > 400: continue
    py = tn.accepted_inputs(t).tolist()
    for cmd in ["accepted", "accepted_arr"]:
        t0 = time.time()
        ans = ask(cmd + " " + ser(t))
        tmax = max(tmax, time.time() - t0)
        toks = ans.split()
        assert toks[0] == "ok", ans
        nr, nc = int(toks[2]), int(toks[3])
        vals = list(map(int, toks[4:]))
        rows = [vals[i*nc:(i+1)*nc] for i in range(nr)]
        n += 1
        if rows != py:
            bad += 1
            print("MISMATCH", cmd, ser(t), rows[:5], py[:5])
    # spec check
    full = t.torch().round().long()
    spec = []
    for idx in np.ndindex(*full.shape):
        spec += [list(idx)] * int(full[idx])
    if spec != py:
        bad += 1; print("PY != SPEC", ser(t))
print("checked", n, "bad", bad, "max time", tmax)
