"""how the literal float thresholds of logic.py behave in float64 for growing N (run from /verif/harness)"""
import sys
sys.path.insert(0, "/verif/harness")
import core, torch
from core import tn
torch.set_default_dtype(torch.float64)
print("N  taut(x0|~x0) norm(~t)   contr(x0&~x0) norm   sat(x0&~x0) sum   taut((x0^x1)|~(x0^x1))  norm   relevant(x1^x1)  relevant((x0^x1)|~(x0^x1))")
for N in [2, 3, 4, 5, 8, 10, 12, 14, 16, 20, 24, 28, 32, 40, 50, 60]:
    x = tn.symbols(N)
    a = x[0] | ~x[0]
    b = x[0] & ~x[0]
    c = (x[0] ^ x[1]) | ~(x[0] ^ x[1])
    d = x[1] ^ x[1]
    print(N, tn.is_tautology(a), "%.2e" % tn.norm(~a).item(), tn.is_contradiction(b), "%.2e" % tn.norm(b).item(),
          tn.is_satisfiable(b), "%.2e" % tn.sum(b).item(), tn.is_tautology(c), "%.2e" % tn.norm(~c).item(),
          tn.relevant_symbols(d), tn.relevant_symbols(c))
