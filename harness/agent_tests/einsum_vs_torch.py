# compare the Lean evaluator (driver command `einsum`) with torch.einsum on every einsum string of /repo
import ast, glob, re, subprocess, random, sys
import torch
from fractions import Fraction
EINSUM = re.compile(r"^[A-Za-z.]+(,[A-Za-z.]+)*(->[A-Za-z.]*)?$")
eqs = set()
for f in sorted(glob.glob("/repo/tntorch/*.py")):
    for n in ast.walk(ast.parse(open(f).read())):
        if isinstance(n, ast.Constant) and isinstance(n.value, str):
            s = n.value
            if ("," in s or "->" in s) and EINSUM.match(s) and len(s) <= 40:
                eqs.add(s)
eqs = sorted(eqs)
random.seed(1)
lines, expect = [], []
for eq in eqs:
    for rep in range(2):
        lhs = eq.split("->")[0]
        ins = lhs.split(",")
        letters = sorted(set("".join(ins)))
        dims = {c: random.randint(1, 3) for c in letters}
        ops = []
        toks = ["einsum", eq, str(len(letters))]
        for c in letters:
            toks += [c, str(dims[c])]
        toks.append(str(len(ins)))
        for l in ins:
            shape = [dims[c] for c in l]
            t = torch.randint(-3, 4, shape, dtype=torch.float64)
            ops.append(t)
            toks += [str(int(v)) for v in t.flatten().tolist()]
        lines.append(" ".join(toks))
        expect.append([int(v) for v in torch.einsum(eq, *ops).flatten().tolist()])
out = subprocess.run([".lake/build/bin/driver"], input="\n".join(lines) + "\n", capture_output=True, text=True, timeout=120).stdout.strip().split("\n")
bad = 0
for l, e, o in zip(lines, expect, out):
    t = o.split()
    assert t[0] == "ok", (l, o)
    got = [int(Fraction(x)) for x in t[2:]]
    if got != e or int(t[1]) != len(e):
        bad += 1
        print("MISMATCH", l, e, o)
print(len(eqs), "equations,", len(lines), "cases,", bad, "mismatches")
