"""a CP-format mask of rank 2 (x0 xor x1): Python returns 7 numbers instead of 3; does the model do the same?"""
DRV = "/root/scratch/lean_M/.lake/build/bin/driver"
import sys, subprocess
sys.path.insert(0, "/verif/harness")
import core
from core import *
REC = []
_orig_mul = tn.Tensor.__mul__
def _wrapped(self, other):
    if not isinstance(other, tn.Tensor): REC.append((float(other), self.dim()))
    return _orig_mul(self, other)
tn.Tensor.__mul__ = _wrapped
def kern(c, N):
    return q(float(torch.abs(torch.tensor(c, dtype=torch.float64)) ** (1 / N))), str(int(np.sign(c)))
torch.manual_seed(0)
t = tn.Tensor(torch.randint(-3, 4, (3, 3, 3)).double())
A = [torch.tensor([[0., 1.], [1., 0.]], dtype=torch.float64), torch.tensor([[1., 0.], [0., 1.]], dtype=torch.float64), torch.ones(2, 2, dtype=torch.float64)]
mcp = tn.Tensor(A)
mtt = tn.Tensor(mcp.torch())
for name, m in [("TT", mtt), ("CP", mcp)]:
    REC.clear()
    py = tn.dimension_distribution(t, mask=m)
    c, _ = REC[0]; rho, sg = kern(c, 3); c2, _ = REC[2]
    line = "dimdist_mask 3 %s %s %s %s 3 - - - %s %s" % (rho, sg, q(abs(c2)), str(int(np.sign(c2))), from_tn(t).ser(), from_tn(m).ser())
    out = subprocess.run([DRV], input=line + "\n", capture_output=True, text=True).stdout.strip()
    got = [float(unq(x.split("~")[0])) for x in out.split()[3:]]
    print(name, "python", py.numpy().round(6), "driver", np.array(got).round(6))
