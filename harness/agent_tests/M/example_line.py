"""the worked example of REPORT.md"""
DRV = "/root/scratch/lean_M/.lake/build/bin/driver"
import sys, subprocess
sys.path.insert(0, "/verif/harness")
import core
from core import *
REC = []
_orig_mul = tn.Tensor.__mul__
def _wrapped(self, other):
    if not isinstance(other, tn.Tensor): REC.append((float(other), self.dim()))
    return _orig_mul(self, other)
tn.Tensor.__mul__ = _wrapped
t = tn.Tensor(torch.tensor([[0., 1.], [1., 3.]], dtype=torch.float64))
x, y = tn.symbols(2)
m = tn.Tensor([c.double() for c in x.cores])
margs = [torch.tensor([1., 2.], dtype=torch.float64), None]
py = tn.dimension_distribution(t, mask=m, marginals=margs)
c, _ = REC[0]; c2, _ = REC[2]
print("kernel scalars", REC)
line = "dimdist_mask 2 %s %s %s %s 2 2 1 2 - %s %s" % (q(abs(c) ** 0.5), str(int(np.sign(c))), q(abs(c2)), str(int(np.sign(c2))), from_tn(t).ser(), from_tn(m).ser())
print(line)
print(subprocess.run([DRV], input=line + "\n", capture_output=True, text=True).stdout.strip())
print("python", py)
