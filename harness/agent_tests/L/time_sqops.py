"""timing of the new driver commands on float64-derived rationals (4 modes of size 5, ranks 4), numeric comparison"""
import sys, random, subprocess, time
sys.path.insert(0, "/verif/harness")
import core
from core import *
DRV = "/root/scratch/lean_L/.lake/build/bin/driver"
p = subprocess.Popen([DRV], stdin=subprocess.PIPE, stdout=subprocess.PIPE, text=True, bufsize=1)
def ask(line):
    t0 = time.time(); p.stdin.write(line + "\n"); p.stdin.flush(); r = p.stdout.readline().strip()
    return r, time.time() - t0
rng = random.Random(7)
worst = {}
for it in range(40):
    sh = [5, 1, 5, 5] if it % 2 else [1, 5, 5, 1]
    t = gen_tensor(rng, sh, rmax=4, stream="float", p_rank1=0.0)
    for name, line, ref in [
        ("squeeze", "squeeze _ " + t.ser(), lambda: tn.squeeze(t.to_tn())),
        ("unsqueeze", "unsqueeze 2 0 -1 " + t.ser(), lambda: tn.unsqueeze(t.to_tn(), [0, -1])),
        ("unbind", "unbind -2 " + t.ser(), lambda: tn.unbind(t.to_tn(), -2))]:
        ans, dt = ask(line)
        worst[name] = max(worst.get(name, 0), dt)
        toks = [x.split("~")[0] for x in ans.split()]
        r = ref()
        if name == "unbind":
            pos = 3
            for x in r:
                got, pos = parse_tensor(toks, pos)
                ok, err = close(got.dense(), x.torch().numpy()); assert ok, (name, err)
        else:
            got, _ = parse_tensor(toks, 1)
            ok, err = close(got.dense(), r.torch().numpy()); assert ok, (name, err)
    # assignment with integers, compressed value
    v = gen_tensor(rng, [5, 3], rmax=4, stream="float", p_rank1=0.0) if it % 2 else gen_tensor(rng, [5, 2], rmax=4, stream="float", p_rank1=0.0)
    key = "K 4 s 0 5 1 i 0 s 1 4 1 i -1" if it % 2 else "K 4 i 0 s _ _ _ s 1 5 2 i -1"
    pykey = (slice(0, 5, 1), 0, slice(1, 4, 1), -1) if it % 2 else (0, slice(None), slice(1, 5, 2), -1)
    ans, dt = ask("setitem_tensor %s %s %s" % (v.ser(), key, t.ser()))
    worst["setitem_tensor"] = max(worst.get("setitem_tensor", 0), dt)
    tt = t.to_tn(); tt[pykey] = v.to_tn()
    got, _ = parse_tensor([x.split("~")[0] for x in ans.split()], 1)
    ok, err = close(got.dense(), tt.torch().numpy()); assert ok, ("setitem", err)
print("worst answer times (s):", {k: round(v, 3) for k, v in worst.items()})
