"""driver `squeeze` / `unsqueeze` / `unbind` / `setitem_tensor` (keys with integers) vs the library:
structure-level (cores, factors) comparison on integer-valued random tensors, plus dense reference (numpy)."""
import sys, random, subprocess, time
sys.path.insert(0, "/verif/harness")
import core
from core import *
import torch
DRV = "/root/scratch/lean_L/.lake/build/bin/driver"
p = subprocess.Popen([DRV], stdin=subprocess.PIPE, stdout=subprocess.PIPE, text=True, bufsize=1)
tmax = [0.0]
def ask(line):
    t0 = time.time()
    p.stdin.write(line + "\n"); p.stdin.flush()
    r = p.stdout.readline().strip()
    tmax[0] = max(tmax[0], time.time() - t0)
    return r
def parse_item(toks, pos):
    if toks[pos] == "S":
        return ("S", float(unq(toks[pos + 1].split("~")[0]))), pos + 2
    t, pos = parse_tensor(toks, pos)
    return ("T", t), pos
def py_item(r):
    if isinstance(r, tn.Tensor):
        return ("T", from_tn(r))
    return ("S", float(r))
def same_item(a, b):
    if a[0] != b[0]: return "kind %s vs %s" % (a[0], b[0])
    if a[0] == "S": return None if a[1] == b[1] else "scalar %r vs %r" % (a[1], b[1])
    return cmp_struct(b[1], a[1], True)
rng = random.Random(int(sys.argv[1]) if len(sys.argv) > 1 else 1)
NIT = int(sys.argv[2]) if len(sys.argv) > 2 else 400
stats = {}
def bump(k): stats[k] = stats.get(k, 0) + 1
mism = []
examples = {}

def shape_with_ones(N):
    r = rng.random()
    if r < 0.12: return [1] * N                      # everything is squeezed
    sh = gen_shape(rng, N, p_one=0.45)
    if r < 0.3: sh[0] = 1
    if r > 0.8: sh[-1] = 1
    return sh

ERRMAP = {"IndexError": ("index", "tooMany", "outOfRange"), "AssertionError": ("assertion",), "ValueError": ("lenMismatch",)}

# ---------------------------------------------------------------- squeeze
for it in range(NIT):
    N = rng.randint(1, 4)
    sh = shape_with_ones(N)
    t = gen_tensor(rng, sh)
    ones = [k for k in range(N) if sh[k] == 1]
    mode = rng.random()
    if mode < 0.3:
        dim = None; spec = "_"
    else:
        if mode < 0.5 and ones:
            d = rng.choice(ones); dim = d - N if rng.random() < 0.5 else d
        elif mode < 0.85:
            pool = ones if (ones and rng.random() < 0.85) else list(range(N))
            k = rng.randint(0, min(3, len(pool)))
            dim = [rng.choice(pool) for _ in range(k)]
            dim = [d - N if rng.random() < 0.4 else d for d in dim]
            if ones and rng.random() < 0.3: dim = [d for d in ones]  # all of them
        elif mode < 0.93:
            dim = rng.choice([N, -N - 1, N + 1])       # out of range
        else:
            dim = rng.randrange(N)                      # maybe not of size one
        l = dim if isinstance(dim, list) else [dim]
        spec = "%d %s" % (len(l), " ".join(str(d) for d in l))
        spec = " ".join(spec.split())
    line = "squeeze %s %s" % (spec, t.ser())
    ans = ask(line)
    try:
        r = tn.squeeze(t.to_tn(), dim) if dim is not None else tn.squeeze(t.to_tn())
        py = ("ok", py_item(r))
    except Exception as e:
        py = ("err", type(e).__name__)
    toks = ans.split()
    if py[0] == "ok":
        if toks[0] != "ok": mism.append((line, ans, py)); continue
        got, _ = parse_item(toks, 1)
        d = same_item(got, py[1])
        if d: mism.append((line, ans, d)); continue
        # dense reference
        if got[0] == "T":
            keep = [k for k in range(N) if not (k in [(x % N) for x in (ones if dim is None else (dim if isinstance(dim, list) else [dim]))])]
            ref = t.dense().reshape([sh[k] for k in keep])
            assert np.allclose(got[1].dense(), ref), line
        else:
            assert np.isclose(got[1], t.dense().reshape(-1)[0]), line
        bump("squeeze ok " + got[0] + (" None" if dim is None else (" list" if isinstance(dim, list) else " int")))
        if "squeeze" not in examples and N == 2 and len(line) < 120 and dim is not None and got[0] == "T":
            examples["squeeze"] = (line, ans, "tn.squeeze(t, %r)" % (dim,))
    else:
        if toks[0] != "err" or toks[1] not in ERRMAP.get(py[1], ()): mism.append((line, ans, py)); continue
        bump("squeeze err " + toks[1])

# ---------------------------------------------------------------- unsqueeze
for it in range(NIT):
    N = rng.randint(1, 4)
    sh = gen_shape(rng, N)
    t = gen_tensor(rng, sh)
    mode = rng.random()
    if mode < 0.3:
        M = N + 1
        dim = rng.randrange(-M, M)
    elif mode < 0.85:
        k = rng.randint(0, 3); M = N + k
        if rng.random() < 0.8:
            pos = rng.sample(range(M), k)
        else:
            pos = [rng.randrange(M) for _ in range(k)]     # possibly duplicates
        dim = [d - M if rng.random() < 0.4 else d for d in pos]
    else:
        k = rng.randint(1, 2); M = N + k
        dim = [rng.choice([M, -M - 1, M + 2]) for _ in range(k)]
        if k == 1 and rng.random() < 0.5: dim = dim[0]
    l = dim if isinstance(dim, list) else [dim]
    line = " ".join(("unsqueeze %d %s" % (len(l), " ".join(str(d) for d in l))).split()) + " " + t.ser()
    ans = ask(line)
    try:
        r = tn.unsqueeze(t.to_tn(), dim)
        py = ("ok", py_item(r))
    except Exception as e:
        py = ("err", type(e).__name__)
    toks = ans.split()
    if py[0] == "ok":
        if toks[0] != "ok": mism.append((line, ans, py)); continue
        got, _ = parse_item(toks, 1)
        d = same_item(got, py[1])
        if d: mism.append((line, ans, d)); continue
        M = N + len(l)
        posn = sorted(x % M for x in l)
        ref = t.dense()
        for x in posn: ref = np.expand_dims(ref, x)
        assert got[1].dense().shape == ref.shape and np.allclose(got[1].dense(), ref), line
        bump("unsqueeze ok" + (" list" if isinstance(dim, list) else " int"))
        if "unsqueeze" not in examples and N == 2 and len(line) < 120 and len(l) == 2:
            examples["unsqueeze"] = (line, ans, "tn.unsqueeze(t, %r)" % (dim,))
    else:
        if toks[0] != "err" or toks[1] not in ERRMAP.get(py[1], ()): mism.append((line, ans, py)); continue
        bump("unsqueeze err " + toks[1])

# ---------------------------------------------------------------- unbind
for it in range(NIT):
    N = rng.randint(1, 4)
    sh = gen_shape(rng, N)
    t = gen_tensor(rng, sh)
    mode = rng.random()
    if mode < 0.85: dim = rng.randrange(-N, N)
    else: dim = rng.choice([N, N + 1, -N - 1, -2 * N, -2 * N - 1])
    line = "unbind %d %s" % (dim, t.ser())
    ans = ask(line)
    try:
        r = tn.unbind(t.to_tn(), dim)
        py = ("ok", [py_item(x) for x in r])
    except Exception as e:
        py = ("err", type(e).__name__)
    toks = ans.split()
    if py[0] == "ok":
        if toks[0] != "ok" or toks[1] != "L" or int(toks[2]) != len(py[1]): mism.append((line, ans, py)); continue
        pos = 3; bad = None
        for k, ref in enumerate(py[1]):
            got, pos = parse_item(toks, pos)
            bad = bad or same_item(got, ref)
            if not (-N <= dim < N): continue
            dd = np.take(t.dense(), k, axis=dim % N)
            if got[0] == "T": assert np.allclose(got[1].dense(), dd), line
            else: assert np.isclose(got[1], dd), line
        if bad: mism.append((line, ans, bad)); continue
        bump("unbind ok" + (" scalars" if N == 1 else "") + ("" if -N <= dim < N else " (dim outside [-N,N))"))
        if "unbind" not in examples and N == 2 and len(line) < 100:
            examples["unbind"] = (line, ans, "tn.unbind(t, %d)" % dim)
    else:
        if toks[0] != "err" or toks[1] not in ERRMAP.get(py[1], ()): mism.append((line, ans, py)); continue
        bump("unbind err " + toks[1])

# ---------------------------------------------------------------- setitem with a compressed value, keys with integers
def ser_key(key):
    out = ["K", str(len(key))]
    for k in key:
        if k is Ellipsis: out.append("e")
        elif isinstance(k, slice):
            out += ["s"] + ["_" if v is None else str(v) for v in (k.start, k.stop, k.step)]
        else: out += ["i", str(k)]
    return " ".join(out)
for it in range(NIT):
    N = rng.randint(1, 4)
    sh = gen_shape(rng, N)
    t = gen_tensor(rng, sh)
    key = []
    for n in range(N):
        r = rng.random()
        if r < 0.45:
            k = rng.randrange(sh[n]); key.append(k - sh[n] if rng.random() < 0.4 else k)
        elif r < 0.55: key.append(slice(None))
        else:
            a = rng.randrange(0, sh[n]); b = rng.randint(a, sh[n] + 1); st = rng.choice([None, 1, 2, 3])
            if rng.random() < 0.1: b = a   # empty
            key.append(slice(a, b, st))
    if rng.random() < 0.25 and N > 1:
        cut = rng.randrange(1, N); key = key[:cut] + ([Ellipsis] if rng.random() < 0.5 else [])
    # the selected shape (numpy)
    x = t.dense()
    try:
        sel = x[tuple(key)]
    except Exception as e:
        continue
    vsh = list(sel.shape)
    wrong = rng.random() < 0.2
    if wrong:
        if vsh and rng.random() < 0.6:
            j = rng.randrange(len(vsh)); vsh[j] += 1
        else:
            vsh = vsh + [1] if rng.random() < 0.5 else ([1] + vsh)
    if not vsh:
        continue   # a compressed tensor always has a mode; scalars are covered by setitem_scalar
    if any(s == 0 for s in vsh):
        continue   # tntorch tensors of size 0 are not generated
    v = gen_tensor(rng, vsh)
    line = "setitem_tensor %s %s %s" % (v.ser(), ser_key(key), t.ser())
    ans = ask(line)
    tt = t.to_tn()
    before = from_tn(tt)
    try:
        tt[tuple(key)] = v.to_tn()
        py = ("ok", from_tn(tt))
    except Exception as e:
        py = ("err", type(e).__name__)
        after = from_tn(tt)
        assert cmp_struct(before, after, True) is None, ("t changed by a failed assignment", line)
    toks = ans.split()
    hasint = any(isinstance(k, int) for k in key)
    if py[0] == "ok":
        if toks[0] != "ok": mism.append((line, ans, py)); continue
        got, _ = parse_tensor(toks, 1)
        d = cmp_struct(py[1], got, True)
        if d: mism.append((line, ans, d)); continue
        ref = x.copy(); ref[tuple(key)] = v.dense()
        assert np.allclose(got.dense(), ref), line
        assert not wrong, ("library accepted a value of the wrong shape", line)
        bump("setitem_tensor ok" + (" ints" if hasint else ""))
        if "setitem" not in examples and N == 2 and hasint and len(line) < 150 and sel.size > 0:
            examples["setitem"] = (line, ans, "t[%r] = v" % (tuple(key),))
    else:
        if toks[0] != "err" or toks[1] not in ERRMAP.get(py[1], ()): mism.append((line, ans, py)); continue
        assert wrong, ("library rejected a value of the right shape", line, py)
        bump("setitem_tensor err " + toks[1])

for k in sorted(stats): print("%-45s %d" % (k, stats[k]))
print("total compared:", sum(stats.values()), " mismatches:", len(mism), " slowest answer: %.3fs" % tmax[0])
for m in mism[:10]: print("MISMATCH", m)
for k, (l, a, c) in examples.items(): print("EXAMPLE", k, "|", c, "|", l, "->", a)
