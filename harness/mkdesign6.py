"""dev tool: refresh the generated parts of DESIGN.md §6 (fix list, known findings, theorem inventory, seeded table)."""
import json, subprocess, glob, os, re
V = "/verif"
d = open(V + "/DESIGN.md").read()


def block(name, body):
    global d
    a, b = "<!-- AUTO:%s -->" % name, "<!-- /AUTO:%s -->" % name
    if a in d:
        d = d[:d.index(a) + len(a)] + "\n" + body + "\n" + d[d.index(b):]
    else:
        raise SystemExit("marker %s missing" % name)


log = [l for l in subprocess.check_output(["git", "-C", "/repo", "log", "--format=%h %s", "--reverse"]).decode().strip().splitlines() if " fix:" in " " + l]
block("fixes", "\n".join("* `%s`" % l for l in log))
k = json.load(open(V + "/known_findings.json"))
block("known", "\n".join("* **%s** `%s` — %s" % (e["property"], e["id"], e["what"]) for e in k if e["status"] == "known"))
inv = []
for f in sorted(glob.glob(V + "/lean/TnVerif/Props/C*.lean")):
    names = re.findall(r"^theorem\s+([A-Za-z0-9_\.]+)", open(f).read(), re.M)
    inv.append("* **%s** (%d): %s" % (os.path.basename(f)[:-5], len(names), ", ".join(names)))
block("theorems", "\n".join(inv))
rows = []
for m in sorted(glob.glob(V + "/seeded/C*/meta.json")):
    j = json.load(open(m))
    if j.get("caught") is None:
        res = "neutralised by a repo fix (see meta.json)"
    else:
        res = "caught" if j["caught"] else "NOT caught (see meta.json)"
        if any(x.get("no_failing_input_found") for x in j["checks_run"]):
            res += " (no-failing-input-found)"
    tag = "strengthened" if "trengthened" in j.get("note", "") else ""
    rows.append("| %s | %s | %s | %s | %s |" % (j["id"], j["breaks_property"], j["change"].replace("|", "/"), res, tag))
block("seeded", "| id | property | change | registered check | |\n|---|---|---|---|---|\n" + "\n".join(rows))
n = subprocess.check_output("cat %s/lean/TnVerif/Model/*.lean %s/lean/TnVerif/Lemmas/*.lean %s/lean/TnVerif/Props/*.lean %s/lean/Driver.lean | wc -l" % (V, V, V, V), shell=True).decode().strip()
block("size", "Size: %s lines of Lean (model, lemmas, property theorems, driver); %d property theorems; %d confirmed seeded changes." % (
    n, sum(int(re.search(r"\((\d+)\)", x).group(1)) for x in inv), len(rows)))
open(V + "/DESIGN.md", "w").write(d)
print("DESIGN.md refreshed:", len(log), "fixes,", len(rows), "seeded")
