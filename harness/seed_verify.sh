#!/bin/bash
# dev tool (not a registered check): confirm a seeded change produced in scratch worktree /tmp/wt-$1 and store it under /verif/seeded/$1
# usage: seed_verify.sh C13 [worktree]
set -u
id=$1; wt=${2:-/tmp/wt-$id}; out=/verif/seeded/$id
export OMP_NUM_THREADS=1 MKL_NUM_THREADS=1 PYTHONPATH=$wt
cd $wt || exit 2
git diff -- tntorch > /tmp/seed-$id.diff
[ -s /tmp/seed-$id.diff ] || { echo "no diff in $wt"; exit 2; }
demo=$(ls demo_$id*.py 2>/dev/null | head -1)
[ -n "$demo" ] || { echo "no demo"; exit 2; }
git checkout -q -- tntorch
timeout 900 /venv/bin/python -W ignore $demo > /tmp/seed-$id.clean.out 2>&1; rc_clean=$?
git apply /tmp/seed-$id.diff || { echo "re-apply failed"; exit 2; }
timeout 900 /venv/bin/python -W ignore $demo > /tmp/seed-$id.mut.out 2>&1; rc_mut=$?
timeout 1800 /venv/bin/python -m pytest -q -p no:cacheprovider --timeout=900 tests > /tmp/seed-$id.tests.out 2>&1; rc_tests=$?
# tests/test_cross.py::test_tensors is randomised (fails now and then on the unchanged tree too): if it is the ONLY failure, re-run it
if [ $rc_tests -ne 0 ] && [ "$(grep -c '^FAILED' /tmp/seed-$id.tests.out)" = "1" ] && grep -q '^FAILED tests/test_cross.py::test_tensors' /tmp/seed-$id.tests.out; then
  for k in 1 2 3; do
    timeout 900 /venv/bin/python -m pytest -q -p no:cacheprovider --timeout=900 tests/test_cross.py::test_tensors > /tmp/seed-$id.tests2.out 2>&1 && { rc_tests=0; echo "(test_cross::test_tensors flaked once, passed on re-run)"; break; }
  done
fi
echo "$id demo(clean)=$rc_clean demo(mutated)=$rc_mut tests(mutated)=$rc_tests: $(tail -1 /tmp/seed-$id.tests.out)"
if [ $rc_clean -eq 0 ] && [ $rc_mut -ne 0 ] && [ $rc_tests -eq 0 ]; then
  mkdir -p $out
  cp /tmp/seed-$id.diff $out/patch.diff
  cp $demo $out/
  tail -25 /tmp/seed-$id.mut.out > $out/demo_output_mutated.txt
  tail -5 /tmp/seed-$id.clean.out > $out/demo_output_clean.txt
  echo CONFIRMED
else
  echo NOT-CONFIRMED
fi
