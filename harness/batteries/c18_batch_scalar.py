"""driver `smul_b` / `sadd_b` / `neg_b` / `ssub_b` / `rsub_b` (Model/BatchScalar.lean) vs the real library on batch tensors.

usage (from /verif/harness):  /venv/bin/python -W ignore <this file> [n] [seed]
For every case: a random batch (B in 1..4 elements of one random format, 1..4 non-batch modes), a scalar c, an operation.
Compared, per batch element b: (1) the cores/factors of element b of the library's result (`elem_of`) with the model's element b
(structure; bit-exact on the integer-valued stream for all additions and for products with |c| in {0,1}, else rtol 1e-12); (2) the dense values
of the model's element b with the reference `c * dense(x_b)` / `dense(x_b) + c`; (3) batch flag, batch size and number of modes of the
library's result; (4) the model's answer with the NON-batch driver commands `smul` / `sadd` on element b (theorems elem_smul / elem_sadd).
"""
import sys, random, subprocess
sys.path.insert(0, __import__("os").path.dirname(__import__("os").path.dirname(__import__("os").path.abspath(__file__))))
DRV = __import__("os").environ.get("VERIF_DRIVER") or __import__("os").path.join(__import__("os").path.dirname(__import__("os").path.dirname(__import__("os").path.dirname(__import__("os").path.abspath(__file__)))), "lean", ".lake", "build", "bin", "driver")
import numpy as np, torch
import core
from core import PT, gen_tensor, gen_format, gen_shape, parse_tensor, cmp_struct, close, q, tn
from props.c18 import to_batch, elem_of

n_cases = int(sys.argv[1]) if len(sys.argv) > 1 else 300
seed = int(sys.argv[2]) if len(sys.argv) > 2 else 1
rng = random.Random(seed)
p = subprocess.Popen([DRV], stdin=subprocess.PIPE, stdout=subprocess.PIPE, text=True, bufsize=1)


def ask(line):
    p.stdin.write(line + "\n"); p.stdin.flush()
    return p.stdout.readline().strip().split(" ")


def parse_batch(toks):
    assert toks[0] == "ok", toks[:8]
    B = int(toks[1]); pos = 2; out = []
    for _ in range(B):
        t, pos = parse_tensor(toks, pos)
        out.append(t)
    assert pos == len(toks)
    return out


def gen_batch(B, shape, stream):
    fmt = gen_format(rng, len(shape))
    first = gen_tensor(rng, shape, fmt=fmt, rmax=3, stream=stream)
    elems = [first]
    for _ in range(B - 1):
        elems.append(PT([core.rnd_entries(rng, c.shape, stream) for c in first.cores],
                        [None if U is None else core.rnd_entries(rng, U.shape, stream) for U in first.Us]))
    if B >= 2 and rng.random() < 0.15:      # an exactly zero element
        b = rng.randrange(B); e = elems[b]
        elems[b] = PT([np.zeros_like(e.cores[0])] + list(e.cores[1:]), e.Us)
    return elems


def rho_of(c, N):
    """tensor.py:693-694"""
    return float(np.abs(c) ** (1 / N)), float(np.sign(c))


SPECIAL = [0, 1, -1, 2.5, 0.0, -2.5, 1.0]
OPS = ["smul", "rsmul", "sadd", "radd", "neg", "ssub", "rsub", "div"]
mism = 0; done = 0; counts = {}; shown = set()
for it in range(n_cases):
    B = rng.randint(1, 4); N = rng.randint(1, 4)
    shape = gen_shape(rng, N)
    stream = "int" if rng.random() < 0.5 else "gauss"
    xs = gen_batch(B, shape, stream)
    op = OPS[it % len(OPS)] if it < 4 * len(OPS) else rng.choice(OPS)
    c = SPECIAL[(it // len(OPS)) % len(SPECIAL)] if it < 7 * len(OPS) or rng.random() < 0.5 else rng.choice([rng.uniform(-3, 3), rng.randint(-4, 4)])
    if op == "div" and c == 0:
        c = 2.5
    bt = to_batch(xs)
    ser = "%d %s" % (B, " ".join(x.ser() for x in xs))
    dens = [x.dense() for x in xs]
    if op in ("smul", "rsmul", "div"):
        ceff = (1.0 / c) if op == "div" else c
        rho, sg = rho_of(ceff, bt.dim())
        line = "smul_b %s %s %s" % (q(rho), q(sg), ser)
        r = bt * c if op == "smul" else c * bt if op == "rsmul" else bt / c
        ref = [d * ceff for d in dens]
        exact = abs(ceff) in (0, 1)
        plain = lambda b: "smul %s %s %s" % (q(rho), q(sg), xs[b].ser())
    elif op in ("sadd", "radd"):
        line = "sadd_b %s %s" % (q(c), ser)
        r = bt + c if op == "sadd" else c + bt
        ref = [d + c for d in dens]; exact = True
        plain = lambda b: "sadd %s %s" % (q(c), xs[b].ser())
    elif op == "neg":
        line = "neg_b %s" % ser
        r = -bt
        ref = [-d for d in dens]; exact = True
        plain = lambda b: "smul 1 -1 %s" % xs[b].ser()
    elif op == "ssub":
        line = "ssub_b %s %s" % (q(c), ser)
        r = bt - c
        ref = [d - c for d in dens]; exact = True
        plain = lambda b: "sadd %s %s" % (q(-1 * c), xs[b].ser())
    else:
        line = "rsub_b %s %s" % (q(c), ser)
        r = c - bt
        ref = [c - d for d in dens]; exact = True
        plain = None
    # bit-exact only where float64 makes no rounding: integer-valued entries, and no product with a non-trivial root
    exact = exact and stream == "int"
    toks = ask(line)
    bad = None
    try:
        ms = parse_batch(toks)
        if not r.batch or r.dim() != N or r.shape[0] != B or tuple(r.shape[1:]) != tuple(shape):
            bad = "library result: batch=%s dim=%d shape=%s" % (r.batch, r.dim(), tuple(r.shape))
        elif len(ms) != B:
            bad = "model batch size %d vs %d" % (len(ms), B)
        else:
            full = r.torch().numpy()
            for b in range(B):
                d = cmp_struct(elem_of(r, b), ms[b], exact, rtol=1e-12)
                if d is not None:
                    bad = "element %d: %s" % (b, d); break
                ok, err = close(ms[b].dense(), ref[b], 1e-9)
                if not ok:
                    bad = "element %d: model dense vs reference: %s" % (b, err); break
                ok, err = close(full[b], ref[b], 1e-9)
                if not ok:
                    bad = "element %d: library dense vs reference: %s" % (b, err); break
                if plain is not None:
                    pt = ask(plain(b))
                    if pt[0] != "ok" or pt[1:] != ms[b].ser().split(" "):
                        # compare token-wise on the driver's own output format
                        m2 = parse_tensor(pt, 1)[0]
                        if cmp_struct(ms[b], m2, False, rtol=0) is not None or any(
                                not np.array_equal(a, bb) for a, bb in zip(ms[b].cores, m2.cores)):
                            bad = "element %d: batch model differs from the non-batch model command" % b; break
    except Exception as e:  # noqa
        bad = "exception %s: %s (answer %s)" % (type(e).__name__, e, " ".join(toks[:6]))
    done += 1
    key = "%s c=%s" % (op, ("%g" % c) if c in (0, 1, -1, 2.5) else "other")
    counts[key] = counts.get(key, 0) + 1
    if bad:
        mism += 1
        print("MISMATCH", op, repr(c), "B", B, "shape", shape, xs[0].kinds(), ":", bad)
        print("   line:", line[:300])
    elif op not in shown and B == 2 and N <= 2 and len(line) < 160 and stream == "int":
        shown.add(op)
        print("EXAMPLE %s c=%r: %s -> %s" % (op, c, line, " ".join(toks)))
print("cases:", done, " per (op, scalar):", " ".join("%s:%d" % kv for kv in sorted(counts.items())))
print("mismatches: %d" % mism)
