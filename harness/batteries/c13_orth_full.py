"""driver `orth_full` vs Tensor.orthogonalize(mu): the real call is run with torch.linalg.qr wrapped so that every answer is recorded
(grouped per left_orthogonalize / right_orthogonalize call: optional factor QR, then the QR of the unfolding); the answers are fed to the
driver, which replays the model `Tensor.orthFullInt`; all cores and factors are compared entry by entry.  Also checked on the real run:
the contract (Q R = A, orthonormal Q) and the conclusions of C13.orthogonalize_mu_gauge / _factors / _dense.
usage: test_orth_full.py [n] [seed]        (run from /verif/harness)"""
import sys, random, subprocess
sys.path.insert(0, __import__("os").path.dirname(__import__("os").path.dirname(__import__("os").path.abspath(__file__))))
import core
from core import *
import numpy as np, torch
DRV = __import__("os").environ.get("VERIF_DRIVER") or __import__("os").path.join(__import__("os").path.dirname(__import__("os").path.dirname(__import__("os").path.dirname(__import__("os").path.abspath(__file__)))), "lean", ".lake", "build", "bin", "driver")
p = subprocess.Popen([DRV], stdin=subprocess.PIPE, stdout=subprocess.PIPE, text=True, bufsize=1)
def ask(line):
    p.stdin.write(line + "\n"); p.stdin.flush()
    return p.stdout.readline().strip()
def mat(M):
    M = M.detach().double().numpy() if hasattr(M, "detach") else np.asarray(M)
    return "M %d %d %s" % (M.shape[0], M.shape[1], " ".join(q(v) for v in M.reshape(-1))) if M.size else "M %d %d" % (M.shape[0], M.shape[1])
NIT = int(sys.argv[1]) if len(sys.argv) > 1 else 300
seed = int(sys.argv[2]) if len(sys.argv) > 2 else 1
rng = random.Random(seed)
stats = {}
def count(k): stats[k] = stats.get(k, 0) + 1
mism = 0
def bad(msg, t, mu):
    global mism
    mism += 1
    if mism <= 5: print("MISMATCH", msg, "mu", mu, t.describe())
for it in range(NIT):
    N = rng.choice([2, 3, 3, 4])
    hi = 5 if N <= 3 else 4
    shape = [rng.randint(1, hi) for _ in range(N)]
    fmt = gen_format(rng, N, allow_cp=rng.random() < 0.25)
    t = gen_tensor(rng, shape, fmt=fmt, rmax=4, stream="float")
    r = rng.random()
    mu = rng.randint(-N, N - 1) if r < 0.93 else rng.choice([N, N + 1, -N - 1, -N - 2])
    tt = t.to_tn()
    x0 = tt.torch().detach().clone().numpy()
    steps = []
    oqr, oleft, oright = torch.linalg.qr, tn.Tensor.left_orthogonalize, tn.Tensor.right_orthogonalize
    def qr_w(A, *a, **k):
        out = oqr(A, *a, **k); steps[-1][2].append((A.detach().clone(), out[0].detach().clone(), out[1].detach().clone())); return out
    def left_w(self, i):
        steps.append(("L", i, [self.Us[i] is not None])); return oleft(self, i)
    def right_w(self, i):
        steps.append(("R", i, [self.Us[i] is not None])); return oright(self, i)
    torch.linalg.qr, tn.Tensor.left_orthogonalize, tn.Tensor.right_orthogonalize = qr_w, left_w, right_w
    err = None
    try:
        try:
            tt.orthogonalize(mu)
        except Exception as e:
            err = e
    finally:
        torch.linalg.qr, tn.Tensor.left_orthogonalize, tn.Tensor.right_orthogonalize = oqr, oleft, oright
    m0 = mu + N if mu < 0 else mu
    if err is not None:
        # out-of-range mu: the model answers `none`
        ans = ask("orth_full %d 0 0 %s" % (mu, t.ser()))
        if isinstance(err, AssertionError) and not (0 <= m0 < N):
            count("raised AssertionError (mu out of range)")
            if ans != "err range": bad("driver did not refuse: " + ans[:60], t, mu)
        else:
            bad("unexpected exception %r" % err, t, mu)
        continue
    # ---- call sequence: left steps 0..mu-1, then right steps N-1..mu+1
    seq = [(k, i) for k, i, _ in steps]
    if seq != [("L", i) for i in range(m0)] + [("R", i) for i in range(N - 1, m0, -1)]:
        bad("call sequence %s" % seq, t, mu); continue
    parts = []; contract = True
    for k, i, rec in steps:
        hasfac, qrs = rec[0], rec[1:]
        if len(qrs) != (2 if hasfac else 1):
            bad("qr count", t, mu); contract = False; break
        for A, Q, Rm in qrs:
            if float((Q @ Rm - A).abs().max()) > 1e-9 * max(1.0, float(A.abs().max())) or \
               float((Q.T @ Q - torch.eye(Q.shape[1], dtype=Q.dtype)).abs().max()) > 1e-9:
                contract = False
        s = "1 %s %s " % (mat(qrs[0][1]), mat(qrs[0][2])) if hasfac else "0 "
        A, Q, Rm = qrs[-1]
        if k == "L":
            s += "%s %s" % (mat(Q), mat(Rm))
        else:  # tensor.py:1965-1966: Q, L are transposed back
            s += "%s %s" % (mat(Q.T), mat(Rm.T))
        parts.append(s)
    if not contract:
        count("skipped:kernel contract violated (rank-deficient input)"); continue
    nL = m0; nR = N - 1 - m0
    ans = ask("orth_full %d %d %d %s %s" % (mu, nL, nR, " ".join(parts), t.ser()) if parts else "orth_full %d 0 0 %s" % (mu, t.ser()))
    toks = ans.split(" ")
    if toks[0] != "ok":
        bad("driver: " + ans[:80], t, mu); continue
    model, _ = parse_tensor(toks, 1)
    impl = from_tn(tt)
    ok = True
    for n in range(N):
        a, b = impl.cores[n], np.asarray(model.cores[n], dtype=np.float64)
        o, e = close(a, b, rtol=1e-9, atol=1e-11)
        if not o: ok = False; bad("core %d: %s" % (n, e), t, mu); break
        if (impl.Us[n] is None) != (model.Us[n] is None): ok = False; bad("factor presence %d" % n, t, mu); break
        if impl.Us[n] is not None:
            o, e = close(impl.Us[n], np.asarray(model.Us[n], dtype=np.float64), rtol=1e-9, atol=1e-11)
            if not o: ok = False; bad("factor %d: %s" % (n, e), t, mu); break
    if not ok: continue
    # ---- conclusions of the theorems on the real result
    for n in range(N):
        c, U = impl.cores[n], impl.Us[n]
        if n < m0:
            Lm = c.reshape(-1, c.shape[-1])
            if np.abs(Lm.T @ Lm - np.eye(Lm.shape[1])).max() > 1e-9: bad("gauge left %d" % n, t, mu)
        if n > m0:
            Rm_ = c.reshape(c.shape[0], -1)
            if np.abs(Rm_ @ Rm_.T - np.eye(Rm_.shape[0])).max() > 1e-9: bad("gauge right %d" % n, t, mu)
        if n != m0 and U is not None:
            if np.abs(U.T @ U - np.eye(U.shape[1])).max() > 1e-9: bad("factor gauge %d" % n, t, mu)
    x1 = impl.dense()
    if np.abs(x1 - x0).max() > 1e-9 * max(1.0, np.abs(x0).max()): bad("dense changed", t, mu)
    count("compared (N=%d, %s)" % (N, "with factors" if any(U is not None for U in t.Us) else "no factors"))
for k in sorted(stats): print("%5d  %s" % (stats[k], k))
print("mismatches: %d" % mism)
