"""driver `sobol` / `mean_dimension` / `dimension_distribution` vs tntorch (anova.py) and vs a dense brute-force oracle."""
import sys, random, subprocess, time, itertools
sys.path.insert(0, __import__("os").path.dirname(__import__("os").path.dirname(__import__("os").path.abspath(__file__))))
import core
from core import *
DRV = core.DRIVER
p = subprocess.Popen([DRV], stdin=subprocess.PIPE, stdout=subprocess.PIPE, text=True, bufsize=1)
def ask(line):
    p.stdin.write(line + "\n"); p.stdin.flush()
    return p.stdout.readline().strip()

# ---- record the scalars `Tensor.__mul__` sees (the kernel `|c| ** (1/N)` is answered from them)
REC = []
_orig_mul = tn.Tensor.__mul__
def _wrapped(self, other):
    if not isinstance(other, tn.Tensor):
        REC.append((float(other), self.dim()))
    return _orig_mul(self, other)
tn.Tensor.__mul__ = _wrapped

def kern(c, N):
    rho = float(torch.abs(torch.tensor(c, dtype=torch.float64)) ** (1 / N))
    return q(rho), str(int(np.sign(c)))

def marg_tokens(margs, N):
    out = [str(N)]
    for m in (margs if margs is not None else [None] * N):
        if m is None: out.append("-")
        else: out += [str(len(m))] + [q(float(v)) for v in m]
    return " ".join(out)

def gen_margs(rng, shape):
    r = rng.random()
    if r < 0.15: return None
    ms = []
    for I in shape:
        r = rng.random()
        if r < 0.2: ms.append(None)
        elif r < 0.35:   # partly zero
            v = [rng.choice([0.0, rng.random() + 0.1]) for _ in range(I)]
            if sum(v) == 0: v[rng.randrange(I)] = 1.0
            ms.append(torch.tensor(v, dtype=torch.float64))
        elif r < 0.5:    # integers, not normalised
            ms.append(torch.tensor([float(rng.randint(1, 4)) for _ in range(I)], dtype=torch.float64))
        else:
            ms.append(torch.tensor([rng.random() + 0.05 for _ in range(I)], dtype=torch.float64))
    return ms

def dbl(t):
    return tn.Tensor([c.double() for c in t.cores], Us=[None if U is None else U.double() for U in t.Us])

def gen_mask(rng, N):
    xs = tn.symbols(N)
    kind = rng.choice(["sym", "only", "and", "or", "not", "onlyand", "rand01", "wmask", "weight", "sumsym", "randtt", "true", "rand3"])
    if kind == "sym": m = xs[rng.randrange(N)]
    elif kind == "only": m = tn.only(xs[rng.randrange(N)])
    elif kind == "and": m = xs[rng.randrange(N)] & xs[rng.randrange(N)]
    elif kind == "or": m = xs[rng.randrange(N)] | xs[rng.randrange(N)]
    elif kind == "not": m = ~xs[rng.randrange(N)]
    elif kind == "onlyand": m = tn.only(xs[rng.randrange(N)] & xs[rng.randrange(N)])
    elif kind == "rand01":
        arr = torch.tensor(np.array([rng.choice([0.0, 1.0]) for _ in range(2 ** N)]).reshape([2] * N))
        m = tn.Tensor(arr)
    elif kind == "wmask": m = tn.weight_mask(N, rng.sample(range(N + 1), rng.randint(1, 2)))
    elif kind == "weight": m = tn.weight(N)
    elif kind == "sumsym": m = xs[rng.randrange(N)] + tn.only(xs[rng.randrange(N)])
    elif kind == "randtt": m = gen_tensor(rng, [2] * N, stream="int").to_tn()
    elif kind == "rand3":   # masks with 3 (or 1..3) symbols per mode: read at the clamped index min(i, s-1)
        m = gen_tensor(rng, [rng.choice([1, 2, 3, 3]) for _ in range(N)], stream="int").to_tn()
    else: m = tn.true(N)
    return kind, dbl(m)

def cntarr(N):
    return np.indices([2] * N).sum(axis=0).astype(np.float64)

def oracle(T, margs, maskdense):
    """brute force on the dense array: extended ANOVA array, variance components, mask-weighted ratio"""
    N = T.ndim
    A = T.copy(); ws = []
    for n in range(N):
        I = T.shape[n]
        w = np.ones(I) if (margs is None or margs[n] is None) else np.asarray(margs[n], dtype=np.float64)
        w = w / w.sum(); ws.append(w)
        L = np.vstack([w[None, :], np.eye(I) - w[None, :]])
        A = np.moveaxis(np.tensordot(L, A, axes=([1], [n])), 0, n)
    num = den = 0.0
    for j in itertools.product(*[range(s) for s in A.shape]):
        if all(x == 0 for x in j): continue
        W = 1.0
        for n, x in enumerate(j):
            if x > 0: W *= ws[n][x - 1]
        v = W * A[j] ** 2
        den += v
        num += v * maskdense[tuple(min(x, maskdense.shape[n] - 1) for n, x in enumerate(j))]
    return num, den

rng = random.Random(int(sys.argv[1]) if len(sys.argv) > 1 else 1)
NCASES = int(sys.argv[2]) if len(sys.argv) > 2 else 260
nok = 0; mism = 0; ndeg = 0; tmax = 0.0; shown = set()
for it in range(NCASES):
    N = rng.randint(2, 5) if rng.random() < 0.8 else 1
    hi = 5 if N <= 3 else (4 if N == 4 else 3)
    shape = [rng.randint(2, hi) for _ in range(N)]
    pt = gen_tensor(rng, shape, stream=rng.choice(["int", "float"]))
    t = pt.to_tn()
    margs = gen_margs(rng, shape)
    mode = rng.choice(["sobol", "sobol", "sobol", "sobol_raw", "mean_dimension", "dimension_distribution", "sobol_onehot"])
    REC.clear()
    if mode in ("sobol", "sobol_raw"):
        kind, mask = gen_mask(rng, N)
        normalize = mode == "sobol"
        REC.clear()
        try: py = tn.sobol(t, mask, marginals=margs, normalize=normalize)
        except Exception as e: print("PYERR", type(e).__name__, e, shape, kind); raise
        c, _ = REC[0]; rho, sg = kern(c, N)
        line = "sobol %d %s %s 1 1 %s %s %s" % (1 if normalize else 0, rho, sg, marg_tokens(margs, N), pt.ser(), from_tn(mask).ser())
        t0 = time.time(); ans = ask(line); dt = time.time() - t0
        assert ans.startswith("ok S "), (line[:300], ans[:200])
        got = float(unq(ans.split()[2].split("~")[0]))
        ref = float(py)
        num, den = oracle(pt.dense(), margs, from_tn(mask).dense())
        orc = num / den if normalize else num
        ok = abs(got - ref) <= 1e-8 * max(1.0, abs(ref)) or (np.isnan(ref) and den < 1e-300)
        ok2 = abs(got - orc) <= 1e-8 * max(1.0, abs(orc)) or den < 1e-300
        tag = mode + ":" + kind
    elif mode == "mean_dimension":
        py = tn.mean_dimension(t, marginals=margs)
        c, _ = REC[0]; rho, sg = kern(c, N)
        line = "mean_dimension %s %s %s %s" % (rho, sg, marg_tokens(margs, N), pt.ser())
        t0 = time.time(); ans = ask(line); dt = time.time() - t0
        assert ans.startswith("ok S "), (line[:300], ans[:200])
        got = float(unq(ans.split()[2].split("~")[0])); ref = float(py)
        num, den = oracle(pt.dense(), margs, cntarr(N))
        orc = num / den if den > 0 else float("nan")
        ok = abs(got - ref) <= 1e-8 * max(1.0, abs(ref)) or (np.isnan(ref) and den < 1e-300)
        ok2 = den < 1e-300 or abs(got - orc) <= 1e-8 * max(1.0, abs(orc))
        tag = mode
    elif mode == "dimension_distribution":
        order = N if rng.random() < 0.7 else rng.randint(1, N)
        py = tn.dimension_distribution(t, order=(None if order == N and rng.random() < 0.5 else order), marginals=margs)
        c, _ = REC[0]; rho, sg = kern(c, N)
        c2, n2 = REC[-1]; assert n2 == 1
        if not np.isfinite(c2) or abs(c2) > 1e25: ndeg += 1; continue
        line = "dimension_distribution %d %s %s %s %s %s %s" % (order, rho, sg, q(abs(c2)), str(int(np.sign(c2))) if np.isfinite(c2) else "0", marg_tokens(margs, N), pt.ser())
        if not np.isfinite(c2): continue
        t0 = time.time(); ans = ask(line); dt = time.time() - t0
        assert ans.startswith("ok L "), (line[:300], ans[:200])
        toks = ans.split()[3:]
        got = np.array([float(unq(x.split("~")[0])) for x in toks]); ref = py.numpy().astype(np.float64)
        ok = got.shape == ref.shape and np.allclose(got, ref, rtol=1e-8, atol=1e-9)
        cnt = cntarr(N)
        orc = []
        for k in range(1, order + 1):
            num, den = oracle(pt.dense(), margs, (cnt == k).astype(np.float64)); orc.append(num / den if den > 0 else float("nan"))
        ok2 = den < 1e-300 or np.allclose(got, np.array(orc), rtol=1e-8, atol=1e-9)
        tag = mode
    else:  # sobol with an open one-hot mask, not normalised / normalised, tensor result
        r = rng.randint(2, N + 2); normalize = rng.random() < 0.5
        mask = dbl(tn.weight_one_hot(N, r))
        REC.clear()
        py = tn.sobol(t, mask, marginals=margs, normalize=normalize)
        c, _ = REC[0]; rho, sg = kern(c, N)
        if normalize:
            c2, n2 = REC[-1]
            if not np.isfinite(c2) or abs(c2) > 1e25: ndeg += 1; continue
            k2 = (q(abs(c2)), str(int(np.sign(c2))))
        else: k2 = ("1", "1")
        line = "sobol %d %s %s %s %s %s %s %s" % (1 if normalize else 0, rho, sg, k2[0], k2[1], marg_tokens(margs, N), pt.ser(), from_tn(mask).ser())
        t0 = time.time(); ans = ask(line); dt = time.time() - t0
        assert ans.startswith("ok T 1 "), (line[:300], ans[:200])
        gt, _ = parse_tensor(ans.split()[1:])
        got = gt.dense(); ref = py.torch().numpy().astype(np.float64)
        ok = got.shape == ref.shape and np.allclose(got, ref, rtol=1e-8, atol=1e-9 * max(1.0, np.max(np.abs(ref))))
        # structure: one 3-D core (1, r, 1), no factor
        ok = ok and gt.cores[0].shape == tuple(py.cores[0].shape) and gt.Us[0] is None
        ok2 = True
        tag = mode
        # a normalised open-mask call divides by the total variance as well: the same 0/0 degeneracy as the scalar modes
        den = oracle(pt.dense(), margs, cntarr(N))[1] if normalize else float("inf")
    tmax = max(tmax, dt)
    if mode != "sobol_raw" and den < 1e-20 * max(1.0, float(np.sum(pt.dense() ** 2))):
        ndeg += 1   # zero variance: Python returns nan/inf (0/0), the model's field division gives x/0 = 0
    elif ok and ok2: nok += 1
    else:
        mism += 1
        print("MISMATCH", tag, shape, "driver", got, "python", ref, "oracle", orc if mode != "sobol_onehot" else None)
        print("   line:", line[:400])
    if tag.split(":")[0] not in shown and N == 2 and len(line) < 700 and pt.N == 2:
        shown.add(tag.split(":")[0]); print("EXAMPLE", tag, "\n  ", line, "\n   ->", ans[:200], "\n   python:", ref)
print("cases ok", nok, "degenerate (zero variance, skipped)", ndeg, "mismatches", mism, "max driver time %.3fs" % tmax)
