"""C07, statistics: tangents propagated by the Lean model (dual numbers `v~d`) through `mean`, `meankeep`, `var`
versus the directional derivative torch autograd computes through `tn.mean` / `tn.var` on the real library.

Every core entry and every factor entry of the input gets a random tangent; the driver answers `value~tangent`
tokens (a scalar, or the cores/factors of the result).  On the Python side the same cores/factors are leaves with
`requires_grad`, the routine of the real library is run on them, and for every scalar of the result (the returned
scalar, or every entry of every core and factor of the returned tensor) the gradient w.r.t. all leaves is contracted
with the tangents that were sent.  Values are compared as well.

usage:  cd /verif/harness && /venv/bin/python -W ignore <this file> <n> <seed>
last line printed:  mismatches: <number>
"""
import sys, random
from fractions import Fraction

sys.path.insert(0, __import__("os").path.dirname(__import__("os").path.dirname(__import__("os").path.abspath(__file__))))
import core
from core import np, torch, tn, q, unq, gen_shape, gen_tensor

N_CASES = int(sys.argv[1]) if len(sys.argv) > 1 else 200
SEED = int(sys.argv[2]) if len(sys.argv) > 2 else 1
RTOL = 1e-8


def qd(v, d):
    return q(v) if d == 0 else "%s~%s" % (q(v), q(d))


def unqd(tok):
    if "~" in tok:
        a, b = tok.split("~")
        return float(unq(a)), float(unq(b))
    return float(unq(tok)), 0.0


def ser_dual(pt, dcs, dUs):
    """protocol text of a tensor whose entries carry tangents"""
    out = ["T", str(pt.N)]
    for c, U, dc, dU in zip(pt.cores, pt.Us, dcs, dUs):
        out += (["tt"] if c.ndim == 3 else ["cp"]) + [str(s) for s in c.shape]
        out += [qd(v, d) for v, d in zip(c.reshape(-1), dc.reshape(-1))]
        if U is None:
            out.append("N")
        else:
            out += ["U", str(U.shape[0]), str(U.shape[1])] + [qd(v, d) for v, d in zip(U.reshape(-1), dU.reshape(-1))]
    return " ".join(out)


def parse_dual(toks, pos):
    """-> list of (kind, value ndarray, tangent ndarray) for cores, and the same or None for factors"""
    assert toks[pos] == "T", toks[pos:pos + 3]
    n = int(toks[pos + 1]); pos += 2
    cores, Us = [], []
    for _ in range(n):
        if toks[pos] == "tt":
            sh = (int(toks[pos + 1]), int(toks[pos + 2]), int(toks[pos + 3])); pos += 4
        else:
            sh = (int(toks[pos + 1]), int(toks[pos + 2])); pos += 3
        cnt = int(np.prod(sh))
        vs = [unqd(x) for x in toks[pos:pos + cnt]]; pos += cnt
        cores.append((np.array([v for v, _ in vs]).reshape(sh), np.array([d for _, d in vs]).reshape(sh)))
        if toks[pos] == "N":
            Us.append(None); pos += 1
        else:
            sh = (int(toks[pos + 1]), int(toks[pos + 2])); pos += 3
            cnt = int(np.prod(sh))
            vs = [unqd(x) for x in toks[pos:pos + cnt]]; pos += cnt
            Us.append((np.array([v for v, _ in vs]).reshape(sh), np.array([d for _, d in vs]).reshape(sh)))
    return cores, Us


def rnd_tangent(rng, shape, stream):
    n = int(np.prod(shape))
    if stream == "int":
        a = [float(rng.randint(-3, 3)) for _ in range(n)]
    else:
        a = [rng.gauss(0, 1) for _ in range(n)]
    return np.array(a, dtype=np.float64).reshape(shape)


def directional(scalar, leaves, dirs):
    """sum_p <d scalar / d p, dir_p> by reverse-mode autograd"""
    if not scalar.requires_grad:
        return 0.0
    g = torch.autograd.grad(scalar, leaves, retain_graph=True, allow_unused=True)
    return sum(float((gi * torch.as_tensor(d)).sum()) for gi, d in zip(g, dirs) if gi is not None)


def near(a, b, scale):
    return abs(a - b) <= RTOL * max(scale, 1.0)


def main():
    rng = random.Random(SEED)
    drv = core.Driver()
    mismatches = 0
    counts = {}
    shown = set()
    for it in range(N_CASES):
        cmd = ["mean", "meankeep", "var"][it % 3]
        N = rng.randint(1, 4)
        shape = gen_shape(rng, N, lo=1, hi=4)
        stream = "int" if rng.random() < 0.5 else "float"
        pt = gen_tensor(rng, shape, rmax=3, stream=stream)
        dcs = [rnd_tangent(rng, c.shape, stream) for c in pt.cores]
        dUs = [None if U is None else rnd_tangent(rng, U.shape, stream) for U in pt.Us]
        text = ser_dual(pt, dcs, dUs)
        # the real library on leaves that require gradients
        t = pt.to_tn(requires_grad=True)
        leaves, dirs = [], []
        for n in range(pt.N):
            leaves.append(t.cores[n]); dirs.append(dcs[n])
            if t.Us[n] is not None:
                leaves.append(t.Us[n]); dirs.append(dUs[n])
        if cmd == "var":
            line = "var " + text
            res = tn.var(t)
        else:
            if cmd == "mean" and rng.random() < 0.4:
                bits = [1] * N
            else:
                bits = [rng.randint(0, 1) for _ in range(N)]
            dims = [i for i, b in enumerate(bits) if b]
            line = "%s %d %s %s" % (cmd, N, " ".join(str(b) for b in bits), text)
            if cmd == "meankeep":
                res = tn.mean(t, dim=dims, keepdim=True) if dims else tn.mean(t, dim=[], keepdim=True)
            else:
                res = tn.mean(t, dim=dims)
        ans = drv.call(line)
        key = cmd
        bad = None
        if ans[0] != "ok":
            bad = "driver answered %s" % " ".join(ans[:3])
        elif ans[1] == "S":
            key += ":scalar"
            if isinstance(res, tn.Tensor):
                bad = "driver returned a scalar, the library a tensor"
            else:
                mv, md = unqd(ans[2])
                iv = float(res)
                idv = directional(res, leaves, dirs)
                sc = max(abs(iv), abs(idv), abs(mv), abs(md))
                if not near(mv, iv, sc):
                    bad = "value: model %r, library %r" % (mv, iv)
                elif not near(md, idv, sc):
                    bad = "tangent: model %r, autograd %r" % (md, idv)
        else:
            key += ":tensor"
            if not isinstance(res, tn.Tensor):
                bad = "driver returned a tensor, the library a scalar"
            else:
                mc, mU = parse_dual(ans, 1)
                if len(mc) != len(res.cores):
                    bad = "number of modes: model %d, library %d" % (len(mc), len(res.cores))
                else:
                    nodes = []
                    for n in range(len(mc)):
                        nodes.append(("core %d" % n, mc[n], res.cores[n]))
                        if (mU[n] is None) != (res.Us[n] is None):
                            bad = "factor %d presence differs" % n
                        elif mU[n] is not None:
                            nodes.append(("factor %d" % n, mU[n], res.Us[n]))
                    sc = max([1.0] + [float(np.max(np.abs(v))) for _, (v, _), _ in nodes if v.size] +
                             [float(np.max(np.abs(d))) for _, (_, d), _ in nodes if d.size])
                    for name, (v, d), imp in nodes:
                        if bad:
                            break
                        if tuple(imp.shape) != v.shape:
                            bad = "%s shape: model %s, library %s" % (name, v.shape, tuple(imp.shape)); break
                        flat = imp.reshape(-1)
                        vf, df = v.reshape(-1), d.reshape(-1)
                        for k in range(flat.numel()):
                            if not near(vf[k], float(flat[k]), sc):
                                bad = "%s entry %d value: model %r, library %r" % (name, k, vf[k], float(flat[k])); break
                            idv = directional(flat[k], leaves, dirs)
                            if not near(df[k], idv, sc):
                                bad = "%s entry %d tangent: model %r, autograd %r" % (name, k, df[k], idv); break
        counts[key] = counts.get(key, 0) + 1
        if bad:
            mismatches += 1
            print("MISMATCH case %d (%s, shape %s, %s): %s" % (it, cmd, shape, pt.kinds(), bad))
            if mismatches <= 3:
                print("   line:", line[:600])
        elif key not in shown and len(line) < 260:
            shown.add(key)
            print("EXAMPLE", line, "->", " ".join(ans)[:300])
    drv.close()
    print("cases:", N_CASES, "seed:", SEED, "by kind:", dict(sorted(counts.items())))
    print("mismatches: %d" % mismatches)


main()
