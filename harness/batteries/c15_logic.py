"""compare the driver commands of Model/Logic.lean with tntorch.  Run:
   cd /verif/harness && /venv/bin/python -W ignore batteries/c15_logic.py [n] [seed]"""
import subprocess, random, sys, time, itertools
import numpy as np, torch
sys.path.insert(0, __import__("os").path.dirname(__import__("os").path.dirname(__import__("os").path.abspath(__file__))))
import core
from core import tn, from_tn, q, parse_tensor, cmp_struct, close
torch.set_default_dtype(torch.float64)

DRV = core.DRIVER
p = subprocess.Popen([DRV], stdin=subprocess.PIPE, stdout=subprocess.PIPE, text=True, bufsize=1)
tmax = 0.0
import os
DEBUG = os.environ.get("DEBUG")
def ask(line):
    if DEBUG: print("ASK", line[:150], flush=True)
    global tmax
    t0 = time.time()
    p.stdin.write(line + "\n"); p.stdin.flush()
    out = p.stdout.readline().strip().split(" ")
    tmax = max(tmax, time.time() - t0)
    if time.time() - t0 > 0.5: print('SLOW %.1fs' % (time.time() - t0), line[:100], flush=True)
    return out

rng = random.Random(int(sys.argv[2]) if len(sys.argv) > 2 else 1)
RMAX = int(os.environ.get('RMAX', 4))
NIT = int(sys.argv[1]) if len(sys.argv) > 1 else 250
bad = {}; cnt = {}
def rec(kind, ok, info=""):
    cnt[kind] = cnt.get(kind, 0) + 1
    if not ok:
        bad[kind] = bad.get(kind, 0) + 1
        if bad[kind] <= 5: print("MISMATCH", kind, info)

def wstr(w):
    return "_" if w is None else " ".join([str(len(w))] + [str(x) for x in w])

# ------------------------------------------------------------------ helpers
for it in range(NIT):
    N = rng.randint(1, 5)
    name = rng.choice(["true", "false", "all", "none", "any", "one", "presence", "absence"])
    if name in ("true", "false"):
        lib = getattr(tn, name)(N); line = "logic_helper %s %d" % (name, N)
    elif name in ("presence", "absence"):
        k = rng.randint(0, N + 1)
        w = [rng.randint(-N, N - 1) for _ in range(k)]
        if rng.random() < 0.1: w.append(rng.choice([N, -N - 1, N + 2]))
        line = "logic_helper %s %d %s" % (name, N, wstr(w))
        try:
            lib = getattr(tn, name)(N, w)
        except IndexError:
            lib = None
    else:
        if rng.random() < 0.25: w = None
        else:
            k = rng.randint(0, N + 1)
            w = [rng.randint(0, N + 1) for _ in range(k)]      # duplicates and out-of-range entries allowed
        line = "logic_helper %s %d %s" % (name, N, wstr(w))
        lib = getattr(tn, name)(N, w)
    ans = ask(line)
    if lib is None:
        rec("helper:" + name, ans[0] == "err", line + " -> " + " ".join(ans[:3]))
        continue
    if ans[0] != "ok":
        rec("helper:" + name, False, line + " -> " + " ".join(ans[:3])); continue
    mod, _ = parse_tensor(ans, 1)
    d = cmp_struct(from_tn(lib), mod, exact=True)
    rec("helper:" + name, d is None, line + " : " + str(d))

# ------------------------------------------------------------------ formulas
def rnd_tree(N, depth):
    if depth == 0 or rng.random() < 0.25:
        return ("sym", rng.randrange(N))
    op = rng.choice(["not", "and", "or", "xor"])
    if op == "not": return ("not", rnd_tree(N, depth - 1))
    return (op, rnd_tree(N, depth - 1), rnd_tree(N, depth - 1))

def build(tr, syms):
    if tr[0] == "sym": return syms[tr[1]]
    if tr[0] == "not": return ~build(tr[1], syms)
    a, b = build(tr[1], syms), build(tr[2], syms)
    return a & b if tr[0] == "and" else a | b if tr[0] == "or" else a ^ b

def table(tr, N):
    X = np.indices((2,) * N).astype(bool)
    def ev(t):
        if t[0] == "sym": return X[t[1]]
        if t[0] == "not": return ~ev(t[1])
        a, b = ev(t[1]), ev(t[2])
        return a & b if t[0] == "and" else a | b if t[0] == "or" else a ^ b
    return ev(tr)

def ser(t): return from_tn(t).ser()
def dense_of(ans): return parse_tensor(ans, 1)[0].dense()

for it in range(NIT):
    N = rng.randint(1, 5)
    syms = tn.symbols(N)
    while True:
        tr = rnd_tree(N, rng.randint(0, 3)); t = build(tr, syms)
        if max(t.ranks_tt) <= RMAX: break
    while True:
        tr2 = rnd_tree(N, rng.randint(0, 2)); u = build(tr2, syms)
        if max(u.ranks_tt) <= 4: break
    if rng.random() < 0.3: tr2 = tr if rng.random() < 0.5 else ("not", ("not", tr)); u = build(tr2, syms)
    tab = table(tr, N); tab2 = table(tr2, N)
    # operators
    for nm, line, lib in (("lnot", "lnot " + ser(t), ~t), ("land", "land %s %s" % (ser(t), ser(u)), t & u),
                          ("lor", "lor %s %s" % (ser(t), ser(u)), t | u),
                          ("lxor", "lxor %s %s %s" % (q(2 ** (1 / N)), ser(t), ser(u)), t ^ u)):
        ans = ask(line)
        ok = ans[0] == "ok"
        if ok:
            mod, _ = parse_tensor(ans, 1)
            d = cmp_struct(from_tn(lib), mod, exact=False)
            ok = d is None
        rec("op:" + nm, ok, str(tr))
    # predicates
    for nm, line, lib, truth in (
            ("is_tautology", "predicate is_tautology " + ser(t), tn.is_tautology(t), bool(tab.all())),
            ("is_contradiction", "predicate is_contradiction " + ser(t), tn.is_contradiction(t), bool((~tab).all())),
            ("is_satisfiable", "predicate is_satisfiable " + ser(t), tn.is_satisfiable(t), bool(tab.any())),
            ("implies", "predicate implies %s %s" % (ser(t), ser(u)), tn.implies(t, u), bool((~tab | tab2).all())),
            ("equiv", "predicate equiv %s %s" % (ser(t), ser(u)), tn.equiv(t, u), bool((tab == tab2).all()))):
        ans = ask(line)
        rec("pred:" + nm, ans[:2] == ["ok", "B"] and (ans[2] == "1") == bool(lib), "%s model %s lib %s" % (tr, ans, lib))
        rec("pred-vs-table:" + nm, bool(lib) == truth, "%s lib %s table %s" % (tr, lib, truth))
    # relevant / irrelevant / only
    dep = [n for n in range(N) if (np.take(tab, 0, axis=n) != np.take(tab, 1, axis=n)).any()]
    lib = tn.relevant_symbols(t)
    ans = ask("relevant " + ser(t))
    modl = [int(x) for x in ans[3:]] if ans[:2] == ["ok", "L"] else None
    if modl != list(lib) and modl == dep:
        # the recorded C15 known finding (relevant_symbols on formulas whose norm carries round-off, e.g. with ^): the model equals the truth
        # table, the library does not — counted, not a model/code disagreement
        cnt["known: relevant_symbols round-off"] = cnt.get("known: relevant_symbols round-off", 0) + 1
    else:
        rec("relevant", modl == list(lib), "%s model %s lib %s" % (tr, ans, lib))
        rec("relevant-vs-table", list(lib) == dep, "%s lib %s table %s" % (tr, lib, dep))
    lib = tn.irrelevant_symbols(t)
    ans = ask("irrelevant " + ser(t))
    roundoff = (modl != list(tn.relevant_symbols(t)) and modl == dep)
    if not roundoff:
        rec("irrelevant", ans[:2] == ["ok", "L"] and [int(x) for x in ans[3:]] == list(lib), "%s model %s lib %s" % (tr, ans, lib))
    n = rng.randrange(N)
    t1 = t.tt()
    cores = [torch.cat((c[:, 1:2, :] - c[:, 0:1, :], c), dim=1) for c in t1.cores]
    t2 = tn.Tensor(cores)
    libv = tn.normsq(t2[[slice(1, 3)] * n + [0] + [slice(1, 3)] * (N - n - 1)])
    ans = ask("relnormsq %d %s" % (n, ser(t)))
    rec("relnormsq", ans[:2] == ["ok", "S"] and close([float(core.unq(ans[2]))], [float(libv)])[0], "%s %s %s" % (tr, ans, libv))
    lib = tn.only(t)
    ans = ask("only " + ser(t))
    ok = ans[0] == "ok"
    if ok:
        mod, _ = parse_tensor(ans, 1)
        d = cmp_struct(from_tn(lib), mod, exact=False); ok = d is None
    if not roundoff: rec("only", ok, str(tr))
    X = np.indices((2,) * N)
    spec = tab.copy()
    for m in range(N):
        if m not in dep: spec &= (X[m] == 0)
    if not roundoff: rec("only-vs-table", close(lib.torch().numpy(), spec.astype(float))[0], str(tr))
    # mask on general tensors
    sh = [rng.randint(1, 4) for _ in range(rng.randint(1, 4))]
    a = core.gen_tensor(rng, sh); msh = [s if rng.random() < 0.6 else rng.randint(1, 4) for s in sh]
    m = core.gen_tensor(rng, msh)
    try:
        lib = tn.mask(a.to_tn(), m.to_tn())
    except Exception as e:
        lib = None
    ans = ask("mask %s %s" % (a.ser(), m.ser()))
    if lib is None:
        rec("mask(raises)", True)
    else:
        ok = ans[0] == "ok"
        if ok:
            mod, _ = parse_tensor(ans, 1)
            d = cmp_struct(from_tn(lib), mod, exact=False); ok = d is None
        rec("mask", ok, "%s %s %s" % (a.sig(), m.sig(), d if ans[0] == "ok" else ans[:3]))

print("checked:", dict(sorted(cnt.items())))
print("mismatches:", sum(bad.values()), bad, " max answer time %.3fs" % tmax)
