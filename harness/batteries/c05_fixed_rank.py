"""The constructor paths tn.Tensor(x, ranks_tt=r) / tn.Tensor(x, ranks_tucker=r) / tn.Tensor(x, eps=e) versus the COMPOSITION of existing
driver commands (no new command):   fullrank -> round_full            (ranks_tt)
                                    fullrank -> round_full(0 steps) -> round_tucker_sweep     (ranks_tucker)
                                    fullrank -> round_full -> round_full(0 steps) -> round_tucker_sweep   (eps)
with the kernel answers recorded from torch.linalg.qr / torch.linalg.svd.  Cores/factors are compared entry by entry; the conclusions of
C05.fixed_rank_tt_error_eq (error = sum of tails, ranks <= request), fixed_rank_exact_of_unfolding_ranks (low-rank input reproduced),
fixed_rank_tucker_error_eq and construct_eps_within are checked on the real output."""
import sys, random, subprocess, time
sys.path.insert(0, __import__("os").path.dirname(__import__("os").path.dirname(__import__("os").path.abspath(__file__))))
import core
from core import *
import numpy as np, torch
DRV = core.DRIVER
p = subprocess.Popen([DRV], stdin=subprocess.PIPE, stdout=subprocess.PIPE, text=True, bufsize=1)
tmax = 0.0
def ask(line):
    global tmax
    t0 = time.time()
    p.stdin.write(line + "\n"); p.stdin.flush()
    out = p.stdout.readline().strip()
    tmax = max(tmax, time.time() - t0)
    return out
def mat(M):
    M = M.detach().double().numpy() if hasattr(M, "detach") else np.asarray(M)
    return "M %d %d %s" % (M.shape[0], M.shape[1], " ".join(q(v) for v in M.reshape(-1))) if M.size else "M %d %d" % (M.shape[0], M.shape[1])
EMPTY = "M 0 0"
BIG = 2147483647
seed = int(sys.argv[1]) if len(sys.argv) > 1 else 1
NIT = int(sys.argv[2]) if len(sys.argv) > 2 else 300
rng = random.Random(seed)
nprng = np.random.RandomState(seed)
stats = {}
def count(k): stats[k] = stats.get(k, 0) + 1
mism = 0

def gen_x(shape):
    kind = rng.choice(["generic", "generic", "decay", "lowrank", "lowrank", "int"])
    N = len(shape)
    if kind == "generic":
        return kind, nprng.randn(*shape)
    if kind == "int":
        return kind, nprng.randint(-3, 4, size=shape).astype(np.float64)
    if kind == "decay":
        x = np.zeros(shape)
        for k in range(4):
            vs = [nprng.randn(s) for s in shape]
            term = vs[0]
            for v in vs[1:]:
                term = np.multiply.outer(term, v)
            x += 10.0 ** (-2 * k) * term
        return kind, x
    # exactly low TT rank: random TT with small ranks
    rk = [1] + [rng.randint(1, 2) for _ in range(N - 1)] + [1]
    cores = [nprng.randint(-2, 3, size=(rk[i], shape[i], rk[i + 1])).astype(np.float64) for i in range(N)]
    return kind, PT(cores).dense()

def record(fn):
    calls = []
    oqr, osvd, orel = torch.linalg.qr, torch.linalg.svd, tn.relative_error
    def qr_w(A, *a, **k):
        out = oqr(A, *a, **k); calls.append(("qr", A.detach().clone(), out[0].detach().clone(), out[1].detach().clone())); return out
    def svd_w(A, *a, **k):
        out = osvd(A, *a, **k); calls.append(("svd", A.detach().clone(), out[0].detach().clone(), out[1].detach().clone(), out[2].detach().clone())); return out
    def rel_w(*a, **k):
        out = orel(*a, **k); calls.append(("rel", float(out))); return out
    torch.linalg.qr, torch.linalg.svd, tn.relative_error = qr_w, svd_w, rel_w
    try:
        try:
            res = fn(); err = None
        except Exception as e:
            res, err = None, e
    finally:
        torch.linalg.qr, torch.linalg.svd, tn.relative_error = oqr, osvd, orel
    return res, err, calls

def qr_ok(A, Q, R):
    k = Q.shape[1]
    return float((Q @ R - A).abs().max()) <= 1e-10 * max(1.0, float(A.abs().max())) and float((Q.T @ Q - torch.eye(k, dtype=Q.dtype)).abs().max()) <= 1e-10
def svd_ok(A, U, S, Vh):
    k = S.shape[0]
    return float(((U * S) @ Vh - A).abs().max()) <= 1e-10 * max(1.0, float(S[0])) and float((U.T @ U - torch.eye(k, dtype=U.dtype)).abs().max()) <= 1e-10 \
        and float((Vh @ Vh.T - torch.eye(k, dtype=U.dtype)).abs().max()) <= 1e-10 and bool((S[:-1] >= S[1:]).all()) and bool((S >= 0).all())

def tt_parts(svdcalls, rmaxs, shape_after):
    """tokens of the SVD answers of a round_tt sweep (processing order mu = N-1..1); shape_after[mu] = (s, r1) of core mu"""
    parts = []
    for (_, A, U, S, Vh), mu in zip(svdcalls, range(len(svdcalls), 0, -1)):
        k = S.shape[0]
        s_, r1_ = shape_after[mu]
        rm = rmaxs[mu - 1]
        parts.append("%d M %d %d %s %d %s %d %d %s" % (rm, U.shape[0], k, " ".join(q(v) for v in U.reshape(-1).numpy()), k,
                                                     " ".join(q(v) for v in S.numpy()), s_, r1_, " ".join(q(v) for v in Vh.reshape(-1).numpy())))
    return parts

def tk_parts(calls, N, rmaxs):
    parts = []; pos = 0
    for mu in range(N - 1, -1, -1):
        _, A1, Q1, R1 = calls[pos]; _, A2, U2, S2, Vh2 = calls[pos + 1]
        part = "%d %s %s %s %d %s %s" % (rmaxs[mu], mat(Q1), mat(R1), mat(U2), S2.shape[0], " ".join(q(v) for v in S2.numpy()), mat(Vh2))
        if mu > 0:
            _, A3, Q3, R3 = calls[pos + 2]; _, A4, Q4, R4 = calls[pos + 3]
            part += " %s %s %s %s" % (mat(Q3), mat(R3), mat(Q4), mat(R4)); pos += 4
        else:
            part += " %s %s %s %s" % (EMPTY, EMPTY, EMPTY, EMPTY); pos += 2
        parts.append(part)
    return parts

def near_tie(S, d2):
    cs = torch.cumsum(torch.flip(S ** 2, [0]), 0).numpy()
    if d2 > 0:
        return bool(np.any(np.abs(cs - d2) <= 1e-9 * max(1e-300, float(cs[-1]))))
    return bool(np.any((cs > 0) & (cs <= 1e-20 * max(1e-300, float(cs[-1])))))

def unfold_ranks(x):
    N = x.ndim
    return [int(np.linalg.matrix_rank(x.reshape(int(np.prod(x.shape[:k])), -1))) for k in range(1, N)]

shown = {}
for it in range(NIT):
    N = rng.choice([2, 2, 3, 3, 4])
    hi = 5 if N <= 3 else 4
    shape = [rng.randint(1 if rng.random() < 0.15 else 2, hi) for _ in range(N)]
    kind, x = gen_x(shape)
    xt = torch.tensor(x, dtype=torch.float64)
    path = rng.choice(["tt", "tt", "tucker", "eps"])
    nrm2 = float((x ** 2).sum())
    if nrm2 == 0:
        count("skipped:zero array"); continue
    # the exact TT by the model
    ans = ask("fullrank %d %s %s" % (N, " ".join(str(s) for s in shape), " ".join(q(v) for v in x.reshape(-1))))
    if not ans.startswith("ok "):
        print("DRIVER fullrank", ans[:200]); mism += 1; continue
    full_ser = ans[3:]
    if path == "tt":
        r = rng.randint(1, 6) if rng.random() < 0.5 else [rng.randint(1, 6) for _ in range(N - 1)]
        rmaxs = [r] * (N - 1) if isinstance(r, int) else list(r)
        res, err, calls = record(lambda: tn.Tensor(xt.clone(), ranks_tt=r))
        if err is not None:
            print("RAISED", type(err).__name__, err, shape, r); mism += 1; continue
        kinds = [c[0] for c in calls]
        if kinds != ["qr"] * (N - 1) + ["svd"] * (N - 1):
            print("UNEXPECTED kernel sequence", kinds, shape); mism += 1; continue
        qrs, svds = calls[:N - 1], calls[N - 1:]
        if any(float(c[3][0]) < 1e-13 for c in svds):
            count("skipped:zero special case"); continue
        if not all(qr_ok(*c[1:]) for c in qrs) or not all(svd_ok(*c[1:]) for c in svds):
            print("CONTRACT FAILS (qrOK/ansOK/svSorted)", shape); mism += 1; continue
        # delta^2 as round_tt computes it (eps = 1e-14), for the near-tie filter only
        d2 = (1e-14) ** 2 * nrm2 / max(1, N - 1)
        tie = any(near_tie(c[3], d2) for c in svds)
        shape_after = {mu: (res.cores[mu].shape[1], res.cores[mu].shape[2]) for mu in range(N)}
        parts = tt_parts(svds, rmaxs, shape_after)
        qparts = ["%s %s" % (mat(c[2]), mat(c[3])) for c in qrs]
        line = "round_full %s %d %s %d %s %s" % (q(1e-14), N - 1, " ".join(qparts), N - 1, " ".join(parts), full_ser)
        ans = ask(line)
        toks = ans.split()
        if toks[0] != "ok":
            print("DRIVER", ans[:200], shape); mism += 1; continue
        mt = parse_tensor(toks, 1)[0]
        d = cmp_struct(from_tn(res), mt, False)
        if d is not None:
            if tie and "shape" in d:
                count("discarded:near-tie"); continue
            print("MISMATCH tt", d, shape, r, kind); mism += 1; continue
        count("tt:cores agree")
        # conclusions
        ranks = [res.cores[mu].shape[0] for mu in range(1, N)]
        if any(rk > rm for rk, rm in zip(ranks, rmaxs)):
            print("RANK CLAIM FAILS", ranks, rmaxs); mism += 1; continue
        tails = sum(float((c[3][res.cores[mu].shape[0]:] ** 2).sum()) for c, mu in zip(svds, range(N - 1, 0, -1)))
        err2 = float(((xt - res.torch()) ** 2).sum())
        if abs(err2 - tails) > 1e-9 * nrm2:
            print("ERROR IDENTITY FAILS err2 %.6g tails %.6g" % (err2, tails), shape, r); mism += 1; continue
        count("tt:ranks within request, error = sum of tails")
        ur = unfold_ranks(x)
        if all(u <= rm for u, rm in zip(ur, rmaxs)):
            if err2 > 1e-20 * nrm2:
                print("LOW-RANK INPUT NOT REPRODUCED err2/nrm2 %.3g" % (err2 / nrm2), shape, r, ur); mism += 1; continue
            count("tt:unfolding ranks fit the request -> reproduced (rel err^2 <= 1e-20)")
        if "tt" not in shown and N == 2 and len(line) < 1200:
            shown["tt"] = (line, ans, "tn.Tensor(x, ranks_tt=%r), x = %s" % (r, x.tolist()))
    elif path == "tucker":
        r = rng.randint(1, 5) if rng.random() < 0.5 else [rng.randint(1, 5) for _ in range(N)]
        rmaxs = [r] * N if isinstance(r, int) else list(r)
        res, err, calls = record(lambda: tn.Tensor(xt.clone(), ranks_tucker=r))
        if err is not None:
            print("RAISED", type(err).__name__, err, shape, r); mism += 1; continue
        kinds = [c[0] for c in calls]
        exp = ["qr"] * (N - 1)
        for mu in range(N - 1, -1, -1):
            exp += ["qr", "svd"] + (["qr", "qr"] if mu > 0 else [])
        if kinds != exp:
            print("UNEXPECTED kernel sequence", kinds, exp, shape); mism += 1; continue
        qrs, rest = calls[:N - 1], calls[N - 1:]
        if any(c[0] == "svd" and float(c[3][0]) < 1e-13 for c in rest):
            count("skipped:zero special case"); continue
        if not all(qr_ok(*c[1:]) for c in calls if c[0] == "qr") or not all(svd_ok(*c[1:]) for c in calls if c[0] == "svd"):
            print("CONTRACT FAILS (qr/svd)", shape); mism += 1; continue
        qparts = ["%s %s" % (mat(c[2]), mat(c[3])) for c in qrs]
        ans = ask("round_full 0 %d %s 0 %s" % (N - 1, " ".join(qparts), full_ser))
        if not ans.startswith("ok "):
            print("DRIVER leftSweep", ans[:200]); mism += 1; continue
        state_ser = ans[3:]
        line = "round_tucker_sweep %s %d %s %s" % (q(1e-14), N, " ".join(tk_parts(rest, N, rmaxs)), state_ser)
        ans = ask(line)
        toks = ans.split()
        if toks[0] != "ok":
            print("DRIVER", ans[:200], shape); mism += 1; continue
        mt = parse_tensor(toks, 1)[0]
        tie = any(c[0] == "svd" and near_tie(c[3], (1e-14) ** 2 * float((c[1] ** 2).sum()) / N) for c in rest)
        d = cmp_struct(from_tn(res), mt, False)
        if d is not None:
            if tie and "shape" in d:
                count("discarded:near-tie"); continue
            print("MISMATCH tucker", d, shape, r, kind); mism += 1; continue
        count("tucker:cores and factors agree")
        tk = [res.cores[mu].shape[1] for mu in range(N)]
        if any(a > b for a, b in zip(tk, rmaxs)) or any(a > s for a, s in zip(tk, shape)):
            print("TUCKER RANK CLAIM FAILS", tk, rmaxs); mism += 1; continue
        svs = [c for c in rest if c[0] == "svd"]
        tails = sum(float((c[3][res.cores[mu].shape[1]:] ** 2).sum()) for c, mu in zip(svs, range(N - 1, -1, -1)))
        err2 = float(((xt - res.torch()) ** 2).sum())
        if abs(err2 - tails) > 1e-9 * nrm2:
            print("TUCKER ERROR IDENTITY FAILS err2 %.6g tails %.6g" % (err2, tails), shape, r); mism += 1; continue
        count("tucker:ranks within request, error = sum of tails")
    else:
        eps = rng.choice([0.0, 1e-12, 10 ** rng.uniform(-3, -0.3), 10 ** rng.uniform(-2, -0.1)])
        res, err, calls = record(lambda: tn.Tensor(xt.clone(), eps=eps))
        if err is not None:
            print("RAISED", type(err).__name__, err, shape, eps); mism += 1; continue
        kinds = [c[0] for c in calls]
        exp1 = ["qr"] * (N - 1) + ["svd"] * (N - 1) + ["rel"]
        if kinds[:len(exp1)] != exp1:
            print("UNEXPECTED kernel sequence (stage 1)", kinds, shape); mism += 1; continue
        qrs, svds, reached = calls[:N - 1], calls[N - 1:2 * N - 2], calls[2 * N - 2][1]
        stage2 = calls[2 * N - 1:]
        if any(float(c[3][0]) < 1e-13 for c in svds) or any(c[0] == "svd" and float(c[3][0]) < 1e-13 for c in stage2):
            count("skipped:zero special case"); continue
        if not all(qr_ok(*c[1:]) for c in calls if c[0] == "qr") or not all(svd_ok(*c[1:]) for c in calls if c[0] == "svd"):
            print("CONTRACT FAILS (qr/svd)", shape); mism += 1; continue
        d2 = eps ** 2 * nrm2 / max(1, N - 1)
        tie = any(near_tie(c[3], d2) for c in svds)
        # stage 1: round_tt(eps).  The cores after stage 1 are not observable afterwards; the bond sizes come from the stage-2 QR inputs
        if reached < eps:
            exp2 = ["qr"] * (N - 1)
            for mu in range(N - 1, -1, -1):
                exp2 += ["qr", "svd"] + (["qr", "qr"] if mu > 0 else [])
            if [c[0] for c in stage2] != exp2:
                print("UNEXPECTED kernel sequence (stage 2)", [c[0] for c in stage2], shape); mism += 1; continue
        else:
            if stage2:
                print("UNEXPECTED kernel calls after round_tt with reached >= eps", [c[0] for c in stage2]); mism += 1; continue
        # right bond of core mu after stage 1 = rows of the U recorded at the NEXT-processed step ... simpler: columns (i,b) of the SVD input
        shape_after = {}
        r1 = 1
        for (_, A, U, S, Vh), mu in zip(svds, range(N - 1, 0, -1)):
            shape_after[mu] = (shape[mu], A.shape[1] // shape[mu])
        parts = tt_parts(svds, [BIG] * (N - 1), shape_after)
        qparts = ["%s %s" % (mat(c[2]), mat(c[3])) for c in qrs]
        ans = ask("round_full %s %d %s %d %s %s" % (q(eps), N - 1, " ".join(qparts), N - 1, " ".join(parts), full_ser))
        if not ans.startswith("ok "):
            print("DRIVER stage 1", ans[:200]); mism += 1; continue
        y_ser = ans[3:]
        y = parse_tensor(ans.split(), 1)[0]
        if reached >= eps:
            d = cmp_struct(from_tn(res), y, False)
            if d is not None:
                if tie and "shape" in d:
                    count("discarded:near-tie"); continue
                print("MISMATCH eps (tt stage only)", d, shape, eps); mism += 1; continue
            count("eps:reached >= eps, cores agree")
        else:
            # hreach: the measured value is (up to rounding) the true relative error of y
            yd = np.asarray(y.dense(), dtype=np.float64)
            true_rel = float(np.sqrt(((x - yd) ** 2).sum() / nrm2))
            if abs(true_rel - reached) > 1e-6 * max(true_rel, 1e-9) + 1e-7:
                if tie:
                    count("discarded:near-tie"); continue
                print("hreach: measured %.6g vs model stage-1 error %.6g" % (reached, true_rel), shape, eps); mism += 1; continue
            e2 = (1 + eps) / (1 + reached) - 1
            qrs2, rest = stage2[:N - 1], stage2[N - 1:]
            qparts2 = ["%s %s" % (mat(c[2]), mat(c[3])) for c in qrs2]
            ans = ask("round_full 0 %d %s 0 %s" % (N - 1, " ".join(qparts2), y_ser))
            if not ans.startswith("ok "):
                print("DRIVER leftSweep 2", ans[:200]); mism += 1; continue
            line = "round_tucker_sweep %s %d %s %s" % (q(e2), N, " ".join(tk_parts(rest, N, [BIG] * N)), ans[3:])
            ans = ask(line)
            toks = ans.split()
            if toks[0] != "ok":
                print("DRIVER stage 2", ans[:200], shape); mism += 1; continue
            mt = parse_tensor(toks, 1)[0]
            tie2 = tie or any(c[0] == "svd" and near_tie(c[3], e2 ** 2 * float((c[1] ** 2).sum()) / N) for c in rest)
            d = cmp_struct(from_tn(res), mt, False)
            if d is not None:
                if tie2 and "shape" in d:
                    count("discarded:near-tie"); continue
                print("MISMATCH eps", d, shape, eps, kind); mism += 1; continue
            count("eps:reached < eps, cores and factors agree")
        err2 = float(((xt - res.torch()) ** 2).sum())
        if err2 > eps ** 2 * nrm2 * (1 + 1e-6) + 1e-24 * nrm2:
            print("construct_eps_within FAILS: err2 %.6g eps^2 nrm2 %.6g" % (err2, eps ** 2 * nrm2), shape, eps); mism += 1; continue
        count("eps:relative error within eps")
print("seed", seed, "cases", NIT, "mismatches", mism, "max driver time %.3fs" % tmax)
for k in sorted(stats): print("  ", k, stats[k])
for k, (line, ans, py) in shown.items():
    print("EXAMPLE", k, "|", py); print("  ", line); print("   ->", ans)
