"""rect_maxvol driver command vs tntorch.maxvol.py_rect_maxvol on random inputs.
run: /venv/bin/python -W ignore harness/batteries/c17_rect.py [count] [seed]"""
import sys, subprocess, random, time
from fractions import Fraction
import numpy as np
sys.path.insert(0, __import__("os").path.dirname(__import__("os").path.dirname(__import__("os").path.abspath(__file__))))
import core
from tntorch.maxvol import py_maxvol, py_rect_maxvol

DRIVER = core.DRIVER
proc = subprocess.Popen([DRIVER], stdin=subprocess.PIPE, stdout=subprocess.PIPE, text=True, bufsize=1)

def ask(line):
    proc.stdin.write(line + "\n"); proc.stdin.flush()
    return proc.stdout.readline().strip()

def opt(x):
    return "none" if x is None else str(int(x))

def gen_matrix(rng, kind, N, r):
    if kind == "gauss":
        A = rng.standard_normal((N, r))
    elif kind == "int":
        A = rng.integers(-2, 3, size=(N, r)).astype(float)
    elif kind == "dup":       # duplicated and negated rows: exact ties of the row norms in floats as well
        A = rng.standard_normal((N, r))
        for _ in range(max(1, N // 2)):
            a, b = rng.integers(0, N, 2)
            A[a] = A[b] * rng.choice([1.0, -1.0])
    elif kind == "dyad":      # first r rows 4*I (LU picks them, C = A/4 exact), the others small integers with repeats
        A = rng.integers(-2, 3, size=(N, r)).astype(float)
        if N >= r:
            A[:r] = 4 * np.eye(r)
    elif kind == "orth":
        A = np.linalg.qr(rng.standard_normal((N, r)))[0] if N >= r else rng.standard_normal((N, r))
    elif kind == "tiny":
        A = rng.standard_normal((N, r))
        for _ in range(max(1, N // 3)):
            A[rng.integers(0, N)] *= 1e-9
    return np.ascontiguousarray(A)

def exact_gap(C0, tmp, picks, a, b):
    """replay the augmentation in exact arithmetic along the forced picks (the common prefix of the two index
    sequences) and return the exact squared row norms of the rows a and b that the two sides pick next"""
    C = [[Fraction(float(x)) for x in row] for row in C0.tolist()]
    for i in picks:
        c = C[i][:]
        v = [sum(x * y for x, y in zip(row, c)) for row in C]
        lam = 1 / (1 + v[i])
        C = [[x - lam * vl * y for x, y in zip(row, c)] + [lam * vl] for row, vl in zip(C, v)]
    na = sum(x * x for x in C[a]); nb = sum(x * x for x in C[b])
    return na, nb

def run_case(rng, case_no, stats):
    kind = rng.choice(["gauss", "int", "dup", "dyad", "orth", "tiny"])
    r = int(rng.integers(1, 6))
    N = int(rng.integers(1, 13))
    A = gen_matrix(rng, kind, N, r)
    tol = float(rng.choice([0.5, 1.0, 1.0, 1.2, 2.0, 0.0]))
    maxK = None if rng.random() < 0.35 else int(rng.integers(-1, N + 3))
    minK = None if rng.random() < 0.5 else int(rng.integers(-1, N + 3))
    minAdd = None if rng.random() < 0.6 else int(rng.integers(-2, 5))
    topK = -1 if rng.random() < 0.6 else int(rng.integers(-2, N + 3))
    ident = bool(rng.random() < 0.7)
    iters = int(rng.choice([0, 2, 10]))
    # singular starts make LAPACK produce inf/nan: skip those inputs (contract of the kernel)
    try:
        ref_idx, ref_C = py_rect_maxvol(A.copy(), tol, maxK, minAdd, minK, iters, ident, topK)
    except Exception as e:
        stats["py_raise"] += 1
        return None
    if not np.all(np.isfinite(ref_C)):
        stats["nonfinite"] += 1
        return None
    if N > r:
        top = N if (topK == -1 or topK > N) else topK
        top = max(top, r)
        tmp, C0 = py_maxvol(A.copy(), 1.05, iters, top)
        C0 = np.array(C0)
    else:
        tmp, C0 = np.arange(0), np.zeros((N, r))
    toks = ["rect_maxvol", str(N), str(r), core.q(tol), opt(maxK), opt(minAdd), opt(minK), "1" if ident else "0", str(topK),
            str(len(tmp))] + [str(int(t)) for t in tmp] + [core.q(float(x)) for x in C0.reshape(-1)]
    t0 = time.time()
    ans = ask(" ".join(toks))
    dt = time.time() - t0
    stats["maxtime"] = max(stats["maxtime"], dt)
    if not ans.startswith("ok K "):
        return ("driver answered %s" % ans[:80], kind, N, r, A, (tol, maxK, minAdd, minK, iters, ident, topK))
    t = ans.split()
    K = int(t[2]); assert t[3] == "idx"; cnt = int(t[4]); idx = [int(x) for x in t[5:5 + cnt]]
    p = 5 + cnt; assert t[p] == "C"; m = int(t[p + 1]); vals = [core.unq(x) for x in t[p + 2:p + 2 + m]]
    bad = None
    if idx != [int(x) for x in ref_idx]:
        ref = [int(x) for x in ref_idx]
        bad = "index: driver %s library %s" % (idx, ref)
        j = next((t for t in range(min(len(idx), len(ref))) if idx[t] != ref[t]), None)
        if j is None and len(idx) != len(ref) and min(len(idx), len(ref)) >= r:
            # one sequence is a prefix of the other: the loop guard `row_norm_sqr[i] > tol**2` was decided differently.  If the exact squared
            # norm of the next row is within 1e-9 (relative) of tol**2, that is a tie at the threshold (rounding noise), not a disagreement
            longer = idx if len(idx) > len(ref) else ref
            jj = min(len(idx), len(ref))
            na, _ = exact_gap(C0, tmp, longer[r:jj], longer[jj], longer[jj])
            if abs(float(na) - tol * tol) <= 1e-9 * max(1.0, tol * tol):
                stats["near_tie_mismatch"] += 1
                return None
        if j is not None and j >= r and len(set(idx[:j])) == j:
            na, nb = exact_gap(C0, tmp, idx[r:j], idx[j], ref[j])
            rel = float(abs(na - nb) / max(abs(na), abs(nb))) if max(abs(na), abs(nb)) != 0 else 0.0
            bad += " | first difference at position %d: exact squared norms of rows %d / %d differ by relative %.3g%s" % (
                j, idx[j], ref[j], rel, " (EXACT TIE)" if na == nb else "")
            if rel < 1e-9:
                # an exact (or 1e-9-relative) tie of two squared row norms: the exact model takes the first position, floating point breaks the
                # tie by rounding noise — both are maximal rows; not a disagreement about the routine
                stats["near_tie_mismatch"] += 1
                return None
    else:
        Cd = np.array([float(x) for x in vals]).reshape(N, K) if N * K else np.zeros((N, K))
        if Cd.shape != ref_C.shape:
            bad = "shape of C: driver %s library %s" % (Cd.shape, ref_C.shape)
        elif Cd.size and np.max(np.abs(Cd - ref_C)) > 1e-6 * (1 + np.max(np.abs(ref_C))):
            bad = "C differs by %g" % np.max(np.abs(Cd - ref_C))
    stats["K>r"] += int(K > r and N > r)
    stats["tall"] += int(N > r)
    stats["dupidx"] += int(len(set(idx)) < len(idx))
    if bad:
        return (bad, kind, N, r, A, (tol, maxK, minAdd, minK, iters, ident, topK))
    return None

def main():
    count = int(sys.argv[1]) if len(sys.argv) > 1 else 300
    seed = int(sys.argv[2]) if len(sys.argv) > 2 else 1
    rng = np.random.default_rng(seed)
    stats = dict(py_raise=0, nonfinite=0, maxtime=0.0, tall=0, dupidx=0, near_tie_mismatch=0)
    stats["K>r"] = 0
    done = 0; mism = []
    case_no = 0
    while done < count:
        case_no += 1
        before = stats["py_raise"] + stats["nonfinite"]
        res = run_case(rng, case_no, stats)
        if stats["py_raise"] + stats["nonfinite"] > before:
            continue
        done += 1
        if res is not None:
            mism.append(res)
    print("compared", done, "mismatches", len(mism), "stats", stats)
    for m in mism[:10]:
        print("MISMATCH", m[0], "kind", m[1], "N", m[2], "r", m[3], "params(tol,maxK,min_add_K,minK,iters,ident,top_k_index)", m[5])
        if "-v" in sys.argv: print(repr(m[4]))

main()
