import sys, random, subprocess, time, itertools
sys.path.insert(0, __import__("os").path.dirname(__import__("os").path.dirname(__import__("os").path.abspath(__file__))))
import core
from core import *
DR = core.DRIVER
p = subprocess.Popen([DR], stdin=subprocess.PIPE, stdout=subprocess.PIPE, text=True, bufsize=1)
def ask(line):
    p.stdin.write(line + "\n"); p.stdin.flush()
    return p.stdout.readline().strip()

def one_hot_mask(N, idxs):
    """exact 0/1 TT tensor over the 2^N box: sum of distinct one-hot rank-1 tensors"""
    acc = None
    for idx in idxs:
        cores = []
        for b in idx:
            c = torch.zeros(1, 2, 1); c[0, b, 0] = 1.0
            cores.append(c)
        o = tn.Tensor(cores)
        acc = o if acc is None else acc + o
    return acc

def brute_terms(X, margs):
    """dense ANOVA terms by inclusion-exclusion: dict subset(tuple of 0/1) -> array (full shape, broadcast)"""
    N = X.ndim
    W = [np.asarray(m, dtype=np.float64) / np.sum(m) for m in margs]
    def cond(T):
        Y = X.copy()
        for n in range(N):
            if T[n] == 0:
                sh = [1] * N; sh[n] = -1
                Y = np.sum(Y * W[n].reshape(sh), axis=n, keepdims=True)
        return np.broadcast_to(Y, X.shape)
    terms = {}
    for S in itertools.product([0, 1], repeat=N):
        acc = np.zeros(X.shape)
        for T in itertools.product([0, 1], repeat=N):
            if all(T[n] <= S[n] for n in range(N)):
                acc = acc + (-1) ** (sum(S) - sum(T)) * cond(T)
        terms[S] = acc
    return terms

rng = random.Random(int(sys.argv[2]) if len(sys.argv) > 2 else 5)
iters = int(sys.argv[1]) if len(sys.argv) > 1 else 240
nwhole = 0; bad = 0; n = 0; tmax = 0; first = True; kinds = {}
for it in range(iters):
    N = rng.randint(1, 4)
    shape = [rng.randint(1, 5) if rng.random() < 0.85 else 1 for _ in range(N)]
    stream = "int" if rng.random() < 0.5 else "gauss"
    t = gen_tensor(rng, shape, stream=stream)
    T = t.to_tn()
    x = tn.symbols(N)
    kind = it % 7
    i = rng.randrange(N); j = rng.randrange(N)
    if kind == 0: mk = tn.only(x[i]); desc = "tn.only(x[%d])" % i
    elif kind == 1: mk = tn.only(x[i] | x[j]); desc = "tn.only(x[%d] | x[%d])" % (i, j)
    elif kind == 2: mk = x[i]; desc = "x[%d]" % i
    elif kind == 3: mk = x[i] & x[j]; desc = "x[%d] & x[%d]" % (i, j)
    elif kind == 4: mk = tn.ones([2] * N); desc = "tn.ones([2]*N)"
    elif kind == 5:
        allidx = list(itertools.product([0, 1], repeat=N))
        k = rng.randint(1, len(allidx))
        sel = rng.sample(allidx, k)
        mk = one_hot_mask(N, sel); desc = "one-hot sum %s" % (sel,)
    else:
        A = np.array([[rng.randint(0, 1) for _ in range(2 ** N)]], dtype=np.float64).reshape([2] * N)
        if A.sum() == 0: A.reshape(-1)[rng.randrange(2 ** N)] = 1.0
        mk = tn.Tensor(torch.tensor(A)); desc = "tn.Tensor(dense 0/1 %s)" % (A.astype(int).tolist(),)
    kinds[kind] = kinds.get(kind, 0) + 1
    if rng.random() < 0.4:
        margs = None
        mtxt = " ".join("%d %s" % (s, " ".join(["1"] * s)) for s in shape)
        mlist = [np.ones(s) for s in shape]
    else:
        mlist = [np.array([rng.randint(1, 5) / rng.choice([1.0, 2.0, 3.0]) for _ in range(s)]) for s in shape]
        margs = [torch.tensor(m) for m in mlist]
        mtxt = " ".join("%d %s" % (len(m), " ".join(q(v) for v in m)) for m in mlist)
    PM = from_tn(mk)
    for keep in (1, 0):
        line = "truncate_anova %d %d %s %s %s" % (keep, N, mtxt, PM.ser(), t.ser())
        t0 = time.time(); ans = ask(line); dt = time.time() - t0; tmax = max(tmax, dt)
        if dt > 0.3: print('SLOW %.2f' % dt, desc, shape, t.ranks(), PM.ranks(), stream, keep, len(line))
        if N <= 3 and max(PM.ranks()) <= 4:
            ans2 = ask(line.replace('truncate_anova ', 'truncate_anova_whole ', 1)); nwhole += 1
            if ans2 != ans: bad += 1; print('WHOLE != STAGED', desc, shape, keep)
        r = tn.truncate_anova(T, mk, keepdim=bool(keep), marginals=margs)
        n += 1
        toks = ans.split()
        if isinstance(r, tn.Tensor):
            exp = r.torch().numpy()
            if toks[0] != "ok" or toks[1] != "T":
                bad += 1; print("KIND MISMATCH", ans[:60], desc, shape); continue
            pt, _ = parse_tensor(toks[1:], 0)
            got = pt.dense()
            ok = got.shape == exp.shape and np.allclose(got, exp, rtol=1e-8, atol=1e-9 * (1 + np.abs(exp).max()))
            if ok and list(pt.ranks()) != list(r.ranks_tt): ok = False; print("RANKS", pt.ranks(), r.ranks_tt)
            if ok and list(pt.tranks()) != list(r.ranks_tucker): ok = False; print("TRANKS", pt.tranks(), r.ranks_tucker)
        else:
            exp = np.asarray(float(r))
            ok = toks[0] == "ok" and toks[1] == "S" and abs(float(unq(toks[2].split("~")[0])) - float(exp)) <= 1e-8 * (1 + abs(float(exp)))
        if not ok:
            bad += 1; print("MISMATCH", desc, shape, keep, ans[:80])
        # independent oracle on the dense array (keepdim result)
        if keep == 1:
            terms = brute_terms(t.dense(), mlist)
            M = mk.torch().numpy()
            want = sum(M[S] * terms[S] for S in terms)
            if not np.allclose(exp, want, rtol=1e-7, atol=1e-8 * (1 + np.abs(want).max())):
                bad += 1; print("PYTHON != BRUTE FORCE", desc, shape)
        if first and N == 2 and keep == 0 and kind == 0 and margs is not None and stream == "int":
            print(line); print(ans); print("python: tn.truncate_anova(t, %s, keepdim=False, marginals=%s)" % (desc, [m.tolist() for m in mlist])); first = False
print("whole-routine calls compared", nwhole); print("checked", n, "bad", bad, "max time %.3f" % tmax, "kinds", kinds)
