"""driver `dimdist_mask` vs tn.dimension_distribution(t, mask=..., order=..., marginals=...) and vs a dense brute-force oracle.
run: cd /verif/harness && /venv/bin/python -W ignore batteries/c09_dimdist_mask.py [seed] [n]"""
DRV = __import__("os").environ.get("VERIF_DRIVER") or __import__("os").path.join(__import__("os").path.dirname(__import__("os").path.dirname(__import__("os").path.dirname(__import__("os").path.abspath(__file__)))), "lean", ".lake", "build", "bin", "driver")
import sys, random, subprocess, time, itertools
sys.path.insert(0, __import__("os").path.dirname(__import__("os").path.dirname(__import__("os").path.abspath(__file__))))
import core
from core import *
p = subprocess.Popen([DRV], stdin=subprocess.PIPE, stdout=subprocess.PIPE, text=True, bufsize=1)
def ask(line):
    p.stdin.write(line + "\n"); p.stdin.flush()
    return p.stdout.readline().strip()

# record the scalars `Tensor.__mul__` sees (the kernel `|c| ** (1/N)` is answered from them)
REC = []
_orig_mul = tn.Tensor.__mul__
def _wrapped(self, other):
    if not isinstance(other, tn.Tensor):
        REC.append((float(other), self.dim()))
    return _orig_mul(self, other)
tn.Tensor.__mul__ = _wrapped

def kern(c, N):
    rho = float(torch.abs(torch.tensor(c, dtype=torch.float64)) ** (1 / N))
    return q(rho), str(int(np.sign(c)))

def marg_tokens(margs, N):
    out = [str(N)]
    for m in (margs if margs is not None else [None] * N):
        if m is None: out.append("-")
        else: out += [str(len(m))] + [q(float(v)) for v in m]
    return " ".join(out)

def gen_margs(rng, shape):
    r = rng.random()
    if r < 0.12: return None
    ms = []
    for I in shape:
        r = rng.random()
        if r < 0.2: ms.append(None)
        elif r < 0.3:   # partly zero
            v = [rng.choice([0.0, rng.random() + 0.1]) for _ in range(I)]
            if sum(v) == 0: v[rng.randrange(I)] = 1.0
            ms.append(torch.tensor(v, dtype=torch.float64))
        elif r < 0.55:    # integers, not normalised
            ms.append(torch.tensor([float(rng.randint(1, 4)) for _ in range(I)], dtype=torch.float64))
        else:           # non-uniform, not normalised
            ms.append(torch.tensor([rng.random() + 0.05 for _ in range(I)], dtype=torch.float64))
    return ms

def dbl(t):
    return tn.Tensor([c.double() for c in t.cores], Us=[None if U is None else U.double() for U in t.Us])

def gen_mask(rng, N):
    xs = tn.symbols(N)
    i, j = rng.randrange(N), rng.randrange(N)
    kind = rng.choice(["x", "notx", "or", "andnot", "only", "onlyand", "and", "rand01", "true", "wmask"])
    if kind == "x": m = xs[i]
    elif kind == "notx": m = ~xs[i]
    elif kind == "or": m = xs[i] | xs[j]
    elif kind == "andnot": m = xs[i] & ~xs[j]
    elif kind == "only": m = tn.only(xs[i])
    elif kind == "onlyand": m = tn.only(xs[i] & xs[j])
    elif kind == "and": m = xs[i] & xs[j]
    elif kind == "rand01":
        m = tn.Tensor(torch.tensor(np.array([rng.choice([0.0, 1.0]) for _ in range(2 ** N)]).reshape([2] * N)))
    elif kind == "wmask": m = tn.weight_mask(N, rng.sample(range(N + 1), rng.randint(1, 2)))
    else: m = tn.true(N)
    return kind, dbl(m)

def oracle(T, margs, maskdense, order):
    """brute force: variance contribution of every extended index, grouped by the size of its support, restricted to the mask"""
    N = T.ndim
    A = T.copy(); ws = []
    for n in range(N):
        I = T.shape[n]
        w = np.ones(I) if (margs is None or margs[n] is None) else np.asarray(margs[n], dtype=np.float64)
        w = w / w.sum(); ws.append(w)
        L = np.vstack([w[None, :], np.eye(I) - w[None, :]])
        A = np.moveaxis(np.tensordot(L, A, axes=([1], [n])), 0, n)
    num = np.zeros(N + 1); den = 0.0; tot = 0.0
    for jx in itertools.product(*[range(s) for s in A.shape]):
        if all(x == 0 for x in jx): continue
        W = 1.0
        for n, x in enumerate(jx):
            if x > 0: W *= ws[n][x - 1]
        v = W * A[jx] ** 2
        u = tuple(min(x, 1) for x in jx)
        tot += v
        den += v * maskdense[u]
        num[sum(u)] += v * maskdense[u]
    return num[1:order + 1], den, tot

rng = random.Random(int(sys.argv[1]) if len(sys.argv) > 1 else 1)
NCASES = int(sys.argv[2]) if len(sys.argv) > 2 else 240
nok = 0; mism = 0; ndeg = 0; tmax = 0.0; shown = set()
for it in range(NCASES):
    N = rng.randint(2, 4) if rng.random() < 0.9 else 1
    hi = 5 if N <= 3 else 4
    shape = [rng.randint(2, hi) for _ in range(N)]
    pt = gen_tensor(rng, shape, stream=rng.choice(["int", "float"]))
    t = pt.to_tn()
    margs = gen_margs(rng, shape)
    kind, mask = gen_mask(rng, N)
    order = N if rng.random() < 0.7 else rng.randint(1, N)
    REC.clear()
    py = tn.dimension_distribution(t, mask=mask, order=(None if order == N and rng.random() < 0.5 else order), marginals=margs)
    # REC = first sobol: (a[0..0], N), (-1, N) [`a -= X` is `a + (-1) * X`], (1/D, 1); second sobol: (a[0..0], N), (-1, N)
    assert len(REC) == 5 and REC[0][1] == N and REC[2][1] == 1 and REC[3] == REC[0] and REC[1] == (-1.0, N) == REC[4], REC
    c, _ = REC[0]; rho, sg = kern(c, N)
    c2, _ = REC[2]
    nums, den, tot = oracle(pt.dense(), margs, from_tn(mask).dense(), order)
    scale = max(1.0, float(np.sum(pt.dense() ** 2)))
    if not np.isfinite(c2) or abs(c2) > 1e25 or tot < 1e-20 * scale or abs(den) < 1e-12 * tot:
        ndeg += 1; continue   # zero variance or nothing under the mask: Python gives nan/inf, field division gives x/0 = 0
    line = "dimdist_mask %d %s %s %s %s %s %s %s" % (order, rho, sg, q(abs(c2)), str(int(np.sign(c2))), marg_tokens(margs, N), pt.ser(), from_tn(mask).ser())
    t0 = time.time(); ans = ask(line); dt = time.time() - t0
    tmax = max(tmax, dt)
    if dt > 0.8:   # for reference: the time of the existing unmasked command on the same tensor
        l0 = "dimension_distribution %d %s %s %s %s %s %s" % (order, rho, sg, q(abs(c2)), str(int(np.sign(c2))), marg_tokens(margs, N), pt.ser())
        t0 = time.time(); ask(l0); print("SLOW %.2fs" % dt, kind, shape, "len(line)", len(line), "unmasked command: %.2fs" % (time.time() - t0))
    assert ans.startswith("ok L "), (line[:300], ans[:200])
    toks = ans.split()[3:]
    got = np.array([float(unq(x.split("~")[0])) for x in toks]); ref = py.numpy().astype(np.float64)
    orc = nums / den
    ok = got.shape == ref.shape and np.allclose(got, ref, rtol=1e-7, atol=1e-8)
    ok2 = got.shape == orc.shape and np.allclose(got, orc, rtol=1e-7, atol=1e-8)
    if order == N: ok2 = ok2 and abs(got.sum() - 1) < 1e-7
    if ok and ok2: nok += 1
    else:
        mism += 1
        print("MISMATCH", kind, shape, order, "driver", got, "python", ref, "oracle", orc)
        print("   line:", line[:400])
    if kind not in shown and N == 2 and len(line) < 500:
        shown.add(kind); print("EXAMPLE", kind, "\n  ", line, "\n   ->", ans[:200], "\n   python:", ref)
print("cases ok", nok, "degenerate (skipped)", ndeg, "max driver time %.3fs" % tmax)
print("mismatches", mism)
