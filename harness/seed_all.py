"""dev tool (not a registered check): regression over every confirmed seeded change.
For each /verif/seeded/<id>: apply the patch to /repo, run the quick check of the property it breaks (VERIF_SEED given), undo.
Writes /verif/seeded/SUMMARY.md.   usage: seed_all.py [seed]"""
import sys, os, json, subprocess, glob, re
seed = sys.argv[1] if len(sys.argv) > 1 else "0"
rows = []
for d in sorted(glob.glob("/verif/seeded/C*")):
    sid = os.path.basename(d)
    meta = json.load(open(os.path.join(d, "meta.json")))
    if meta.get("caught") is None:
        rows.append((sid, meta["breaks_property"], "neutralised by a repo fix (see meta.json)", meta["change"])); continue
    chk = meta["breaks_property"]
    pf = os.path.join(d, "patch_rebased.diff") if os.path.exists(os.path.join(d, "patch_rebased.diff")) else os.path.join(d, "patch.diff")
    if subprocess.run(["git", "-C", "/repo", "apply", "--check", pf], capture_output=True).returncode != 0:
        rows.append((sid, chk, "patch no longer applies to the current tree", meta["change"])); continue
    out = subprocess.run(["/verif/harness/seed_run.sh", sid, "quick", chk], env=dict(os.environ, VERIF_SEED=seed), capture_output=True, text=True).stdout
    m = re.search(r"rc=(\d+) :: (\d+) VIOLATION lines :: (.*?) ::", out)
    if not m:
        rows.append((sid, chk, "run failed: " + out[-200:], meta["change"])); continue
    res = "caught (%s VIOLATION lines%s)" % (m.group(2), ", no-failing-input-found" if "no-failing-input-found" in m.group(3) else "") \
        if m.group(1) == "1" and int(m.group(2)) > 0 else "MISSED (exit %s)" % m.group(1)
    rows.append((sid, chk, res, meta["change"]))
    print(sid, res, flush=True)
assert subprocess.check_output(["git", "-C", "/repo", "status", "--porcelain"]).decode().strip() == ""
with open("/verif/seeded/SUMMARY.md", "w") as fh:
    fh.write("# Seeded changes vs registered checks (quick tier, VERIF_SEED=%s, /repo at %s)\n\n" % (
        seed, subprocess.check_output(["git", "-C", "/repo", "log", "-1", "--format=%h"]).decode().strip()))
    fh.write("| id | property | result | change |\n|---|---|---|---|\n")
    for r in rows:
        fh.write("| %s | %s | %s | %s |\n" % (r[0], r[1], r[2], r[3].replace("|", "/")))
    n = sum(1 for r in rows if r[2].startswith("caught")); fh.write("\n%d of %d caught; %d neutralised/not applicable.\n" % (n, len(rows), sum(1 for r in rows if not r[2].startswith(("caught", "MISSED")))))
print(open("/verif/seeded/SUMMARY.md").read()[-200:])
