#!/bin/bash
# run every registered check once (tier $1, default quick); prints one line per check
tier=${1:-quick}
for p in $(python3 -c "import json; print(' '.join(c['property_id'] for c in json.load(open('MANIFEST.json'))['checks']))"); do
  out=$(./check $p $tier 2>&1); rc=$?
  echo "rc=$rc $(echo "$out" | grep -v KNOWN-FINDING | tail -1)"
  echo "$out" | grep "VIOLATION" | head -3
done
