import TnVerif.Model.Basic
import TnVerif.Model.Tensor
import TnVerif.Model.Arith
import TnVerif.Model.Eval
import TnVerif.Generated
import TnVerif.Model.Format
import TnVerif.Props.C01
import TnVerif.Props.C02
