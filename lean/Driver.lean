import TnVerif.Model.Basic
import TnVerif.Model.Tensor
import TnVerif.Model.Eval
import TnVerif.Model.Arith
import TnVerif.Model.Format
import TnVerif.Model.Index
import TnVerif.Model.Assign
import TnVerif.Model.Tools
import TnVerif.Model.Deriv
import TnVerif.Model.Automata
import TnVerif.Model.Anova
import TnVerif.Model.Dual
import TnVerif.Model.Ortho
import TnVerif.Model.Round
import TnVerif.Model.RoundTT
import TnVerif.Model.OrthSweep
import TnVerif.Generated
import TnVerif.Model.Maxvol
import TnVerif.Model.TTMatrix
import TnVerif.Model.Cross
import TnVerif.Model.Cat
import TnVerif.Model.Pad
import TnVerif.Model.TTMatMul
import TnVerif.Model.Stats
import TnVerif.Model.Einsum
import TnVerif.Model.DerivOps
import TnVerif.Model.PartialSet
import TnVerif.Model.Accepted
import TnVerif.Model.Sobol
import TnVerif.Model.TruncAnova
import TnVerif.Model.RectMaxvol
import TnVerif.Model.RoundTucker
import TnVerif.Model.SqueezeOps
import TnVerif.Model.Logic
import TnVerif.Model.BatchScalar
import TnVerif.Model.DimDistMask
import TnVerif.Model.OrthFull
/-
  Line-protocol driver (DESIGN §2.6).  One request per line on stdin, one answer per line on
  stdout.  Tokens are separated by blanks; numbers are integers or `p/q`.
    tensor  :=  T <N> mode*           mode := core fac
    core    :=  tt r0 s r1 v*  |  cp s r v*
    fac     :=  U rows cols v* |  N
  Answers:  `ok <payload>` or `err <kind>`.
-/
open TN

/-- scalars of the driver: dual rationals `v~d` (a plain rational is `v~0`), so that every command also
    propagates first-order tangents (C07) -/
abbrev Q := TN.Dual Rat

structure P where
  toks : Array String
  pos : Nat := 0

abbrev PM := StateT P (Except String)

def next : PM String := do
  let s ← get
  if h : s.pos < s.toks.size then
    set { s with pos := s.pos + 1 }
    return s.toks[s.pos]
  else throw "eof"

def atEnd : PM Bool := do
  let s ← get
  return s.pos ≥ s.toks.size

def pNat : PM Nat := do
  let t ← next
  match t.toNat? with
  | some n => return n
  | none => throw s!"nat expected: {t}"

def pInt : PM Int := do
  let t ← next
  match t.toInt? with
  | some n => return n
  | none => throw s!"int expected: {t}"

def parseRat (t : String) : Option Rat :=
  match t.splitOn "/" with
  | [a] => a.toInt?.map fun n => (n : Rat)
  | [a, b] => do
      let n ← a.toInt?
      let d ← b.toNat?
      if d = 0 then none else some (mkRat n d)
  | _ => none

def parseQ (t : String) : Option Q :=
  match t.splitOn "~" with
  | [a] => (parseRat a).map fun v => ⟨v, 0⟩
  | [a, b] => do
      let v ← parseRat a
      let d ← parseRat b
      some ⟨v, d⟩
  | _ => none

def pQ : PM Q := do
  let t ← next
  match parseQ t with
  | some q => return q
  | none => throw s!"number expected: {t}"

def pArr (n : Nat) : PM (Array Q) := do
  let mut a : Array Q := Array.mkEmpty n
  for _ in [0:n] do
    a := a.push (← pQ)
  return a

def arr3 (arr : Array Q) (d1 d2 d3 : Nat) : Nat → Nat → Nat → Q :=
  fun a j b => if a < d1 ∧ j < d2 ∧ b < d3 then arr.getD ((a * d2 + j) * d3 + b) 0 else 0
def arr2 (arr : Array Q) (d1 d2 : Nat) : Nat → Nat → Q :=
  fun a b => if a < d1 ∧ b < d2 then arr.getD (a * d2 + b) 0 else 0

def pCore : PM (Core Q) := do
  let k ← next
  if k == "tt" then
    let r0 ← pNat; let s ← pNat; let r1 ← pNat
    let a ← pArr (r0 * s * r1)
    return .tt r0 s r1 (arr3 a r0 s r1)
  else if k == "cp" then
    let s ← pNat; let r ← pNat
    let a ← pArr (s * r)
    return .cp s r (arr2 a s r)
  else throw s!"core expected: {k}"

def pFac : PM (Option (Fac Q)) := do
  let k ← next
  if k == "U" then
    let r ← pNat; let c ← pNat
    let a ← pArr (r * c)
    return some { rows := r, cols := c, f := arr2 a r c }
  else if k == "N" then return none
  else throw s!"factor expected: {k}"

def pTensor : PM (Tensor Q) := do
  let k ← next
  if k != "T" then throw s!"T expected: {k}"
  let n ← pNat
  let mut ms : Array (TMode Q) := #[]
  for _ in [0:n] do
    let c ← pCore
    let u ← pFac
    ms := ms.push { core := c, U := u }
  return ms.toList

def pNatList : PM (List Nat) := do
  let n ← pNat
  let mut l : Array Nat := #[]
  for _ in [0:n] do l := l.push (← pNat)
  return l.toList

def pIntList : PM (List Int) := do
  let n ← pNat
  let mut l : Array Int := #[]
  for _ in [0:n] do l := l.push (← pInt)
  return l.toList

def pOptInt : PM (Option Int) := do
  let t ← next
  if t == "_" then return none
  match t.toInt? with
  | some n => return some n
  | none => throw s!"int or _ expected: {t}"

def pKey : PM (List RawItem) := do
  let k ← next
  if k != "K" then throw s!"K expected: {k}"
  let n ← pNat
  let mut items : Array RawItem := #[]
  for _ in [0:n] do
    let t ← next
    if t == "i" then items := items.push (.int (← pInt))
    else if t == "s" then
      let a ← pOptInt; let b ← pOptInt; let c ← pOptInt
      items := items.push (.slice a b c)
    else if t == "n" then items := items.push .none
    else if t == "e" then items := items.push .ellipsis
    else if t == "a" then items := items.push (.arr (← pIntList))
    else throw s!"key item expected: {t}"
  return items.toList

def showErr : IdxErr → String
  | .outOfRange => "outOfRange" | .tooMany => "tooMany" | .twoEllipsis => "twoEllipsis"
  | .runBroken => "runBroken" | .lenMismatch => "lenMismatch" | .badStep => "badStep"

def pMat : PM (Mat Q) := do
  let k ← next
  if k != "M" then throw s!"M expected: {k}"
  let r ← pNat; let c ← pNat
  let a ← pArr (r * c)
  return { rows := r, cols := c, f := arr2 a r c }

/-! printing -/
def showRat (q : Rat) : String :=
  if q.den == 1 then toString q.num else s!"{q.num}/{q.den}"

def showQ (q : Q) : String :=
  if q.d == 0 then showRat q.v else showRat q.v ++ "~" ++ showRat q.d

def showCore : Core Q → String
  | .tt r0 s r1 f => Id.run do
      let mut out := s!"tt {r0} {s} {r1}"
      for a in [0:r0] do for j in [0:s] do for b in [0:r1] do
        out := out ++ " " ++ showQ (f a j b)
      return out
  | .cp s r f => Id.run do
      let mut out := s!"cp {s} {r}"
      for j in [0:s] do for k in [0:r] do
        out := out ++ " " ++ showQ (f j k)
      return out

def showFac : Option (Fac Q) → String
  | none => "N"
  | some U => Id.run do
      let mut out := s!"U {U.rows} {U.cols}"
      for i in [0:U.rows] do for j in [0:U.cols] do
        out := out ++ " " ++ showQ (U.f i j)
      return out

def showTensor (t : Tensor Q) : String :=
  s!"T {t.length}" ++ String.join (t.map fun m => " " ++ showCore m.core ++ " " ++ showFac m.U)

def showNats (l : List Nat) : String := s!"{l.length}" ++ String.join (l.map fun n => s!" {n}")
def showQs (l : List Q) : String := s!"{l.length}" ++ String.join (l.map fun q => " " ++ showQ q)


/-! round_tt sweep over plain rationals (the order is needed for the rank selection) -/
def modeRat (m : TMode Q) : Mode Rat :=
  let μ := m.toMode
  { rl := μ.rl, rr := μ.rr, n := μ.n, G := fun i a b => (μ.G i a b).v }

def tabMode (m : Mode Rat) : TMode Q :=
  let arr : Array Rat := Array.ofFn (n := m.rl * m.n * m.rr) fun t =>
    m.G ((t.val / m.rr) % m.n) (t.val / (m.rr * m.n)) (t.val % m.rr)
  { core := .tt m.rl m.n m.rr (fun a j b => ⟨if a < m.rl ∧ j < m.n ∧ b < m.rr then arr.getD ((a * m.n + j) * m.rr + b) 0 else 0, 0⟩),
    U := none }

/-- zero threshold of `truncated_svd`, re-extracted from round.py on every run (pinned by C04.constants_from_source) -/
def zeroThr : Rat :=
  let e := TN.Generated.floats_round_truncated_svd.getD 1 (0, 1)
  mkRat e.1 e.2

/-! commands -/
/-! `accepted_inputs`: the rounding of the counts.  `torch.round` / Python's `round` = nearest integer, ties to
    even, applied to the exact rational value (an integer is returned unchanged); a negative result is clamped
    to 0 (the commands refuse tensors with a negative entry beforehand) -/
def roundHalfEven (q : Rat) : Int :=
  let f := q.floor
  let r := q - f
  if r < 1/2 then f else if 1/2 < r then f + 1 else if f % 2 == 0 then f else f + 1

def toNatQ (q : Q) : Nat := (roundHalfEven q.v).toNat

def showRows (ncols : Nat) (rows : List (List Nat)) : String :=
  s!"R {rows.length} {ncols}" ++ String.join (rows.map fun r => String.join (r.map fun n => s!" {n}"))


/-! round_tucker sweep over plain rationals: a mode = Tucker factor (identity if absent, as the code sets `torch.eye`) + TT core -/
def tkOfTMode (m : TMode Q) : Option (TkMode Rat) :=
  match m.core with
  | .tt r0 s r1 f =>
    let core : Mode Rat := { rl := r0, rr := r1, n := s, G := fun j a b => (f a j b).v }
    match m.U with
    | none => some (TkMode.ofMode core)
    | some U => some { rows := U.rows, U := fun i j => (U.f i j).v, core := core }
  | .cp .. => none

def tkTab (m : TkMode Rat) : TMode Q :=
  let c := m.core
  let arr : Array Rat := Array.ofFn (n := c.rl * c.n * c.rr) fun t =>
    c.G ((t.val / c.rr) % c.n) (t.val / (c.rr * c.n)) (t.val % c.rr)
  let ua : Array Rat := Array.ofFn (n := m.rows * c.n) fun t => m.U (t.val / c.n) (t.val % c.n)
  { core := .tt c.rl c.n c.rr (fun a j b => ⟨if a < c.rl ∧ j < c.n ∧ b < c.rr then arr.getD ((a * c.n + j) * c.rr + b) 0 else 0, 0⟩),
    U := some { rows := m.rows, cols := c.n, f := fun i j => ⟨if i < m.rows ∧ j < c.n then ua.getD (i * c.n + j) 0 else 0, 0⟩ } }

def qrOfMats (qm rm : Mat Q) : QRAns Rat :=
  { k := qm.cols, Q := fun row c => (qm.f row c).v, Rm := fun c d => (rm.f c d).v }



/-! logic.py: the order of the driver's scalars is the order of their values (tangents play no role in comparisons) -/
instance : LT Q := ⟨fun a b => a.v < b.v⟩
instance : DecidableLT Q := fun a b => inferInstanceAs (Decidable (a.v < b.v))

/-- a literal threshold re-extracted from logic.py on every run (pinned by C15.thresholds_from_source) -/
def logicThr (l : List (Int × Nat)) : Q :=
  let e := l.getD 0 (0, 1)
  ⟨mkRat e.1 e.2, 0⟩

/-- `which`: `_` (None) or a list `k w_1 … w_k` -/
def pWhich : PM (Option (List Nat)) := do
  let s ← get
  if h : s.pos < s.toks.size then
    if s.toks[s.pos] == "_" then
      set { s with pos := s.pos + 1 }
      return none
    else return some (← pNatList)
  else throw "eof"

def showBool (b : Bool) : String := if b then "ok B 1" else "ok B 0"


def run (cmd : String) : PM String := do
  match cmd with
  | "echo" => do let t ← pTensor; return "ok " ++ showTensor t.memo
  | "info" => do
      let t ← pTensor
      return "ok shape " ++ showNats t.shape ++ " rtt " ++ showNats t.ranksTT ++ " rtk " ++ showNats t.ranksTucker
  | "dense" => do let t ← pTensor; return "ok " ++ showQs t.denseAll
  | "add" => do let t ← pTensor; let u ← pTensor; return "ok " ++ showTensor (t.add u)
  | "mul" => do let t ← pTensor; let u ← pTensor; return "ok " ++ showTensor (t.mul u)
  | "smul" => do let ρ ← pQ; let sg ← pQ; let t ← pTensor; return "ok " ++ showTensor (t.scalarMul ρ sg)
  | "sadd" => do let c ← pQ; let t ← pTensor; return "ok " ++ showTensor (t.scalarAdd c)
  | "fullrank" => do
      let shape ← pNatList
      let a ← pArr shape.prod
      return "ok " ++ showTensor (fullRankTT shape (fun k => a.getD k 0))
  | "decomp" => do let t ← pTensor; return "ok " ++ showTensor t.decompAll
  | "decompsome" => do
      let bits ← pNatList
      let t ← pTensor
      return "ok " ++ showTensor (t.decompSome (bits.map (· != 0)))
  | "tt" => do let t ← pTensor; return "ok " ++ showTensor t.tt
  | "transpose" => do let t ← pTensor; return "ok " ++ showTensor t.transpose
  | "getitem" => do
      let key ← pKey
      let t ← pTensor
      match t.getitem key with
      | .error e => return "err " ++ showErr e
      | .ok (.inl r) => return "ok " ++ showTensor r
      | .ok (.inr x) => return "ok S " ++ showQ x
  | "setitem_scalar" => do
      let c ← pQ; let key ← pKey; let t ← pTensor
      match t.setitem key (.scalar c) with
      | .error e => return "err " ++ showErr e
      | .ok r => return "ok " ++ showTensor r
  | "setitem_dense" => do
      let shape ← pNatList
      let a ← pArr shape.prod
      let key ← pKey; let t ← pTensor
      match t.setitem key (.dense shape (fun k => a.getD k 0)) with
      | .error e => return "err " ++ showErr e
      | .ok r => return "ok " ++ showTensor r
  | "setitem_tensor" => do
      let v ← pTensor; let key ← pKey; let t ← pTensor
      match t.setitem key (.tensor v) with
      | .error e => return "err " ++ showErr e
      | .ok r => return "ok " ++ showTensor r
  | "dot" => do let t ← pTensor; let u ← pTensor; return "ok S " ++ showQ (t.dot u)
  | "sumkeep" => do
      let bits ← pNatList; let t ← pTensor
      return "ok " ++ showTensor (t.sumKeep (bits.map (· != 0)))
  | "sum" => do
      let bits ← pNatList; let t ← pTensor
      match t.sum (bits.map (· != 0)) with
      | .error e => return "err " ++ showErr e
      | .ok (.inl r) => return "ok " ++ showTensor r
      | .ok (.inr x) => return "ok S " ++ showQ x
  | "flip" => do
      let bits ← pNatList; let t ← pTensor
      return "ok " ++ showTensor (t.flip (bits.map (· != 0)))
  | "cumsum" => do
      let bits ← pNatList; let t ← pTensor
      return "ok " ++ showTensor (t.cumsum (bits.map (· != 0)))
  | "pad0" => do
      let sizes ← pIntList; let t ← pTensor
      return "ok " ++ showTensor (t.pad0 (sizes.map fun z => if z < 0 then none else some z.toNat))
  | "ttm" => do
      let n ← pNat
      let mut maps : Array (Option (Nat × (Nat → Nat → Q))) := #[]
      for _ in [0:n] do
        let k ← next
        if k == "-" then maps := maps.push none
        else
          let r ← pNat; let c ← pNat
          let a ← pArr (r * c)
          maps := maps.push (some (r, arr2 a r c))
      let t ← pTensor
      return "ok " ++ showTensor (t.ttm maps.toList)
  | "partial" => do
      let d ← pNat; let order ← pNat; let c ← pQ; let per ← pNat; let t ← pTensor
      return "ok " ++ showTensor ((t.partialN d c (per != 0) order).memo)
  | "weight_one_hot" => do
      let r ← pNat; let nss ← pNatList
      return "ok " ++ showTensor (weightOneHot (R := Q) r nss)
  | "weight_mask" => do
      let W ← pNatList; let r ← pNat; let nss ← pNatList
      return "ok " ++ showTensor (weightMask (R := Q) W r nss)
  | "weight" => do
      let ns ← pNat; let n ← pNat
      return "ok " ++ showTensor (weightT (R := Q) ns n)
  | "anova" => do
      let n ← pNat
      let mut ws : Array (Nat → Q) := #[]
      for _ in [0:n] do
        let k ← pNat
        let a ← pArr k
        ws := ws.push (fun i => a.getD i 0)
      let t ← pTensor
      return "ok " ++ showTensor (t.anova ws.toList)
  | "undo_anova" => do let t ← pTensor; return "ok " ++ showTensor t.undoAnova
  | "left_orth" | "right_orth" => do
      let mu ← pNat
      let hasFac ← pNat
      let fac ← if hasFac != 0 then do let qu ← pMat; let ru ← pMat; pure (some (qu, ru)) else pure none
      let qm ← pMat; let rm ← pMat
      let t ← pTensor
      let t1 := cpToTTAll t
      let t2 := match fac with
        | some (qu, ru) => t1.atMode (TMode.factorOrth qu ru) mu
        | none => t1
      if cmd == "left_orth" then
        return "ok " ++ showTensor ((t2.atPair (leftOrthPair qm rm) mu).memo)
      else
        return "ok " ++ showTensor ((t2.atPair (rightOrthPair qm rm) (mu - 1)).memo)
  | "round_sweep" | "round_full" => do
      let eps ← pQ
      -- round_full: the orthogonalisation sweep first, with its recorded QR answers
      let mut qrs : Array (QRAns Rat) := #[]
      if cmd == "round_full" then
        let nqr ← pNat
        for _ in [0:nqr] do
          let qm ← pMat; let rm ← pMat
          qrs := qrs.push { k := qm.cols, Q := fun row c => (qm.f row c).v, Rm := fun c d => (rm.f c d).v }
      let nsteps ← pNat
      let mut answers : Array (SVDAns Rat × Nat) := #[]
      for _ in [0:nsteps] do
        let rmax ← pNat
        let u ← pMat
        let n ← pNat
        let sv ← pArr n
        let s ← pNat; let r1 ← pNat
        let vh ← pArr (n * s * r1)
        let A : SVDAns Rat := { n := n, U := fun a l => (u.f a l).v, S := fun l => (sv.getD l 0).v,
                                Vh := fun l i b => if l < n ∧ i < s ∧ b < r1 then (vh.getD ((l * s + i) * r1 + b) 0).v else 0 }
        answers := answers.push (A, rmax)
      let t ← pTensor
      -- re-materialise after the orthogonalisation sweep (closures would nest)
      let swept := (leftSweep (t.map modeRat) qrs.toList).map fun m => modeRat (tabMode m)
      let rev := swept.reverse
      match rev with
      | [] => return "err empty"
      | cur :: rest =>
        let d2 := budget2 eps.v cur rest.length
        let out := (sweepRev zeroThr d2 rev answers.toList).reverse
        return "ok " ++ showTensor (out.map tabMode)
  | "rank_select" => do
      let n ← pNat
      let a ← pArr n
      let d2 ← pQ
      let rmax ← pNat
      return s!"ok R {rankSelect (a.toList.map (·.v)) d2.v rmax}"
  | "maxvol" => do
      let r ← pNat; let n ← pNat; let tol ← pQ; let fuel ← pNat
      let a ← pArr (r * n)
      let idx ← pNatList
      let c : Nat → Nat → Rat := fun k l => if k < r ∧ l < n then (a.getD (k * n + l) 0).v else 0
      let st : MVState Rat := { C := c, idx := fun k => idx.getD k 0 }
      -- re-materialise the coefficient matrix after every swap (closures would nest)
      let mut s := st
      let mut swaps : Array (Nat × Nat) := #[]
      for _ in [0:fuel] do
        let (i, j) := argmaxAbs s.C r n
        if tol.v < absR (s.C i j) then
          let s' := mvSwap s i j
          let arr : Array Rat := Array.ofFn (n := r * n) fun t => s'.C (t.val / n) (t.val % n)
          let ids : Array Nat := Array.ofFn (n := r) fun t => s'.idx t.val
          s := { C := fun k l => if k < r ∧ l < n then arr.getD (k * n + l) 0 else 0, idx := fun k => ids.getD k 0 }
          swaps := swaps.push (i, j)
        else break
      let fin := (List.range r).map s.idx
      return "ok " ++ showNats fin ++ " swaps " ++ showNats (swaps.toList.flatMap fun p => [p.1, p.2])
  | "cross_rsets" => do
      -- levels j = 1 … N-1 of the right-to-left sweep: count R_j, R_{j+1}, then the R_j flat pivot positions
      let L ← pNat
      let mut lv : Array (Nat × Nat × (Nat → Nat)) := #[]
      for _ in [0:L] do
        let cnt ← pNat; let rr ← pNat
        let mut a : Array Nat := #[]
        for _ in [0:cnt] do a := a.push (← pNat)
        lv := lv.push (cnt, rr, fun k => a.getD k 0)
      let all := rsetsAll lv.toList
      return "ok" ++ String.join (all.map fun rows => " L " ++ s!"{rows.length}" ++ String.join (rows.map fun r => " " ++ showNats r))
  | "cross_lsets" => do
      -- levels j = 0 … N-2 of the left-to-right sweep: count R_{j+1}, I_j, then the R_{j+1} flat pivot positions
      let L ← pNat
      let mut lv : Array (Nat × Nat × (Nat → Nat)) := #[]
      for _ in [0:L] do
        let cnt ← pNat; let n ← pNat
        let mut a : Array Nat := #[]
        for _ in [0:cnt] do a := a.push (← pNat)
        lv := lv.push (cnt, n, fun k => a.getD k 0)
      let all := lsetsAll lv.toList.reverse
      return "ok" ++ String.join (all.map fun rows => " L " ++ s!"{rows.length}" ++ String.join (rows.map fun r => " " ++ showNats r))
  | "cross_eval" => do
      -- argument tensor, mode j, Ra Rb, pivots of the modes 0 … j-1 (left sweep) and j+1 … N-1 (right sweep); answer V[a,i,b] flattened
      let t ← pTensor
      let j ← pNat; let ra ← pNat; let rb ← pNat
      let ms := t.memo.modes
      let mut pre : List (Mode Q × (Nat → Nat)) := []
      for l in [0:j] do
        let cnt ← pNat
        let mut a : Array Nat := #[]
        for _ in [0:cnt] do a := a.push (← pNat)
        match ms[l]? with
        | some m => pre := (m, fun k => a.getD k 0) :: pre
        | none => throw "mode"
      let mut post : Array (Mode Q × Nat × (Nat → Nat)) := #[]
      for l in [j+1:ms.length] do
        let cnt ← pNat; let rr ← pNat
        let mut a : Array Nat := #[]
        for _ in [0:cnt] do a := a.push (← pNat)
        match ms[l]? with
        | some m => post := post.push (m, rr, fun k => a.getD k 0)
        | none => throw "mode"
      match ms[j]? with
      | none => throw "mode"
      | some m =>
        let Lf := linterface pre
        let Rf := rinterface post.toList
        -- tabulate the interfaces once
        let lt : Array Q := Array.ofFn (n := ra * m.rl) fun t => Lf (t.val / m.rl) (t.val % m.rl)
        let rt : Array Q := Array.ofFn (n := m.rr * rb) fun t => Rf (t.val / rb) (t.val % rb)
        let L' : Nat → Nat → Q := fun a p => lt.getD (a * m.rl + p) 0
        let R' : Nat → Nat → Q := fun q b => rt.getD (q * rb + b) 0
        let mut out : List Q := []
        for a in [0:ra] do for i in [0:m.n] do for b in [0:rb] do
          out := evalPoint L' m R' a i b :: out
        return "ok " ++ showQs out.reverse
  | "cat" => do
      let k ← pNat; let dim ← pInt
      let mut ts : Array (Tensor Q) := #[]
      for _ in [0:k] do ts := ts.push (← pTensor)
      match Tensor.cat ts.toList dim with
      | .error e => return "err " ++ (match e with
          | .empty => "empty" | .dimRange => "dimRange" | .modes => "modes" | .shape => "shape")
      | .ok r => return "ok " ++ showTensor r
  | "cat2" => do
      let dim ← pNat; let t ← pTensor; let u ← pTensor
      return "ok " ++ showTensor (t.cat2 u dim)
  | "padc" => do
      let sizes ← pIntList; let ρ ← pQ; let sg ← pQ; let t ← pTensor
      return "ok " ++ showTensor (t.padC (sizes.map fun z => if z < 0 then none else some z.toNat) ρ sg)
  | "kron_ok" => do
      let ranks ← pNatList; let ind ← pNatList; let outd ← pNatList
      return "ok B " ++ (if kronOK ranks ind outd then "1" else "0")
  | "pair_split" => do
      let is ← pNatList; let js ← pNatList; let os ← pNatList
      let p := pairIdx is js os
      let (a, b) := splitIdx p os
      return "ok " ++ showNats p ++ " | " ++ showNats a ++ " | " ++ showNats b
  | "tt_trace" | "tt_matvec" | "tt_dense" => do
      -- TT matrix: <N> then per core `rl inD outD rr` and its rl*inD*outD*rr entries (row-major, numpy reshape(-1))
      let n ← pNat
      let mut cores : Array (Core4 Q) := #[]
      for _ in [0:n] do
        let rl ← pNat; let i ← pNat; let o ← pNat; let rr ← pNat
        let a ← pArr (rl * i * o * rr)
        let f : Nat → Nat → Nat → Nat → Q := fun p q r t =>
          if p < rl ∧ q < i ∧ r < o ∧ t < rr then a.getD (((p * i + q) * o + r) * rr + t) 0 else 0
        cores := cores.push ⟨rl, i, o, rr, f⟩
      let m : TTMat Q := cores.toList
      if cmd == "tt_trace" then return "ok S " ++ showQ m.trace
      else if cmd == "tt_dense" then
        -- the matrix `torch()` returns, row-major
        let rows := m.inDims.prod; let cols := m.outDims.prod
        return "ok " ++ showQs ((List.range (rows * cols)).map fun t => m.torch (t / cols) (t % cols))
      else
        -- then <nb> and the nb*rows entries of the batch of row vectors (row-major)
        let nb ← pNat
        let x ← pArr (nb * m.inDims.prod)
        let res := m.multiply nb (fun k => x.getD k 0)
        return "ok " ++ showQs ((List.range (nb * m.outDims.prod)).map res)
  | "kron_det" => do
      -- <N> then per block its size and its determinant: the loop of TTMatrix.determinant
      let n ← pNat
      let mut bl : Array (Nat × Q) := #[]
      for _ in [0:n] do
        let k ← pNat; let d ← pQ
        bl := bl.push (k, d)
      return "ok S " ++ showQ (kronDet bl.toList)
  | "cp_matvec" | "cp_dense" => do
      -- CP matrix: <N> then per core `inD outD rank` and its inD*outD*rank entries (row-major); then <nb> and the vectors
      let n ← pNat
      let mut cores : Array (Core3 Q) := #[]
      for _ in [0:n] do
        let i ← pNat; let o ← pNat; let rk ← pNat
        let a ← pArr (i * o * rk)
        let f : Nat → Nat → Nat → Q := fun q r t =>
          if q < i ∧ r < o ∧ t < rk then a.getD ((q * o + r) * rk + t) 0 else 0
        cores := cores.push ⟨i, o, rk, f⟩
      let m : CPMat Q := cores.toList
      if cmd == "cp_dense" then
        let rows := m.inDims.prod; let cols := m.outDims.prod
        return "ok " ++ showQs ((List.range (rows * cols)).map fun t => m.torch (t / cols) (t % cols))
      let nb ← pNat
      let x ← pArr (nb * m.inDims.prod)
      let res := m.multiply nb (fun k => x.getD k 0)
      return "ok " ++ showQs ((List.range (nb * m.outDims.prod)).map res)
  | "mean" => do
      let bits ← pNatList; let t ← pTensor
      let showStatErr : StatErr → String := fun e =>
        match e with | .zeroDivision => "zeroDivision" | .assertLen => "assertLen" | .idx e => showErr e
      match t.mean (bits.map (· != 0)) with
      | .error e => return "err " ++ showStatErr e
      | .ok (.inl r) => return "ok " ++ showTensor r
      | .ok (.inr x) => return "ok S " ++ showQ x
  | "meankeep" => do
      let bits ← pNatList; let t ← pTensor
      match t.meanKeep (bits.map (· != 0)) with
      | .error .zeroDivision => return "err zeroDivision"
      | .error _ => return "err other"
      | .ok r => return "ok " ++ showTensor r
  | "mean_marg" => do
      let bits ← pNatList; let keep ← pNat
      let n ← pNat
      let mut ws : Array (Option (Nat × (Nat → Q))) := #[]
      for _ in [0:n] do
        let k ← next
        if k == "-" then ws := ws.push none
        else
          match k.toNat? with
          | none => throw s!"nat or - expected: {k}"
          | some len =>
            let a ← pArr len
            ws := ws.push (some (len, fun i => a.getD i 0))
      let t ← pTensor
      if keep != 0 then return "ok " ++ showTensor (t.meanMargKeep (bits.map (· != 0)) ws.toList)
      match t.meanMarg (bits.map (· != 0)) ws.toList with
      | .error e => return "err " ++ showErr e
      | .ok (.inl r) => return "ok " ++ showTensor r
      | .ok (.inr x) => return "ok S " ++ showQ x
  | "var" => do
      let t ← pTensor
      match t.var with
      | .error .zeroDivision => return "err zeroDivision"
      | .error .assertLen => return "err assertLen"
      | .error (.idx e) => return "err " ++ showErr e
      | .ok x => return "ok S " ++ showQ x
  | "var_marg" => do
      let n ← pNat
      let mut ws : Array (Nat × (Nat → Q)) := #[]
      for _ in [0:n] do
        let len ← pNat
        let a ← pArr len
        ws := ws.push (len, fun i => a.getD i 0)
      let t ← pTensor
      match t.varMarg ws.toList with
      | .error .zeroDivision => return "err zeroDivision"
      | .error .assertLen => return "err assertLen"
      | .error (.idx e) => return "err " ++ showErr e
      | .ok x => return "ok S " ++ showQ x
  | "einsum" => do
      -- einsum <equation> <k> (<letter> <size>)*k <nops> <operand values, flat row-major>…   (C18, Model/Einsum.lean)
      let eq ← next
      let s := TN.Einsum.parse eq
      if !s.wf then throw "badEquation"
      let k ← pNat
      let mut dl : List (Char × Nat) := []
      for _ in [0:k] do
        let t ← next
        let n ← pNat
        match t.toList with
        | [c] => dl := (c, n) :: dl
        | _ => throw s!"letter expected: {t}"
      for c in s.letters do
        if (dl.lookup c).isNone then throw s!"noSize {c}"
      let dims : Char → Nat := fun c => (dl.lookup c).getD 0
      let nops ← pNat
      if nops != s.ins.length then throw "operandCount"
      let mut ops : Array (List Nat → Q) := #[]
      for l in s.ins do
        let a ← pArr ((l.map dims).prod)
        ops := ops.push (TN.Einsum.ofFlat dims l (fun i => a.getD i 0))
      return "ok " ++ showQs (TN.Einsum.evalAll s dims ops.toList)
  | "partial_list" => do
      -- partial_list <order> <k> (<d> <c> <per>)^k <tensor>
      let order ← pNat; let k ← pNat
      let mut specs : Array (Nat × Q × Bool) := #[]
      for _ in [0:k] do
        let d ← pNat; let c ← pQ; let per ← pNat
        specs := specs.push (d, c, per != 0)
      let t ← pTensor
      return "ok " ++ showTensor ((t.partialList order specs.toList).memo)
  | "gradient" => do
      -- gradient <k> (<d> <c>)^k <tensor>
      let k ← pNat
      let mut specs : Array (Nat × Q) := #[]
      for _ in [0:k] do
        let d ← pNat; let c ← pQ
        specs := specs.push (d, c)
      let t ← pTensor
      let gs := t.gradient specs.toList
      return s!"ok L {gs.length}" ++ String.join (gs.map fun g => " " ++ showTensor g.memo)
  | "laplacian" => do
      -- laplacian <n> <c>^n <tensor>
      let n ← pNat; let cs ← pArr n; let t ← pTensor
      match t.laplacian cs.toList with
      | some r => return "ok " ++ showTensor r.memo
      | none => return "err assert"
  | "divergence" => do
      -- divergence <n> <c>^n <N> <tensor>^N
      let n ← pNat; let cs ← pArr n; let N ← pNat
      let mut ts : Array (Tensor Q) := #[]
      for _ in [0:N] do ts := ts.push (← pTensor)
      match divergence ts.toList cs.toList with
      | some r => return "ok " ++ showTensor r.memo
      | none => return "err assert"
  | "curl" => do
      -- curl <n> <c>^n <N> <tensor>^N
      let n ← pNat; let cs ← pArr n; let N ← pNat
      let mut ts : Array (Tensor Q) := #[]
      for _ in [0:N] do ts := ts.push (← pTensor)
      match curl ts.toList cs.toList with
      | some rs => return s!"ok L {rs.length}" ++ String.join (rs.map fun g => " " ++ showTensor g.memo)
      | none => return "err assert"
  | "stencil_steps" => do
      -- stencil_steps <per> <c> <n> <x>^n : one fibre through the code's own steps
      let per ← pNat; let c ← pQ; let n ← pNat; let x ← pArr n
      let f : Nat → Q := fun j => x.getD j 0
      let out := (List.range n).map (if per != 0 then stencilStepsPer n c f else stencilStepsNP n c f)
      return "ok " ++ showQs out
  | "partialset" => do
      -- partialset <m> <order>^m <n> <c>^n <0|1> [<mask tensor>] <tensor>
      let order ← pNatList
      let n ← pNat; let cs ← pArr n
      let hasMask ← pNat
      let um ← if hasMask != 0 then do let u ← pTensor; pure (some u) else pure none
      let t ← pTensor
      match t.partialset order cs.toList um with
      | some r => return "ok " ++ showTensor r.memo
      | none => return "err raise"
  | "partial_stack" => do
      -- partial_stack <k> <n> <c>^n <tensor> : the stacked tensor `d` before masking
      let k ← pNat; let n ← pNat; let cs ← pArr n; let t ← pTensor
      match t.partialStack cs.toList k with
      | some r => return "ok " ++ showTensor r.memo
      | none => return "err raise"
  | "accepted" | "accepted_arr" => do
      let t ← pTensor
      if t.denseAll.any (fun q => q.v < 0) then return "err negative"
      let r := if cmd == "accepted" then t.acceptedInputs toNatQ else t.acceptedInputsArr toNatQ
      match r with
      | none => return "err boundary"
      | some rows => return "ok " ++ showRows t.length rows
  | "accepted_rights" => do
      let t ← pTensor
      let t := t.tt
      let sizes := t.map (·.core.rl) ++ [1]
      let vs := (rightsList t).zip sizes
      return s!"ok V {vs.length}" ++ String.join (vs.map fun (f, n) => " " ++ showQs ((List.range n).map f.get))
  | "accepted_total" => do
      let t ← pTensor
      let x := sumAllTT t.tt
      return "ok S " ++ showQ x ++ s!" N {toNatQ x}"
  | "sobol" | "mean_dimension" | "dimension_distribution" => do
      -- sobol <normalize> <ρ> <sgn> <ρ2> <sgn2> <N> (<len> w.. | -)*N <tensor> <mask>
      -- mean_dimension <ρ> <sgn> <N> marginals <tensor>
      -- dimension_distribution <order> <ρ> <sgn> <ρ2> <sgn2> <N> marginals <tensor>
      let norm ← if cmd == "sobol" then pNat else pure 1
      let order ← if cmd == "dimension_distribution" then pNat else pure 0
      let ρ ← pQ; let sg ← pQ
      let ρ2 ← if cmd == "mean_dimension" then pure ρ else pQ
      let sg2 ← if cmd == "mean_dimension" then pure sg else pQ
      let n ← pNat
      let mut ws : Array (Option (Nat → Q)) := #[]
      for _ in [0:n] do
        let k ← next
        if k == "-" then ws := ws.push none
        else
          match k.toNat? with
          | none => throw s!"nat or - expected: {k}"
          | some len =>
            let a ← pArr len
            ws := ws.push (some (fun i => a.getD i 0))
      let t ← pTensor
      if cmd == "mean_dimension" then
        match t.memo.meanDimension ws.toList ρ sg with
        | .error e => return "err " ++ showErr e
        | .ok x => return "ok S " ++ showQ x
      if cmd == "dimension_distribution" then
        match t.memo.dimensionDistribution order ws.toList ρ sg ρ2 sg2 with
        | .error e => return "err " ++ showErr e
        | .ok l => return "ok L " ++ showQs l
      let mask ← pTensor
      match t.memo.sobol mask.memo ws.toList (norm != 0) ρ sg ρ2 sg2 with
      | .error e => return "err " ++ showErr e
      | .ok (.inl r) => return "ok " ++ showTensor r
      | .ok (.inr x) => return "ok S " ++ showQ x
  | "truncate_anova" | "truncate_anova_whole" => do
      -- truncate_anova <keepdim 0|1> <n> (<k> <w>^k)^n <mask tensor> <tensor> : marginals as in `anova`.
      -- `truncate_anova` runs the steps of `Tensor.truncateAnova` one by one, tabulating every intermediate tensor;
      -- `truncate_anova_whole` calls `Tensor.truncateAnova` itself (same answer, slower: nested closures)
      let keep ← pNat
      let n ← pNat
      let mut ws : Array (Nat → Q) := #[]
      for _ in [0:n] do
        let k ← pNat
        let a ← pArr k
        ws := ws.push (fun i => a.getD i 0)
      let mask ← pTensor
      let t ← pTensor
      let mask := mask.memo
      let t := t.memo
      if mask.length != t.length then return "err dim"
      if keep == 0 && mask.denseAll.any (fun q => q.v < -1/2) then return "err negative"
      let res :=
        if cmd == "truncate_anova_whole" then t.truncateAnova toNatQ mask (keep != 0) ws.toList
        else
          let a := (t.anova ws.toList).memo
          let am := (a.maskWith (anovaIdxs t.shape) mask).memo
          let u := am.undoAnova.memo
          if keep != 0 then some (.inl u) else Tensor.truncateAnovaSqueeze toNatQ mask u
      match res with
      | none => return "err raise"
      | some (.inl r) => return "ok " ++ showTensor r.memo
      | some (.inr x) => return "ok S " ++ showQ x
  | "rect_maxvol" => do
      -- rect_maxvol N r tol maxK min_add_K minK identity(0/1) top_k_index  <tmp_index: count then entries>  <C0: N*r entries, row-major>
      -- optional ints: an integer or `none`
      let n ← pNat; let r ← pNat; let tol ← pQ
      let pOpt : PM (Option Int) := do
        let t ← next
        if t == "none" then return none
        match t.toInt? with
        | some v => return some v
        | none => throw s!"int or none expected: {t}"
      let maxK ← pOpt; let minAddK ← pOpt; let minK ← pOpt
      let ident ← pNat
      let topK ← pInt
      let idx ← pNatList
      let a ← pArr (n * r)
      let ids : Array Nat := idx.toArray
      let c0 : Nat → Nat → Rat := fun l k => if l < n ∧ k < r then (a.getD (l * r + k) 0).v else 0
      match pyRectMaxvol n r tol.v maxK minAddK minK (ident != 0) topK (fun k => ids.getD k 0) c0 with
      | none => return "err ValueError"
      | some res =>
        let cs : List Q := (List.range n).flatMap fun l => (List.range res.K).map fun k => (⟨res.C.get l k, 0⟩ : Q)
        return "ok K " ++ s!"{res.K}" ++ " idx " ++ showNats res.index ++ " C " ++ showQs cs
  | "round_tucker_sweep" => do
      -- the loop of `Tensor.round_tucker` on the state after `orthogonalize(-1)`, with the recorded kernel answers of every iteration
      let eps ← pQ
      let nsteps ← pNat
      let mut answers : Array (TkAns Rat × Nat) := #[]
      for _ in [0:nsteps] do
        let rmax ← pNat
        let q1 ← pMat; let r1 ← pMat
        let u ← pMat
        let n ← pNat
        let sv ← pArr n
        let vh ← pMat
        let qf ← pMat; let rf ← pMat
        let q2 ← pMat; let r2 ← pMat
        let B : SVDAns Rat := { n := n, U := fun a l => (u.f a l).v, S := fun l => (sv.getD l 0).v, Vh := fun l j _ => (vh.f l j).v }
        answers := answers.push ({ qr := qrOfMats q1 r1, svd := B, fq := qrOfMats qf rf, rq := qrOfMats q2 r2 }, rmax)
      let t ← pTensor
      match t.mapM tkOfTMode with
      | none => return "err cp_core"
      | some ms =>
        let out := roundTuckerSem zeroThr eps.v ms answers.toList
        return "ok " ++ showTensor (out.map tkTab)
  | "squeeze" | "unsqueeze" | "unbind" => do
      -- squeeze (_ | <k> <d>^k) <tensor>   (tn.squeeze(t) / tn.squeeze(t, dim) with dim an int (k = 1) or a list)
      -- unsqueeze <k> <d>^k <tensor>       (tn.unsqueeze(t, dim))
      -- unbind <dim> <tensor>              (tn.unbind(t, dim))
      let showSqErr : SqErr → String := fun e =>
        match e with | .index => "index" | .assertion => "assertion" | .key e => showErr e
      let showItem : Tensor Q ⊕ Q → String := fun r =>
        match r with | .inl v => showTensor v | .inr x => "S " ++ showQ x
      if cmd == "unbind" then
        let dim ← pInt; let t ← pTensor
        match t.memo.unbind dim with
        | .error e => return "err " ++ showSqErr e
        | .ok rs => return s!"ok L {rs.length}" ++ String.join (rs.map fun r => " " ++ showItem r)
      else
        let dims ← if cmd == "squeeze" then do
            let s ← get
            if s.toks[s.pos]? == some "_" then do let _ ← next; pure none else do let l ← pIntList; pure (some l)
          else do let l ← pIntList; pure (some l)
        let t ← pTensor
        let r := if cmd == "squeeze" then t.squeeze dims else t.unsqueeze (dims.getD [])
        match r with
        | .error e => return "err " ++ showSqErr e
        | .ok r => return "ok " ++ showItem r
  | "logic_helper" => do
      let name ← next; let N ← pNat
      match name with
      | "true" => return "ok " ++ showTensor (logicTrue (R := Q) N)
      | "false" => return "ok " ++ showTensor (logicFalse (R := Q) N)
      | "all" => do let w ← pWhich; return "ok " ++ showTensor (logicAll (R := Q) N w)
      | "none" => do let w ← pWhich; return "ok " ++ showTensor (logicNone (R := Q) N w)
      | "any" => do let w ← pWhich; return "ok " ++ showTensor (logicAny (R := Q) N w)
      | "one" => do let w ← pWhich; return "ok " ++ showTensor (logicOne (R := Q) N w)
      | "presence" | "absence" => do
          let w ← pIntList
          match (if name == "presence" then logicPresence (R := Q) N w else logicAbsence (R := Q) N w) with
          | .ok t => return "ok " ++ showTensor t
          | .error e => return "err " ++ showErr e
      | _ => throw s!"unknown helper {name}"
  | "lnot" => do let t ← pTensor; return "ok " ++ showTensor t.lnot
  | "land" => do let t ← pTensor; let u ← pTensor; return "ok " ++ showTensor (t.land u)
  | "lor" => do let t ← pTensor; let u ← pTensor; return "ok " ++ showTensor (t.lor u)
  | "lxor" => do let ρ ← pQ; let t ← pTensor; let u ← pTensor; return "ok " ++ showTensor (t.lxor ρ u)
  | "mask" => do let t ← pTensor; let m ← pTensor; return "ok " ++ showTensor (t.maskWith (t.shape.map List.range) m)
  | "relnormsq" => do
      let n ← pNat; let t ← pTensor
      match t.memo.logicRelNormsq n with
      | .ok x => return "ok S " ++ showQ x
      | .error e => return "err " ++ showErr e
  | "relevant" | "irrelevant" => do
      let t ← pTensor
      let thr := logicThr TN.Generated.floats_logic_relevant_symbols
      match (if cmd == "relevant" then t.memo.relevantSymbols thr else t.memo.irrelevantSymbols thr) with
      | .ok l => return "ok L " ++ showNats l
      | .error e => return "err " ++ showErr e
  | "only" => do
      let t ← pTensor
      match t.memo.only (logicThr TN.Generated.floats_logic_relevant_symbols) with
      | .ok u => return "ok " ++ showTensor u
      | .error e => return "err " ++ showErr e
  | "predicate" => do
      let name ← next
      match name with
      | "is_tautology" => do
          let t ← pTensor; return showBool (t.memo.isTautology (logicThr TN.Generated.floats_logic_is_tautology))
      | "is_contradiction" => do
          let t ← pTensor; return showBool (t.memo.isContradiction (logicThr TN.Generated.floats_logic_is_contradiction))
      | "is_satisfiable" => do
          let t ← pTensor
          match t.memo.isSatisfiable (logicThr TN.Generated.floats_logic_is_satisfiable) with
          | .ok b => return showBool b
          | .error e => return "err " ++ showErr e
      | "implies" => do
          let t ← pTensor; let u ← pTensor
          return showBool (t.memo.limplies (logicThr TN.Generated.floats_logic_is_contradiction) u.memo)
      | "equiv" => do
          let t ← pTensor; let u ← pTensor
          return showBool (t.memo.lequiv (logicThr TN.Generated.floats_logic_is_contradiction) u.memo)
      | _ => throw s!"unknown predicate {name}"
  | "dimdist_mask" => do
      -- dimdist_mask <order> <ρ> <sgn> <ρ2> <sgn2> <N> (<len> w.. | -)*N <tensor> <mask>
      let order ← pNat
      let ρ ← pQ; let sg ← pQ
      let ρ2 ← pQ; let sg2 ← pQ
      let n ← pNat
      let mut ws : Array (Option (Nat → Q)) := #[]
      for _ in [0:n] do
        let k ← next
        if k == "-" then ws := ws.push none
        else
          match k.toNat? with
          | none => throw s!"nat or - expected: {k}"
          | some len =>
            let a ← pArr len
            ws := ws.push (some (fun i => a.getD i 0))
      let t ← pTensor
      let mask ← pTensor
      match t.memo.dimensionDistributionMask mask.memo order ws.toList ρ sg ρ2 sg2 with
      | .error e => return "err " ++ showErr e
      | .ok l => return "ok L " ++ showQs l
  -- batch tensors (Model/BatchScalar.lean): a batch is `<B>` followed by B tensors (the batch elements, same format);
  -- the answer is `ok <B> <tensor_0> … <tensor_{B-1}>`
  | "smul_b" => do
      let ρ ← pQ; let sg ← pQ; let nb ← pNat
      let mut xs : Array (Tensor Q) := #[]
      for _ in [0:nb] do xs := xs.push (← pTensor)
      let r := smulB ρ sg xs.toList
      return s!"ok {r.length}" ++ String.join (r.map fun t => " " ++ showTensor t)
  | "sadd_b" => do
      let c ← pQ; let nb ← pNat
      let mut xs : Array (Tensor Q) := #[]
      for _ in [0:nb] do xs := xs.push (← pTensor)
      let r := saddB c xs.toList
      return s!"ok {r.length}" ++ String.join (r.map fun t => " " ++ showTensor t)
  | "neg_b" => do
      let nb ← pNat
      let mut xs : Array (Tensor Q) := #[]
      for _ in [0:nb] do xs := xs.push (← pTensor)
      let r := negB xs.toList
      return s!"ok {r.length}" ++ String.join (r.map fun t => " " ++ showTensor t)
  | "ssub_b" => do
      let c ← pQ; let nb ← pNat
      let mut xs : Array (Tensor Q) := #[]
      for _ in [0:nb] do xs := xs.push (← pTensor)
      let r := ssubB c xs.toList
      return s!"ok {r.length}" ++ String.join (r.map fun t => " " ++ showTensor t)
  | "rsub_b" => do
      let c ← pQ; let nb ← pNat
      let mut xs : Array (Tensor Q) := #[]
      for _ in [0:nb] do xs := xs.push (← pTensor)
      let r := rsubB c xs.toList
      return s!"ok {r.length}" ++ String.join (r.map fun t => " " ++ showTensor t)
  | "orth_full" => do
      -- orth_full <mu:int> <nL> <nR> then nL+nR answers `<hasFac> [M qu M ru] M q M r` in call order (left steps, then right steps), then T
      let mu ← pInt
      let nL ← pNat; let nR ← pNat
      let mut asL : Array (OrthAns Q) := #[]
      let mut asR : Array (OrthAns Q) := #[]
      for k in [0:nL + nR] do
        let hasFac ← pNat
        let fac ← if hasFac != 0 then do let qu ← pMat; let ru ← pMat; pure (some (qu, ru)) else pure none
        let qm ← pMat; let rm ← pMat
        let A : OrthAns Q := { fac := fac, Q := qm, Rm := rm }
        if k < nL then asL := asL.push A else asR := asR.push A
      let t ← pTensor
      match t.orthFullInt mu asL.toList asR.toList with
      | some r => return "ok " ++ showTensor r.memo
      | none => return "err range"
  | _ => throw s!"unknown command {cmd}"

def handle (line : String) : String :=
  let toks := (line.splitOn " ").filter (· ≠ "") |>.toArray
  if toks.size = 0 then "err empty" else
  match (do let c ← next; let r ← run c; return r : PM String).run { toks := toks } with
  | .ok (s, _) => s
  | .error e => "err " ++ e

partial def loop (h : IO.FS.Stream) (out : IO.FS.Stream) : IO Unit := do
  let line ← h.getLine
  if line.isEmpty then return ()
  let l := line.trimAscii.toString
  out.putStrLn (handle l)
  out.flush
  loop h out

def main : IO Unit := do
  loop (← IO.getStdin) (← IO.getStdout)
