import TnVerif.Lemmas.SobolOpen
/-!
  Helper lemmas for the `mask is not None` branch of `tn.dimension_distribution` (Model/DimDistMask.lean):
  the product `tn.mask(weight_one_hot, mask)` of a tensor with an open trailing bond and a closed mask.
-/
namespace TN
variable {R : Type}
open Finset

section
variable [CommRing R]

/-- a tensor with an open trailing bond times a closed tensor: position `k` of the bond of the product is position `k`
    of the first operand times the entry of the second -/
theorem dimdistmask_openVal_mul (x mk : Tensor R) (hx : x.WF) (hk : mk.WF) (hs : x.shape = mk.shape)
    (hr : sobolLastRR mk = 1) (idx : List Nat) (hil : idx.length = x.length) (k : Nat) :
    sobolOpenVal (x.mul mk) idx k = sobolOpenVal x idx k * mk.dense idx := by
  cases x with
  | nil => exact absurd hx (by simp [Tensor.WF])
  | cons y ys =>
  cases mk with
  | nil => exact absurd hk (by simp [Tensor.WF])
  | cons z zs =>
  have hzok := Tensor.WFfrom_ok _ _ hk
  have hzip := sobol_mul_eq_zip (y :: ys) (z :: zs) hs
  have hmodes : Tensor.modes (mulMode y z :: List.zipWith mulMode ys zs)
      = mulT (Tensor.modes (y :: ys)) (Tensor.modes (z :: zs)) := by
    have := modes_zipWith_mulMode (y :: ys) (z :: zs) hzok
    simpa using this
  have hcM : compat (Tensor.modes (y :: ys)) (Tensor.modes (z :: zs)) := compat_modes _ _ hs
  have hrl : (mulMode y z).core.rl = y.core.rl * z.core.rl := mulMode_rl y z (hzok z (by simp))
  have hlen : idx.length = (z :: zs).length := by
    have := congrArg List.length hs; rw [shape_length, shape_length] at this; rw [hil, this]
  rw [hzip]
  simp only [List.zipWith_cons_cons, sobolOpenVal]
  rw [hmodes, hrl]
  have hout : outRank z.core.rl (Tensor.modes (z :: zs)) = 1 := by rw [sobol_outRank_lastRR, hr]
  have e : ∀ b' ∈ range (y.core.rl * z.core.rl),
      chainMat (mulT (Tensor.modes (y :: ys)) (Tensor.modes (z :: zs))) idx b' k
        = chainMat (Tensor.modes (y :: ys)) idx (b' / z.core.rl) k
          * chainMat (Tensor.modes (z :: zs)) idx (b' % z.core.rl) 0 := by
    intro b' _
    rw [sobol_chainMat_mul _ _ idx y.core.rl z.core.rl (wf_modes _ _ hx) (wf_modes _ _ hk) hcM, hout, Nat.div_one,
      Nat.mod_one]
  rw [Finset.sum_congr rfl e,
    sum_range_mul y.core.rl z.core.rl
      (fun b1 b2 => chainMat (Tensor.modes (y :: ys)) idx b1 k * chainMat (Tensor.modes (z :: zs)) idx b2 0),
    ← Finset.sum_mul_sum]
  congr 1
  simp only [Tensor.dense, dense, Tensor.modes, List.map_cons, sumTo_eq, TMode.toMode_rl]
  apply Finset.sum_congr rfl; intro b hb
  have := tail_eq_chainMat (Tensor.modes (z :: zs)) z.core.rl idx b (wf_modes _ _ hk) (Finset.mem_range.mp hb)
    (by simpa [Tensor.modes] using hlen)
  rw [hout, Finset.sum_range_one] at this
  simpa [Tensor.modes] using this.symm

/-- the trailing bond of a product is the product of the trailing bonds -/
theorem dimdistmask_lastRR_mul (x mk : Tensor R) (hx : x.WF) (hk : mk.WF) (hs : x.shape = mk.shape) :
    sobolLastRR (x.mul mk) = sobolLastRR x * sobolLastRR mk := by
  cases x with
  | nil => exact absurd hx (by simp [Tensor.WF])
  | cons y ys =>
  cases mk with
  | nil => exact absurd hk (by simp [Tensor.WF])
  | cons z zs =>
  have hzok := Tensor.WFfrom_ok _ _ hk
  have hzip := sobol_mul_eq_zip (y :: ys) (z :: zs) hs
  have hmodes : Tensor.modes (mulMode y z :: List.zipWith mulMode ys zs)
      = mulT (Tensor.modes (y :: ys)) (Tensor.modes (z :: zs)) := by
    have := modes_zipWith_mulMode (y :: ys) (z :: zs) hzok
    simpa using this
  have hcM : compat (Tensor.modes (y :: ys)) (Tensor.modes (z :: zs)) := compat_modes _ _ hs
  have hrl : (mulMode y z).core.rl = y.core.rl * z.core.rl := mulMode_rl y z (hzok z (by simp))
  rw [hzip]
  simp only [List.zipWith_cons_cons]
  rw [← sobol_outRank_lastRR _ _ (mulMode y z).core.rl, hmodes, hrl, sobol_outRank_mul _ _ _ _ hcM,
    sobol_outRank_lastRR, sobol_outRank_lastRR]

end

section
variable [Zero R] [One R] [Add R] [Mul R]

omit [One R] in
/-- `__mul__` on a mode whose first operand is a 3-D core without factor gives a 3-D core -/
theorem dimdistmask_mulMode_notCP (x y : TMode R) (hx : x.U = Option.none ∧ x.core.isCP = false) :
    (mulMode x y).core.isCP = false := by
  obtain ⟨h1, h2⟩ := hx
  unfold mulMode
  rw [h1]
  simp only [mulPlain, h2, Bool.false_and]
  rfl

omit [One R] in
theorem dimdistmask_zip_notCP : ∀ (t u : Tensor R), (∀ m ∈ t, m.U = Option.none ∧ m.core.isCP = false) →
    ∀ m ∈ List.zipWith mulMode t u, m.core.isCP = false := by
  intro t
  induction t with
  | nil => intro u _ m hm; simp at hm
  | cons x xs ih =>
    intro u h m hm
    cases u with
    | nil => simp at hm
    | cons y ys =>
      simp only [List.zipWith_cons_cons, List.mem_cons] at hm
      rcases hm with rfl | hm
      · exact dimdistmask_mulMode_notCP x y (h x (by simp))
      · exact ih ys (fun m hm => h m (by simp [hm])) m hm

omit [Add R] [Mul R] in
/-- every core of `tn.weight_one_hot` is 3-D and carries no factor -/
theorem dimdistmask_oneHot_plain (r : Nat) (nss : List Nat) :
    ∀ m ∈ weightOneHot (R := R) r nss, m.U = Option.none ∧ m.core.isCP = false := by
  intro m hm
  cases nss with
  | nil => simp [weightOneHot] at hm
  | cons ns rest =>
    simp only [weightOneHot, List.mem_cons, List.mem_map] at hm
    rcases hm with rfl | ⟨a, _, rfl⟩
    · exact ⟨rfl, rfl⟩
    · exact ⟨rfl, rfl⟩

omit [Zero R] [One R] [Add R] [Mul R] in
/-- a tensor whose last core is 3-D with trailing rank `> 1` has an open bond (anova.py:149) -/
theorem dimdistmask_openBond_of (t : Tensor R) (hne : t ≠ []) (hcp : ∀ m ∈ t, m.core.isCP = false)
    (hr : 1 < sobolLastRR t) : t.sobolOpenBond = true := by
  unfold Tensor.sobolOpenBond
  unfold sobolLastRR at hr
  cases hl : t.getLast? with
  | none => rw [List.getLast?_eq_none_iff] at hl; exact absurd hl hne
  | some m =>
    rw [hl] at hr
    have hm : m ∈ t := List.mem_of_getLast? hl
    simp [hcp m hm, hr]

end
end TN
