import TnVerif.Model.Einsum
/-! Lemmas about the einsum semantics (`Model/Einsum.lean`): the batch lift acts slice by slice
    (`eval_lift`, `eval_liftMask`), `strip` inverts `lift`, and evaluation is invariant under renaming of the
    letters (`eval_rename`, `eval_alphaNorm`).  Core Lean only (no big operators are needed: the two sides are
    the same iterated `sumTo` with pointwise equal summands). -/
namespace TN.Einsum
variable {R : Type}

/-! ### `dedup` -/

theorem mem_dedup (c : Char) (l : List Char) : c ∈ dedup l ↔ c ∈ l := by
  induction l with
  | nil => simp [dedup]
  | cons x xs ih =>
    simp only [dedup, List.mem_cons, List.mem_filter, ih, decide_eq_true_eq]
    by_cases h : c = x <;> simp [h]

theorem filter_dedup (p : Char → Bool) (l : List Char) : (dedup l).filter p = dedup (l.filter p) := by
  induction l with
  | nil => simp [dedup]
  | cons c cs ih =>
    by_cases hp : p c = true
    · simp only [dedup, List.filter_cons, hp, if_true]
      rw [List.filter_filter, ← ih, List.filter_filter]
      congr 1
      apply List.filter_congr
      intro x _
      exact Bool.and_comm _ _
    · simp only [dedup, List.filter_cons, hp]
      rw [List.filter_filter, show (fun a => p a && decide (a ≠ c)) = (fun a => decide (a ≠ c) && p a) from
        funext fun a => Bool.and_comm _ _, ← List.filter_filter, ih]
      apply List.filter_eq_self.mpr
      intro x hx
      have hx' := (mem_dedup x _).mp hx
      have := (List.mem_filter.mp hx').2
      simp only [decide_eq_true_eq]
      intro hxc
      exact hp (hxc ▸ this)

/-! ### environments that differ only at the batch letter -/

/-- `e` is `e'` with the batch letter `β` bound to `b` -/
def Rel (β : Char) (b : Nat) (e e' : Char → Nat) : Prop := e β = b ∧ ∀ c, c ≠ β → e c = e' c

theorem Rel.upd {β : Char} {b : Nat} {e e' : Char → Nat} (h : Rel β b e e') {c : Char} (hc : c ≠ β) (i : Nat) :
    Rel β b (upd e c i) (upd e' c i) := by
  refine ⟨?_, ?_⟩
  · have : β ≠ c := fun h => hc h.symm
    simp [Einsum.upd, this, h.1]
  · intro x hx
    by_cases hxc : x = c
    · simp [Einsum.upd, hxc]
    · simp [Einsum.upd, hxc, h.2 x hx]

theorem Rel.bindOut {β : Char} {b : Nat} (cs : List Char) (hβ : β ∉ cs) :
    ∀ (is : List Nat) (e e' : Char → Nat), Rel β b e e' → Rel β b (bindOut cs is e) (bindOut cs is e') := by
  induction cs with
  | nil => intro is e e' h; simpa [Einsum.bindOut] using h
  | cons c cs ih =>
    intro is e e' h
    cases is with
    | nil => simpa [Einsum.bindOut] using h
    | cons i is =>
      simp only [Einsum.bindOut]
      have hc : c ≠ β := fun hcb => hβ (by simp [hcb])
      exact ih (fun hm => hβ (List.mem_cons_of_mem _ hm)) is _ _ (h.upd hc i)

theorem Rel.map {β : Char} {b : Nat} {e e' : Char → Nat} (h : Rel β b e e') (l : List Char) (hβ : β ∉ l) :
    l.map e = l.map e' := by
  apply List.map_congr_left
  intro c hc
  exact h.2 c (fun hcb => hβ (hcb ▸ hc))

section
variable [Zero R] [Add R]
theorem sumOver_rel (dims : Char → Nat) {β : Char} {b : Nat} (cs : List Char) (hβ : β ∉ cs)
    (F F' : (Char → Nat) → R) (hF : ∀ e e', Rel β b e e' → F e = F' e') :
    ∀ e e', Rel β b e e' → sumOver dims cs e F = sumOver dims cs e' F' := by
  induction cs with
  | nil => intro e e' h; simpa [sumOver] using hF e e' h
  | cons c cs ih =>
    intro e e' h
    simp only [sumOver]
    have hc : c ≠ β := fun hcb => hβ (by simp [hcb])
    congr 1
    funext i
    exact ih (fun hm => hβ (List.mem_cons_of_mem _ hm)) _ _ (h.upd hc i)
end

/-! ### the contracted letters of a lifted equation -/

theorem filter_cons_fresh (β : Char) (out l : List Char) (h1 : β ∉ l) :
    l.filter (fun c => !(β :: out).contains c) = l.filter (fun c => !out.contains c) := by
  apply List.filter_congr
  intro x hx
  have hne : x ≠ β := fun hxb => h1 (hxb ▸ hx)
  simp [hne]

theorem filter_cons_self (β : Char) (out l : List Char) (h1 : β ∉ l) :
    (β :: l).filter (fun c => !(β :: out).contains c) = l.filter (fun c => !out.contains c) := by
  rw [List.filter_cons, if_neg (by simp)]
  exact filter_cons_fresh β out l h1

theorem filter_lift_flatten (β : Char) (out : List Char) (ins : List (List Char)) (hβ : β ∉ ins.flatten) :
    ((ins.map (β :: ·)).flatten).filter (fun c => !(β :: out).contains c)
      = ins.flatten.filter (fun c => !out.contains c) := by
  induction ins with
  | nil => simp
  | cons l ls ih =>
    have h1 : β ∉ l := fun h => hβ (by simp [h])
    have h2 : β ∉ ls.flatten := fun h => hβ (by simp only [List.flatten_cons, List.mem_append]; exact Or.inr h)
    simp only [List.map_cons, List.flatten_cons, List.filter_append, ih h2]
    rw [filter_cons_self β out l h1]

theorem filter_maskIns_flatten (β : Char) (out : List Char) :
    ∀ (mask : List Bool) (ins : List (List Char)), β ∉ ins.flatten →
    ((maskIns β mask ins).flatten).filter (fun c => !(β :: out).contains c)
      = ins.flatten.filter (fun c => !out.contains c) := by
  intro mask
  induction mask with
  | nil => intro ins hβ; simpa [maskIns] using filter_cons_fresh β out _ hβ
  | cons m ms ih =>
    intro ins hβ
    cases ins with
    | nil => simp [maskIns]
    | cons l ls =>
      have h1 : β ∉ l := fun h => hβ (by simp [h])
      have h2 : β ∉ ls.flatten := fun h => hβ (by simp only [List.flatten_cons, List.mem_append]; exact Or.inr h)
      simp only [maskIns, List.flatten_cons, List.filter_append, ih ls h2]
      cases m with
      | false => simp only [Bool.false_eq_true, if_false]; rw [filter_cons_fresh β out l h1]
      | true => simp only [if_true]; rw [filter_cons_self β out l h1]

/-! ### the product of the operands -/

section
variable [One R] [Mul R]
theorem prodOps_lift {β : Char} {b : Nat} :
    ∀ (ins : List (List Char)) (ops : List (List Nat → R)) (e e' : Char → Nat), β ∉ ins.flatten → Rel β b e e' →
      prodOps (ins.map (β :: ·)) ops e = prodOps ins (ops.map (fun A idx => A (b :: idx))) e' := by
  intro ins
  induction ins with
  | nil => intro ops e e' _ _; simp [prodOps]
  | cons l ls ih =>
    intro ops e e' hβ h
    cases ops with
    | nil => simp [prodOps]
    | cons A As =>
      have h1 : β ∉ l := fun hm => hβ (by simp [hm])
      have h2 : β ∉ ls.flatten := fun hm => hβ (by simp only [List.flatten_cons, List.mem_append]; exact Or.inr hm)
      simp only [List.map_cons, prodOps, h.1, h.map l h1, ih As e e' h2 h]

theorem prodOps_liftMask {β : Char} {b : Nat} :
    ∀ (mask : List Bool) (ins : List (List Char)) (ops : List (List Nat → R)) (e e' : Char → Nat),
      β ∉ ins.flatten → Rel β b e e' →
      prodOps (maskIns β mask ins) ops e = prodOps ins (sliceMask b mask ops) e' := by
  have base : ∀ (ins : List (List Char)) (ops : List (List Nat → R)) (e e' : Char → Nat),
      β ∉ ins.flatten → Rel β b e e' → prodOps ins ops e = prodOps ins ops e' := by
    intro ins
    induction ins with
    | nil => intro ops e e' _ _; simp [prodOps]
    | cons l ls ih =>
      intro ops e e' hβ h
      cases ops with
      | nil => simp [prodOps]
      | cons A As =>
        have h1 : β ∉ l := fun hm => hβ (by simp [hm])
        have h2 : β ∉ ls.flatten := fun hm => hβ (by simp only [List.flatten_cons, List.mem_append]; exact Or.inr hm)
        simp only [prodOps, h.map l h1, ih As e e' h2 h]
  intro mask
  induction mask with
  | nil => intro ins ops e e' hβ h; simpa [maskIns, sliceMask] using base ins ops e e' hβ h
  | cons m ms ih =>
    intro ins ops e e' hβ h
    cases ins with
    | nil => simp [maskIns, prodOps]
    | cons l ls =>
      cases ops with
      | nil => simp [maskIns, sliceMask, prodOps]
      | cons A As =>
        have h1 : β ∉ l := fun hm => hβ (by simp [hm])
        have h2 : β ∉ ls.flatten := fun hm => hβ (by simp only [List.flatten_cons, List.mem_append]; exact Or.inr hm)
        cases m with
        | false =>
          simp only [maskIns, sliceMask, prodOps, Bool.false_eq_true, if_false, ih ls As e e' h2 h]
          rw [h.map l h1]
        | true =>
          simp only [maskIns, sliceMask, prodOps, if_true, List.map_cons, h.1, ih ls As e e' h2 h]
          rw [h.map l h1]
end

/-! ### main theorems -/

section
variable [Zero R] [One R] [Add R] [Mul R]

/-- common core of `eval_lift` / `eval_liftMask` -/
theorem eval_lift_core (s : Spec) (ins' : List (List Char)) (ops ops' : List (List Nat → R)) (β : Char) (b : Nat)
    (hf : Fresh β s)
    (hc : ins'.flatten.filter (fun c => !(β :: s.out).contains c) = s.ins.flatten.filter (fun c => !s.out.contains c))
    (hp : ∀ e e', Rel β b e e' → prodOps ins' ops e = prodOps s.ins ops' e')
    (dims : Char → Nat) (out : List Nat) :
    eval ⟨ins', β :: s.out⟩ dims ops (b :: out) = eval s dims ops' out := by
  unfold eval Spec.contracted
  simp only [hc, bindOut]
  apply sumOver_rel
  · intro hm
    have := (mem_dedup _ _).mp hm
    exact hf.1 (List.mem_filter.mp this).1
  · exact hp
  · apply Rel.bindOut _ hf.2
    exact ⟨by simp [upd], fun c hc => by simp [upd, hc]⟩

/-- **The batched einsum is the plain einsum of the slices.**  For every equation `s`, every batch letter `β` not
    occurring in `s`, all axis sizes, all operands and every batch index `b`: entry `b :: out` of the einsum with
    `β` prepended to every operand and to the output equals entry `out` of the plain einsum `s` applied to the
    `b`-th slices of the operands. -/
theorem eval_lift (s : Spec) (β : Char) (hf : Fresh β s) (dims : Char → Nat) (ops : List (List Nat → R))
    (b : Nat) (out : List Nat) :
    eval (lift β s) dims ops (b :: out) = eval s dims (ops.map (fun A idx => A (b :: idx))) out :=
  eval_lift_core s _ ops _ β b hf (filter_lift_flatten β s.out s.ins hf.1)
    (fun e e' h => prodOps_lift s.ins ops e e' hf.1 h) dims out

/-- the same when only the operands selected by `mask` carry the batch axis (the others are shared) -/
theorem eval_liftMask (s : Spec) (β : Char) (mask : List Bool) (hf : Fresh β s) (dims : Char → Nat)
    (ops : List (List Nat → R)) (b : Nat) (out : List Nat) :
    eval (liftMask β mask s) dims ops (b :: out) = eval s dims (sliceMask b mask ops) out :=
  eval_lift_core s _ ops _ β b hf (filter_maskIns_flatten β s.out mask s.ins hf.1)
    (fun e e' h => prodOps_liftMask mask s.ins ops e e' hf.1 h) dims out
end

/-! ### `strip` inverts `lift` -/

theorem cons_tail_of_head? {β : Char} {l : List Char} (h : l.head? = some β) : β :: l.tail = l := by
  cases l with
  | nil => simp at h
  | cons x xs => simp at h; simp [h]

theorem strip_eq_some {s t : Spec} (h : strip s = some t) : ∃ β, s = lift β t ∧ Fresh β t := by
  unfold strip at h
  cases s with
  | mk ins out =>
    cases out with
    | nil => simp at h
    | cons β o =>
      simp only at h
      split at h
      · rename_i hc
        simp only [Option.some.injEq] at h
        subst h
        refine ⟨β, ?_, hc.2⟩
        simp only [lift, List.map_map, Spec.mk.injEq, and_true]
        have hall := hc.1
        simp only [List.all_eq_true, beq_iff_eq] at hall
        symm
        calc List.map ((fun x => β :: x) ∘ List.tail) ins = List.map id ins := by
              apply List.map_congr_left
              intro l hl
              exact cons_tail_of_head? (hall l hl)
          _ = ins := by simp
      · simp at h

theorem strip_lift (β : Char) (s : Spec) (hf : Fresh β s) : strip (lift β s) = some s := by
  cases s with
  | mk ins out =>
    have h1 : (List.map (fun x => β :: x) ins).map List.tail = ins := by
      rw [List.map_map]
      calc List.map (List.tail ∘ fun x => β :: x) ins = List.map id ins := by
            apply List.map_congr_left; intro l _; rfl
        _ = ins := by simp
    simp only [strip, lift, h1]
    rw [if_pos]
    refine ⟨?_, hf⟩
    simp [List.all_eq_true]

theorem letters_lift (β : Char) (s : Spec) (hf : Fresh β s) : (lift β s).letters = β :: s.letters := by
  -- the letter list of the lifted equation starts with β, and removing β from it gives the plain letter list
  have hne : ∀ l : List Char, β ∉ l → l.filter (fun x => decide (x ≠ β)) = l := by
    intro l hl
    apply List.filter_eq_self.mpr
    intro x hx
    simp only [decide_eq_true_eq]
    exact fun hxb => hl (hxb ▸ hx)
  have hfl : ∀ ins : List (List Char), β ∉ ins.flatten →
      ((ins.map (β :: ·)).flatten).filter (fun x => decide (x ≠ β)) = ins.flatten := by
    intro ins
    induction ins with
    | nil => simp
    | cons l ls ih =>
      intro hβ
      have h1 : β ∉ l := fun h => hβ (by simp [h])
      have h2 : β ∉ ls.flatten := fun h => hβ (by simp only [List.flatten_cons, List.mem_append]; exact Or.inr h)
      simp only [List.map_cons, List.flatten_cons, List.filter_append, ih h2]
      rw [List.filter_cons, if_neg (by simp), hne l h1]
  have hrest : (((s.ins.map (β :: ·)).flatten ++ β :: s.out)).filter (fun x => decide (x ≠ β))
      = s.ins.flatten ++ s.out := by
    rw [List.filter_append, hfl _ hf.1, List.filter_cons, if_neg (by simp), hne _ hf.2]
  unfold Spec.letters lift
  simp only
  cases hins : s.ins with
  | nil =>
    simp only [List.map_nil, List.flatten_nil, List.nil_append, dedup]
    rw [filter_dedup, hne _ hf.2]
  | cons l ls =>
    have := hrest
    rw [hins] at this
    simp only [List.map_cons, List.flatten_cons, List.cons_append, dedup]
    rw [filter_dedup]
    simp only [List.map_cons, List.flatten_cons, List.cons_append, List.filter_cons] at this
    rw [if_neg (by simp)] at this
    rw [this]

/-! ### renaming of the letters -/

/-- `ρ` is injective on the letters in `L` -/
def InjOn (ρ : Char → Char) (L : List Char) : Prop := ∀ x ∈ L, ∀ y ∈ L, ρ x = ρ y → x = y

theorem InjOn.mono {ρ : Char → Char} {L L' : List Char} (h : InjOn ρ L) (hs : ∀ x ∈ L', x ∈ L) : InjOn ρ L' :=
  fun x hx y hy e => h x (hs x hx) y (hs y hy) e

theorem dedup_map (ρ : Char → Char) (l : List Char) (h : InjOn ρ l) : dedup (l.map ρ) = (dedup l).map ρ := by
  induction l with
  | nil => simp [dedup]
  | cons c cs ih =>
    have hcs : InjOn ρ cs := h.mono (fun x hx => List.mem_cons_of_mem _ hx)
    simp only [List.map_cons, dedup, ih hcs, List.filter_map]
    congr 2
    apply List.filter_congr
    intro x hx
    have hx' : x ∈ c :: cs := List.mem_cons_of_mem _ ((mem_dedup x cs).mp hx)
    simp only [Function.comp, ne_eq, decide_not, Bool.not_eq_eq_eq_not, Bool.not_not, decide_eq_decide]
    exact ⟨fun e => h x hx' c (by simp) e, fun e => by rw [e]⟩

theorem filter_map_contains (ρ : Char → Char) (l out : List Char) (h : InjOn ρ (l ++ out)) :
    (l.map ρ).filter (fun c => !(out.map ρ).contains c) = (l.filter (fun c => !out.contains c)).map ρ := by
  rw [List.filter_map]
  congr 1
  apply List.filter_congr
  intro x hx
  simp only [Function.comp, List.contains_eq_mem, List.mem_map, Bool.not_eq_eq_eq_not, Bool.not_not,
    decide_eq_decide]
  constructor
  · rintro ⟨y, hy, e⟩
    have := h y (List.mem_append_right _ hy) x (List.mem_append_left _ hx) e
    exact this ▸ hy
  · intro hxo
    exact ⟨x, hxo, rfl⟩

theorem contracted_rename (ρ : Char → Char) (s : Spec) (h : InjOn ρ (s.ins.flatten ++ s.out)) :
    (rename ρ s).contracted = s.contracted.map ρ := by
  unfold Spec.contracted rename
  simp only
  rw [← List.map_flatten, filter_map_contains ρ _ _ h, dedup_map]
  exact h.mono (fun x hx => List.mem_append_left _ (List.mem_filter.mp hx).1)

/-- `e` is `e'` read through the renaming, on the letters in `L` -/
def RelR (ρ : Char → Char) (L : List Char) (e e' : Char → Nat) : Prop := ∀ c ∈ L, e c = e' (ρ c)

theorem RelR.upd {ρ : Char → Char} {L : List Char} {e e' : Char → Nat} (h : RelR ρ L e e') (hi : InjOn ρ L)
    {c : Char} (hc : c ∈ L) (i : Nat) : RelR ρ L (upd e c i) (upd e' (ρ c) i) := by
  intro x hx
  by_cases hxc : x = c
  · simp [Einsum.upd, hxc]
  · have : ρ x ≠ ρ c := fun e => hxc (hi x hx c hc e)
    simp [Einsum.upd, hxc, this, h x hx]

theorem RelR.bindOut {ρ : Char → Char} {L : List Char} (hi : InjOn ρ L) (cs : List Char) (hcs : ∀ x ∈ cs, x ∈ L) :
    ∀ (is : List Nat) (e e' : Char → Nat), RelR ρ L e e' →
      RelR ρ L (bindOut cs is e) (bindOut (cs.map ρ) is e') := by
  induction cs with
  | nil => intro is e e' h; simpa [Einsum.bindOut] using h
  | cons c cs ih =>
    intro is e e' h
    cases is with
    | nil => simpa [Einsum.bindOut] using h
    | cons i is =>
      simp only [Einsum.bindOut, List.map_cons]
      exact ih (fun x hx => hcs x (List.mem_cons_of_mem _ hx)) is _ _ (h.upd hi (hcs c (by simp)) i)

section
variable [Zero R] [Add R]
theorem sumOver_rename (dims : Char → Nat) {ρ : Char → Char} {L : List Char} (hi : InjOn ρ L) (cs : List Char)
    (hcs : ∀ x ∈ cs, x ∈ L) (F F' : (Char → Nat) → R) (hF : ∀ e e', RelR ρ L e e' → F e = F' e') :
    ∀ e e', RelR ρ L e e' → sumOver (fun c => dims (ρ c)) cs e F = sumOver dims (cs.map ρ) e' F' := by
  induction cs with
  | nil => intro e e' h; simpa [sumOver] using hF e e' h
  | cons c cs ih =>
    intro e e' h
    simp only [sumOver, List.map_cons]
    congr 1
    funext i
    exact ih (fun x hx => hcs x (List.mem_cons_of_mem _ hx)) _ _ (h.upd hi (hcs c (by simp)) i)
end

section
variable [One R] [Mul R]
theorem prodOps_rename {ρ : Char → Char} {L : List Char} {e e' : Char → Nat} (h : RelR ρ L e e') :
    ∀ (ins : List (List Char)) (ops : List (List Nat → R)), (∀ x ∈ ins.flatten, x ∈ L) →
      prodOps ins ops e = prodOps (ins.map (fun l => l.map ρ)) ops e' := by
  intro ins
  induction ins with
  | nil => intro ops _; simp [prodOps]
  | cons l ls ih =>
    intro ops hL
    cases ops with
    | nil => simp [prodOps]
    | cons A As =>
      have h1 : l.map e = (l.map ρ).map e' := by
        rw [List.map_map]
        apply List.map_congr_left
        intro c hc
        exact h c (hL c (by simp [hc]))
      have h2 : ∀ x ∈ ls.flatten, x ∈ L := fun x hx =>
        hL x (by simp only [List.flatten_cons, List.mem_append]; exact Or.inr hx)
      simp only [List.map_cons, prodOps, h1, ih As h2]
end

section
variable [Zero R] [One R] [Add R] [Mul R]
/-- **Evaluation does not depend on the names of the letters**: renaming the letters by a map that is injective on
    the letters of the equation (and renaming the axis sizes along) gives the same result. -/
theorem eval_rename (s : Spec) (ρ : Char → Char) (h : InjOn ρ (s.ins.flatten ++ s.out)) (dims : Char → Nat)
    (ops : List (List Nat → R)) (out : List Nat) :
    eval (rename ρ s) dims ops out = eval s (fun c => dims (ρ c)) ops out := by
  unfold eval
  rw [contracted_rename ρ s h]
  symm
  apply sumOver_rename dims h
  · intro x hx
    have := (mem_dedup _ _).mp hx
    exact List.mem_append_left _ (List.mem_filter.mp this).1
  · intro e e' hr
    exact prodOps_rename hr s.ins ops (fun x hx => List.mem_append_left _ hx)
  · exact RelR.bindOut h s.out (fun x hx => List.mem_append_right _ hx) out _ _ (fun _ _ => rfl)
end

/-! ### alpha-normalisation -/

theorem idxOf_lt (x : Char) (l : List Char) (hx : x ∈ l) : idxOf x l < l.length := by
  induction l with
  | nil => simp at hx
  | cons c cs ih =>
    simp only [idxOf, List.length_cons]
    by_cases h : c = x
    · simp [h]
    · have : x ∈ cs := by
        rcases List.mem_cons.mp hx with e | e
        · exact absurd e.symm h
        · exact e
      simp only [h, if_false]
      have := ih this
      omega

theorem idxOf_inj (x y : Char) (l : List Char) (hx : x ∈ l) (hy : y ∈ l) (h : idxOf x l = idxOf y l) : x = y := by
  induction l with
  | nil => simp at hx
  | cons c cs ih =>
    simp only [idxOf] at h
    by_cases h1 : c = x <;> by_cases h2 : c = y
    · exact h1 ▸ h2
    · rw [if_pos h1, if_neg h2] at h; omega
    · rw [if_neg h1, if_pos h2] at h; omega
    · simp only [h1, h2, if_false, Nat.add_right_cancel_iff] at h
      have hx' : x ∈ cs := by
        rcases List.mem_cons.mp hx with e | e
        · exact absurd e.symm h1
        · exact e
      have hy' : y ∈ cs := by
        rcases List.mem_cons.mp hy with e | e
        · exact absurd e.symm h2
        · exact e
      exact ih hx' hy' h

theorem ofNat_97_inj : ∀ i j : Fin 26, Char.ofNat (97 + i.val) = Char.ofNat (97 + j.val) → i = j := by decide

/-- the renaming of `alpha` is injective on the letters of the equation (at most 26 distinct letters) -/
theorem alphaMap_injOn (s : Spec) (hl : s.letters.length ≤ 26) : InjOn (alphaMap s) (s.ins.flatten ++ s.out) := by
  intro x hx y hy e
  have hx' : x ∈ s.letters := (mem_dedup _ _).mpr hx
  have hy' : y ∈ s.letters := (mem_dedup _ _).mpr hy
  have lx := idxOf_lt x _ hx'
  have ly := idxOf_lt y _ hy'
  have := ofNat_97_inj ⟨idxOf x s.letters, by omega⟩ ⟨idxOf y s.letters, by omega⟩ e
  exact idxOf_inj x y _ hx' hy' (Fin.mk.inj_iff.mp this)

section
variable [Zero R] [One R] [Add R] [Mul R]
/-- the alpha-normalised equation (as written to `Generated.lean`) evaluates like the original one -/
theorem eval_alphaNorm (s : Spec) (hl : s.letters.length ≤ 26) (dims : Char → Nat) (ops : List (List Nat → R))
    (out : List Nat) :
    eval (alphaNorm s) dims ops out = eval s (fun c => dims (alphaMap s c)) ops out :=
  eval_rename s (alphaMap s) (alphaMap_injOn s hl) dims ops out

/-- **A pair recognised by `isBatchLiftOf` is a batched / plain pair semantically**: `S` is the batched equation
    without its leading letter; for every assignment `d` of sizes to the normalised letters, slot `b` of the batched
    einsum equals the plain einsum of the `b`-th slices. -/
theorem eval_of_isBatchLiftOf (B P : Spec) (h : isBatchLiftOf B P = true) (hB : B.letters.length ≤ 27)
    (hP : P.letters.length ≤ 26) :
    ∃ S, strip B = some S ∧ ∀ (d : Char → Nat) (ops : List (List Nat → R)) (b : Nat) (out : List Nat),
      eval B (fun c => d (alphaMap S c)) ops (b :: out)
        = eval P (fun c => d (alphaMap P c)) (ops.map (fun A idx => A (b :: idx))) out := by
  unfold isBatchLiftOf at h
  cases hS : strip B with
  | none => simp [hS] at h
  | some S =>
    simp only [hS, Option.map_some, beq_iff_eq, Option.some.injEq] at h
    refine ⟨S, rfl, ?_⟩
    obtain ⟨β, hB', hf⟩ := strip_eq_some hS
    have hSl : S.letters.length ≤ 26 := by
      have := letters_lift β S hf
      rw [← hB'] at this
      rw [this] at hB
      simpa using hB
    intro d ops b out
    rw [hB', eval_lift S β hf, ← eval_alphaNorm S hSl, ← eval_alphaNorm P hP, h]
end

section
variable [Zero R] [One R] [Add R] [Mul R]
/-- the same for an already normalised plain equation (all strings of `Generated.lean` are normalised): the sizes
    of the plain equation's letters can be chosen freely -/
theorem eval_of_isBatchLiftOf_norm (B P : Spec) (h : isBatchLiftOf B P = true) (hB : B.letters.length ≤ 27)
    (hP : P.letters.length ≤ 26) (hn : alphaNorm P = P) :
    ∃ S, strip B = some S ∧ ∀ (d : Char → Nat) (ops : List (List Nat → R)) (b : Nat) (out : List Nat),
      eval B (fun c => d (alphaMap S c)) ops (b :: out) = eval P d (ops.map (fun A idx => A (b :: idx))) out := by
  obtain ⟨S, hS, hall⟩ := eval_of_isBatchLiftOf (R := R) B P h hB hP
  refine ⟨S, hS, fun d ops b out => ?_⟩
  rw [hall d ops b out, ← eval_alphaNorm P hP, hn]
end

/-! ### well-formedness is preserved by the lift -/

theorem nodupB_eq_true (l : List Char) : nodupB l = true ↔ l.Nodup := by
  induction l with
  | nil => simp [nodupB]
  | cons c cs ih => simp [nodupB, ih]

/-- `torch.einsum` accepts the batched equation whenever it accepts the plain one (at least one operand, `β` a letter) -/
theorem lift_wf (β : Char) (s : Spec) (hf : Fresh β s) (hβ : isLetter β = true) (hne : s.ins ≠ []) (h : s.wf = true) :
    (lift β s).wf = true := by
  unfold Spec.wf at h ⊢
  simp only [Bool.and_eq_true, List.all_eq_true] at h ⊢
  obtain ⟨⟨h1, h2⟩, h3⟩ := h
  refine ⟨⟨?_, ?_⟩, ?_⟩
  · intro l hl
    simp only [lift, List.mem_map] at hl
    obtain ⟨l', hl', rfl⟩ := hl
    intro x hx
    rcases List.mem_cons.mp hx with e | e
    · exact e ▸ hβ
    · exact h1 l' hl' x e
  · intro c hc
    simp only [lift, List.mem_cons] at hc
    simp only [lift, List.contains_eq_mem, decide_eq_true_eq, List.mem_flatten, List.mem_map]
    rcases hc with e | e
    · cases hins : s.ins with
      | nil => exact absurd hins hne
      | cons l ls => exact ⟨β :: l, ⟨l, by simp, rfl⟩, by simp [e]⟩
    · have := h2 c e
      simp only [List.contains_eq_mem, decide_eq_true_eq, List.mem_flatten] at this
      obtain ⟨l, hl, hcl⟩ := this
      exact ⟨β :: l, ⟨l, hl, rfl⟩, List.mem_cons_of_mem _ hcl⟩
  · simp only [lift, nodupB, Bool.and_eq_true, h3, and_true, Bool.not_eq_eq_eq_not, Bool.not_true,
      List.contains_eq_mem, decide_eq_false_iff_not]
    exact hf.2

end TN.Einsum
