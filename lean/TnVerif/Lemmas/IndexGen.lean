import TnVerif.Lemmas.Squeeze
/-! General facts about `t[key]` for ARBITRARY keys of the grammar (C03): the tensor the state machine emits is
    well formed and has the shape `outShape`; the key consumes exactly the modes of `t` (`fits` follows from
    `_process_key` + bounds normalisation); the state machine succeeds on every key with at most one run of
    equal-length index arrays. -/
set_option linter.unusedSectionVars false
set_option linter.unusedSimpArgs false
open Finset
namespace TN
variable {R : Type}

/-! ### counting the entries that consume a mode -/

/-- number of entries of a raw key that are not `None` (`len(key) - nonecount` in `_process_key`) -/
def gk_consR : List RawItem → Nat
  | [] => 0
  | .none :: ks => gk_consR ks
  | .int _ :: ks => gk_consR ks + 1
  | .slice _ _ _ :: ks => gk_consR ks + 1
  | .ellipsis :: ks => gk_consR ks + 1
  | .arr _ :: ks => gk_consR ks + 1

/-- number of entries of a normalised key that consume a mode -/
def gk_consI : List Item → Nat
  | [] => 0
  | .none :: ks => gk_consI ks
  | .int _ :: ks => gk_consI ks + 1
  | .slice _ _ _ :: ks => gk_consI ks + 1
  | .arr _ :: ks => gk_consI ks + 1

theorem gk_consR_add (key : List RawItem) : gk_consR key + (key.filter RawItem.isNone).length = key.length := by
  induction key with
  | nil => rfl
  | cons x xs ih => cases x <;> simp [gk_consR, RawItem.isNone, List.filter_cons] <;> omega

theorem gk_consR_eq (key : List RawItem) : gk_consR key = key.length - (key.filter RawItem.isNone).length := by
  have := gk_consR_add key; omega

theorem gk_consR_append (a b : List RawItem) : gk_consR (a ++ b) = gk_consR a + gk_consR b := by
  induction a with
  | nil => simp [gk_consR]
  | cons x xs ih => cases x <;> simp [gk_consR, ih] <;> omega

theorem gk_consR_replicate (n : Nat) : gk_consR (List.replicate n sliceAll) = n := by
  induction n with
  | zero => rfl
  | succ n ih => simp only [List.replicate_succ, gk_consR, sliceAll] at ih ⊢; rw [ih]

/-! ### `_process_key` -/

theorem gk_expand_noEllipsis (N : Nat) (key : List RawItem) (c : Nat) : ∀ (l : List RawItem),
    l.any RawItem.isEllipsis = false → processKey.expand N key c l = l := by
  intro l
  induction l with
  | nil => intro _; rfl
  | cons x xs ih =>
    intro h
    simp only [List.any_cons, Bool.or_eq_false_iff] at h
    cases x with
    | ellipsis => simp [RawItem.isEllipsis] at h
    | int k => simp [processKey.expand, ih h.2]
    | slice a b s => simp [processKey.expand, ih h.2]
    | none => simp [processKey.expand, ih h.2]
    | arr l => simp [processKey.expand, ih h.2]

/-- a key without Ellipsis that already has one non-`None` entry per mode is returned unchanged -/
theorem gk_processKey_id (N : Nat) (key : List RawItem) (he : key.any RawItem.isEllipsis = false)
    (hc : gk_consR key = N) : processKey N key = .ok key := by
  unfold processKey
  simp only [gk_expand_noEllipsis N key _ key he, he]
  rw [← gk_consR_eq, hc]
  simp

theorem gk_expand_none (N : Nat) (key : List RawItem) (c : Nat) : ∀ (l : List RawItem),
    (processKey.expand N key c l).filter RawItem.isNone = l.filter RawItem.isNone := by
  intro l
  induction l with
  | nil => rfl
  | cons x xs ih =>
    cases x with
    | ellipsis => simp [processKey.expand, RawItem.isNone, sliceAll, List.filter_replicate]
    | int k => simp [processKey.expand, RawItem.isNone, ih]
    | slice a b s => simp [processKey.expand, RawItem.isNone, ih]
    | none => simp [processKey.expand, RawItem.isNone, ih, List.filter_cons]
    | arr l => simp [processKey.expand, RawItem.isNone, ih]

/-- the processed key has exactly one non-`None` entry per mode and no Ellipsis -/
theorem gk_processKey_cons (N : Nat) (key key1 : List RawItem) (h : processKey N key = .ok key1) :
    gk_consR key1 = N ∧ key1.any RawItem.isEllipsis = false := by
  unfold processKey at h
  simp only at h
  split at h
  · cases h
  · rename_i he
    split at h
    · cases h
    · rename_i hn
      simp only [Except.ok.injEq] at h
      subst h
      have hnone := gk_expand_none N key (key.filter RawItem.isNone).length key
      generalize processKey.expand N key (key.filter RawItem.isNone).length key = k1 at *
      refine ⟨?_, ?_⟩
      · rw [gk_consR_append, gk_consR_replicate]
        have := gk_consR_add k1
        rw [hnone] at this
        omega
      · simp only [List.any_append, Bool.or_eq_false_iff]
        refine ⟨by simpa using he, ?_⟩
        simp [List.any_replicate, RawItem.isEllipsis, sliceAll]

/-! ### bounds normalisation -/

theorem gk_normKey_cons : ∀ (key : List RawItem) (sh : List Nat) (items : List Item),
    normKey key sh = .ok items → gk_consI items = gk_consR key ∧ gk_consR key ≤ sh.length := by
  intro key
  induction key with
  | nil => intro sh items h; simp only [normKey, Except.ok.injEq] at h; subst h; simp [gk_consI, gk_consR]
  | cons x xs ih =>
    intro sh items h
    cases x with
    | none =>
      simp only [normKey, bind, Except.bind] at h
      split at h
      · cases h
      · rename_i r hr
        simp only [pure, Except.pure, Except.ok.injEq] at h; subst h
        simpa [gk_consI, gk_consR] using ih sh r hr
    | ellipsis => simp [normKey] at h
    | int k =>
      cases sh with
      | nil => simp [normKey] at h
      | cons n sh =>
        simp only [normKey, bind, Except.bind] at h
        split at h
        · cases h
        · split at h
          · cases h
          · rename_i r hr
            simp only [pure, Except.pure, Except.ok.injEq] at h; subst h
            have := ih sh r hr
            simp only [gk_consI, gk_consR, List.length_cons]; omega
    | slice a b s =>
      cases sh with
      | nil => simp [normKey] at h
      | cons n sh =>
        simp only [normKey, bind, Except.bind] at h
        split at h
        · cases h
        · split at h
          · cases h
          · rename_i r hr
            simp only [pure, Except.pure, Except.ok.injEq] at h; subst h
            have := ih sh r hr
            simp only [gk_consI, gk_consR, List.length_cons]; omega
    | arr l =>
      cases sh with
      | nil => simp [normKey] at h
      | cons n sh =>
        simp only [normKey, bind, Except.bind] at h
        split at h
        · cases h
        · split at h
          · cases h
          · rename_i r hr
            simp only [pure, Except.pure, Except.ok.injEq] at h; subst h
            have := ih sh r hr
            simp only [gk_consI, gk_consR, List.length_cons]; omega

/-! ### the grouped key consumes exactly the counted modes -/

theorem gk_groupKey_ne (items : List Item) (h : items ≠ []) : groupKey items ≠ [] := by
  cases items with
  | nil => exact absurd rfl h
  | cons x xs =>
    cases x with
    | int k => simp [groupKey]
    | slice a s c => simp [groupKey]
    | none => simp [groupKey]
    | arr l =>
      simp only [groupKey]
      split <;> simp

theorem gk_fits : ∀ (items : List Item), fits (groupKey items) (gk_consI items) (outShape (groupKey items)).length := by
  intro items
  induction items with
  | nil => simp [groupKey, gk_consI, outShape, fits]
  | cons x xs ih =>
    cases x with
    | int k => simpa [groupKey, gk_consI, outShape, fits] using ih
    | slice a s c => simpa [groupKey, gk_consI, outShape, fits] using ih
    | none =>
      simp only [groupKey, gk_consI, outShape, List.length_cons]
      cases hc : gk_consI xs <;> (rw [hc] at ih; simpa [fits] using ih)
    | arr l =>
      simp only [groupKey, gk_consI]
      generalize groupKey xs = G at ih ⊢
      generalize gk_consI xs = c at ih ⊢
      cases G with
      | nil => simpa [outShape, fits] using ih
      | cons g G =>
        cases g with
        | run ls =>
          cases ls with
          | nil => cases c <;> simp [outShape, fits] at ih
          | cons l' ls' =>
            cases c with
            | zero => simp [outShape, fits] at ih
            | succ c' =>
              simp only [outShape, List.length_cons, fits] at ih ⊢
              refine ⟨by omega, ?_⟩
              have : c' + 1 - (ls'.length + 1) = c' - ls'.length := by omega
              rw [this]; exact ih.2
        | int k => simp only [outShape, List.length_cons, fits, List.length_nil, Nat.zero_le, Nat.sub_zero, true_and]; exact ih
        | slice a s cn => simp only [outShape, List.length_cons, fits, List.length_nil, Nat.zero_le, Nat.sub_zero, true_and]; exact ih
        | none => simp only [outShape, List.length_cons, fits, List.length_nil, Nat.zero_le, Nat.sub_zero, true_and]; exact ih

/-! ### well-formedness and shape of what the state machine emits, for every key -/
section wfshape
variable [CommSemiring R]

theorem gk_eyeCore_n (r : Nat) : (eyeCore (R := R) r).n = 1 := rfl

/-- **every key**: the emitted modes form a well-formed chain whose first bond is the row dimension of the pending
    factor; their sizes are `outShape`; nothing is emitted only together with a pending factor (unless the key is empty
    and nothing was pending) -/
theorem gk_goKey_wf_shape (lastRR : Nat) (ks : List GItem) : ∀ (ms : Tensor R) (d : Bool) (p : Option (PInt R)) (rin : Nat)
    (r : List (TMode R) × Option (PInt R)),
    Tensor.WFfrom rin ms → outRank rin (Tensor.modes ms) = lastRR → (∀ q, p = some q → q.rr = rin) →
    goKey lastRR d p ks ms = .ok r →
    Tensor.WFfrom (rowdim p rin) r.1 ∧ (∀ q, r = ([], some q) → q.rl = rowdim p rin) ∧
      Tensor.shape r.1 = outShape ks ∧ (r.1 = [] → (p.isSome ∨ ks ≠ []) → r.2.isSome) := by
  induction ks with
  | nil =>
    intro ms d p rin r _ _ _ h
    simp only [goKey, Except.ok.injEq] at h
    subst h
    refine ⟨trivial, ?_, rfl, ?_⟩
    · intro q hq
      simp only [Prod.mk.injEq, true_and] at hq
      subst hq; rfl
    · intro _ h; simpa using h
  | cons k ks ih =>
    intro ms d p rin r hw ho hp h
    cases k with
    | int k =>
      cases ms with
      | nil => simp [goKey] at h
      | cons m rest =>
        obtain ⟨w1, w2, w3⟩ := hw
        simp only [goKey] at h
        obtain ⟨c1, c2⟩ := combOpt_spec p m k rin w1 hp
        obtain ⟨i1, i2, i3, i4⟩ := ih rest d (some (PInt.combOpt p (getInt m k))) m.core.rr r w3 ho
          (by intro q hq; simp only [Option.some.injEq] at hq; subst hq; exact c1) h
        simp only [rowdim, c2] at i1 i2
        exact ⟨i1, i2, by simpa [outShape] using i3, fun hr _ => i4 hr (Or.inl rfl)⟩
    | slice a0 st cnt =>
      cases ms with
      | nil => simp [goKey] at h
      | cons m rest =>
        obtain ⟨w1, w2, w3⟩ := hw
        simp only [goKey, bind, Except.bind] at h
        split at h
        · cases h
        · rename_i r' hr'
          simp only [pure, Except.pure, Except.ok.injEq] at h
          subst h
          obtain ⟨i1, i2, i3, _⟩ := ih rest d Option.none m.core.rr r' w3 ho (by intro q hq; cases hq) hr'
          simp only [rowdim] at i1 i2
          obtain ⟨s1, s2, _, s4, _⟩ := slice_spec m a0 st cnt
          refine ⟨emitJoin_wf p _ r' rin (by rw [s1, w1]) (s4.mpr w2) hp (by rw [s2]; exact i1) (by rw [s2]; exact i2), ?_, ?_, ?_⟩
          · intro q hq
            exact absurd (congrArg Prod.fst hq) (emitJoin_ne _ _ _)
          · rw [emitJoin_shape, slice_n, i3]; rfl
          · intro hr; exact absurd hr (emitJoin_ne _ _ _)
    | none =>
      have hnr : nextRank ms lastRR = rin := by
        cases ms with
        | nil => simpa [nextRank, Tensor.modes, outRank] using ho.symm
        | cons m rest => exact hw.1
      simp only [goKey, bind, Except.bind] at h
      split at h
      · cases h
      · rename_i r' hr'
        simp only [pure, Except.pure, Except.ok.injEq] at h
        subst h
        rw [hnr]
        obtain ⟨i1, i2, i3, _⟩ := ih ms d Option.none rin r' hw ho (by intro q hq; cases hq) hr'
        simp only [rowdim] at i1 i2
        refine ⟨emitJoin_wf p (eyeCore rin) r' rin rfl trivial hp i1 i2, ?_, ?_, ?_⟩
        · intro q hq
          exact absurd (congrArg Prod.fst hq) (emitJoin_ne _ _ _)
        · rw [emitJoin_shape, gk_eyeCore_n, i3]; rfl
        · intro hr; exact absurd hr (emitJoin_ne _ _ _)
    | run ls =>
      cases ls with
      | nil => cases ms <;> simp [goKey] at h
      | cons l ls =>
        cases ms with
        | nil => simp [goKey] at h
        | cons m rest =>
          obtain ⟨w1, w2, w3⟩ := hw
          simp only [goKey] at h
          split at h
          · cases h
          · simp only [bind, Except.bind] at h
            split at h
            · cases h
            · rename_i cr hcr
              obtain ⟨c, rest'⟩ := cr
              simp only at h
              split at h
              · cases h
              · rename_i r' hr'
                simp only [pure, Except.pure, Except.ok.injEq] at h
                subst h
                obtain ⟨g1, g2, g3, _⟩ := getArr_spec m l
                obtain ⟨k1, k2, _, k4, _, k6, _⟩ := runCore_spec ls (getArr m l) rest c rest' (by rw [g2]; exact w3) hcr
                have ho' : outRank c.rr (Tensor.modes rest') = lastRR := by rw [k6, g2]; exact ho
                obtain ⟨i1, i2, i3, _⟩ := ih rest' true Option.none c.rr r' k4 ho' (by intro q hq; cases hq) hr'
                simp only [rowdim] at i1 i2
                have hcl : c.rl = rin := by rw [k1, g1, w1]
                refine ⟨emitJoin_wf p (TMode.mk c Option.none) r' rin hcl trivial hp i1 i2, ?_, ?_, ?_⟩
                · intro q hq
                  exact absurd (congrArg Prod.fst hq) (emitJoin_ne _ _ _)
                · rw [emitJoin_shape, i3]
                  simp only [outShape, List.head?_cons, Option.map_some, Option.getD_some, List.cons.injEq, and_true]
                  show c.spatial = l.length
                  rw [k2, g3]
                · intro hr; exact absurd hr (emitJoin_ne _ _ _)

end wfshape

/-! ### the state machine accepts every key with at most one run of equal-length index arrays -/

/-- at most one run of index arrays (none at all once `d` is set), the arrays of the run having equal lengths -/
def gk_runsOK : Bool → List GItem → Prop
  | _, [] => True
  | d, .run ls :: ks => d = false ∧ (∀ l ∈ ls, ∀ l' ∈ ls, l.length = l'.length) ∧ gk_runsOK true ks
  | d, .int _ :: ks => gk_runsOK d ks
  | d, .slice _ _ _ :: ks => gk_runsOK d ks
  | d, .none :: ks => gk_runsOK d ks

section accept
variable [Zero R] [One R] [Add R] [Mul R]

theorem gk_combArr_spatial (c1 c2 : Core R) : (combArr c1 c2).spatial = c1.spatial := by
  cases c1 <;> cases c2 <;> rfl

theorem gk_getArr_spatial (m : TMode R) (l : List Nat) : (getArr m l).spatial = l.length := by
  unfold getArr; split <;> rfl

theorem gk_runCore_ok (ls : List (List Nat)) : ∀ (c : Core R) (rest : Tensor R), ls.length ≤ rest.length →
    (∀ l ∈ ls, l.length = c.spatial) → ∃ c', runCore c ls rest = .ok (c', rest.drop ls.length) := by
  induction ls with
  | nil => intro c rest _ _; exact ⟨c, rfl⟩
  | cons l ls ih =>
    intro c rest hl hs
    cases rest with
    | nil => simp at hl
    | cons m rest =>
      have h1 : c.spatial = l.length := (hs l List.mem_cons_self).symm
      obtain ⟨c', hc'⟩ := ih (combArr c (getArr m l)) rest (by simpa using hl)
        (by intro l' hl'; rw [gk_combArr_spatial]; exact hs l' (List.mem_cons_of_mem _ hl'))
      exact ⟨c', by simp [runCore, h1, hc']⟩

theorem gk_goKey_ok (lastRR : Nat) (ks : List GItem) : ∀ (ms : Tensor R) (d : Bool) (p : Option (PInt R)) (no : Nat),
    fits ks ms.length no → gk_runsOK d ks → ∃ r, goKey lastRR d p ks ms = .ok r := by
  induction ks with
  | nil => intro ms d p no _ _; exact ⟨_, rfl⟩
  | cons k ks ih =>
    intro ms d p no hf hr
    cases k with
    | int k =>
      cases ms with
      | nil => simp [fits] at hf
      | cons m rest =>
        obtain ⟨r, h⟩ := ih rest d (some (PInt.combOpt p (getInt m k))) no (by simpa [fits] using hf) hr
        exact ⟨r, by simpa [goKey] using h⟩
    | slice a0 st cnt =>
      cases ms with
      | nil => cases no <;> simp [fits] at hf
      | cons m rest =>
        cases no with
        | zero => simp [fits] at hf
        | succ no =>
          obtain ⟨r, h⟩ := ih rest d Option.none no (by simpa [fits] using hf) hr
          exact ⟨emitJoin p (m.slice a0 st cnt) r, by simp [goKey, h, bind, Except.bind, pure, Except.pure]⟩
    | none =>
      cases no with
      | zero => cases ms <;> simp [fits] at hf
      | succ no =>
        obtain ⟨r, h⟩ := ih ms d Option.none no (by cases ms <;> simpa [fits] using hf) hr
        exact ⟨emitJoin p (eyeCore (nextRank ms lastRR)) r, by simp [goKey, h, bind, Except.bind, pure, Except.pure]⟩
    | run ls =>
      cases ls with
      | nil => cases ms <;> cases no <;> simp [fits] at hf
      | cons l ls =>
        cases ms with
        | nil => cases no <;> simp [fits] at hf
        | cons m rest =>
          cases no with
          | zero => simp [fits] at hf
          | succ no =>
            simp only [fits, List.length_cons] at hf
            obtain ⟨hd, hlen, hr'⟩ := hr
            subst hd
            obtain ⟨c', hc'⟩ := gk_runCore_ok ls (getArr m l) rest hf.1
              (by intro l' hl'; rw [gk_getArr_spatial]; exact hlen l' (List.mem_cons_of_mem _ hl') l List.mem_cons_self)
            obtain ⟨r, h⟩ := ih (rest.drop ls.length) true Option.none no (by simpa [List.length_drop] using hf.2) hr'
            exact ⟨emitJoin p { core := c', U := Option.none } r,
              by simp [goKey, hc', h, bind, Except.bind, pure, Except.pure]⟩

theorem gk_runCore_lens (ls : List (List Nat)) : ∀ (c : Core R) (rest : Tensor R) (x : Core R × Tensor R),
    runCore c ls rest = .ok x → ∀ l ∈ ls, l.length = c.spatial := by
  induction ls with
  | nil => intro c rest x _ l hl; simp at hl
  | cons l ls ih =>
    intro c rest x h
    cases rest with
    | nil => simp [runCore] at h
    | cons m rest =>
      simp only [runCore] at h
      split at h
      · cases h
      · rename_i hsp
        have hsp' : c.spatial = l.length := by simpa using hsp
        intro l' hl'
        rcases List.mem_cons.mp hl' with rfl | hm
        · exact hsp'.symm
        · have := ih _ _ _ h l' hm
          rw [gk_combArr_spatial] at this; exact this

/-- conversely: a key the state machine accepts has at most one run, of equal-length arrays -/
theorem gk_goKey_runsOK (lastRR : Nat) (ks : List GItem) : ∀ (ms : Tensor R) (d : Bool) (p : Option (PInt R))
    (r : List (TMode R) × Option (PInt R)), goKey lastRR d p ks ms = .ok r → gk_runsOK d ks := by
  induction ks with
  | nil => intro ms d p r _; trivial
  | cons k ks ih =>
    intro ms d p r h
    cases k with
    | int k =>
      cases ms with
      | nil => simp [goKey] at h
      | cons m rest => simp only [goKey] at h; exact ih _ _ _ _ h
    | slice a0 st cnt =>
      cases ms with
      | nil => simp [goKey] at h
      | cons m rest =>
        simp only [goKey, bind, Except.bind] at h
        split at h
        · cases h
        · rename_i r' hr'; exact ih _ _ _ _ hr'
    | none =>
      simp only [goKey, bind, Except.bind] at h
      split at h
      · cases h
      · rename_i r' hr'; exact ih _ _ _ _ hr'
    | run ls =>
      cases ls with
      | nil => cases ms <;> simp [goKey] at h
      | cons l ls =>
        cases ms with
        | nil => simp [goKey] at h
        | cons m rest =>
          simp only [goKey] at h
          split at h
          · cases h
          · rename_i hd
            simp only [bind, Except.bind] at h
            split at h
            · cases h
            · rename_i cr hcr
              obtain ⟨c, rest'⟩ := cr
              simp only at h
              split at h
              · cases h
              · rename_i r' hr'
                have hl := gk_runCore_lens ls _ _ _ hcr
                rw [gk_getArr_spatial] at hl
                have hall : ∀ x ∈ l :: ls, x.length = l.length := by
                  intro x hx
                  rcases List.mem_cons.mp hx with rfl | hm
                  · rfl
                  · exact hl x hm
                refine ⟨by simpa using hd, ?_, ih _ _ _ _ hr'⟩
                intro x hx y hy
                rw [hall x hx, hall y hy]

end accept

end TN
