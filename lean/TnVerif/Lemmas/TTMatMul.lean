import TnVerif.Model.TTMatMul
import TnVerif.Lemmas.FullRank
/-! Lemmas for C19: the contraction sweeps of `TTMatrix.trace`, `tt_multiply`, `cp_multiply` against the
    decompressed matrix. -/
set_option linter.unusedSectionVars false
set_option linter.unusedSimpArgs false
open Finset
namespace TN
variable {R : Type}

/-- materialising a flat array does not change it -/
theorem FlatArr.get_tab (n : Nat) (f : Nat → R) : (FlatArr.tab n f).get = f := by
  funext p
  unfold FlatArr.get FlatArr.tab
  split
  · simp
  · rfl

/-! ### row-major position arithmetic (the reshapes) -/

theorem enc_mod (q r b : Nat) (hb : b < r) : (q * r + b) % r = b := by
  rw [Nat.mul_comm, Nat.mul_add_mod, Nat.mod_eq_of_lt hb]

theorem enc_div (q r b : Nat) (hb : b < r) : (q * r + b) / r = q := by
  have hr : 0 < r := by omega
  rw [Nat.mul_comm, Nat.mul_add_div hr, Nat.div_eq_of_lt hb]; simp

theorem enc_lt (q r b n : Nat) (hq : q < n) (hb : b < r) : q * r + b < n * r := by
  calc q * r + b < q * r + r := by omega
    _ = (q + 1) * r := by ring
    _ ≤ n * r := Nat.mul_le_mul_right _ hq

/-- position in the shape `(D, o, r)`: decoding `((d·o + j)·r + b)` gives back `d, j, b` -/
theorem dec3 (d o j r b : Nat) (hj : j < o) (hb : b < r) :
    ((d * o + j) * r + b) % r = b ∧ ((d * o + j) * r + b) / r % o = j ∧ ((d * o + j) * r + b) / r / o = d := by
  refine ⟨enc_mod _ _ _ hb, ?_, ?_⟩
  · rw [enc_div _ _ _ hb, enc_mod _ _ _ hj]
  · rw [enc_div _ _ _ hb, enc_div _ _ _ hj]

/-- `flat` of a consed index: the head index is the slowest -/
theorem flat_cons (i : Nat) (is : List Nat) (s : Nat) (ss : List Nat) :
    flat (i :: is) (s :: ss) = i * ss.prod + flat is ss := rfl

variable [CommSemiring R]

theorem boxSum_congr_in (s : List Nat) (f g : List Nat → R) (h : ∀ is, inShape is s → f is = g is) :
    boxSum s f = boxSum s g := by
  induction s generalizing f g with
  | nil => simp only [boxSum]; exact h [] trivial
  | cons n ns ih =>
    simp only [boxSum, sumTo_eq]
    apply Finset.sum_congr rfl; intro i hi
    apply ih; intro is his
    exact h (i :: is) ⟨Finset.mem_range.mp hi, his⟩

/-! ### flat positions and multi-indices -/

omit [CommSemiring R] in
theorem unflat_flat (is ss : List Nat) (h : inShape is ss) : unflat ss (flat is ss) = is := by
  induction is generalizing ss with
  | nil => cases ss with
    | nil => rfl
    | cons _ _ => simp [inShape] at h
  | cons i is ih =>
    cases ss with
    | nil => simp [inShape] at h
    | cons s ss =>
      obtain ⟨_, h2⟩ := h
      have hlt : flat is ss < ss.prod := flat_lt is ss h2
      simp only [flat, unflat, enc_div _ _ _ hlt, enc_mod _ _ _ hlt, ih ss h2]

omit [CommSemiring R] in
theorem unflat_spec (ss : List Nat) : ∀ p, p < ss.prod → inShape (unflat ss p) ss ∧ flat (unflat ss p) ss = p := by
  induction ss with
  | nil => intro p _; simp_all [unflat, inShape, flat]
  | cons s ss ih =>
    intro p hp
    rw [List.prod_cons] at hp
    have hP : 0 < ss.prod := by
      rcases Nat.eq_zero_or_pos ss.prod with h | h
      · rw [h] at hp; omega
      · exact h
    obtain ⟨h1, h2⟩ := ih (p % ss.prod) (Nat.mod_lt _ hP)
    refine ⟨⟨?_, h1⟩, ?_⟩
    · exact (Nat.div_lt_iff_lt_mul hP).mpr hp
    · simp only [unflat, flat, h2]
      exact Nat.div_add_mod' p ss.prod

/-- a box sum is the sum over the flat positions -/
theorem boxSum_eq_sum_range (ss : List Nat) (f : List Nat → R) :
    boxSum ss f = ∑ p ∈ range ss.prod, f (unflat ss p) := by
  induction ss generalizing f with
  | nil => simp [boxSum, unflat]
  | cons s ss ih =>
    simp only [boxSum, sumTo_eq, List.prod_cons, unflat]
    rw [sum_range_mul s ss.prod (fun a b => f (a :: unflat ss b))]
    apply Finset.sum_congr rfl; intro i _
    exact ih _

/-! ### the decompressed TT matrix, bond by bond -/

/-- `G_k(i_k, j_k) ⋯ G_N(i_N, j_N) · 1` at left bond `a`, for the flattened cores -/
def mtail (cs : TTMat R) (is js : List Nat) (a : Nat) : R :=
  tail (TTMat.flatten cs).modes (pairIdx is js (TTMat.outDims cs)) a

theorem mtail_nil (is js : List Nat) (a : Nat) : mtail ([] : TTMat R) is js a = 1 := by
  simp [mtail, TTMat.flatten, Tensor.modes, tail]

theorem mtail_cons (c : Core4 R) (cs : TTMat R) (i : Nat) (is : List Nat) (j : Nat) (js : List Nat) (a : Nat)
    (hj : j < c.outD) :
    mtail (c :: cs) (i :: is) (j :: js) a = ∑ b ∈ range c.rr, c.f a i j b * mtail cs is js b := by
  have h1 : (i * c.outD + j) / c.outD = i := enc_div _ _ _ hj
  have h2 : (i * c.outD + j) % c.outD = j := enc_mod _ _ _ hj
  simp only [mtail, TTMat.flatten, TTMat.outDims, List.map_cons, Tensor.modes, pairIdx, tail, sumTo_eq]
  apply Finset.sum_congr rfl; intro b _
  show c.f a ((i * c.outD + j) / c.outD) ((i * c.outD + j) % c.outD) b * _ = _
  rw [h1, h2]

theorem TTMat.entry_eq_sum (c : Core4 R) (cs : TTMat R) (is js : List Nat) :
    TTMat.entry (c :: cs) is js = ∑ a ∈ range c.rl, mtail (c :: cs) is js a := by
  simp only [TTMat.entry, Tensor.dense, mtail, TTMat.flatten, List.map_cons, Tensor.modes, dense]
  show sumTo c.rl _ = _
  rw [sumTo_eq]

theorem TTMat.entry_eq (c : Core4 R) (cs : TTMat R) (is js : List Nat) (h : c.rl = 1) :
    TTMat.entry (c :: cs) is js = mtail (c :: cs) is js 0 := by
  simp only [TTMat.entry, Tensor.dense, mtail, TTMat.flatten, List.map_cons, Tensor.modes, dense]
  show sumTo c.rl _ = _
  rw [h]; simp [sumTo]

/-! ### trace -/

theorem traceGo_spec (cs : TTMat R) : ∀ (p : Nat) (φ : FlatArr R), TTMat.chain p cs → (∀ c ∈ cs, c.inD = c.outD) →
    (cs.foldl (fun φ c => c.traceStep φ) φ).get 0 =
      ∑ a ∈ range p, φ.get a * boxSum (TTMat.inDims cs) (fun is => mtail cs is is a) := by
  induction cs with
  | nil =>
    intro p φ hp _
    simp only [TTMat.chain] at hp; subst hp
    simp [TTMat.inDims, boxSum, mtail_nil]
  | cons c cs ih =>
    intro p φ hch hsq
    obtain ⟨hrl, hch'⟩ := hch
    subst hrl
    have hsq' : ∀ c' ∈ cs, c'.inD = c'.outD := fun c' hc' => hsq c' (List.mem_cons_of_mem _ hc')
    have hc : c.inD = c.outD := hsq c List.mem_cons_self
    simp only [List.foldl_cons]
    rw [ih c.rr (c.traceStep φ) hch' hsq']
    simp only [TTMat.inDims, List.map_cons, boxSum, sumTo_eq, Core4.traceStep, FlatArr.get_tab]
    have hm : ∀ a, ∀ i ∈ range c.inD,
        boxSum (List.map (·.inD) cs) (fun is => mtail (c :: cs) (i :: is) (i :: is) a)
          = ∑ b ∈ range c.rr, c.f a i i b * boxSum (List.map (·.inD) cs) (fun is => mtail cs is is b) := by
      intro a i hi
      have hi' : i < c.outD := by rw [← hc]; exact Finset.mem_range.mp hi
      rw [boxSum_congr _ _ _ (fun is => mtail_cons c cs i is i is a hi'), boxSum_sum]
      apply Finset.sum_congr rfl; intro b _
      rw [boxSum_mul_left]
    have hm' : ∀ a, (∑ i ∈ range c.inD, boxSum (List.map (·.inD) cs) (fun is => mtail (c :: cs) (i :: is) (i :: is) a))
        = ∑ i ∈ range c.inD, ∑ b ∈ range c.rr, c.f a i i b * boxSum (List.map (·.inD) cs) (fun is => mtail cs is is b) :=
      fun a => Finset.sum_congr rfl (hm a)
    simp only [hm', Finset.sum_mul, Finset.mul_sum]
    rw [Finset.sum_comm]
    apply Finset.sum_congr rfl; intro a _
    rw [Finset.sum_comm]
    apply Finset.sum_congr rfl; intro i _
    apply Finset.sum_congr rfl; intro b _
    ring

/-! ### tt_multiply -/

theorem Core4.mulStep_fst (c : Core4 R) (s : Nat × FlatArr R) :
    (c.mulStep s).1 = s.1 / (c.inD * c.rl) * c.outD * c.rr := rfl

theorem Core4.mulStep_val (c : Core4 R) (s : Nat × FlatArr R) (D dd j b : Nat)
    (hD : s.1 / (c.inD * c.rl) = D) (hj : j < c.outD) (hb : b < c.rr) :
    (c.mulStep s).2.get ((dd * c.outD + j) * c.rr + b) =
      ∑ i ∈ range c.inD, ∑ a ∈ range c.rl, s.2.get ((i * D + dd) * c.rl + a) * c.f a i j b := by
  obtain ⟨e1, e2, e3⟩ := dec3 dd c.outD j c.rr b hj hb
  simp only [Core4.mulStep, FlatArr.get_tab, sumTo_eq, hD, e1, e2, e3]

theorem mulGo_spec (cs : TTMat R) : ∀ (r D : Nat) (s : Nat × FlatArr R), TTMat.chain r cs →
    (∀ c ∈ cs, 0 < c.inD ∧ 0 < c.rl) → s.1 = (TTMat.inDims cs).prod * D * r →
    ∀ d, d < D → ∀ js, inShape js (TTMat.outDims cs) →
    (cs.foldl (fun s c => c.mulStep s) s).2.get (d * (TTMat.outDims cs).prod + flat js (TTMat.outDims cs)) =
      boxSum (TTMat.inDims cs) (fun is =>
        ∑ a ∈ range r, s.2.get ((flat is (TTMat.inDims cs) * D + d) * r + a) * mtail cs is js a) := by
  induction cs with
  | nil =>
    intro r D s hr _ _ d _ js hjs
    simp only [TTMat.chain] at hr; subst hr
    cases js with
    | nil => simp [TTMat.inDims, TTMat.outDims, boxSum, mtail_nil, flat]
    | cons _ _ => simp [TTMat.outDims, inShape] at hjs
  | cons c cs ih =>
    intro r D s hch hpos hsz d hd js hjs
    obtain ⟨hrl, hch'⟩ := hch
    subst hrl
    cases js with
    | nil => simp [TTMat.outDims, inShape] at hjs
    | cons j js =>
      have hj : j < c.outD := hjs.1
      have hjs' : inShape js (TTMat.outDims cs) := hjs.2
      obtain ⟨hin, hr0⟩ := hpos c List.mem_cons_self
      have hpos' : ∀ c' ∈ cs, 0 < c'.inD ∧ 0 < c'.rl := fun c' hc' => hpos c' (List.mem_cons_of_mem _ hc')
      have hDs : s.1 / (c.inD * c.rl) = (TTMat.inDims cs).prod * D := by
        rw [hsz]
        have : (TTMat.inDims (c :: cs)).prod * D * c.rl = (c.inD * c.rl) * ((TTMat.inDims cs).prod * D) := by
          simp only [TTMat.inDims, List.map_cons, List.prod_cons]; ring
        rw [this, Nat.mul_div_cancel_left _ (Nat.mul_pos hin hr0)]
      have hsz' : (c.mulStep s).1 = (TTMat.inDims cs).prod * (D * c.outD) * c.rr := by
        rw [Core4.mulStep_fst, hDs]; ring
      have hd' : d * c.outD + j < D * c.outD := enc_lt d c.outD j D hd hj
      have key := ih c.rr (D * c.outD) (c.mulStep s) hch' hpos' hsz' (d * c.outD + j) hd' js hjs'
      have hidx : d * (TTMat.outDims (c :: cs)).prod + flat (j :: js) (TTMat.outDims (c :: cs))
          = (d * c.outD + j) * (TTMat.outDims cs).prod + flat js (TTMat.outDims cs) := by
        simp only [TTMat.outDims, List.map_cons, List.prod_cons, flat]; ring
      simp only [List.foldl_cons]
      rw [hidx, key]
      simp only [TTMat.inDims, List.map_cons, boxSum, sumTo_eq]
      -- push the sum over the head input index inside the box sum
      rw [← boxSum_sum]
      apply boxSum_congr; intro is
      -- value of the step at the encoded position
      have hv : ∀ b ∈ range c.rr,
          (c.mulStep s).2.get ((flat is (List.map (·.inD) cs) * (D * c.outD) + (d * c.outD + j)) * c.rr + b)
            = ∑ i ∈ range c.inD, ∑ a ∈ range c.rl,
                s.2.get ((flat (i :: is) (c.inD :: List.map (·.inD) cs) * D + d) * c.rl + a) * c.f a i j b := by
        intro b hb
        have e : flat is (List.map (·.inD) cs) * (D * c.outD) + (d * c.outD + j)
            = (flat is (List.map (·.inD) cs) * D + d) * c.outD + j := by ring
        rw [e, Core4.mulStep_val c s _ _ j b hDs hj (Finset.mem_range.mp hb)]
        apply Finset.sum_congr rfl; intro i _
        apply Finset.sum_congr rfl; intro a _
        have e2 : i * ((TTMat.inDims cs).prod * D) + (flat is (List.map (·.inD) cs) * D + d)
            = flat (i :: is) (c.inD :: List.map (·.inD) cs) * D + d := by
          simp only [flat, TTMat.inDims]; ring
        rw [e2]
      rw [Finset.sum_congr rfl (fun b hb => by rw [hv b hb])]
      have hm : ∀ i ∈ range c.inD, ∀ a,
          mtail (c :: cs) (i :: is) (j :: js) a = ∑ b ∈ range c.rr, c.f a i j b * mtail cs is js b :=
        fun i _ a => mtail_cons c cs i is j js a hj
      simp only [mtail_cons c cs _ is j js _ hj, Finset.sum_mul, Finset.mul_sum]
      rw [Finset.sum_comm]
      apply Finset.sum_congr rfl; intro i _
      rw [Finset.sum_comm]
      apply Finset.sum_congr rfl; intro a _
      apply Finset.sum_congr rfl; intro b _
      ring

theorem transposeFlat_val (nb rows : Nat) (x : Nat → R) (q k : Nat) (hk : k < nb) :
    (transposeFlat nb rows x).get (q * nb + k) = x (k * rows + q) := by
  simp only [transposeFlat, FlatArr.get_tab, enc_mod _ _ _ hk, enc_div _ _ _ hk]

theorem Core4.mulFirst_fst (c : Core4 R) (size : Nat) (res : FlatArr R) :
    (c.mulFirst size res).1 = c.rl * (size / c.inD) * c.outD * c.rr := rfl

theorem Core4.mulFirst_val (c : Core4 R) (size : Nat) (res : FlatArr R) (D dd j b : Nat)
    (hD : size / c.inD = D) (hdd : dd < D) (hj : j < c.outD) (hb : b < c.rr) :
    (c.mulFirst size res).2.get ((dd * c.outD + j) * c.rr + b) =
      ∑ i ∈ range c.inD, res.get (i * D + dd) * c.f 0 i j b := by
  obtain ⟨e1, e2, e3⟩ := dec3 dd c.outD j c.rr b hj hb
  simp only [Core4.mulFirst, FlatArr.get_tab, sumTo_eq, hD, e1, e2, e3, Nat.mod_eq_of_lt hdd, Nat.div_eq_of_lt hdd]

/-- `tt_multiply` against the decompressed matrix, batch of `nb` row vectors -/
theorem ttMultiply_spec (c : Core4 R) (cs : TTMat R) (hch : TTMat.chain 1 (c :: cs))
    (hpos : ∀ c' ∈ c :: cs, 0 < c'.inD ∧ 0 < c'.rl)
    (nb : Nat) (x : Nat → R) (k : Nat) (hk : k < nb) (js : List Nat) (hjs : inShape js (TTMat.outDims (c :: cs))) :
    TTMat.multiply (c :: cs) nb x (k * (TTMat.outDims (c :: cs)).prod + flat js (TTMat.outDims (c :: cs))) =
      boxSum (TTMat.inDims (c :: cs)) (fun is =>
        x (k * (TTMat.inDims (c :: cs)).prod + flat is (TTMat.inDims (c :: cs))) * TTMat.entry (c :: cs) is js) := by
  obtain ⟨hl, hch'⟩ := hch
  cases js with
  | nil => simp [TTMat.outDims, inShape] at hjs
  | cons j js =>
    have hj : j < c.outD := hjs.1
    have hjs' : inShape js (TTMat.outDims cs) := hjs.2
    obtain ⟨hin, _⟩ := hpos c List.mem_cons_self
    have hpos' : ∀ c' ∈ cs, 0 < c'.inD ∧ 0 < c'.rl := fun c' hc' => hpos c' (List.mem_cons_of_mem _ hc')
    have hrows : (TTMat.inDims (c :: cs)).prod = c.inD * (TTMat.inDims cs).prod := by
      simp [TTMat.inDims]
    have hD0 : (TTMat.inDims (c :: cs)).prod * nb / c.inD = (TTMat.inDims cs).prod * nb := by
      rw [hrows, Nat.mul_assoc, Nat.mul_div_cancel_left _ hin]
    generalize hs0 : c.mulFirst ((TTMat.inDims (c :: cs)).prod * nb)
      (transposeFlat nb (TTMat.inDims (c :: cs)).prod x) = s0
    have hsz : s0.1 = (TTMat.inDims cs).prod * (nb * c.outD) * c.rr := by
      rw [← hs0, Core4.mulFirst_fst, hD0, hl]; ring
    have hd' : k * c.outD + j < nb * c.outD := enc_lt k c.outD j nb hk hj
    have key := mulGo_spec cs c.rr (nb * c.outD) s0 hch' hpos' hsz (k * c.outD + j) hd' js hjs'
    have hidx : k * (TTMat.outDims (c :: cs)).prod + flat (j :: js) (TTMat.outDims (c :: cs))
        = (k * c.outD + j) * (TTMat.outDims cs).prod + flat js (TTMat.outDims cs) := by
      simp only [TTMat.outDims, List.map_cons, List.prod_cons, flat]; ring
    simp only [TTMat.multiply]
    rw [hs0, hidx, key]
    simp only [TTMat.inDims, List.map_cons, boxSum, sumTo_eq]
    rw [← boxSum_sum]
    apply boxSum_congr_in; intro is his
    have hfl : flat is (List.map (·.inD) cs) < (TTMat.inDims cs).prod := flat_lt is _ his
    have hv : ∀ b ∈ range c.rr,
        s0.2.get ((flat is (List.map (·.inD) cs) * (nb * c.outD) + (k * c.outD + j)) * c.rr + b)
          = ∑ i ∈ range c.inD,
              x (k * (c.inD * (List.map (·.inD) cs).prod) + flat (i :: is) (c.inD :: List.map (·.inD) cs)) * c.f 0 i j b := by
      intro b hb
      have e : flat is (List.map (·.inD) cs) * (nb * c.outD) + (k * c.outD + j)
          = (flat is (List.map (·.inD) cs) * nb + k) * c.outD + j := by ring
      have hdd : flat is (List.map (·.inD) cs) * nb + k < (TTMat.inDims cs).prod * nb := enc_lt _ _ _ _ hfl hk
      rw [e, ← hs0, Core4.mulFirst_val c _ _ _ _ j b hD0 hdd hj (Finset.mem_range.mp hb)]
      apply Finset.sum_congr rfl; intro i _
      have e2 : i * ((TTMat.inDims cs).prod * nb) + (flat is (List.map (·.inD) cs) * nb + k)
          = flat (i :: is) (c.inD :: List.map (·.inD) cs) * nb + k := by
        simp only [flat, TTMat.inDims]; ring
      rw [e2, transposeFlat_val _ _ _ _ _ hk, hrows]
      rfl
    rw [Finset.sum_congr rfl (fun b hb => by rw [hv b hb])]
    have hent : ∀ i, TTMat.entry (c :: cs) (i :: is) (j :: js)
        = ∑ b ∈ range c.rr, c.f 0 i j b * mtail cs is js b := by
      intro i; rw [TTMat.entry_eq c cs _ _ hl, mtail_cons c cs i is j js 0 hj]
    simp only [hent, Finset.sum_mul, Finset.mul_sum]
    rw [Finset.sum_comm]
    apply Finset.sum_congr rfl; intro i _
    apply Finset.sum_congr rfl; intro b _
    rw [List.prod_cons]; ring

/-! ### the decompressed CP matrix, and cp_multiply -/

/-- `Π_k f_k(i_k, j_k, a)` : the tail of the (diagonal) CP chain at bond `a` -/
def cptail (cs : CPMat R) (is js : List Nat) (a : Nat) : R :=
  tail (CPMat.flatten cs).modes (pairIdx is js (CPMat.outDims cs)) a

theorem cptail_nil (is js : List Nat) (a : Nat) : cptail ([] : CPMat R) is js a = 1 := by
  simp [cptail, CPMat.flatten, Tensor.modes, tail]

theorem cptail_cons (c : Core3 R) (cs : CPMat R) (i : Nat) (is : List Nat) (j : Nat) (js : List Nat) (a : Nat)
    (hj : j < c.outD) (ha : a < c.rank) :
    cptail (c :: cs) (i :: is) (j :: js) a = c.f i j a * cptail cs is js a := by
  have h1 : (i * c.outD + j) / c.outD = i := enc_div _ _ _ hj
  have h2 : (i * c.outD + j) % c.outD = j := enc_mod _ _ _ hj
  simp only [cptail, CPMat.flatten, CPMat.outDims, List.map_cons, Tensor.modes, pairIdx, tail, sumTo_eq]
  show (∑ b ∈ range c.rank, (if a = b then c.f ((i * c.outD + j) / c.outD) ((i * c.outD + j) % c.outD) a else 0) * _) = _
  rw [h1, h2, Finset.sum_eq_single a]
  · simp
  · intro b _ hne; simp [Ne.symm hne]
  · intro h; exact absurd (Finset.mem_range.mpr ha) h

theorem CPMat.entry_eq (c : Core3 R) (cs : CPMat R) (is js : List Nat) :
    CPMat.entry (c :: cs) is js = ∑ a ∈ range c.rank, cptail (c :: cs) is js a := by
  simp only [CPMat.entry, Tensor.dense, cptail, CPMat.flatten, List.map_cons, Tensor.modes, dense]
  show sumTo c.rank _ = _
  rw [sumTo_eq]

theorem Core3.mulStep_fst (c : Core3 R) (s : Nat × FlatArr R) :
    (c.mulStep s).1 = s.1 / (c.inD * c.rank) * c.outD * c.rank := rfl

theorem Core3.mulStep_val (c : Core3 R) (s : Nat × FlatArr R) (D dd j r : Nat)
    (hD : s.1 / (c.inD * c.rank) = D) (hj : j < c.outD) (hr : r < c.rank) :
    (c.mulStep s).2.get ((dd * c.outD + j) * c.rank + r) =
      ∑ i ∈ range c.inD, c.f i j r * s.2.get ((i * D + dd) * c.rank + r) := by
  obtain ⟨e1, e2, e3⟩ := dec3 dd c.outD j c.rank r hj hr
  simp only [Core3.mulStep, FlatArr.get_tab, sumTo_eq, hD, e1, e2, e3]

theorem Core3.mulFirst_fst (c : Core3 R) (size : Nat) (res : FlatArr R) :
    (c.mulFirst size res).1 = size / c.inD * c.outD * c.rank := rfl

theorem Core3.mulFirst_val (c : Core3 R) (size : Nat) (res : FlatArr R) (D dd j r : Nat)
    (hD : size / c.inD = D) (hj : j < c.outD) (hr : r < c.rank) :
    (c.mulFirst size res).2.get ((dd * c.outD + j) * c.rank + r) =
      ∑ i ∈ range c.inD, res.get (i * D + dd) * c.f i j r := by
  obtain ⟨e1, e2, e3⟩ := dec3 dd c.outD j c.rank r hj hr
  simp only [Core3.mulFirst, FlatArr.get_tab, sumTo_eq, hD, e1, e2, e3]

theorem cpGo_spec (rk : Nat) (hrk : 0 < rk) (cs : CPMat R) : ∀ (D : Nat) (s : Nat × FlatArr R),
    (∀ c ∈ cs, c.rank = rk ∧ 0 < c.inD) → s.1 = (CPMat.inDims cs).prod * D * rk →
    ∀ d, d < D → ∀ js, inShape js (CPMat.outDims cs) → ∀ r, r < rk →
    (cs.foldl (fun s c => c.mulStep s) s).2.get ((d * (CPMat.outDims cs).prod + flat js (CPMat.outDims cs)) * rk + r) =
      boxSum (CPMat.inDims cs) (fun is =>
        s.2.get ((flat is (CPMat.inDims cs) * D + d) * rk + r) * cptail cs is js r) := by
  induction cs with
  | nil =>
    intro D s _ _ d _ js hjs r _
    cases js with
    | nil => simp [CPMat.inDims, CPMat.outDims, boxSum, cptail_nil, flat]
    | cons _ _ => simp [CPMat.outDims, inShape] at hjs
  | cons c cs ih =>
    intro D s hall hsz d hd js hjs r hr
    cases js with
    | nil => simp [CPMat.outDims, inShape] at hjs
    | cons j js =>
      have hj : j < c.outD := hjs.1
      have hjs' : inShape js (CPMat.outDims cs) := hjs.2
      obtain ⟨hck, hin⟩ := hall c List.mem_cons_self
      have hall' : ∀ c' ∈ cs, c'.rank = rk ∧ 0 < c'.inD := fun c' hc' => hall c' (List.mem_cons_of_mem _ hc')
      have hDs : s.1 / (c.inD * c.rank) = (CPMat.inDims cs).prod * D := by
        rw [hsz, hck]
        have : (CPMat.inDims (c :: cs)).prod * D * rk = (c.inD * rk) * ((CPMat.inDims cs).prod * D) := by
          simp only [CPMat.inDims, List.map_cons, List.prod_cons]; ring
        rw [this, Nat.mul_div_cancel_left _ (Nat.mul_pos hin hrk)]
      have hsz' : (c.mulStep s).1 = (CPMat.inDims cs).prod * (D * c.outD) * rk := by
        rw [Core3.mulStep_fst, hDs, hck]; ring
      have hd' : d * c.outD + j < D * c.outD := enc_lt d c.outD j D hd hj
      have key := ih (D * c.outD) (c.mulStep s) hall' hsz' (d * c.outD + j) hd' js hjs' r hr
      have hidx : d * (CPMat.outDims (c :: cs)).prod + flat (j :: js) (CPMat.outDims (c :: cs))
          = (d * c.outD + j) * (CPMat.outDims cs).prod + flat js (CPMat.outDims cs) := by
        simp only [CPMat.outDims, List.map_cons, List.prod_cons, flat]; ring
      simp only [List.foldl_cons]
      rw [hidx, key]
      simp only [CPMat.inDims, List.map_cons, boxSum, sumTo_eq]
      rw [← boxSum_sum]
      apply boxSum_congr; intro is
      have hr' : r < c.rank := by rw [hck]; exact hr
      have e : flat is (List.map (·.inD) cs) * (D * c.outD) + (d * c.outD + j)
          = (flat is (List.map (·.inD) cs) * D + d) * c.outD + j := by ring
      rw [e, ← hck, Core3.mulStep_val c s _ _ j r hDs hj hr', Finset.sum_mul]
      apply Finset.sum_congr rfl; intro i _
      have e2 : i * ((CPMat.inDims cs).prod * D) + (flat is (List.map (·.inD) cs) * D + d)
          = flat (i :: is) (c.inD :: List.map (·.inD) cs) * D + d := by
        simp only [flat, CPMat.inDims]; ring
      rw [e2, cptail_cons c cs i is j js r hj hr']
      ring

theorem getLast_rank (rk : Nat) (c : Core3 R) (cs : CPMat R) (h : ∀ c' ∈ c :: cs, c'.rank = rk) :
    ((cs.getLast?).getD c).rank = rk := by
  cases hl : cs.getLast? with
  | none => simpa using h c List.mem_cons_self
  | some l =>
    have : l ∈ cs := List.mem_of_getLast? hl
    simpa using h l (List.mem_cons_of_mem _ this)

/-- `cp_multiply` against the decompressed matrix, batch of `nb` row vectors -/
theorem cpMultiply_spec (rk : Nat) (hrk : 0 < rk) (c : Core3 R) (cs : CPMat R)
    (hall : ∀ c' ∈ c :: cs, c'.rank = rk ∧ 0 < c'.inD)
    (nb : Nat) (x : Nat → R) (k : Nat) (hk : k < nb) (js : List Nat) (hjs : inShape js (CPMat.outDims (c :: cs))) :
    CPMat.multiply (c :: cs) nb x (k * (CPMat.outDims (c :: cs)).prod + flat js (CPMat.outDims (c :: cs))) =
      boxSum (CPMat.inDims (c :: cs)) (fun is =>
        x (k * (CPMat.inDims (c :: cs)).prod + flat is (CPMat.inDims (c :: cs))) * CPMat.entry (c :: cs) is js) := by
  cases js with
  | nil => simp [CPMat.outDims, inShape] at hjs
  | cons j js =>
    have hj : j < c.outD := hjs.1
    have hjs' : inShape js (CPMat.outDims cs) := hjs.2
    obtain ⟨hck, hin⟩ := hall c List.mem_cons_self
    have hall' : ∀ c' ∈ cs, c'.rank = rk ∧ 0 < c'.inD := fun c' hc' => hall c' (List.mem_cons_of_mem _ hc')
    have hlast : ((cs.getLast?).getD c).rank = rk := getLast_rank rk c cs (fun c' hc' => (hall c' hc').1)
    have hrows : (CPMat.inDims (c :: cs)).prod = c.inD * (CPMat.inDims cs).prod := by
      simp [CPMat.inDims]
    have hD0 : (CPMat.inDims (c :: cs)).prod * nb / c.inD = (CPMat.inDims cs).prod * nb := by
      rw [hrows, Nat.mul_assoc, Nat.mul_div_cancel_left _ hin]
    generalize hs0 : c.mulFirst ((CPMat.inDims (c :: cs)).prod * nb)
      (transposeFlat nb (CPMat.inDims (c :: cs)).prod x) = s0
    have hsz : s0.1 = (CPMat.inDims cs).prod * (nb * c.outD) * rk := by
      rw [← hs0, Core3.mulFirst_fst, hD0, hck]; ring
    have hd' : k * c.outD + j < nb * c.outD := enc_lt k c.outD j nb hk hj
    have hidx : k * (CPMat.outDims (c :: cs)).prod + flat (j :: js) (CPMat.outDims (c :: cs))
        = (k * c.outD + j) * (CPMat.outDims cs).prod + flat js (CPMat.outDims cs) := by
      simp only [CPMat.outDims, List.map_cons, List.prod_cons, flat]; ring
    simp only [CPMat.multiply]
    rw [hs0, hlast, hidx, sumTo_eq]
    rw [Finset.sum_congr rfl (fun r hr => cpGo_spec rk hrk cs (nb * c.outD) s0 hall' hsz (k * c.outD + j) hd' js hjs' r
      (Finset.mem_range.mp hr))]
    rw [← boxSum_sum]
    simp only [CPMat.inDims, List.map_cons, boxSum, sumTo_eq]
    rw [← boxSum_sum]
    apply boxSum_congr; intro is
    have hv : ∀ r ∈ range rk,
        s0.2.get ((flat is (List.map (·.inD) cs) * (nb * c.outD) + (k * c.outD + j)) * rk + r)
          = ∑ i ∈ range c.inD,
              x (k * (c.inD * (List.map (·.inD) cs).prod) + flat (i :: is) (c.inD :: List.map (·.inD) cs)) * c.f i j r := by
      intro r hr
      have hr' : r < c.rank := by rw [hck]; exact Finset.mem_range.mp hr
      have e : flat is (List.map (·.inD) cs) * (nb * c.outD) + (k * c.outD + j)
          = (flat is (List.map (·.inD) cs) * nb + k) * c.outD + j := by ring
      rw [e, ← hs0, ← hck, Core3.mulFirst_val c _ _ _ _ j r hD0 hj hr']
      apply Finset.sum_congr rfl; intro i _
      have e2 : i * ((CPMat.inDims cs).prod * nb) + (flat is (List.map (·.inD) cs) * nb + k)
          = flat (i :: is) (c.inD :: List.map (·.inD) cs) * nb + k := by
        simp only [flat, CPMat.inDims]; ring
      rw [e2, transposeFlat_val _ _ _ _ _ hk, hrows]
      rfl
    rw [Finset.sum_congr rfl (fun r hr => by rw [hv r hr])]
    have hent : ∀ i, CPMat.entry (c :: cs) (i :: is) (j :: js)
        = ∑ r ∈ range rk, c.f i j r * cptail cs is js r := by
      intro i
      rw [CPMat.entry_eq, hck]
      apply Finset.sum_congr rfl; intro r hr
      exact cptail_cons c cs i is j js r hj (by rw [hck]; exact Finset.mem_range.mp hr)
    simp only [hent, Finset.sum_mul, Finset.mul_sum]
    rw [Finset.sum_comm]
    apply Finset.sum_congr rfl; intro i _
    apply Finset.sum_congr rfl; intro r _
    rw [List.prod_cons]; ring

end TN
